"""Family `structobj` (struct-mapped objects: NewStructMappedObjectSchema[T], NewTypedObject[T], typed
scopes; schema/object.go unserializeToStruct / serializeStruct / validateStruct / extractPropertyValue /
getFieldReflection / applySubObjectDefaultValues / buildObjectFieldCache).

No property of its own: the registrations of C01, C03 and C04 add "structobj" to their `families`
list; this module supplies, keyed by that family,

    FAMILY_STATS["structobj"], AGREE["structobj"]
    DIRECT[("C01","structobj")], DIRECT[("C03","structobj")], DIRECT[("C04","structobj")]
    EXPLAIN[(Cxx,"structobj")]
    KNOWN_PREDICATES: struct_d41, struct_d44, struct_d86, struct_subdefault_cycle

Hooked into props.py by   props_struct.register(_sys.modules[__name__])   (after PROPS exists).
Case / observation syntax: coq/Interp/RunXSchema.v.  For the builder's own end-to-end runs the three
TEMPORARY pseudo-properties XC01 / XC03 / XC04 (theory Proofs/XStruct.v) are registered as well.
"""
import hashlib
import re

_P = None

BAD_OUTCOMES = ("panic", "crash", "hang", "diverged")


# ------------------------------------------------------------------------------------------
# walking descriptors
# ------------------------------------------------------------------------------------------

def _head(n):
    return n[0] if isinstance(n, list) and n and isinstance(n[0], str) else None


def _s(x):
    return x[1] if isinstance(x, tuple) else x


def _payload(case):
    pl = _P.case_payload(case)          # (xsch ENV STRUCTS XSCHEMA (ops ...))
    return pl[3], pl[4][1:]


def _objects(n, out=None):
    """all object / xobject nodes of a schema descriptor"""
    if out is None:
        out = []
    if isinstance(n, list):
        if _head(n) in ("object", "xobject"):
            out.append(n)
        for c in n:
            _objects(c, out)
    return out


def _scope_table(schema):
    t = {}

    def walk(n):
        if isinstance(n, list):
            if _head(n) == "scope":
                for o in n[1]:
                    t[_s(o[0])] = o[1]
            for c in n:
                walk(c)
    walk(schema)
    return t


def _props(obj):
    """[(name, propnode)]; prop = (prop T DISP REQ RIF RIFN CONFL DEFAULT EX EMPTY DIS REASON)"""
    return [(_s(p[0]), p[1]) for p in obj[3]]


def _fields(xobj):
    return {_s(f[0]): f for f in xobj[4][3]}          # propid -> (PROPID FIELD IDX NIDX FTYPE)


def _resolve(t, tab, depth=0):
    while isinstance(t, list) and depth < 20:
        depth += 1
        if _head(t) == "ref":
            t = tab.get(_s(t[1]))
        elif _head(t) == "scope":
            t = {_s(o[0]): o[1] for o in t[1]}.get(_s(t[2]))
        else:
            break
    return t


def _has_default(t, tab, seen=None):
    """the object-like type has a property default somewhere (what applySubObjectDefaultValues materialises)"""
    seen = seen or set()
    o = _resolve(t, tab)
    if not isinstance(o, list) or _head(o) not in ("object", "xobject") or id(o) in seen:
        return False
    seen.add(id(o))
    for _, p in _props(o):
        if p[7] != "none":
            return True
        if _has_default(p[1], tab, seen):
            return True
    return False


def _rtype(t, tab):
    """reflected type of a property type, as a type s-expression (nested lists / atoms)"""
    h = _head(t)
    if h is None:
        return {"bool": "bool", "pattern": "regexp", "any": "any"}.get(t, "?")
    if h in ("int", "enum_int"):
        return "i64"
    if h == "float":
        return "f64"
    if h == "string":
        return "str"
    if h == "enum_str":
        return "str" if t[1] == "none" else ["named", t[1], "str"]
    if h == "list":
        return ["slice", _rtype(t[1], tab)]
    if h == "map":
        return ["map", _rtype(t[1], tab), _rtype(t[2], tab)]
    if h == "object":
        return ["map", "str", "any"]
    if h == "xobject":
        st = ["struct", t[4][1]]
        return ["ptr", st] if t[4][2] == "1" else st
    if h in ("ref", "scope"):
        o = _resolve(t, tab)
        return _rtype(o, tab) if o is not None and _head(o) in ("object", "xobject") else ["map", "str", "any"]
    if h == "oneof":
        return "any"
    return "?"


_NUM = {"i0", "i8", "i16", "i32", "i64", "u0", "u8", "u16", "u32", "u64", "f32", "f64"}


def _assignable(rt, ft):
    """Value.Convert from the property's reflected type to the field type cannot fail"""
    if ft == rt or ft == "any":
        return True
    if _head(ft) == "ptr" and _head(rt) != "ptr" and rt != "regexp":
        return _assignable(rt, ft[1])
    if isinstance(rt, str) and isinstance(ft, str) and rt in _NUM and ft in _NUM:
        return True
    if _head(rt) == "named" and rt[2] == ft:
        return True
    if _head(ft) == "named" and ft[2] == rt:
        return True
    return False


def _is_ptr_or_any(ft):
    return ft == "any" or ft == "regexp" or _head(ft) == "ptr"


def schema_facts(schema):
    """the class facts the direct checks and the known-finding predicates need"""
    tab = _scope_table(schema)
    facts = {"loose": False, "unfaithful": False, "empty_with_default": False, "d41": False, "cycle": False,
             "structs": [], "empty": False, "unfaithful_disabled": False, "empty_ptr": False, "empty_subdefault": False}
    for o in _objects(schema):
        if _head(o) != "xobject":
            continue
        facts["structs"].append(_s(o[4][1]))
        fields = _fields(o)
        for name, p in _props(o):
            ft = fields[name][4] if name in fields else "?"
            rt = _rtype(p[1], tab)
            if not _assignable(rt, ft):
                facts["loose"] = True
            required, empty = p[3] == "1", p[9] == "1"
            if empty:
                facts["empty"] = True
                if _head(ft) == "ptr":
                    facts["empty_ptr"] = True
            if empty or not (required or _is_ptr_or_any(ft)):
                facts["unfaithful"] = True
            if empty and (p[7] != "none" or _has_default(p[1], tab)):
                facts["empty_with_default"] = True
            # treat-empty-as-default WITHOUT a declared default on a member object that has defaults of its own: the absent
            # member is materialised from them (hypothesis 3 of xchildren_rt in C01_struct_roundtrip); the equality clauses
            # stay skipped for these schemas.  WITH a declared default the clauses are checked: known finding D86.
            if empty and p[7] == "none" and _has_default(p[1], tab):
                facts["empty_subdefault"] = True
            if p[10] == "1" and not (required or _is_ptr_or_any(ft)):
                facts["unfaithful_disabled"] = True
            # applySubObjectDefaultValues materialises an absent member that has defaults (non-pointer reflected type)
            if _head(rt) != "ptr" and _has_default(p[1], tab):
                facts["d41"] = True
            if _reaches_itself(p[1], tab):
                facts["cycle"] = True
    # the same finding one level down: an optional struct-typed member on a non-pointer field is always present on
    # the way back, so a DISABLED property of the member object (required or not) is "in use" in the serialized
    # form and Unserialize rejects it (thorough-tier case 4093: Root{in: ref XI}, XI{a: required, disabled})
    if facts["unfaithful"]:
        for o in _objects(schema):
            if _head(o) in ("object", "xobject") and any(p[10] == "1" for _n, p in _props(o)):
                facts["unfaithful_disabled"] = True
    return facts


def _reaches_itself(t, tab):
    """the member object graph below t (through non-pointer object-like properties) has a cycle"""
    def walk(o, path):
        o = _resolve(o, tab)
        if not isinstance(o, list) or _head(o) not in ("object", "xobject"):
            return False
        if _head(o) == "xobject" and o[4][2] == "1":
            return False
        if any(o is q for q in path):
            return True
        return any(walk(p[1], path + [o]) for _, p in _props(o))
    return walk(t, [])


# ------------------------------------------------------------------------------------------
# observations
# ------------------------------------------------------------------------------------------

def _obs_ops(obs):
    o = _P.sx_parse(obs) if obs.startswith("(") else obs
    if isinstance(o, list) and o and o[0] == "r":
        return o[1:]
    return None                                   # crash / hang / build-failed for the whole case


def _cls(o):
    return o[0] if isinstance(o, list) else o


def _fmt(x):
    if isinstance(x, tuple):
        return '"%s"' % x[1]
    if isinstance(x, list):
        return "(" + " ".join(_fmt(y) for y in x) + ")"
    return x


def _norm_nil(x):
    """values up to nil-vs-empty of slices and maps (reflect.DeepEqual tells them apart; nothing observable
    through the schema does): (sl T ISNIL ...) / (m T ISNIL ...) with no elements lose the flag"""
    if isinstance(x, list):
        if len(x) == 3 and x[0] in ("sl", "m") and x[2] in ("0", "1"):
            return [x[0], _norm_nil(x[1]), "-"]
        return [_norm_nil(y) for y in x]
    return x


def _is_zero(x):
    if x == "nil":
        return True
    if not isinstance(x, list) or not x:
        return False
    h = x[0]
    if h in ("i", "b"):
        return x[2] == "0"
    if h == "f":
        return x[2] in ("+0", "-0")
    if h == "s":
        return x[2] == ("s", "")
    if h in ("sl", "m"):
        return x[2] == "1"
    if h == "p":
        return x[2] == "nil"
    if h == "st":
        return all(_is_zero(f[1]) for f in x[2:])
    return False


def _norm_empty(x):
    """the documented identification of treat-empty-as-default on a pointer field: a pointer to the empty value
    is the absent (nil) pointer.  (Applied to every pointer of a value, only for schemas that have such a property.)"""
    if isinstance(x, list):
        y = [_norm_empty(c) for c in x]          # bottom-up, so that both sides collapse alike
        if len(y) == 3 and y[0] == "p" and y[2] != "nil" and _is_zero(y[2]):
            return ["p", y[1], "nil"]
        return y
    return x


def _describe(schema, op):
    return "schema %s ; op %s" % (_fmt(schema)[:600], _fmt(op)[:400])


# ---- C04: never a panic, crash or hang ----

def c04_direct(case, obs):
    schema, ops = _payload(case)
    oo = _obs_ops(obs)
    if oo is None:
        if any(b in obs for b in ("crash", "hang", "panic")):
            return "a struct-mapped schema operation did not return (%s): %s" % (obs[:40], _describe(schema, ops[0] if ops else "-"))
        return None
    for op, o in zip(ops, oo):
        txt = _fmt(o)
        if re.search(r"(?<![\w\"])(panic|crash|hang)(?![\w\"])", txt):
            names = {"u": "Unserialize", "v": "Validate", "s": "Serialize", "c": "ValidateCompatibility", "rt": "the round trip",
                     "x": "Unserialize", "ty": "a typed entry point", "sr": "Serialize / Unserialize of its result"}
            return "%s panicked on a struct-mapped schema: %s" % (names.get(op[0], op[0]), _describe(schema, op))
    return None


# ---- C01: round trip; typed = untyped ----

def c01_check_op(facts, op, o):
    """-> (kind, message) or None"""
    if op[0] == "ty":
        o = _P.sx_parse(_P.strip_err_paths(_fmt(o)))      # with several faults the first error follows Go's map order
        if len(o) >= 3 and o[1] != o[2]:
            return ("typed", "UnserializeType returned %s, Unserialize %s" % (_fmt(o[2])[:200], _fmt(o[1])[:200]))
        if len(o) >= 7 and (o[3] != o[4] or o[5] != o[6]):
            return ("typed", "ValidateType/SerializeType differ from Validate/Serialize: %s" % _fmt(o[3:])[:300])
        return None
    if op[0] != "rt" or len(o) < 2 or _cls(o[1]) != "ok":
        return None
    n = o[1][1]
    if len(o) < 4:
        return ("chain", "the round trip stopped: %s" % _fmt(o)[:200])
    if _cls(o[2]) != "ok":
        return ("validate", "Unserialize accepted the input but its result fails Validate (%s)" % _fmt(o[2]))
    if _cls(o[3]) != "ok":
        return ("serialize", "Unserialize accepted the input but Serialize of its result fails (%s)" % _fmt(o[3]))
    if len(o) < 8:
        return ("chain", "the round trip stopped: %s" % _fmt(o)[:200])
    w = o[3][1]
    norm = (lambda v: _norm_nil(_norm_empty(v))) if facts["empty_ptr"] else _norm_nil
    if facts["empty_subdefault"]:
        return None        # a treat-empty-as-default member object with defaults of its own: outside the identification
    if _cls(o[4]) != "ok":
        return ("reunser-rejected", "the serialized form is rejected by Unserialize (%s)" % _fmt(o[4]))
    if norm(o[4][1]) != norm(n):
        return ("reunser", "Unserialize(Serialize(n)) = %s differs from n = %s" % (_fmt(o[4][1])[:300], _fmt(n)[:300]))
    if _cls(o[5]) != "ok" or o[5][1] != w:
        return ("reserialize", "the second serialization %s differs from the first %s" % (_fmt(o[5])[:300], _fmt(w)[:300]))
    if _cls(o[7]) != "ok":
        return ("cbor", "after a CBOR encode/decode the serialized form is rejected (%s)" % _fmt(o[7]))
    if norm(o[7][1]) != norm(n):
        return ("cbor", "after a CBOR encode/decode Unserialize gives %s instead of %s" % (_fmt(o[7][1])[:300], _fmt(n)[:300]))
    return None


def c01_findings(case, obs):
    schema, ops = _payload(case)
    oo = _obs_ops(obs)
    if oo is None:
        return
    facts = schema_facts(schema)
    for i, (op, o) in enumerate(zip(ops, oo)):
        r = c01_check_op(facts, op, o)
        if r:
            yield facts, op, r, i


def c01_direct(case, obs):
    for facts, op, (kind, msg), _i in c01_findings(case, obs):
        schema, _ = _payload(case)
        return "C01 on a struct-mapped schema: %s: %s" % (msg, _describe(schema, op))
    return None


# ---- C03: the same accept/reject as the same schema rebuilt map-based ----

def c03_findings(case, obs):
    schema, ops = _payload(case)
    oo = _obs_ops(obs)
    if oo is None:
        return
    facts = schema_facts(schema)
    for i, (op, o) in enumerate(zip(ops, oo)):
        if op[0] != "x" or len(o) < 3:
            continue
        a, b = _cls(o[1]), _cls(o[2])
        if a in BAD_OUTCOMES or b in BAD_OUTCOMES or a == b:
            continue
        if facts["loose"] and a == "err" and b == "ok":
            continue        # a property whose type cannot be converted to its struct field: "Field cannot be set"
        yield facts, op, (a, b), i


def c03_direct(case, obs):
    for facts, op, (a, b), _i in c03_findings(case, obs):
        schema, _ = _payload(case)
        return ("C03: the struct-mapped object %s the input that the same schema rebuilt map-based %s: %s"
                % ("accepts" if a == "ok" else "rejects", "rejects" if b == "err" else "accepts", _describe(schema, op)))
    # "Validate and Serialize apply the same rules to native values": one native value, one verdict
    schema, ops = _payload(case)
    oo = _obs_ops(obs)
    if oo is None:
        return None
    # "a one-of value is routed solely by its discriminator": what Serialize of a one-of returns carries the discriminator
    if _head(schema) == "oneof":
        field = _s(schema[3])
        for op, o in zip(ops, oo):
            w = o if op[0] == "s" else (o[1] if op[0] == "sr" and isinstance(o, list) and len(o) > 1 else None)
            if isinstance(w, list) and _cls(w) == "ok" and isinstance(w[1], list) and w[1][0] == "m":
                keys = [_s(e[0][2]) for e in w[1][3:] if isinstance(e[0], list) and e[0][0] == "s"]
                if field not in keys:
                    return ("C03: Serialize of a one-of returned %s without the discriminator %r - the value cannot be routed back to "
                            "its member: %s" % (_fmt(w)[:300], field, _describe(schema, op)))
    byval = {}
    for op, o in zip(ops, oo):
        if op[0] in ("v", "s") and _cls(o) in ("ok", "err"):
            byval.setdefault(_fmt(op[1]), {})[op[0]] = (_cls(o), op)
    for d in byval.values():
        if "v" in d and "s" in d and d["v"][0] != d["s"][0]:
            return ("C03: Validate %s and Serialize %s the same native value of a struct-mapped object (presence rules / "
                    "treat-empty-as-default must be applied alike on both paths): %s"
                    % ("accepts" if d["v"][0] == "ok" else "rejects", "accepts" if d["s"][0] == "ok" else "rejects",
                       _describe(schema, d["v"][1])))
    for op, o, _i, why in c03_native_dispatch_findings(case, obs):
        return ("C03: a one-of with an inlined discriminator serialized the native value %s to %s, which Unserialize %s: Serialize "
                "dispatched the value by its Go type, Unserialize routes the same content by its discriminator (one dispatch rule "
                "for raw and native values): %s" % (_fmt(op[1])[:300], _fmt(o[1])[:300], why, _describe(schema, op)))
    return None


def _native_type(v):
    """the Go type of a native struct value as printed: (st T ...) / (p (ptr T) (st T ...))"""
    if isinstance(v, list) and v:
        if v[0] == "st":
            return _fmt(v[1])
        if v[0] == "p":
            return _fmt(v[1])
    return None


def c03_native_dispatch_findings(case, obs):
    """top-level one-of with an INLINED discriminator (members without presence rules between properties): a native value that
    Serialize accepts must come back from Unserialize as a value of the same Go type"""
    schema, ops = _payload(case)
    oo = _obs_ops(obs)
    if oo is None or _head(schema) != "oneof" or schema[4] != "1":
        return
    for i, (op, o) in enumerate(zip(ops, oo)):
        if op[0] != "sr" or not isinstance(o, list) or len(o) < 3 or _cls(o[1]) != "ok":
            continue
        t = _native_type(op[1])
        if t is None:
            continue
        if _cls(o[2]) != "ok":
            yield op, o, i, "rejects (%s)" % _fmt(o[2])[:120]
        elif _native_type(o[2][1]) != t:
            yield op, o, i, "returns as a value of another member's type (%s)" % _fmt(o[2][1])[:200]


def _own_discriminator(schema, v):
    """(key of the member whose Go type is the native value's, the value of the native value's own discriminator field or None)"""
    field = _s(schema[3])
    st = v
    if isinstance(v, list) and v and v[0] == "p" and isinstance(v[2], list):
        st = v[2]
    if not (isinstance(st, list) and st and st[0] == "st"):
        return None, None
    ptr = v[0] == "p"
    key = None
    fname = None
    for m in schema[2]:
        mo = m[1]
        if _head(mo) == "xobject" and ["struct", mo[4][1]] == st[1] and (mo[4][2] == "1") == ptr:
            key = _s(m[0])
            f = _fields(mo).get(field)
            fname = _s(f[1]) if f else None
    if key is None or fname is None:
        return key, None
    for fv in st[2:]:
        if _s(fv[0]) == fname:
            x = fv[1]
            if isinstance(x, list) and x[0] == "p":
                x = x[2]
            if isinstance(x, list) and x[0] in ("s", "i"):
                return key, _s(x[2])
    return key, None


def known_d85(m, case, obs, pred):
    """inlined one-of, native STRUCT value whose own discriminator field is set to something else than the key of the member
    with its Go type: dispatched by type by Validate / Serialize, by content by Unserialize.  Matches only when these are the
    only C03 findings of the case, each on such a value, each exactly as the faithful model predicts."""
    schema, ops = _payload(case)
    if list(c03_findings(case, obs)):
        return False
    fs = list(c03_native_dispatch_findings(case, obs))
    if not fs:
        return False
    first = c03_direct(case, obs)
    if first is None or "dispatched the value by its Go type" not in first:
        return False          # some other C03 finding comes first
    field = _s(schema[3])
    for op, o, i, _why in fs:
        key, _own = _own_discriminator(schema, op[1])
        # the discriminator Serialize emitted (the member's own field: set to another key, or - a non-pointer field without
        # treat-empty-as-default - its zero value) is not the key of the member the value was dispatched to
        emitted = None
        for e in o[1][1][3:]:
            if isinstance(e[0], list) and e[0][0] == "s" and _s(e[0][2]) == field and isinstance(e[1], list) and e[1][0] in ("s", "i"):
                emitted = _s(e[1][2])
        if key is None or emitted is None or emitted == key:
            return False
        if not _model_agrees(obs, pred, i):
            return False
    return True


# ---- known-finding classes ----

def _model_agrees(obs, pred, i):
    """the faithful model predicts the same observation for op i (error paths aside)"""
    oo, pp = _obs_ops(_P.strip_err_paths(obs)), _obs_ops(_P.strip_err_paths(pred))
    return oo is not None and pp is not None and i < len(oo) and i < len(pp) and oo[i] == pp[i]


def known_d41(m, case, obs, pred):
    """struct_mapped_parent /\\ member absent /\\ member_has_defaults: applySubObjectDefaultValues materialises the
    member from its own defaults, so it counts as set in the parent's presence rules and must then satisfy its own;
    the map-based rebuild leaves it absent.  Matches only when every C03 failure of the case is on a schema with such
    a member AND is exactly what the faithful model (which carries the propagation) predicts."""
    fs = list(c03_findings(case, obs))
    return bool(fs) and all(f["d41"] and _model_agrees(obs, pred, i) for f, _, _ab, i in fs)


# ---- D86: treat-empty-as-default AND a declared default: an explicitly supplied empty value comes back as the default ----

_MISSING = object()


def _raw_get(raw, name):
    """the value a raw map supplies under the string key `name`"""
    if isinstance(raw, list) and len(raw) >= 3 and raw[0] == "m":
        for e in raw[3:]:
            k = e[0]
            if isinstance(k, list) and len(k) == 3 and k[0] == "s" and _s(k[2]) == name:
                return e[1]
    return _MISSING


def _is_emptyval(x):
    """the empty value of its type (what treat-empty-as-default identifies with absence): 0, "", false, empty list / map,
    zero struct; behind a pointer field: a pointer to one"""
    if isinstance(x, list) and len(x) == 3 and x[0] == "p" and x[2] != "nil":
        x = x[2]
    if isinstance(x, list) and x and x[0] in ("sl", "m"):
        return len(x) == 3
    return x != "nil" and not (isinstance(x, list) and x and x[0] == "p") and _is_zero(x)


def _st_nav(st, idx):
    """the field value at an index path of a printed struct value (through embedded structs / pointers) or _MISSING"""
    cur = st
    for k, i in enumerate(idx):
        if isinstance(cur, list) and len(cur) == 3 and cur[0] == "p":
            cur = cur[2]
        if not (isinstance(cur, list) and cur and cur[0] == "st"):
            return _MISSING
        j = 2 + int(i)
        if j >= len(cur):
            return _MISSING
        cur = cur[j][1]
    return cur


def _st_mask(st, idx):
    """a copy of the struct value with the field at the index path blanked"""
    if not idx:
        return "MASKED"
    if isinstance(st, list) and len(st) == 3 and st[0] == "p":
        return [st[0], st[1], _st_mask(st[2], idx)]
    if not (isinstance(st, list) and st and st[0] == "st"):
        return st
    j = 2 + int(idx[0])
    if j >= len(st):
        return st
    out = list(st)
    out[j] = [st[j][0], _st_mask(st[j][1], idx[1:])]
    return out


def _is_d86_prop(p):
    return p[9] == "1" and p[7] != "none"


def d86_explains(t, tab, a, b, raw, hits, depth=0):
    """every difference between a (= Unserialize raw) and b (= Unserialize (Serialize a)) sits in a property that is
    treat-empty-as-default with a declared default, was SUPPLIED by the raw input, holds the empty value of its type in a and
    a non-empty value (the default) in b.  hits: the (property name) list of such differences."""
    if depth > 24:
        return False
    norm = lambda v: _norm_nil(_norm_empty(v))
    if norm(a) == norm(b):
        return True
    t = _resolve(t, tab)
    h = _head(t)
    if h == "oneof":
        for m in t[2]:
            hh = []
            if d86_explains(m[1], tab, a, b, raw, hh, depth + 1):
                hits.extend(hh)
                return True
        return False
    if h == "list":
        if not (isinstance(a, list) and isinstance(b, list) and a and b and a[0] == "sl" and b[0] == "sl" and len(a) == len(b)):
            return False
        rs = raw[3:] if isinstance(raw, list) and raw and raw[0] == "sl" and len(raw) == len(a) else [_MISSING] * (len(a) - 3)
        return all(d86_explains(t[1], tab, x, y, r, hits, depth + 1) for x, y, r in zip(a[3:], b[3:], rs))
    if h == "map":
        if not (isinstance(a, list) and isinstance(b, list) and a and b and a[0] == "m" and b[0] == "m" and len(a) == len(b)):
            return False
        for ea, eb in zip(a[3:], b[3:]):
            if ea[0] != eb[0]:
                return False
            r = _raw_get(raw, _s(ea[0][2])) if isinstance(ea[0], list) and ea[0][0] == "s" else _MISSING
            if not d86_explains(t[2], tab, ea[1], eb[1], r, hits, depth + 1):
                return False
        return True
    if h == "object":
        if not (isinstance(a, list) and isinstance(b, list) and a and b and a[0] == "m" and b[0] == "m"):
            return False
        names = set()
        for name, p in _props(t):
            names.add(name)
            av, bv, rv = _raw_get(a, name), _raw_get(b, name), _raw_get(raw, name)
            if av is _MISSING and bv is _MISSING:
                continue
            if av is _MISSING or bv is _MISSING:
                return False
            if norm(av) == norm(bv):
                continue
            if _is_d86_prop(p) and rv is not _MISSING and _is_emptyval(av) and not _is_emptyval(bv):
                hits.append(name)
                continue
            if not d86_explains(p[1], tab, av, bv, rv, hits, depth + 1):
                return False
        rest = lambda v: [e for e in v[3:] if not (isinstance(e[0], list) and e[0][0] == "s" and _s(e[0][2]) in names)]
        return norm(rest(a)) == norm(rest(b))
    if h == "xobject":
        if isinstance(a, list) and isinstance(b, list) and len(a) == 3 and len(b) == 3 and a[0] == "p" and b[0] == "p" and a[1] == b[1]:
            a, b = a[2], b[2]
        if not (isinstance(a, list) and isinstance(b, list) and a and b and a[0] == "st" and b[0] == "st" and a[1] == b[1]):
            return False
        fields = _fields(t)
        ma, mb = a, b
        for name, p in _props(t):
            f = fields.get(name)
            if f is None:
                continue
            idx = [x for x in f[2]]
            av, bv, rv = _st_nav(a, idx), _st_nav(b, idx), _raw_get(raw, name)
            ma, mb = _st_mask(ma, idx), _st_mask(mb, idx)
            if av is _MISSING and bv is _MISSING:
                continue
            if av is _MISSING or bv is _MISSING:
                return False
            if norm(av) == norm(bv):
                continue
            if _is_d86_prop(p) and rv is not _MISSING and _is_emptyval(av) and not _is_emptyval(bv):
                hits.append(name)
                continue
            if not d86_explains(p[1], tab, av, bv, rv, hits, depth + 1):
                return False
        return norm(ma) == norm(mb)
    return False


def _c01_classes(case, obs, pred):
    """one class per C01 finding of the case: 'd44' / 'd86' / None (= a violation)"""
    schema, _ops = _payload(case)
    tab = _scope_table(schema)
    oo = _obs_ops(obs)
    out = []
    for f, op, (kind, _m), i in c01_findings(case, obs):
        cls = None
        if not _model_agrees(obs, pred, i):
            cls = None
        elif (f["unfaithful"] and kind in ("validate", "serialize")) or (f["unfaithful_disabled"] and kind == "reunser-rejected"):
            cls = "d44"
        elif kind == "reunser" and f["empty_with_default"]:
            o = oo[i]
            hits = []
            if d86_explains(schema, tab, o[1][1], o[4][1], op[1], hits) and hits:
                cls = "d86"
        out.append(cls)
    return out


def known_d86(m, case, obs, pred):
    """a property that is treat-empty-as-default AND declares a (decodable) default, supplied by the raw input with the EMPTY
    value of its type: Unserialize keeps the empty value, Serialize drops it (empty = default), Unserialize of the serialized
    form fills in the default: the C01 failure is exactly kind 'reunser', every differing position is such a property
    (d86_explains), and the faithful model predicts the same observation.  Other findings of the same case (a case holds up
    to 40 operations) may only be of the recorded class D44; anything else leaves the case a violation."""
    cl = _c01_classes(case, obs, pred)
    return bool(cl) and all(c is not None for c in cl) and "d86" in cl


def known_d44(m, case, obs, pred):
    """an optional property on a non-pointer field (or a treat-empty-as-default one) is not faithfully absent/present
    on the way back: the result of Unserialize fails Validate / Serialize, or (a disabled one) its serialization is
    rejected.  Only those failure kinds, only on schemas with such a property, only as the faithful model predicts."""
    # (findings of the recorded class D86 in the same case - a case holds up to 40 operations - do not unmatch it)
    cl = _c01_classes(case, obs, pred)
    return bool(cl) and all(c is not None for c in cl) and "d44" in cl


def known_cycle(m, case, obs, pred):
    """applySubObjectDefaultValues never returns on a member object graph with a cycle"""
    schema, _ = _payload(case)
    return ("crash" in obs or "hang" in obs) and _obs_ops(obs) is None and schema_facts(schema)["cycle"]


# ------------------------------------------------------------------------------------------
# statistics, agreement, explanation
# ------------------------------------------------------------------------------------------

def struct_stats(rows):
    structs, opk, outcomes = {}, {}, {}
    distinct = set()
    nontrivial = 0
    facts_n = {"loose": 0, "unfaithful": 0, "empty": 0, "d41": 0, "cycle": 0, "scope": 0}
    samples = []
    for case, obs, pred in rows:
        schema, ops = _payload(case)
        f = schema_facts(schema)
        for k in ("loose", "unfaithful", "empty", "d41", "cycle"):
            facts_n[k] += 1 if f[k] else 0
        facts_n["scope"] += 1 if _head(schema) == "scope" else 0
        for s in set(f["structs"]):
            structs[s] = structs.get(s, 0) + 1
        oo = _obs_ops(re.sub(r"^\(obs \S+ (.*)\)$", r"\1", obs))     # the statistics rows carry the whole (obs ID ...) line
        h = hashlib.sha1(re.sub(r"^\(case \S+ ", "", case).encode()).digest()
        new = h not in distinct
        distinct.add(h)
        nt = False
        for i, op in enumerate(ops):
            opk[op[0]] = opk.get(op[0], 0) + 1
            o = oo[i] if oo is not None and i < len(oo) else None
            c = "?" if o is None else (_cls(o[1]) if op[0] in ("rt", "x", "ty", "sr") and isinstance(o, list) and len(o) > 1 else _cls(o))
            key = "%s:%s" % (op[0], c)
            outcomes[key] = outcomes.get(key, 0) + 1
            # non-trivial: Unserialize produced a struct, or Validate/Serialize looked into a value of the right struct type
            if op[0] in ("rt", "x", "ty") and c == "ok":
                nt = True
            if op[0] in ("v", "s", "sr") and c in ("ok", "err") and isinstance(op[1], list) and op[1][0] in ("st", "p"):
                nt = True
        if new and nt:
            nontrivial += 1
        if len(samples) < 3 and new and len(distinct) % 97 == 1:
            samples.append({"case": case[:1500], "observed": obs[:800]})
    return {"cases": len(rows), "distinct": len(distinct), "distinct_nontrivial": nontrivial, "struct_types": structs,
            "ops": opk, "outcomes": outcomes, "schema_classes": facts_n, "samples": samples,
            "rule": "distinct by case text; non-trivial = some Unserialize produced a struct value, or Validate/Serialize "
                    "was applied to a struct or pointer value"}


def struct_agree(case, obs, pred):
    # with several simultaneous faults the FIRST error depends on Go's map order: paths and flags are not compared;
    # the model's "no fuel suffices" (diverged) is the implementation's fatal stack overflow or hang
    # (a crash ends the whole case: one observation for all its ops)
    if obs in ("crash", "hang") or re.match(r"^\(obs \S+ (crash|hang)\)$", obs):
        return re.search(r"(?<![\w\"])diverged(?![\w\"])", pred) is not None
    return _P.strip_err_paths(obs) == _P.strip_err_paths(pred)


def struct_explain(prop):
    def explain(case, obs, pred):
        if obs.startswith("(bad") or pred.startswith("(bad"):
            return None
        schema, ops = _payload(case)
        oo, pp = _obs_ops(_P.strip_err_paths(obs)), _obs_ops(_P.strip_err_paths(pred))
        if oo is None or pp is None:
            return None
        for op, o, p in zip(ops, oo, pp):
            if o == p:
                continue
            if prop.endswith("C03") and op[0] in ("u", "x", "rt") and _cls(o if op[0] == "u" else o[1]) != _cls(p if op[0] == "u" else p[1]):
                return ("C03: Unserialize %s where the object rules (keys, property types, defaults, presence rules, "
                        "field assignment) determine %s: %s" % (_fmt(o)[:200], _fmt(p)[:200], _describe(schema, op)))
            if prop.endswith("C03") and op[0] in ("u", "x", "rt") and isinstance(o, list) and isinstance(p, list):
                # both accept, the VALUES differ: which value an absent property receives (its declared default, decoded
                # and unserialized by the property type; a sub-object's own defaults only fill what that leaves open) and
                # that a supplied value is never replaced are part of C03's object rules
                ou, pu = (o, p) if op[0] == "u" else (o[1], p[1])
                if _cls(ou) == "ok" and _cls(pu) == "ok" and ou != pu:
                    return ("C03: Unserialize returns %s where the object rules (a supplied value is kept, an absent property "
                            "with a default receives its declared default) determine %s: %s"
                            % (_fmt(ou)[:300], _fmt(pu)[:300], _describe(schema, op)))
            if prop.endswith("C03") and op[0] in ("v", "s", "sr"):
                return ("C03: %s of a native value gives %s where the key, type, presence and dispatch rules determine %s: %s"
                        % ({"v": "Validate", "s": "Serialize", "sr": "Serialize, then Unserialize of the result,"}[op[0]],
                           _fmt(o)[:300], _fmt(p)[:300], _describe(schema, op)))
            if prop.endswith("C04") and re.search(r"panic|crash|hang", _fmt(o)):
                return "C04: %s on %s" % (_fmt(o)[:100], _describe(schema, op))
        return None
    return explain


TEMP_PROPS = {
    "XC01": "C01", "XC03": "C03", "XC04": "C04",
}

# what is PROVED about struct-mapped objects (statements in Properties/C01.v, C03.v, C04.v; proofs in Proofs/X*.v)
STRUCT_LEVEL = {
    "C04": "Theorem C04_struct_never_panics (Proofs/XTotal.v): every xenv / xschema with xwf (Schema/XWf.v: wf_schema's contracts "
           "at every node + a struct field for every property), EVERY Go value, every fuel: xunser / xvalidate / xserialize / "
           "xcompat never return Panic. C04_struct_wf_conservative: xwf = wf_schema on schemas without struct information. "
           "PARTIAL: termination (explicit fuel bound) is not proved; C04_struct_subdefault_cycle_refuted (D52) shows a well-formed "
           "schema on which no fuel suffices.",
    "C03": "Theorems C03_struct_paths_agree / C03_struct_paths_agree_verdict (Proofs/XPaths.v): validateStruct and serializeStruct "
           "enforce one and the same predicate xstruct_native_ok (exact type T, presence rules on the set of properties present "
           "after field extraction with the nil-pointer / nil-interface / embedded-nil-pointer / treat-empty-as-default rules, "
           "every present field value accepted by its property type), for every descriptor in which every property has a field. "
           "D41 (x_struct_d41_refuted) stays a known finding on the Unserialize side.",
    "C01": "Theorem C01_struct_roundtrip_partial (Proofs/XRound.v, XRoundThm.v): for descriptors satisfying the boolean xrt_desc "
           "(direct fields of the property's reflected type or a pointer to it, optional_fields_representable) and children that "
           "round-trip, the value Unserialize returns passes Validate and is accepted by Serialize; key lemma "
           "C01_struct_extract_inverts_assign; instance with proved children C01_struct_roundtrip_instance; D44 "
           "(C01_struct_d44_refuted) is exactly the complement class. PARTIAL: the re-Unserialize conjunct and promoted "
           "(embedded) fields are not proved (direct check of op rt).",
}


def register(props):
    global _P
    _P = props
    props.FAMILY_STATS["structobj"] = struct_stats
    if not hasattr(props, "AGREE"):
        props.AGREE = {}
    props.AGREE["structobj"] = struct_agree
    props.KNOWN_PREDICATES["struct_d41"] = known_d41
    props.KNOWN_PREDICATES["struct_d44"] = known_d44
    props.KNOWN_PREDICATES["struct_d86"] = known_d86
    props.KNOWN_PREDICATES["struct_subdefault_cycle"] = known_cycle
    props.KNOWN_PREDICATES["struct_oneof_native_discriminator"] = known_d85
    direct = {"C01": c01_direct, "C03": c03_direct, "C04": c04_direct}
    for real, f in direct.items():
        props.DIRECT[(real, "structobj")] = f
        props.EXPLAIN[(real, "structobj")] = struct_explain(real)
    # TEMPORARY pseudo-properties for the builder's own end-to-end runs (./check.sh XC04 quick ...)
    rule = ("structobj: the fixed struct family (scalar, pointer, nested struct, pointer-to-struct, slice, map, named string, "
            "embedded struct, embedded pointer, loosely typed fields) x generated property configurations (required / "
            "required_if / required_if_not / conflicts / defaults incl. sub-object defaults / treat-empty-as-default / disabled, "
            "T = S and T = *S, inside scopes with references) x {raw inputs generated from the map-based twin, mutations of "
            "them, native struct values generated by Go type, arbitrary Go values: pointer, nil pointer, pointer to pointer, "
            "other struct types, maps, named scalars}; ops u/v/s/c/rt, x (metamorphic map-based partner), ty (typed entry points)")
    for temp, real in TEMP_PROPS.items():
        props.DIRECT[(temp, "structobj")] = direct[real]
        props.EXPLAIN[(temp, "structobj")] = struct_explain(temp)
        props.PROPS[temp] = {
            "theory": "Proofs/XStruct.v",
            "families": ["structobj"],
            "rule": rule,
            "assumptions": ["TEMPORARY pseudo-property standing for the structobj part of " + real,
                            "struct types of the harness family; exported fields only; no two struct types with identical field lists",
                            "a treat-empty-as-default property with a declared default that is supplied empty comes back as the default (known finding D86, class struct_d86); a treat-empty-as-default member object with defaults of its own: C01 equality clauses skipped"],
            "level_text": STRUCT_LEVEL[real],
            "level_note": "Model = Schema/XSyntax.v + Schema/XOps.v + Base/XReflect.v, tied to schema/object.go by the structobj family",
            "design_ref": "DESIGN.md §5 " + real,
        }
