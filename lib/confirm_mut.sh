#!/bin/bash
# usage: lib/confirm_mut.sh <agent-out-dir> <demo-dest-relpath with {k}> <go-test-dir rel> <-run regex with {k}> <seeded-prefix>
# Confirms, in a scratch worktree of /repo, every claim of an independent mutation agent about each m<k>:
#   patch applies + builds, the unedited suite passes with it, the demo FAILS with it and PASSES without it.
# Confirmed changes are kept as /verif/seeded/<prefix>-m<k>/ (patch.diff, demo, meta.json incl. what was run here).
out=$1; dest=$2; tdir=$3; rx=$4; prefix=$5
export GOFLAGS=-mod=mod GOPROXY=off GOSUMDB=off GOTOOLCHAIN=local
V="$(cd "$(dirname "$0")/.." && pwd)"
W=/tmp/confirm-wt-$$
git -C /repo worktree add --detach $W HEAD >/dev/null 2>&1 || { echo "cannot create worktree"; exit 2; }
trap 'git -C /repo worktree remove --force $W >/dev/null 2>&1' EXIT
suite() { (cd $W && go test -vet=off -count=1 ./... >/dev/null 2>&1) && (cd $W/cmd/arcaflow-codegen && go test -vet=off -count=1 ./... >/dev/null 2>&1); }
for m in "$out"/m*/; do
  k=$(basename $m); k=${k#m}
  d=${dest//\{k\}/$k}; r=${rx//\{k\}/$k}
  demo=$(ls $m/demo_test.go $m/demo/main.go 2>/dev/null | head -1)
  [ -f "$m/patch.diff" ] && [ -n "$demo" ] || { echo "m$k: incomplete"; continue; }
  git -C $W checkout -q -- . ; git -C $W clean -fdq
  git -C $W apply "$m/patch.diff" 2>/dev/null || { echo "m$k: patch does not apply"; continue; }
  if suite; then s1=pass; else s1=FAIL; fi
  mkdir -p "$(dirname "$W/$d")"; cp "$demo" "$W/$d"
  if (cd $W/$tdir && go test ${MUT_TEST_FLAGS:-} -vet=off -count=1 -run "$r" . >/dev/null 2>&1); then d1=pass; else d1=fail; fi
  git -C $W checkout -q -- . ; git -C $W clean -fdq
  mkdir -p "$(dirname "$W/$d")"; cp "$demo" "$W/$d"
  if (cd $W/$tdir && go test ${MUT_TEST_FLAGS:-} -vet=off -count=1 -run "$r" . >/dev/null 2>&1); then d0=pass; else d0=fail; fi
  rm -f "$W/$d"
  echo "m$k: suite_with_change=$s1 demo_with_change=$d1 demo_without_change=$d0"
  if [ $s1 = pass ] && [ $d1 = fail ] && [ $d0 = pass ]; then
    t=$V/seeded/$prefix-m$k; mkdir -p $t
    cp "$m/patch.diff" $t/patch.diff; cp "$demo" $t/$(basename $demo)
    python3 - "$m/meta.json" "$t/meta.json" "$d" "$tdir" "$r" <<'PY'
import json, sys
src, dst, d, tdir, r = sys.argv[1:6]
m = json.load(open(src))
m["origin"] = "independent sub-agent given only the property text and a scratch worktree"
m["confirmed_here"] = {"ran": "lib/confirm_mut.sh in a scratch worktree of /repo: git apply; full suite (root module + cmd/arcaflow-codegen) with the change; "
                              "demo copied to %s and run with `go test -run '%s' .` in %s with the change and on the unchanged tree" % (d, r, tdir),
                       "suite_passes_with_change": True, "demo_fails_with_change": True, "demo_passes_without_change": True}
json.dump(m, open(dst, "w"), indent=1)
PY
  fi
done
