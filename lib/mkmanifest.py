#!/usr/bin/env python3
"""Regenerates MANIFEST.json from lib/props.py (claimed checks) — keeps it valid at all times."""
import json, os, sys
ROOT = os.path.dirname(os.path.dirname(os.path.abspath(__file__)))
sys.path.insert(0, os.path.join(ROOT, "lib"))
import props

ALL = ["C%02d" % i for i in range(1, 20)]
hooks = []
try:
    import subprocess
    out = subprocess.run(["git", "-C", "/repo", "log", "--format=%H %s"], stdout=subprocess.PIPE, text=True).stdout
    hooks = [l.split()[0] for l in out.split("\n") if l and "verif hook" in l]
except Exception:
    pass

checks = []
for pid in ALL:
    if pid not in props.PROPS:
        continue
    sp = props.PROPS[pid]
    checks.append({
        "property_id": pid,
        "quick_cmd": "./check.sh %s quick" % pid,
        "thorough_cmd": "./check.sh %s thorough" % pid,
        "evidence_file": "evidence/%s.json" % pid,
        "replay_cmd_template": "./check.sh --replay {path}",
        "engine": "coq-model+correspondence",
        "level_claimed": {"category": "proof", "text": sp["level_text"], "design_ref": sp.get("design_ref", "DESIGN.md §5")},
        "level_note": sp["level_note"],
        "technique": sp.get("technique", "machine-checked proof in Coq 8.16.1 of theorems about a hand-written executable Gallina model, tied to the code by a differential correspondence check (extracted OCaml model vs. the SDK built from /repo)"),
    })
na = [{"property_id": pid, "reason": props.NOT_CLAIMED.get(pid, "check not built yet")} for pid in ALL if pid not in props.PROPS]
m = {
    "version": 1,
    "setup_cmd": "./check.sh --setup",
    "hooks": {
        "guard": "verif",
        "enable": "go build -tags verif (the harness module replaces go.flow.arcalot.io/pluginsdk by /repo)",
        "baseline_off_cmd": "/verif/lib/repo_test.sh",
        "source_commits": hooks,
        "add_only": True,
    },
    "engines": [
        {"name": "coq-model+correspondence", "path": "coq/ ocaml/ harness/ lib/check.py",
         "serves_properties": [c["property_id"] for c in checks],
         "kind_free_text": "Coq 8.16.1 development (model, proofs, Properties/Cxx.v), extracted to OCaml and compared with the Go SDK on generated cases"},
    ],
    "checks": checks,
    "notes": "See DESIGN.md. Known findings: known_findings.json. Seeded changes used to test the checks: seeded/.",
    "not_applicable": na,
}
json.dump(m, open(os.path.join(ROOT, "MANIFEST.json"), "w"), indent=1)
print("MANIFEST.json: %d checks, %d not claimed" % (len(checks), len(na)))
