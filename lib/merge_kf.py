#!/usr/bin/env python3
"""merge_kf.py OURS.json THEIRS.json > merged: union of known-finding entries, keyed by (id, property, match.family);
ours wins on a clash; temporary pseudo-property entries (XC..) are dropped."""
import json, sys
ours = json.load(open(sys.argv[1]))
theirs = json.load(open(sys.argv[2]))
def key(f):
    return (f.get("id"), f.get("property"), (f.get("match") or {}).get("family"))
out, seen = [], set()
for f in ours["findings"] + theirs["findings"]:
    if "id" not in f or "property" not in f or f.get("temporary") or str(f.get("property", "")).startswith("XC"):
        continue
    k = key(f)
    if k in seen:
        continue
    seen.add(k)
    out.append(f)
ours["findings"] = out
json.dump(ours, sys.stdout, indent=1)
