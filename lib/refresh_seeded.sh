#!/bin/bash
# Re-bases every seeded/*/patch.diff onto /repo's current HEAD: a patch that no longer applies because a later
# fix: commit touched nearby lines is re-applied with a 3-way merge and rewritten; what cannot be re-applied
# automatically is listed (STALE) for manual attention.  /repo must be clean; it is left clean.
cd "$(dirname "$0")/.."
git -C /repo diff --quiet || { echo "/repo has uncommitted changes"; exit 2; }
for p in seeded/*/patch.diff; do
  a=$(realpath $p)
  if git -C /repo apply --check "$a" 2>/dev/null; then continue; fi
  if git -C /repo apply --3way "$a" >/dev/null 2>&1 && ! git -C /repo diff --name-only --diff-filter=U | grep -q .; then
    git -C /repo reset -q; git -C /repo diff > "$a.new"
    if [ -s "$a.new" ]; then mv "$a.new" "$a"; echo "REBASED $p"; else rm -f "$a.new"; echo "EMPTY (already in tree?) $p"; fi
  else
    echo "STALE $p"
  fi
  git -C /repo reset -q --hard HEAD >/dev/null; git -C /repo clean -fdq -- schema atp plugin 2>/dev/null
done
echo "refresh done"
