"""C15 (schema-vs-schema ValidateCompatibility): registration of the property, the statistics of
its case families, the property's own predicates on an observation, the explanation of a
disagreement with the proved model, and the class predicates of the open known findings
(D03 recursion without a cycle guard, D05 empty ranges, D11 inline shorthand through a cycle).

Case / observation syntax: coq/Interp/RunCompat.v and harness/cmd/harness/c15_pairs.go.
"""
import hashlib
import re

_P = None


def _meta(case):
    pl = _P.case_payload(case)
    if not isinstance(pl, list) or not pl or pl[0] != "c15":
        return None, None, [], []
    m = pl[5]
    return m[1], m[2][1], list(m[3][1:]), m[4:]


def _txt(x):
    return x[1] if isinstance(x, tuple) else str(x)


def _sch(node, depth=0):
    """short printable form of a schema descriptor"""
    if isinstance(node, str):
        return node
    if isinstance(node, tuple):
        return repr(node[1])
    h = node[0]
    o = lambda x: "-" if x == "none" else (_txt(x) if not isinstance(x, list) else "~")
    if h in ("int", "string"):
        return "%s[%s..%s]" % (h, o(node[1]), o(node[2]))
    if h == "float":
        return "float[%s..%s]" % ("-" if node[1] == "none" else "x", "-" if node[2] == "none" else "y")
    if h == "enum_int":
        return "enum_int{%s}" % ",".join(v[0] for v in node[1])
    if h == "enum_str":
        return "enum_str{%s}" % ",".join(_txt(v[0]) for v in node[2])
    if depth > 3:
        return h + "(...)"
    if h == "list":
        return "list[%s..%s](%s)" % (o(node[2]), o(node[3]), _sch(node[1], depth + 1))
    if h == "map":
        return "map[%s..%s](%s -> %s)" % (o(node[3]), o(node[4]), _sch(node[1], depth + 1), _sch(node[2], depth + 1))
    if h == "object":
        return "%s{%s}" % (_txt(node[1]), ", ".join("%s%s: %s" % (_txt(p[0]), "!" if p[1][3] == "1" else "", _sch(p[1][1], depth + 1))
                                                      for p in node[3]))
    if h == "oneof":
        return "oneof_%s<%s>(%s)" % ("int" if node[1] == "1" else "str", _txt(node[3]),
                                    ", ".join("%s: %s" % (_txt(m[0]), _sch(m[1], depth + 1)) for m in node[2]))
    if h == "ref":
        return "ref %s%s" % (_txt(node[1]), (" in " + _txt(node[2])) if _txt(node[2]) else "")
    if h == "scope":
        return "scope<%s>(%s)" % (_txt(node[2]), "; ".join(_sch(ob[1], depth + 1) for ob in node[1]))
    return h


def _pair_text(case):
    pl = _P.case_payload(case)
    return "%s .ValidateCompatibility( %s )" % (_sch(pl[2]), _sch(pl[4]))


def pairs_stats(rows):
    kinds, verdicts, classes, expects = {}, {}, {}, {}
    distinct = set()
    nontrivial = 0
    samples = []
    for case, obs, pred in rows:
        kind, expect, flags, notes = _meta(case)
        kinds[kind] = kinds.get(kind, 0) + 1
        expects[expect] = expects.get(expect, 0) + 1
        v = re.sub(r"^\(obs \S+ (.*)\)$", r"\1", obs)
        verdicts[v] = verdicts.get(v, 0) + 1
        if kind and kind.startswith("mutated"):
            c = _txt(notes[0]) if notes else "?"
            classes[c] = classes.get(c, 0) + 1
        h = hashlib.sha1(re.sub(r"^\(case \S+ ", "", case).encode()).digest()
        if h in distinct:
            continue
        distinct.add(h)
        # non-trivial: both sides are more than a bare unbounded scalar, or the pair carries an expectation
        pl = _P.case_payload(case)
        if expect != "any" or isinstance(pl[2], list) and isinstance(pl[4], list):
            nontrivial += 1
        if len(samples) < 3 and len(distinct) % 4999 == 1:
            samples.append({"case": case[:600], "observed": obs})
    return {"cases": len(rows), "distinct": len(distinct), "distinct_nontrivial": nontrivial,
            "pair_kinds": kinds, "expectations": expects, "verdicts": verdicts, "mutation_classes": classes,
            "exhaustive": "all ordered pairs of the atom grammar (every kind x every nil/non-nil bound combination incl. an empty "
                          "range x enums with/without display names x objects/one-ofs/scopes incl. recursive and unlinked ones); "
                          "thorough: additionally all pairs under each one-level wrapper (list item, map key, map value, property, "
                          "one-of member)",
            "samples": samples}


def rebuilt_stats(rows):
    distinct = {hashlib.sha1(re.sub(r"^\(case \S+ ", "", c).encode()).digest() for c, _, _ in rows}
    out = {}
    for _, o, _ in rows:
        v = re.sub(r"^\(obs \S+ (.*)\)$", r"\1", o)
        out[v] = out.get(v, 0) + 1
    return {"cases": len(rows), "distinct": len(distinct), "distinct_nontrivial": len(distinct), "observations": out,
            "samples": [{"case": rows[0][0][:600], "observed": rows[0][1]}] if rows else []}


def rebuilt2_stats(rows):
    st = rebuilt_stats(rows)
    feats = {"empty_is_default": 0, "default": 0, "disabled": 0, "oneof": 0, "nested_scope": 0, "presence_rule": 0}
    nontrivial = set()
    for case, _, _ in rows:
        pl = _P.case_payload(case)
        seen = set()

        def visit(n, top=True):
            if not isinstance(n, list) or not n:
                return
            if n[0] == "prop" and len(n) == 12:
                if n[9] == "1":
                    seen.add("empty_is_default")
                if n[7] != "none":
                    seen.add("default")
                if n[10] == "1":
                    seen.add("disabled")
                if n[4] or n[5] or n[6]:
                    seen.add("presence_rule")
            if n[0] == "oneof":
                seen.add("oneof")
            if n[0] == "scope" and not top:
                seen.add("nested_scope")
            for c in n:
                visit(c, False)
        visit(pl[2])
        for f in seen:
            feats[f] += 1
        if "empty_is_default" in seen:
            nontrivial.add(hashlib.sha1(re.sub(r"^\(case \S+ ", "", case).encode()).digest())
    st["distinct_nontrivial"] = len(nontrivial)
    st["scopes_with_feature"] = feats
    return st


def pairs_direct(case, obs):
    """What the property text says about one observation (no model needed)."""
    kind, expect, flags, notes = _meta(case)
    if kind is None or obs.startswith("(bad") or obs.startswith("(build-failed"):
        return None
    what = _pair_text(case)
    if obs in ("crash", "hang"):
        return ("ValidateCompatibility returned no verdict (%s: %s): %s"
                % (obs, "fatal stack overflow" if obs == "crash" else "no answer within 20 s", what))
    o = _P.sx_parse(obs)
    vs = o[1:]
    if "panic" in vs and "unlinked" not in flags:
        return "ValidateCompatibility panicked instead of returning a verdict: " + what
    if len(vs) > 1 and not ("unlinked" in flags and set(vs) <= {"err", "panic"}):
        return "the verdict depends on map iteration order (%s over three runs on freshly built schemas): %s" % ("/".join(vs), what)
    if expect == "ok" and vs != ["ok"] and "unlinked" not in flags:
        return "a schema is not compatible with an identical schema (%s): %s" % (kind, what)
    if expect == "err" and vs == ["ok"]:
        cls = _txt(notes[0]) if notes else "?"
        path = _txt(notes[1]) if len(notes) > 1 else ""
        if kind.startswith("grid"):
            return ("a producer that can never be consumed was accepted (%s pair %s vs %s: a different base kind, or ranges that "
                    "cannot overlap): %s" % (kind, cls, path, what))
        return ("a producer that can never be consumed was accepted (single-feature mutation '%s' at %s, %s): %s"
                % (cls, path or "the top", kind, what))
    return None


def rebuilt_direct(case, obs):
    if obs.startswith("(bad") or obs.startswith("(build-failed"):
        return None
    o = _P.sx_parse(obs)
    if o[0] != "rb" or len(o) != 3:
        return None          # SelfSerialize / UnserializeScope failed: C09's business, reported as a disagreement
    if o[1:] != ["ok", "ok"]:
        pl = _P.case_payload(case)
        return ("a scope is not compatible with the scope rebuilt from its own description (original vs rebuilt: %s, rebuilt vs "
                "original: %s): %s" % (o[1], o[2], _sch(pl[2])))
    return None


def pairs_explain(case, obs, pred):
    """The model is proved total, reflexive, order-independent and sound for the must-reject rules; a
    disagreement is a property failure where the property fixes the verdict (panic/crash/expectations are
    already direct checks).  Otherwise: the model accepts and the implementation rejects (or vice versa) a pair
    about which the text demands nothing — reported as a broken correspondence, not as a violation."""
    return None


# ---- known-finding classes -------------------------------------------------------------

def kf_recursive(m, case, obs, pred):
    """D03: both schemas reach a reference cycle; the SDK recurses without a cycle guard (fatal stack
    overflow), the model exhausts every fuel.  Which property of an object is examined first decides
    whether a difference is found before the cycle is entered, so `err` also belongs to the class."""
    kind, expect, flags, notes = _meta(case)
    if kind is None or "recursive" not in flags:
        return False
    return obs == "crash" or pred == "(r diverged)"


def kf_empty_range(m, case, obs, pred):
    """D05: a schema whose range is empty (min > max) is rejected against itself."""
    kind, expect, flags, notes = _meta(case)
    return kind is not None and "emptyrange" in flags and expect == "ok" and obs == "(r err)" and pred == "(r err)"


def register(props):
    global _P
    _P = props
    props.FAMILY_STATS["c15pairs"] = pairs_stats
    props.FAMILY_STATS["c15rebuilt"] = rebuilt_stats
    props.FAMILY_STATS["c15rebuilt2"] = rebuilt2_stats
    props.DIRECT[("C15", "c15pairs")] = pairs_direct
    props.DIRECT[("C15", "c15rebuilt")] = rebuilt_direct
    props.DIRECT[("C15", "c15rebuilt2")] = rebuilt_direct
    props.EXPLAIN[("C15", "c15pairs")] = pairs_explain
    props.KNOWN_PREDICATES["c15_recursive"] = kf_recursive
    props.KNOWN_PREDICATES["c15_empty_range"] = kf_empty_range
    props.PROPS["C15"] = {
        "theory": "Properties/C15.v",
        "families": ["c15pairs", "c15rebuilt", "c15rebuilt2"],
        "rule": "c15pairs: all ordered pairs of an atom grammar of ~110 schemas (int/float/string/list/map x 8 bound "
                "configurations = every nil/non-nil combination on both sides, overlapping, disjoint and one empty range; enums "
                "with/without display names, typed, empty; objects with optional/required/disabled properties, other ids, "
                "unenforced ids; one-ofs with other discriminators/members/key types/inlining; scopes with references, nested "
                "scopes, recursive and mutually recursive scopes, an external namespace applied and not applied), the same pairs "
                "under five one-level wrappers (quick: all identical pairs + a seeded 6 % sample, thorough: all), plus generated "
                "acyclic scopes paired with themselves, with themselves in another list order, with a copy mutated in ONE feature "
                "at a random reachable depth (bound, kind, property added/removed, id, enum value, discriminator, member; both "
                "directions, the case records whether the property text demands a rejection) and with an unrelated scope; every "
                "verdict taken three times on freshly built schemas. c15rebuilt: generated describable scopes against "
                "UnserializeScope(SelfSerialize(s)), both directions. c15rebuilt2: the same check on scopes that carry what "
                "distinguishes a schema from its rebuild and what a description must carry through: half of all properties with "
                "TreatEmptyAsDefaultValue (not part of a description), defaults, disabled properties with/without reason, "
                "required_if / required_if_not / conflicts, unenforced ids, string one-ofs over references and inline objects, "
                "inlined int one-ofs, nested scopes, references in lists and map values (200 / 2000 scopes). distinct by case "
                "text; non-trivial = the pair carries an expectation (ok / err) or both sides are composite; for c15rebuilt2: "
                "the scope has a TreatEmptyAsDefaultValue property, i.e. its rebuild is a different schema",
        "assumptions": ["references are linked before use (a schema with an unapplied namespace panics by documented contract; such "
                        "cases are generated, flagged `unlinked`, and compared with the model's Panic)",
                        "Go map iteration order is modelled as the order of the association lists; C15_order_independent quantifies "
                        "over all permutations",
                        "C15_reflexive_rebuilt speaks about C09's model of SelfSerialize / UnserializeScope (Schema/Describe.v: "
                        "describe, rebuild, describable, link_ok, erase), tied to the SDK by the families c09describe and c15rebuilt; its "
                        "hypotheses are those of C09_fixpoint (describable, pattern sources compile, the scope links) plus those of "
                        "C15_reflexive (unfolds within n levels, unique keys, no empty range)"],
        "level_text": "Theorems (unbounded, by induction on fuel / on the derivation of the declarative must-reject relation): for "
                      "every pair whose receiver unfolds within n levels and whose argument unfolds at all, fuel n+2 yields Ok or Err, "
                      "never Panic (C15_total); the verdict Ok is invariant under permuting every association list on both sides and "
                      "in both environments (C15_order_independent); every well-formed schema with non-empty ranges is compatible with "
                      "itself (C15_reflexive) AND, when it is a describable scope that links, with the schema UnserializeScope returns "
                      "for its own description, in both directions, for every fuel >= n (C15_reflexive_rebuilt: rebuild (describe s) = "
                      "Ok s' /\\ s~s' = s'~s = s'~s' = Ok); this rests on C15_erase_invisible (for EVERY pair of schemas, environments "
                      "and fuel, erasing what a description cannot carry - TreatEmptyAsDefaultValue - on either side or both leaves the "
                      "outcome of ValidateCompatibility unchanged, error class, path, Panic and OutOfFuel included), whence "
                      "C15_rebuilt_interchangeable (the rebuilt scope can replace the original on either side of any check, no "
                      "well-formedness needed) and C15_wf_erase; each clause of the property's must-reject list implies `not Ok` for "
                      "every fuel and Err under the hypotheses of C15_total (C15_rejects_*). Refuted with witnesses: recursion (D03), "
                      "empty ranges (D05), and the pre-fix behaviours D01, D02, D60. Nothing of the property text is left as a test "
                      "only; partial in the sense of the hypotheses: totality and reflexivity exclude reachable reference cycles (D03) "
                      "and empty ranges (D05), the rebuilt half additionally needs `describable` (D28, D29, D69 are schemas that can be "
                      "built but not described).",
        "level_note": "Model = Schema/Compat.v (hand-written from the fourteen ValidateCompatibility implementations after the fixes for "
                      "D01, D02, D04, D60; falls back to Ops.unser / Ops.compat exactly where the Go code treats the schema as data) "
                      "and, for the rebuilt half, Schema/Describe.v (C09's describe / rebuild); proofs Proofs/Compat*.v, "
                      "Proofs/C15Rebuilt.v (over Proofs/C09Behaviour.v, C09Behaviour2.v, C09Fixpoint.v, C09Link.v). Tied to the code by "
                      "differential runs over the pair grid and generated pairs (c15pairs) and by the real SelfSerialize -> "
                      "UnserializeScope -> ValidateCompatibility in both directions (c15rebuilt, direct check).",
        "design_ref": "DESIGN.md §5 C15",
    }
