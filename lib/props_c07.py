"""C07 (the ATP server survives any client, atp/server.go): the scripted-peer engine, the property's own
predicates on an observation, the comparison with the proved model (coq/ATP/Server.v through
coq/Interp/RunAtpsrv.v) and the statistics of the case family.

Hooked into props.py by `props_c07.register(sys.modules[__name__])` at the end of props.py.

The family `atpsrv` (harness/cmd/harness/c07_atpsrv.go) is line-per-case, but a crash kills the worker
process and costs a restart, so the engine shards the cases over parallel `harness run` processes
instead of using check.py's sequential run_family.  Case / observation syntax: coq/Interp/RunAtpsrv.v.
"""
import hashlib
import os
import re
import subprocess

_P = None  # the props module

ENDERS_TRUE = ("eof", "cut")      # the input really ends
BEH_OK = ("ok", "errout")
KNOWN_STEPS = ("s", "t")
KNOWN_SIGNALS = ("sig",)
SIGNAL_STEPS = ("s", "t", "z", "o")   # every step of the harness plugin declares the signals sig / stop / two
# the data schemas of the signals of steps "s" / "t" and the input schemas of steps "z" / "o" (c07_atpsrv.go c07Plugin), as
# the property's predicate reads them: property -> (type, required).  Zero properties: only a map is acceptable (the empty
# one); ONE property: a lone non-map value is that property's shorthand; more: "must be a map".
SIG_SCHEMAS = {"sig": {"n": ("int", True)}, "stop": {}, "two": {"a": ("int", False), "b": ("str", False)}}
STEP_SCHEMAS = {"z": {}, "o": {"tok": ("int", True)}}


def _fits(t, v):
    """does a scalar property type take the value?  True / False, None = this simple reading does not decide it (nil members,
    conversions between scalars: the comparison with the model decides those)"""
    if not isinstance(v, list):
        return None
    if v[0] in ("sl", "m"):
        return False
    if t == "int" and v[0] == "i":
        return True
    if t == "str" and v[0] == "s":
        return True
    if t == "int" and v[0] == "s":
        txt = v[2][1] if isinstance(v[2], tuple) else v[2]
        return False if not re.match(r"^\s*[-+0-9.]", txt) and txt != "" else None
    return None


def payload_accepts(props, v):
    """Unserialize + Validate of an object schema with these properties on a payload, by the rules of the property text's
    "wrongly typed payloads": True / False / None (undecided, see _fits)"""
    if isinstance(v, list) and v and v[0] == "m":
        seen = {}
        for k, val in v[3:]:
            if not (isinstance(k, list) and k[0] == "s"):
                return False
            name = k[2][1] if isinstance(k[2], tuple) else k[2]
            if name not in props:
                return False
            seen[name] = val
        ok = True
        for name, (t, req) in props.items():
            if name not in seen:
                if req:
                    return False
                continue
            r = _fits(t, seen[name])
            if r is False:
                return False
            if r is None:
                ok = None
        return ok
    if len(props) != 1:
        return False
    (name, (t, req)), = props.items()
    return _fits(t, v)


# ------------------------------------------------------------------------------------------
# reading a script
# ------------------------------------------------------------------------------------------

def _head(a):
    return a if isinstance(a, str) else (a[0] if a and isinstance(a[0], str) else "")


def _run(x):
    """run id of a message: '' when the key is omitted (a fresh decode target) or empty"""
    if x == "norun":
        return ""
    return x[1]


def _wire(a, first):
    """does the action put bytes on the wire, and is it a well-formed CBOR item / a runtime message?"""
    h = _head(a)
    if h in ("release", "cancel", "closeout", "eof", "burst"):
        return None
    if h == "cut":
        return "cut" if int(a[2]) > 0 else None
    if h == "garbage":
        k = int(a[1])
        return "item" if (first and k in (1, 2)) else "garbage"
    return "msg"


def script_facts(case):
    """What the property text determines about a script, computed without the model:
    the messages the server reads (everything up to the first event that ends reading), the accepted
    work-starts among them, which of those can finish, the problems that must be reported."""
    pl = _P.case_payload(case)
    actions = pl[1:]
    released = {int(a[1]) for a in actions if _head(a) == "release"}
    closeout = any(_head(a) == "closeout" for a in actions)
    facts = {"burst": any(a == "burst" for a in actions), "closeout": closeout, "cancel": any(_head(a) == "cancel" for a in actions), "ender": None,
             "accepted": [], "owed": {}, "errors": [], "handshake": False, "all_finish": True, "n_actions": len(actions),
             "slow_after_end": False, "invalid": 0, "truncated": any(_head(a) == "cut" for a in actions),
             "undetermined": False, "payload_actions": sum(1 for a in actions if _head(a) in ("sigv", "wsv")),
             "payload_zero_prop_nonmap": 0}
    first = True
    reading = True
    running = {}      # run id -> step id (runningSteps)
    errors = facts["errors"]
    owed = facts["owed"]
    ended_at = None
    for idx, a in enumerate(actions):
        h = _head(a)
        if h == "eof" or (h == "cut" and int(a[2]) == 0):
            if reading:
                facts["ender"] = "eof"
                errors.append(("", 1, 1))
                reading = False
                ended_at = idx
            continue
        w = _wire(a, first)
        if w is None:
            continue
        if not reading:
            continue
        if first:
            first = False
            if w in ("msg", "item"):
                facts["handshake"] = True
                continue
            facts["ender"] = "cut" if w == "cut" else "garbage"
            errors.append(("", 1, 1))
            reading = False
            ended_at = idx
            continue
        if w in ("cut", "garbage"):
            facts["ender"] = w
            errors.append(("", 1, 1))
            reading = False
            ended_at = idx
            continue
        if h == "done":
            facts["ender"] = "done"
            reading = False
            ended_at = idx
        elif h == "start":
            errors.append(("", 0, 0))
            facts["invalid"] += 1
        elif h == "ws":
            run, step, tok, beh, slow = _run(a[1]), a[2][1], int(a[3]), a[4], a[5] == "1"
            if run == "" or step == "":
                errors.append(("", 1, 0))
                facts["invalid"] += 1
                continue
            running[run] = step
            reaches_handler = step in KNOWN_STEPS and beh != "badinput"
            finishes = (not reaches_handler) or (not slow) or tok in released
            facts["accepted"].append({"run": run, "tok": tok, "beh": beh, "slow": slow and reaches_handler, "finishes": finishes})
            if not finishes:
                facts["all_finish"] = False
                continue
            owed[run] = owed.get(run, 0) + 1
            if not (step in KNOWN_STEPS and beh in BEH_OK):
                errors.append((run, 1, 0))
        elif h == "wsbad":
            run = _run(a[1])
            errors.append((run, 1, 0))
            facts["invalid"] += 1
            if run != "":
                owed[run] = owed.get(run, 0) + 1
        elif h == "sig":
            run = _run(a[1])
            if run == "":
                errors.append(("", 0, 0))
                facts["invalid"] += 1
            elif run not in running:
                errors.append((run, 0, 0))
                facts["invalid"] += 1
            elif not (running[run] in SIGNAL_STEPS and a[2][1] in KNOWN_SIGNALS and a[3] == "1"):
                errors.append((run, 0, 0))
                facts["invalid"] += 1
        elif h == "sigbad":
            errors.append((_run(a[1]), 0, 0))
            facts["invalid"] += 1
        elif h == "sigv":
            run, sg = _run(a[1]), a[2][1]
            if run == "":
                errors.append(("", 0, 0))
                facts["invalid"] += 1
            elif run not in running:
                errors.append((run, 0, 0))
                facts["invalid"] += 1
            elif running[run] in SIGNAL_STEPS and sg in SIG_SCHEMAS:
                acc = payload_accepts(SIG_SCHEMAS[sg], a[3])
                if not SIG_SCHEMAS[sg] and not (isinstance(a[3], list) and a[3][0] == "m"):
                    facts["payload_zero_prop_nonmap"] += 1
                if acc is None:
                    facts["undetermined"] = True
                elif not acc:
                    errors.append((run, 0, 0))
                    facts["invalid"] += 1
            else:
                errors.append((run, 0, 0))
                facts["invalid"] += 1
        elif h == "wsv":
            run, step, tok, v = _run(a[1]), a[2][1], int(a[3]), a[4]
            if run == "" or step == "":
                errors.append(("", 1, 0))
                facts["invalid"] += 1
                continue
            running[run] = step
            acc = payload_accepts(STEP_SCHEMAS[step], v) if step in STEP_SCHEMAS else False
            if step in STEP_SCHEMAS and not STEP_SCHEMAS[step] and not (isinstance(v, list) and v[0] == "m"):
                facts["payload_zero_prop_nonmap"] += 1
            facts["accepted"].append({"run": run, "tok": tok, "beh": "payload:" + step, "slow": False, "finishes": True})
            owed[run] = owed.get(run, 0) + 1
            if acc is None:
                facts["undetermined"] = True
            elif not acc:
                errors.append((run, 1, 0))
        elif h == "unk":
            errors.append(("", 0, 0))
            facts["invalid"] += 1
    if ended_at is not None:
        toks_after = {int(a[1]) for a in actions[ended_at + 1:] if _head(a) == "release"}
        toks_before = {int(a[1]) for a in actions[:ended_at] if _head(a) == "release"}
        facts["slow_after_end"] = any(w["slow"] and w["tok"] in toks_after and w["tok"] not in toks_before for w in facts["accepted"])
    return facts


def _obs_parts(o):
    """(outcome, sorted errs, sorted out items) of an observation / prediction, or None"""
    if not o.startswith("(r "):
        return None
    x = _P.sx_parse(o)
    if len(x) < 4:
        return (x[1], [], [])
    errs = sorted(repr(e) for e in x[2][1:])
    out = sorted(repr(e) for e in x[3][1:])
    return (x[1], errs, out, x)


def _describe(case):
    return re.sub(r"^\(case \S+ atpsrv ", "", case)[:-1]


# ------------------------------------------------------------------------------------------
# the property's own predicates
# ------------------------------------------------------------------------------------------

def atpsrv_direct(case, obs):
    what = _describe(case)
    if obs == "crash":
        return ("the server process died (a panic outside recover: send on closed channel / nil dereference / a panic below CallSignal) "
                "under the client script " + what + " (if the script leaves the server running, the harness then ends the "
                "input and releases every blocked step before it takes the next case: the crash may have happened there)")
    if obs == "panic":
        return "RunATPServer panicked under the client script " + what
    if obs == "hang" or obs.startswith("(r noquiesce"):
        return "the server neither returned nor came to rest under the client script " + what
    if obs.startswith("(bad"):
        return None
    p = _obs_parts(obs)
    if p is None:
        return None
    outcome, errs, out, x = p
    f = script_facts(case)
    # it returns once input has ended and running steps have finished
    if f["ender"] in ("eof", "cut", "done") and f["all_finish"] and outcome != "returned":
        return ("input has ended and every started step has finished, but RunATPServer has not returned "
                "(blocked for ever) under the client script " + what)
    if f["closeout"] or f["undetermined"]:
        return None
    # while its output is open: exactly one terminal message per accepted (and finished) work-start
    term = {}
    for it in x[3][1:]:
        if isinstance(it, list) and it[0] == "done":
            term[it[1][1]] = term.get(it[1][1], 0) + 1
        elif isinstance(it, list) and it[0] == "err" and it[2] == "1" and it[1][1] != "":
            term[it[1][1]] = term.get(it[1][1], 0) + 1
    for run in sorted(set(term) | set(f["owed"])):
        if term.get(run, 0) != f["owed"].get(run, 0):
            return ("run %r: %d terminal message(s) (work-done or step-fatal error) on the open output for %d accepted and "
                    "finished work-start(s) under the client script %s" % (run, term.get(run, 0), f["owed"].get(run, 0), what))
    # problems are reported as error messages and as returned ServerErrors with the documented flags
    want = sorted(repr([("s", r), str(sf), str(vf)]) for r, sf, vf in f["errors"])
    got_msgs = sorted(repr(it[1:]) for it in x[3][1:] if isinstance(it, list) and it[0] == "err")
    if got_msgs != want:
        return ("error messages on the open output %s differ from the problems of the script %s (run id, step-fatal, "
                "server-fatal) under the client script %s" % (got_msgs, want, what))
    if outcome == "returned":
        got = sorted(repr(e) for e in x[2][1:])
        if got != want:
            return ("returned ServerErrors %s differ from the problems of the script %s (run id, step-fatal, server-fatal) "
                    "under the client script %s" % (got, want, what))
    return None


def atpsrv_agree(obs, pred):
    if obs == pred:
        return True
    a, b = _obs_parts(obs), _obs_parts(pred)
    if a is None or b is None:
        return False
    return a[:3] == b[:3]


def _racy(case):
    """burst mode with the output closed under the server: how many messages the read loop still reads before the
    handler closes stdin is a race, so the observation is not determined (only the direct checks apply)"""
    return " burst " in case and "closeout" in case


def atpsrv_explain(case, obs, pred):
    return None


# ------------------------------------------------------------------------------------------
# statistics
# ------------------------------------------------------------------------------------------

def atpsrv_stats(rows):
    distinct = set()
    nontrivial = 0
    enders, outcomes, behs, nact = {}, {}, {}, {}
    flags = {"slow step released after the end of input": 0, "truncated inside a message": 0, "cancel": 0, "closeout": 0,
             ">3 reports (channel capacity)": 0, "handshake fault": 0}
    samples = []
    for case, obs, pred in rows:
        h = hashlib.sha1(re.sub(r"^\(case \S+ ", "", case).encode()).digest()
        if h in distinct:
            continue
        distinct.add(h)
        f = script_facts(case)
        enders[str(f["ender"])] = enders.get(str(f["ender"]), 0) + 1
        m = re.match(r"^\(obs \S+ (?:\(r )?([a-z]+)", obs)
        oc = m.group(1) if m else obs[:20]
        outcomes[oc] = outcomes.get(oc, 0) + 1
        for w in f["accepted"]:
            k = w["beh"] + ("/slow" if w["slow"] else "")
            behs[k] = behs.get(k, 0) + 1
        nact[f["n_actions"]] = nact.get(f["n_actions"], 0) + 1
        flags["slow step released after the end of input"] += f["slow_after_end"]
        flags["truncated inside a message"] += f["truncated"]
        flags["cancel"] += f["cancel"]
        flags["closeout"] += f["closeout"]
        flags[">3 reports (channel capacity)"] += len(f["errors"]) > 3
        flags["handshake fault"] += (not f["handshake"])
        flags["scripts with payload actions (sigv / wsv)"] = flags.get("scripts with payload actions (sigv / wsv)", 0) + (f["payload_actions"] > 0)
        flags["non-map payloads for a ZERO-property data / input schema"] = \
            flags.get("non-map payloads for a ZERO-property data / input schema", 0) + f["payload_zero_prop_nonmap"]
        flags["payload verdict left to the model (scalar conversions, nil members)"] = \
            flags.get("payload verdict left to the model (scalar conversions, nil members)", 0) + f["undetermined"]
        flags["burst (no waiting between the actions)"] = flags.get("burst (no waiting between the actions)", 0) + f["burst"]
        # non-trivial: at least one accepted work-start AND (an event that ends reading, or an invalid message)
        if f["accepted"] and (f["ender"] is not None or f["invalid"]):
            nontrivial += 1
        if len(samples) < 3 and len(distinct) % 1499 == 1:
            samples.append({"case": case, "observed": obs})
    return {"cases": len(rows), "distinct": len(distinct), "distinct_nontrivial": nontrivial,
            "end_of_reading": enders, "outcomes": outcomes, "accepted_work_starts_by_behaviour": behs,
            "script_lengths": {str(k): v for k, v in sorted(nact.items())}, "features": flags, "samples": samples,
            "exhaustive": "1 work-start x 6 behaviours x {known, unknown step} x 7 ways of ending x {fast, released before, "
                          "released after, never released}; 2 work-starts x 5x5 behaviours x 3 enders x 4 completion orders; "
                          "12 invalid-message kinds x 1..8 repetitions x {-, cancel, closeout}; every byte offset of the "
                          "transcripts of the truncation bases; signals {stop: no property, sig: one, two: two optional, "
                          "unknown} x 21 payload shapes (no data field, nil, strings, integers, lists, maps: empty / fitting / "
                          "unknown key / wrong member type / non-string key) x {run in progress on step s, on step t, finished + "
                          "unknown run}; steps {z: no input property, o: one, unknown} x the same 21 shapes as config"}


# ------------------------------------------------------------------------------------------
# the engine
# ------------------------------------------------------------------------------------------

def _run_sharded(check, cases_path, work, nshards):
    lines = [l for l in open(cases_path) if l.strip() and not l.startswith(";")]
    shards = [lines[i::nshards] for i in range(nshards)]
    procs = []
    for i, sh in enumerate(shards):
        cp = os.path.join(work, "atpsrv.%d.cases" % i)
        op = os.path.join(work, "atpsrv.%d.obs" % i)
        open(cp, "w").writelines(sh)
        procs.append((subprocess.Popen([check.HARNESS, "run", cp, op], cwd=work, env=check.GOENV,
                                       stdout=subprocess.DEVNULL, stderr=subprocess.DEVNULL), cp, op, len(sh)))
    obs = [None] * len(lines)
    for i, (p, cp, op, n) in enumerate(procs):
        try:
            rc = p.wait(timeout=7200)
        except subprocess.TimeoutExpired:
            p.kill()
            raise check.ProofBroken("harness-run", "scripted-peer shard %d timed out" % i)
        ol = [l.rstrip("\n") for l in open(op)] if os.path.exists(op) else []
        if rc != 0 or len(ol) != n:
            raise check.ProofBroken("harness-run", "scripted-peer shard %d: rc=%d, %d observations for %d cases" % (i, rc, len(ol), n))
        for j, l in enumerate(ol):
            obs[i + j * nshards] = l
        os.remove(cp)
        os.remove(op)
    return [l.rstrip("\n") for l in lines], obs


def _coq_term(x):
    """an s-expression (props.sx_parse form) as a Gallina term of Interp.Sexp.sexp"""
    if isinstance(x, tuple):
        return 'St "%s"' % x[1].replace('"', '""')
    if isinstance(x, str):
        return 'At "%s"' % x.replace('"', '""')
    return "Ls [" + "; ".join(_coq_term(y) for y in x) + "]"


def coq_sample(check, rows, work, every):
    """DESIGN §2.3(3): a fixed sample of the cases is re-evaluated INSIDE Coq (vm_compute on Interp.Run.run_case) and
    compared with what the extracted OCaml model printed: extraction itself stays under test.  Returns the sample size."""
    picked = [(c, p) for i, (c, o, p) in enumerate(rows) if i % every == 0 and all(32 <= ord(ch) < 127 for ch in c + p)]
    if not picked:
        return 0
    path = os.path.join(work, "sample_atpsrv.v")
    with open(path, "w") as f:
        f.write("From Verif Require Import Base.Prelude Base.Str Interp.Sexp Interp.Run.\nOpen Scope string_scope.\n")
        for k, (c, p) in enumerate(picked):
            f.write("Example sample_%d : run_case (%s) = %s.\nProof. vm_compute. reflexivity. Qed.\n"
                    % (k, _coq_term(_P.sx_parse(c)), _coq_term(_P.sx_parse(p))))
    r = check.run(["coqc", "-Q", check.COQ, "Verif", "-w", "-notation-overridden", path], cwd=work, timeout=3600)
    if r.returncode != 0:
        raise check.ProofBroken("extraction-sample", "the extracted model and vm_compute inside Coq disagree on a sampled case "
                                "(or the sample does not compile):\n" + r.stdout[-1500:])
    for ext in (".vo", ".vok", ".vos", ".glob"):
        try:
            os.remove(path[:-2] + ext)
        except FileNotFoundError:
            pass
    return len(picked)


def atpsrv_engine(prop, tier, seed, work, known):
    import check
    fam = "atpsrv"
    os.makedirs(work, exist_ok=True)
    cases = os.path.join(work, fam + ".cases")
    with open(cases, "w") as out:
        corpus = os.path.join(check.ROOT, "corpus", fam + ".cases")
        if os.path.exists(corpus):
            for line in open(corpus):
                if line.strip() and not line.startswith(";"):
                    out.write(line if line.endswith("\n") else line + "\n")
    gen = os.path.join(work, fam + ".gen")
    p = check.run([check.HARNESS, "gen", fam, tier, str(seed), gen], cwd=work, env=check.GOENV, timeout=1800)
    if p.returncode != 0:
        raise RuntimeError("generator failed: " + p.stdout[-2000:])
    with open(cases, "a") as out:
        out.writelines(open(gen))
    os.remove(gen)
    cl, ol = _run_sharded(check, cases, work, int(os.environ.get("VERIF_SHARDS", "16")))
    # an observation that says "did not come to rest" can be the machine stalling (shared, loaded host): such cases are run
    # once more, alone; a real deadlock or livelock is deterministic under quiescence-driven scripts and shows again
    stalled = [i for i, o in enumerate(ol) if check.strip_id(o) in ("hang", "(r noquiesce)")]
    if stalled and len(stalled) <= 200:
        rc_, ro_ = os.path.join(work, fam + ".retry.cases"), os.path.join(work, fam + ".retry.obs")
        open(rc_, "w").write("".join(cl[i] + "\n" for i in stalled))
        pr_ = check.run([check.HARNESS, "run", rc_, ro_], cwd=work, env=check.GOENV, timeout=7200)
        again = [l.rstrip("\n") for l in open(ro_)] if os.path.exists(ro_) else []
        if pr_.returncode == 0 and len(again) == len(stalled):
            for i, o in zip(stalled, again):
                ol[i] = o
    pred = os.path.join(work, fam + ".pred")
    with open(cases) as fin, open(pred, "w") as fout:
        q = subprocess.run([check.DRIVER], stdin=fin, stdout=fout, stderr=subprocess.PIPE, timeout=7200)
    if q.returncode != 0:
        raise check.ProofBroken("driver-run", "the model driver crashed: " + q.stderr.decode()[-2000:])
    pl = [l.rstrip("\n") for l in open(pred)]
    if not (len(cl) == len(ol) == len(pl)):
        raise check.ProofBroken("harness-run", "case/observation/prediction counts differ: %d %d %d" % (len(cl), len(ol), len(pl)))
    with open(os.path.join(work, fam + ".obs"), "w") as f:
        f.write("\n".join(ol) + "\n")
    rows = list(zip(cl, ol, pl))
    res = {"name": fam, "evaluations": len(rows), "violations": [], "disagreements": [], "known_hits": []}
    stats = atpsrv_stats(rows)
    stats["re_run_after_no_quiescence"] = len(stalled)
    res["stats"] = stats
    res["distinct_nontrivial"] = stats["distinct_nontrivial"]
    res["samples"] = stats["samples"]
    validated = 0
    for case, obs, pr in rows:
        o, p_ = check.strip_id(obs), check.strip_id(pr)
        reason = atpsrv_direct(case, o)
        agree = atpsrv_agree(o, p_) or _racy(case)
        if reason is None and agree:
            validated += 1
            continue
        kf = _P.match_known(known, fam, case, o, p_)
        if kf is not None:
            res["known_hits"].append((kf, case, o))
            continue
        if reason is not None:
            res["violations"].append((fam, case, o, p_, reason))
        else:
            res["disagreements"].append((fam, case, o, p_))
    res["traces_validated_against_impl"] = validated
    if os.environ.get("VERIF_COQ_SAMPLE", "1") == "1":
        res["stats"]["re_evaluated_inside_coq"] = coq_sample(check, rows, work, 97 if tier == "quick" else 293)
    return res


def atpsrv_replay(d, work):
    import check
    cases = os.path.join(work, "r.cases")
    open(cases, "w").write(d["case"] + "\n")
    rows = check.run_cases(cases, os.path.join(work, "r.obs"), os.path.join(work, "r.pred"), work)
    case, obs, pred = rows[0]
    check.log("case:           " + case)
    check.log("implementation: " + obs)
    check.log("model:          " + pred)
    o, p_ = check.strip_id(obs), check.strip_id(pred)
    reason = atpsrv_direct(case, o)
    if reason is None and not (atpsrv_agree(o, p_) or _racy(case)):
        reason = "implementation and proved model disagree"
    if reason:
        check.log("VIOLATION property=%s replay=%s" % (d["property"], d.get("replay_cmd", "").split()[-1] if d.get("replay_cmd") else "-"))
        check.log("reason: " + reason)
        return 1
    check.log("no violation on the current tree")
    return 0


def register(props):
    global _P
    _P = props
    props.FAMILY_STATS["atpsrv"] = atpsrv_stats
    props.DIRECT[("C07", "atpsrv")] = atpsrv_direct
    props.EXPLAIN[("C07", "atpsrv")] = atpsrv_explain
    props.REPLAY_HANDLERS["atpsrv"] = atpsrv_replay
    props.PROPS["C07"] = {
        "theory": "Properties/C07.v",
        "families": [],
        "engines": [atpsrv_engine],
        "rule": "atpsrv: client scripts (start, work-starts with scripted behaviour ok / declared error output / undeclared output / "
                "invalid data / panic / rejected input, fast or blocked on a harness gate, unknown step ids, duplicate / missing / "
                "omitted run ids, wrongly typed payloads, signals with known / unknown id, run and data, PAYLOAD MATRIX (signal data "
                "schemas and step input schemas with zero / one / two properties x no data field, nil, strings, integers, lists, "
                "maps of every shape; accept / reject computed by the schema model Schema/Ops.v in the interpreter), unknown message ids, "
                "client-done, four kinds of undecodable bytes, end of input, cancel, closing the output, release of a blocked step "
                "before / after / never relative to the end of input) run one action at a time against the real RunATPServer with "
                "quiescence detection in between (every third seeded script also as a BURST: no waiting, the goroutines race freely; "
                "same prediction, except when the output is closed under the server); exhaustive small-scope families, seeded scripts, and truncation at EVERY byte "
                "offset of the transcripts of selected scripts; distinct by case text; non-trivial = at least one accepted "
                "work-start and (an event that ends reading or an invalid message)",
        "assumptions": ["stdin.Close() of the server never fails (pipes); the 60 s encoder timeout does not fire (the client reads "
                        "its end of the output or closes it)",
                        "signal handlers and step handlers do not block for ever unless the script says so (slow steps not released)",
                        "bytes that still decode to a different well-formed message are a different script, not a fault"],
        "level_text": "Theorems (every client script as LArrive labels x every behaviour oracle x every schedule, unbounded): no "
                      "reachable state of the repaired server model is Crashed; per run id the terminal messages written plus those "
                      "in flight equal the accepted work-starts (at most one each in every reachable state, exactly one each on the "
                      "open output of a finished session); every ServerError created is returned and, while the output is open, "
                      "written as an error message with the same flags, and the errors created are exactly the documented "
                      "classification of the consumed messages plus one per failed execution (plus at most one handshake / read "
                      "fatal); a quiescent state that is not waiting for input or for a blocked step has returned, and every internal "
                      "step decreases a measure; the deterministic scheduler used for predictions only yields reachable, quiescent "
                      "states. ServerPreFix.v keeps the D21 (send on closed channel), D24 (blocked for ever) and D22 (nil dereference) "
                      "schedules that break the unrepaired model.",
        "level_note": "Model = ATP/Server.v (hand-written from atp/server.go after the fixes for D21/D24, D23, and with CallSignal "
                      "returning an error for D22), tied to the code by the scripted-peer engine: the real RunATPServer over "
                      "OS-pipe-like transports, one script action at a time, goroutine-state quiescence in between; outcome, returned "
                      "errors and output stream compared as multisets with the model's deterministic scheduler. sendRuntimeMessage is "
                      "one atomic write in the model; the Go scheduler is 'any interleaving of the modelled steps'.",
        "design_ref": "DESIGN.md §5 C07",
        "trusted": ["the scripted-peer driver (harness/cmd/harness/c07_atpsrv.go): message encoder, buffered pipes, quiescence "
                    "detection from runtime.Stack goroutine states"],
    }
