#!/bin/bash
# (re)creates seeded/regress-<id>/patch.diff as the reverse of each fix commit listed in known_findings.json,
# if that reverse patch applies to /repo's HEAD.
cd /verif
python3 - <<'PY'
import json, subprocess, os
k = json.load(open('known_findings.json'))['findings']
for f in k:
    if f.get('status') != 'fixed' or len(f.get('commit','')) != 7: continue
    d = 'seeded/regress-%s' % f['id']
    c = f['commit']
    diff = subprocess.run(['git','-C','/repo','diff',c,c+'^'], stdout=subprocess.PIPE, text=True).stdout
    chk = subprocess.run(['git','-C','/repo','apply','--check','-'], input=diff, text=True, stderr=subprocess.PIPE)
    if chk.returncode != 0:
        if not os.path.exists(d+'/patch.diff'): print('reverse of %s (%s) does not apply cleanly: handcraft' % (c, f['id']))
        continue
    os.makedirs(d, exist_ok=True)
    open(d+'/patch.diff','w').write(diff)
    if not os.path.exists(d+'/meta.json'):
        json.dump({"breaks": f['property'], "kind": "regression of the fix commit %s for %s (reverse patch)" % (c, f['id']),
                   "needs": f['what'], "ran": "lib/seedtest.sh %s/patch.diff %s" % (d, f['property'])}, open(d+'/meta.json','w'), indent=1)
PY
