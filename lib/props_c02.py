"""C02 (Unserialize accepts exactly the values meeting every declared constraint; Validate and
Serialize enforce the same on native values): registration, statistics, the property's own
predicates on an observation, the explanation of a disagreement with the proved model, and the
known-finding class for colliding map keys.

Families (label `schema`, payload (sch ENV SCHEMA (ops OP...)), observation (r O...)):
  scalars  - the exhaustive boundary matrix (harness/cmd/harness/gen_scalars.go)
  c02nest  - random nesting of the scalar / list / map kinds, valid inputs and single corruptions
             (harness/cmd/harness/c17_faults.go, c02NestCase)
Only the operations the property talks about are compared: u (Unserialize), v (Validate),
s (Serialize), rt (Unserialize, then Validate and Serialize of the result ...).  Error observations
are projected to `err` (paths and the constraint flag are C17's business).
"""
import hashlib
import re

_P = None
OPS = ("u", "v", "s", "rt")
OPNAME = {"u": "Unserialize", "v": "Validate", "s": "Serialize", "rt": "Unserialize+Validate+Serialize"}


def _show(x, limit=500):
    if isinstance(x, tuple):
        return '"%s"' % x[1]
    if isinstance(x, list):
        s = "(" + " ".join(_show(y, limit) for y in x) + ")"
        return s if len(s) <= limit else s[:limit] + "..."
    return x


def _cls(o):
    if isinstance(o, list) and o:
        return o[0]
    return o


def _parse(case, obs):
    pl = _P.case_payload(case)
    ops = pl[3][1:]
    o = _P.sx_parse(_P.strip_err_paths(obs)) if obs.startswith("(") else obs
    return pl, ops, o


def _project(case, text):
    """observations of the operations C02 talks about, error details removed"""
    pl = _P.case_payload(case)
    ops = pl[3][1:]
    o = _P.sx_parse(_P.strip_err_paths(text)) if text.startswith("(") else text
    if not (isinstance(o, list) and o and o[0] == "r"):
        return o
    out = []
    for i, op in enumerate(ops):
        if op[0] in OPS and i + 1 < len(o):
            r = o[i + 1]
            if op[0] == "rt" and isinstance(r, list):
                r = r[:4]      # Unserialize, then Validate and Serialize of the result; the wire / CBOR legs are C01's
            out.append((i, r))
    return out


def c02_agree(case, obs, pred):
    try:
        return _project(case, obs) == _project(case, pred)
    except Exception:
        return obs == pred


def c02_direct(case, obs):
    """What the property says about the implementation's observations alone:
       (1) no panic; (2) Validate and Serialize accept the same native values; (3) what Unserialize
       returns passes Validate and Serialize (outside the key-collision class)."""
    try:
        pl, ops, o = _parse(case, obs)
    except Exception:
        return None
    if not (isinstance(o, list) and o and o[0] == "r"):
        if o in ("panic", "crash", "hang"):
            return "the SDK %s on a schema/value case" % o
        return None
    res = o[1:]
    schema = _show(pl[2])
    byval = {}
    for i, op in enumerate(ops):
        if i >= len(res) or op[0] not in OPS:
            continue
        r = res[i]
        if r == "panic" or (op[0] == "rt" and "panic" in r):
            return "op#%d %s panicked - schema %s value %s" % (i, OPNAME[op[0]], schema, _show(op[1]))
        if op[0] in ("v", "s"):
            byval.setdefault(_show(op[1], 10 ** 9), {})[op[0]] = (i, _cls(r))
        if op[0] == "rt" and isinstance(r, list) and len(r) >= 4 and _cls(r[1]) == "ok":
            if _cls(r[2]) != "ok" or _cls(r[3]) != "ok":
                return ("op#%d Unserialize accepted the value, but its own result is rejected by %s - schema %s raw value %s result %s"
                        % (i, "Validate" if _cls(r[2]) != "ok" else "Serialize", schema, _show(op[1]), _show(r[1])))
    for val, d in byval.items():
        if "v" in d and "s" in d and (d["v"][1] == "ok") != (d["s"][1] == "ok"):
            return ("op#%d/#%d Validate and Serialize disagree on the same native value (Validate: %s, Serialize: %s) - schema %s value %s"
                    % (d["v"][0], d["s"][0], d["v"][1], d["s"][1], schema, val[:600]))
    return None


def c02_explain(case, obs, pred):
    """The model is proved equal to the declarative reference semantics (Properties/C02.v), so a
    difference in accept/reject or in the accepted value is a failing input of the property."""
    try:
        pl, ops, o = _parse(case, obs)
        _, _, p = _parse(case, pred)
    except Exception:
        return None
    if not (isinstance(o, list) and isinstance(p, list) and o and p and o[0] == "r" and p[0] == "r"):
        return None
    schema = _show(pl[2])
    for i, op in enumerate(ops):
        if op[0] not in OPS or i + 1 >= len(o) or i + 1 >= len(p) or o[i + 1] == p[i + 1]:
            continue
        a, b = o[i + 1], p[i + 1]
        name = OPNAME[op[0]]
        if _cls(a) == "ok" and _cls(b) != "ok":
            return ("op#%d %s ACCEPTS a value that does not meet the declared constraints (reference semantics: reject) - "
                    "schema %s value %s observed %s" % (i, name, schema, _show(op[1]), _show(a, 300)))
        if _cls(a) != "ok" and _cls(b) == "ok":
            return ("op#%d %s REJECTS a value that denotes %s and meets every declared constraint - schema %s value %s"
                    % (i, name, _show(b, 300), schema, _show(op[1])))
        return ("op#%d %s returns %s; the denoted value is %s - schema %s value %s"
                % (i, name, _show(a, 300), _show(b, 300), schema, _show(op[1])))
    return None


def kf_c02_key_collision(m, case, obs, pred):
    """the direct failure 'the result is rejected by Validate/Serialize' on a map whose raw keys collide
    after conversion (same integer as int and as decimal string, ...) and that declares a minimum size"""
    r = c02_direct(case, _P_strip(obs) if obs.startswith("(obs") else obs)
    if not r or "its own result is rejected" not in r:
        return False
    return "(map " in case and _has_colliding_keys(case)


def _has_colliding_keys(case):
    pl = _P.case_payload(case)

    def walk(v):
        if not isinstance(v, list) or not v:
            return False
        if v[0] == "m":
            ids = []
            for e in v[3:]:
                k = e[0]
                ids.append(k[2][1] if isinstance(k[2], tuple) else str(k[2]))
                if walk(e[1]):
                    return True
            return len(ids) != len(set(ids))
        return any(walk(x) for x in v[1:])
    return any(walk(op[1]) for op in pl[3][1:])


def _P_strip(obs):
    m = re.match(r"^\(obs \S+ (.*)\)$", obs)
    return m.group(1) if m else obs


def c02_stats(rows):
    kinds, opsn, outcomes = {}, {}, {}
    distinct = set()
    nontrivial = nops = 0
    samples = []
    for case, obs, pred in rows:
        try:
            pl, ops, o = _parse(case, _P_strip(obs))
        except Exception:
            continue
        sch = pl[2]
        k = sch[0] if isinstance(sch, list) else sch
        kinds[k] = kinds.get(k, 0) + 1
        res = o[1:] if isinstance(o, list) and o and o[0] == "r" else []
        stxt = _show(sch, 10 ** 9)
        for i, op in enumerate(ops):
            if op[0] not in OPS:
                continue
            nops += 1
            opsn[op[0]] = opsn.get(op[0], 0) + 1
            c = _cls(res[i]) if i < len(res) else "?"
            if op[0] == "rt" and i < len(res) and isinstance(res[i], list) and len(res[i]) > 1:
                c = _cls(res[i][1])
            key = "%s/%s" % (op[0], c)
            outcomes[key] = outcomes.get(key, 0) + 1
            h = hashlib.sha1((stxt + _show(op, 10 ** 9)).encode()).digest()
            if h in distinct:
                continue
            distinct.add(h)
            # non-trivial: the schema declares at least one constraint (bound, pattern, enum, size) or the value is not
            # already in native form
            if "none none" not in stxt[:40] or op[0] == "u":
                nontrivial += 1
        if len(samples) < 2 and len(distinct) % 11 == 1:
            samples.append({"case": case[:2500], "observed": obs[:1200]})
    return {"cases": len(rows), "operations": nops, "by_operation": opsn, "schema_kinds": kinds,
            "outcomes": dict(sorted(outcomes.items())), "distinct": len(distinct), "distinct_nontrivial": nontrivial,
            "samples": samples}


def register(props):
    global _P
    _P = props
    for fam in ("scalars", "c02nest"):
        props.DIRECT[("C02", fam)] = c02_direct
        props.EXPLAIN[("C02", fam)] = c02_explain
        props.AGREE[("C02", fam)] = c02_agree
    props.FAMILY_STATS["c02nest"] = c02_stats
    props.FAMILY_STATS.setdefault("scalars", c02_stats)
    props.KNOWN_PREDICATES["c02_key_collision"] = kf_c02_key_collision
    props.PROPS["C02"] = {
        "theory": "Properties/C02.v",
        "families": ["scalars", "c02nest"],
        "rule": "scalars: the exhaustive boundary matrix {no bound, min, max, both, min=max, min>max, int64 extremes, 2^53 window} x "
                "{min-1, min, min+1, max-1, max, max+1, 0, +-1, +-2, 2^7/2^8, +-2^31, +-2^53, +-(2^63-1), -2^63} x every Go representation "
                "(all ten integer widths, float32/64, decimal string) plus ~100 odd values (nil, bools, 2^63 and 2^64-1 as uint64, NaN, "
                "+-Inf, -0, subnormals, 2^63 as float, numeric-string edge spellings, named types, slices, maps, pointers, structs, "
                "channels, funcs, big.Int, cbor.Tag) x {Unserialize, Validate, Serialize}; the same for float bounds (incl. NaN/Inf bounds), "
                "string length 0..max+1 and 7 patterns, boolean words from the live table in three spellings, int/string enums members and "
                "non-members in every representation, unit strings (a fixed list plus, for seconds and bytes, every edge string of the "
                "definition: zero counts in each position, each unit alone, MaxInt64 written with all units, the same plus one base unit "
                "= 2^63 by the SUM, single components at / beyond the edge, counts beyond int64 - against no bound, a max bound, the float "
                "reading and an int enum; and the BLANK and PADDED texts of the definition - white space only (' ', tab, ' \\n ', CR LF, "
                "VT, FF; and Unicode white space, which strings.TrimSpace trims although the unit grammar's \\s is ASCII-only: NBSP, "
                "NEL, U+3000, U+2003, U+2028, U+1680, U+202F, U+205F) and a bare count / zero / one unit / two units with white "
                "space in front, behind and on both sides (ASCII, Unicode, and look-alikes that are NOT trimmed: a lone byte 0xA0 / "
                "0x85 / 0xC2, U+200B, U+180E, U+FEFF), and with NBSP / NEL / U+3000 / U+2003 / U+2028 / VT / FF BETWEEN count and "
                "unit (refused, except FF) - against "
                "the int, bounded int, float and int-enum reading (0 admitted), as a leaf, a list item, a map value and a map KEY; the "
                "same texts against the readings without units and bool), list/map sizes 0..4 against 7 bound configurations in typed and "
                "untyped containers. c02nest: random nesting (depth 1-3) of those kinds with a valid input (raw in random representations "
                "+ native, exactly typed or any-typed; integer map keys - with and without units - also written as texts that differ "
                "from the text of their value: '01', '+1', ' 1', '1kB', '1 kilobyte') and single corruptions of every leaf, key and size "
                "(a blank text among the wrong-type corruptions of every number and bool, leaves and keys). distinct = distinct (schema, "
                "operation, value); non-trivial = the schema declares a constraint or the operation is Unserialize of a raw form",
        "assumptions": ["integers inside raw values lie in the range of their Go type (go_val)",
                        "user patterns are matched by the modelled matcher (Regex.v; the generator's pattern pool); regexp.Compile for "
                        "pattern VALUES and strconv.ParseFloat are recorded/modelled oracles",
                        "C02_result_is_denotation / C02_accepted_is_valid: in every map inside the input no two raw keys denote the "
                        "same native key (no_collision; implied by pairwise different denotations, C02_distinct_keys_no_collision); "
                        "the _partial variants assume instead that no map on the way declares a MINIMUM size (known finding D19/D68)"],
        "level_text": "Theorems (unbounded: every table of boolean words, float unit parser, environment, sufficient fuel, value): per kind, "
                      "Unserialize = Ok n iff n is the value the raw input DENOTES under the declarative relations of Schema/Spec.v "
                      "(int_denotes: every width that fits int64, floats that are exactly an integer in [-2^63,2^63) - characterised as "
                      "(-1)^s*m*2^e = z, not by the code's test -, booleans, decimal / unit strings; float_denotes incl. NaN/Inf/-0; "
                      "string_denotes; bool_denotes) and the declared bounds / pattern / membership hold; lists and maps lift this for "
                      "any item / key / value schema (size bounds on the raw container, result built by Go map assignment); "
                      "C02_unserialize_iff_denotes: the equivalence for the whole fragment nested to any depth; C02_paths_agree: on "
                      "native values Validate = Ok iff sat iff Serialize = Ok; C02_result_is_denotation / C02_accepted_is_valid: what "
                      "Unserialize returns is the denoted value, native, meets every constraint and passes Validate and Serialize, "
                      "for inputs without colliding map keys (any schema of the fragment); the _partial variants: for every input when "
                      "no map declares a minimum size; without either hypothesis the statement is false "
                      "(C02_map_min_after_collision_refuted, known finding D68); C02_any / C02_any_paths: `any` accepts exactly the "
                      "values any_denotes describes, on all three paths.",
        "level_note": "Model = Schema/Ops.v (three paths modelled separately); reference semantics = Schema/Spec.v written from the property "
                      "text; tied to the code by the exhaustive boundary matrix and random nesting, run on the SDK and on the extracted "
                      "model; Generated/Tables.v (boolean words, built-in units) is re-dumped from the SDK on every run.",
        "design_ref": "DESIGN.md §5 C02",
    }
