"""C05 (ATP is transparent), protocol layer end to end: the family `c05transparent`
(harness/cmd/harness/c05_transparent.go): one case = one session of the real atp client against the real
atp.RunATPServer (protocol 3) or against a scripted server speaking the version-1 framing, the calls issued
serially or overlapping, over io.Pipe / an OS-pipe-like buffer / either one with fragmented writes and short reads.

Case / observation syntax: coq/Interp/RunAtpxp.v.  Hooked into props.py by
`props_c05.register(sys.modules[__name__])` at the end of props.py.

What is checked per session:
  direct   the property text on the observation alone: for every call, what Execute returned equals the recorded
           in-process result of CallStep up to CBOR normalisation (normalisation re-implemented here, independent of the
           model), a call whose in-process result is an error returns an error, the handler ran exactly as often as
           in-process (once for an accepted input, never for a rejected one: nothing lost or duplicated);
  agree    the observation equals the prediction of the Coq interpreter (Interp/RunAtpxp.v: cbor_norm of Schema/Cbor.v on
           the expected value, the decodable hypothesis of Properties/C05.v on the inputs, the number of errors the server
           returns, `inproc-agrees 1`: the recorded expectation is what CallStep gives in-process at run time);
  known    D26: protocol 1 AND overlapping AND >= 2 calls (no run id on the version-1 wire).
"""
import hashlib
import os
import re
import subprocess

_P = None  # the props module
FAM = "c05transparent"

SCHEMA_KINDS = ("int", "float", "string", "enum_int", "enum_str", "list", "map", "object", "oneof", "ref", "scope")
SCHEMA_ATOMS = ("bool", "pattern", "any")


# ------------------------------------------------------------------------------------------
# reading a case
# ------------------------------------------------------------------------------------------

def _s(x):
    return x[1] if isinstance(x, tuple) else x


def cbor_norm(v):
    """What a CBOR encode + decode into `any` does to a printed value (Schema/Cbor.v, re-implemented)."""
    if not isinstance(v, list) or not v:
        return v
    h = v[0]
    if h == "b":
        return ["b", "bool", v[2]]
    if h == "i":
        return ["i", "u64" if int(v[2]) >= 0 else "i64", v[2]]
    if h == "f":
        return ["f", "f64", v[2]]
    if h == "s":
        return ["s", "str", v[2]]
    if h == "sl":
        return ["sl", ["slice", "any"], "0"] + [cbor_norm(x) for x in v[3:]]
    if h == "m":
        return ["m", ["map", "any", "any"], "0"] + [[cbor_norm(e[0]), cbor_norm(e[1])] for e in v[3:]]
    return v


def session_facts(case):
    pl = _P.case_payload(case)
    mode, tr = pl[2], pl[3]
    f = {"proto": pl[1], "overlap": isinstance(mode, list), "pace": mode[1] if isinstance(mode, list) else "-",
         "transport": tr if isinstance(tr, str) else "frag-" + tr[1], "frag": isinstance(tr, list),
         "min_chunk": min(int(x) for x in tr[2]) if isinstance(tr, list) else 0, "calls": [], "order": [int(x) for x in pl[6][1:]],
         "steps": len(pl[4]) - 1, "plugin": pl[4]}
    for c in pl[5][1:]:
        e = c[6]
        if e[1] == "ok":
            want = ["atp", "ok", e[2], cbor_norm(e[3])]
            h = 1
        else:
            want = ["atp", "err"]
            h = int(e[2])
        f["calls"].append({"run": _s(c[1]), "step": _s(c[2]), "ok": e[1] == "ok", "want": want, "h": h})
    f["n"] = len(f["calls"])
    f["rejected"] = sum(1 for c in f["calls"] if not c["ok"])
    f["accepted"] = f["n"] - f["rejected"]
    f["d26_class"] = f["proto"] == "v1" and f["overlap"] and f["n"] >= 2
    return f


def _kinds(tree, out):
    if isinstance(tree, list):
        if tree and isinstance(tree[0], str) and tree[0] in SCHEMA_KINDS:
            out.add(tree[0])
        for x in tree:
            _kinds(x, out)
    elif isinstance(tree, str) and tree in SCHEMA_ATOMS:
        out.add(tree)


def _obs_calls(obs):
    """[(run, atp, h, agrees)], server   or None"""
    if not obs.startswith("(r "):
        return None
    x = _P.sx_parse(obs)
    calls, server = [], None
    for it in x[1:]:
        if it[0] == "call":
            calls.append((_s(it[1]), it[2], int(it[3][1]), it[4][1]))
        elif it[0] == "server":
            server = it[1:]
    return calls, server


def _show(atp):
    t = repr(atp)
    return t if len(t) < 300 else t[:300] + "..."


def _describe(f):
    return "protocol %s, %s, transport %s, %d call(s)" % (
        f["proto"], ("overlapping/" + f["pace"] + " completing in order %s" % f["order"]) if f["overlap"] else "serial", f["transport"], f["n"])


# ------------------------------------------------------------------------------------------
# the property's own predicate
# ------------------------------------------------------------------------------------------

def class_verdict(f, calls):
    """Inside the D26 class: 'correct' (every Execute returned its own result; when some call of the session
    fails the legacy session may end early, so an error is then acceptable for any call), 'd26-cross' (some Execute
    got the result of ANOTHER call of the session, an error or nothing), 'd26-garbled' (some Execute got a value that
    is no call's result: every Execute reads the one un-addressed stream with its own decoder, so a message larger
    than one read -- always the case under fragmentation -- is split between them)."""
    any_fail = f["rejected"] > 0
    wants = [c["want"] for c in f["calls"]]
    verdict = "correct"
    for c, (run, atp, h, ag) in zip(f["calls"], calls):
        if atp == c["want"] or (any_fail and atp == ["atp", "err"]):
            continue
        if atp in wants or atp in (["atp", "err"], ["atp", "hang"]):
            if verdict == "correct":
                verdict = "d26-cross"
            continue
        verdict = "d26-garbled"
    return verdict


def transparent_direct(case, obs):
    f = session_facts(case)
    what = _describe(f)
    if obs in ("crash", "panic", "hang"):
        return "the session ended in `%s` (%s)" % (obs, what)
    p = _obs_calls(obs)
    if p is None:
        return None
    calls, server = p
    if len(calls) != f["n"]:
        return None
    if f["d26_class"]:
        v = class_verdict(f, calls)
        if v == "correct":
            return None
        for c, (run, atp, h, ag) in zip(f["calls"], calls):
            if atp != c["want"]:
                return ("Execute(run %r) returned %s; calling the step in-process returns %s (%s)%s"
                        % (run, _show(atp), _show(c["want"]), what, "" if v == "d26-cross" else " -- the value is no call's result"))
    dead = False
    for c, (run, atp, h, ag) in zip(f["calls"], calls):
        if dead:
            break       # a failed call ends a version-1 session: nothing is promised for later calls
        if atp != c["want"]:
            kind = "rejected input / failing step did not come back as that step's error: " if not c["ok"] else ""
            return ("%sExecute(run %r) returned %s; calling the step in-process returns %s (%s)"
                    % (kind, run, _show(atp), _show(c["want"]), what))
        if h != c["h"]:
            return ("the handler of run %r ran %d time(s) over ATP, %d time(s) in-process (%s)" % (run, h, c["h"], what))
        if f["proto"] == "v1" and not c["ok"]:
            dead = True
    return None


def transparent_agree(case, obs, pred):
    if obs == pred:
        return True
    f = session_facts(case)
    if f["d26_class"]:
        # the model has no version-1 concurrency (C05_v1_concurrent_refuted is stated, the protocol-layer model is
        # added at integration): inside the class the verdict above is the whole judgement
        p = _obs_calls(obs)
        return p is not None and len(p[0]) == f["n"] and class_verdict(f, p[0]) == "correct" and all(c[3] == "1" for c in p[0])
    return False


def transparent_explain(case, obs, pred):
    return None


def known_v1_overlap(m, case, obs, pred):
    """D26: protocol v1 AND mode overlapping AND >= 2 calls, and the observation is one of the defect's faces."""
    f = session_facts(case)
    if not f["d26_class"]:
        return False
    p = _obs_calls(obs)
    if p is None or len(p[0]) != f["n"]:
        return False
    return class_verdict(f, p[0]).startswith("d26")


# ------------------------------------------------------------------------------------------
# statistics
# ------------------------------------------------------------------------------------------

def transparent_stats(rows):
    distinct = set()
    nontrivial = 0
    dist = {"protocol": {}, "mode": {}, "transport": {}, "calls": {}, "rejected_or_failing_calls": {}, "steps": {}, "schema_kinds": {},
            "min_chunk_1_byte": 0, "d26_class": 0, "d26_reproduced": 0}
    samples = []

    def bump(d, k):
        d[str(k)] = d.get(str(k), 0) + 1

    for case, obs, pred in rows:
        h = hashlib.sha1(re.sub(r"^\(case \S+ ", "", case).encode()).digest()
        if h in distinct:
            continue
        distinct.add(h)
        f = session_facts(case)
        bump(dist["protocol"], f["proto"])
        bump(dist["mode"], ("overlap-" + f["pace"]) if f["overlap"] else "serial")
        bump(dist["transport"], f["transport"])
        bump(dist["calls"], f["n"])
        bump(dist["rejected_or_failing_calls"], f["rejected"])
        bump(dist["steps"], f["steps"])
        ks = set()
        _kinds(f["plugin"], ks)
        for k in ks:
            bump(dist["schema_kinds"], k)
        dist["min_chunk_1_byte"] += f["frag"] and f["min_chunk"] == 1
        if f["d26_class"]:
            dist["d26_class"] += 1
            p = _obs_calls(re.sub(r"^\(obs \S+ (.*)\)$", r"\1", obs))
            if p is not None and len(p[0]) == f["n"]:
                v = class_verdict(f, p[0])
                if v.startswith("d26"):
                    dist["d26_reproduced"] += 1
                    dist[v] = dist.get(v, 0) + 1
        # non-trivial: (>= 2 calls or a fragmenting transport) and at least one accepted input
        if (f["n"] >= 2 or f["frag"]) and f["accepted"] >= 1:
            nontrivial += 1
        if len(samples) < 3 and len(distinct) % 797 == 7:
            samples.append({"case": case[:3000], "observed": obs[:1500]})
    out = {"cases": len(rows), "distinct": len(distinct), "distinct_nontrivial": nontrivial, "samples": samples}
    out.update(dist)
    return out


# ------------------------------------------------------------------------------------------
# the engine
# ------------------------------------------------------------------------------------------

def _run_sharded(check, cases_path, work, nshards):
    """like props_c07._run_sharded, but the workers' stderr is kept: the runner reports D20 retries there"""
    lines = [l for l in open(cases_path) if l.strip() and not l.startswith(";")]
    shards = [lines[i::nshards] for i in range(nshards)]
    procs = []
    for i, sh in enumerate(shards):
        cp = os.path.join(work, FAM + ".%d.cases" % i)
        op = os.path.join(work, FAM + ".%d.obs" % i)
        ep = os.path.join(work, FAM + ".%d.err" % i)
        open(cp, "w").writelines(sh)
        ef = open(ep, "w")
        procs.append((subprocess.Popen([check.HARNESS, "run", cp, op], cwd=work, env=check.GOENV,
                                       stdout=subprocess.DEVNULL, stderr=ef), cp, op, ep, ef, len(sh)))
    obs = [None] * len(lines)
    retries = {"recovered": 0, "still-hangs": 0}
    for i, (p, cp, op, ep, ef, n) in enumerate(procs):
        try:
            rc = p.wait(timeout=7200)
        except subprocess.TimeoutExpired:
            p.kill()
            raise check.ProofBroken("harness-run", "c05transparent shard %d timed out" % i)
        ef.close()
        ol = [l.rstrip("\n") for l in open(op)] if os.path.exists(op) else []
        if rc != 0 or len(ol) != n:
            raise check.ProofBroken("harness-run", "c05transparent shard %d: rc=%d, %d observations for %d cases" % (i, rc, len(ol), n))
        for j, l in enumerate(ol):
            obs[i + j * nshards] = l
        for l in open(ep, errors="replace"):
            m = re.match(r"^\(retries \d+ (recovered|still-hangs)\)", l)
            if m:
                retries[m.group(1)] += 1
        for pth in (cp, op, ep):
            os.remove(pth)
    return [l.rstrip("\n") for l in lines], obs, retries


def judge(known, case, obs, pred):
    """('ok'|'known'|'violation'|'disagreement', finding or reason)"""
    reason = transparent_direct(case, obs)
    agree = transparent_agree(case, obs, pred)
    if reason is None and agree:
        return ("ok", None)
    kf = _P.match_known(known, FAM, case, obs, pred)
    if kf is not None:
        return ("known", kf)
    if reason is not None:
        return ("violation", reason)
    return ("disagreement", None)


def transparent_engine(prop, tier, seed, work, known):
    import check
    os.makedirs(work, exist_ok=True)
    cases = os.path.join(work, FAM + ".cases")
    with open(cases, "w") as out:
        corpus = os.path.join(check.ROOT, "corpus", FAM + ".cases")
        if os.path.exists(corpus):
            for line in open(corpus):
                if line.strip() and not line.startswith(";"):
                    out.write(line if line.endswith("\n") else line + "\n")
    gen = os.path.join(work, FAM + ".gen")
    p = check.run([check.HARNESS, "gen", FAM, tier, str(seed), gen], cwd=work, env=check.GOENV, timeout=3600)
    if p.returncode != 0:
        raise RuntimeError("generator failed: " + p.stdout[-2000:])
    with open(cases, "a") as out:
        out.writelines(open(gen))
    os.remove(gen)
    cl, ol, retries = _run_sharded(check, cases, work, int(os.environ.get("VERIF_SHARDS", "16")))
    # an observation with `hang` (wall-clock backstops) can be the shared host stalling: such sessions are run once more, alone;
    # a real deadlock shows again
    stalled = [i for i, o in enumerate(ol) if "hang" in o]
    if stalled and len(stalled) <= 300:
        rc_, ro_ = os.path.join(work, FAM + ".retry.cases"), os.path.join(work, FAM + ".retry.obs")
        open(rc_, "w").write("".join(cl[i] + "\n" for i in stalled))
        pr_ = check.run([check.HARNESS, "run", rc_, ro_], cwd=work, env=check.GOENV, timeout=7200)
        again = [l.rstrip("\n") for l in open(ro_)] if os.path.exists(ro_) else []
        if pr_.returncode == 0 and len(again) == len(stalled):
            for i, o in zip(stalled, again):
                ol[i] = o
    retries["sessions_re_run_after_hang"] = len(stalled)
    pred = os.path.join(work, FAM + ".pred")
    with open(cases) as fin, open(pred, "w") as fout:
        q = subprocess.run([check.DRIVER], stdin=fin, stdout=fout, stderr=subprocess.PIPE, timeout=7200)
    if q.returncode != 0:
        raise check.ProofBroken("driver-run", "the model driver crashed: " + q.stderr.decode()[-2000:])
    pl = [l.rstrip("\n") for l in open(pred)]
    if not (len(cl) == len(ol) == len(pl)):
        raise check.ProofBroken("harness-run", "case/observation/prediction counts differ: %d %d %d" % (len(cl), len(ol), len(pl)))
    with open(os.path.join(work, FAM + ".obs"), "w") as f:
        f.write("\n".join(ol) + "\n")
    rows = list(zip(cl, ol, pl))
    res = {"name": FAM, "evaluations": len(rows), "violations": [], "disagreements": [], "known_hits": []}
    stats = transparent_stats(rows)
    stats["d20_hang_retries"] = retries
    res["stats"] = stats
    res["distinct_nontrivial"] = stats["distinct_nontrivial"]
    res["samples"] = stats["samples"]
    validated = 0
    for case, obs, pr in rows:
        o, p_ = check.strip_id(obs), check.strip_id(pr)
        verdict, info = judge(known, case, o, p_)
        if verdict == "ok":
            validated += 1
        elif verdict == "known":
            res["known_hits"].append((info, case, o))
        elif verdict == "violation":
            res["violations"].append((FAM, case, o, p_, info))
        else:
            res["disagreements"].append((FAM, case, o, p_))
    res["traces_validated_against_impl"] = validated
    return res


def sched_engine(prop, tier, seed, work, known):
    """Controlled interleavings of the real client (overlay instrumenter + gate driver of C06, lib/atp_engine.py) against a
    scripted peer that answers every accepted work start once: delay-bounded and seeded random gate-by-gate schedules of the
    small fixed sessions, of sessions that re-use a run id one call after the other, and of generated ones.  C05's clauses
    on the observation: no result is LOST (an Execute that never returns while nothing can move), DUPLICATED (an Execute
    returning twice) or DELIVERED TO ANOTHER CALL / invented (success for a call the peer answered with its step's error,
    an error for a call it answered with work done)."""
    import atp_engine as ae
    import props_c06
    gates = ae.build_drive()
    res = {"name": "c05sched", "evaluations": 0, "distinct_nontrivial": 0, "samples": [], "violations": [],
           "disagreements": [], "known_hits": []}
    # ---- model schedules (coq/ATP/Client.v, extracted) of sessions with NON-TERMINAL messages that carry a run id (non-fatal
    # error reports, emitted signals, unknown ids) forced on the real client gate by gate: every Execute must return what the
    # model says (C05_client_routes_by_run_id: a result comes from a terminal message for that call's run id only)
    mcases = os.path.join(work, "c05m.cases")
    ae.gen_cases("c05m", tier, seed, mcases)
    scheds = ae.model_schedules(mcases, os.path.join(work, "c05m.pred"))
    items, expected, sess = [], {}, {}
    for cid, session, ss in scheds:
        for k, (steps, final, complete, flightok, lostbuf) in enumerate(ss):
            if not complete or lostbuf >= 0:
                continue
            i = "%s.%d" % (cid, k)
            items.append((i, session, steps))
            expected[i] = final
    mobs = ae.replay(items, os.path.join(work, "c05replay"))
    n_model = 0
    for i, session, steps in items:
        o = mobs[i]
        case = "(sched %s %s %s)" % (i, session, steps)
        n_model += 1
        cr = props_c06.crash_text(o)
        dv = ae.diverged(o)
        got = props_c06._results(o)[0] if o.startswith("(final") else (props_c06._results(dv["final"])[0] if dv and dv["final"] else None)
        want = props_c06._results(expected[i])[0]
        if cr:
            res["violations"].append(("atpclient", case, o[:600], expected[i], cr + " - model schedule forced gate by gate on the real client"))
        elif got is not None and [(r_, c_) for r_, c_, _ in got] != [(r_, c_) for r_, c_, _ in want]:
            bad = [(g, w) for g, w in zip(got, want) if g[:2] != w[:2]][0]
            tail = ""
            if dv:
                tail = "; it left the model's schedule at step %s (%s: expected %s, found %s)" % (dv["idx"], dv["role"], dv["want"], dv["got"])
            res["violations"].append(("atpclient", case, o, expected[i],
                                      "Execute for run %r returned class %s; the proved client model (coq/ATP/Client.v, every result comes from a "
                                      "terminal message for that call's run id) says %s under the same schedule and the same peer messages "
                                      "(non-terminal messages with a run id: notices / signals / unknown ids) - schedule forced gate by gate on the "
                                      "real client%s" % (bad[0][0], bad[0][1], bad[1][1], tail)))
        elif o != expected[i]:
            res["disagreements"].append(("atpclient", case, o, expected[i]))
        else:
            res["traces_validated_against_impl"] = res.get("traces_validated_against_impl", 0) + 1
    xl = ae.gen_cases("c05x", tier, seed, os.path.join(work, "c05x.cases"))
    xr = ae.explore(xl, os.path.join(work, "c05explore"))
    trials, kinds = props_c06.judge_explore(xl, xr, res, "scripted peer that answers every accepted work start once; C05: "
                                            "results are never lost, duplicated or delivered to another call")
    res["evaluations"] = trials + n_model
    res["distinct_nontrivial"] = trials + n_model
    res["stats"] = {"gates": gates, "model_schedules_replayed (sessions with notices / signals / unknown ids before the terminal message)": n_model,
                    "explore_sessions": len(xl), "explore_trials": trials, "explore_sessions_by_kind": kinds,
                    "rule": "one trial = one gate-by-gate schedule of one session on the real client (delay-bounded: every step "
                            "delayed singly and in pairs up to a count; or seeded random)"}
    return res


def transparent_replay(d, work):
    import check
    cases = os.path.join(work, "r.cases")
    open(cases, "w").write(d["case"] + "\n")
    rows = check.run_cases(cases, os.path.join(work, "r.obs"), os.path.join(work, "r.pred"), work)
    case, obs, pred = rows[0]
    check.log("case:           " + case)
    check.log("implementation: " + obs)
    check.log("model:          " + pred)
    o, p_ = check.strip_id(obs), check.strip_id(pred)
    known = [k for k in check.load_known() if k["property"] == d["property"] and k.get("status", "open") == "open"]
    verdict, info = judge(known, case, o, p_)
    if verdict == "known":
        check.log("KNOWN-FINDING: property=%s %s [%s]" % (d["property"], info["what"], info["id"]))
        check.log("reason: " + (transparent_direct(case, o) or "-"))
        return 0
    if verdict in ("violation", "disagreement"):
        check.log("VIOLATION property=%s replay=%s" % (d["property"], d.get("replay_cmd", "").split()[-1] if d.get("replay_cmd") else "-"))
        check.log("reason: " + (info or "implementation and proved model disagree"))
        return 1
    check.log("no violation on the current tree")
    return 0


def register(props):
    global _P
    _P = props
    props.FAMILY_STATS[FAM] = transparent_stats
    props.DIRECT[("C05", FAM)] = transparent_direct
    props.EXPLAIN[("C05", FAM)] = transparent_explain
    props.REPLAY_HANDLERS[FAM] = transparent_replay
    props.KNOWN_PREDICATES["c05_v1_overlap"] = known_v1_overlap
    entry = props.PROPS.get("C05", {})
    entry.setdefault("theory", "Properties/C05.v")
    entry.setdefault("families", [])
    entry.setdefault("engines", [])
    entry["engines"].append(transparent_engine)
    entry["engines"].append(sched_engine)
    entry.setdefault("assumptions", [])
    entry["assumptions"] += [
        "healthy transport: no pipe fault is injected (fragmentation, short reads and a client side that reads late are not "
        "faults); the run ids of OVERLAPPING calls are pairwise distinct, a serial session may re-use the run id of an earlier "
        "call (it has returned: an ordinary call); handlers terminate once released",
        "step inputs are in the decodable class of Properties/C05.v (what a CBOR / JSON / YAML decoder into `any` produces), "
        "containers non-nil, map keys distinct on the wire (checked by the model on every case: decodableb)",
        "version 1 is exercised against a scripted legacy server written from the client's expectations (atp/client.go "
        "getResultV1): hello{version 1}, one bare work-done per bare work-start, a failing step ends the session",
        "a protocol-3 session that hangs is re-run up to 3 times and counted (known client defect D20, timing dependent, "
        "repaired separately); `hang` is reported only when every attempt hangs",
    ]
    rule = ("c05transparent: generated plugins (1-3 steps; input scope + 1-2 output scopes each from the structured schema "
            "generator: bounded ints/floats, units, strings with patterns, bools, enums, any, lists, maps, nested objects, refs, "
            "one-ofs) x 1-4 calls (input generated FROM the input schema, ~25% mutated so that the schema rejects it, unknown step "
            "ids, scripted outputs from the output schema, undeclared / invalid outputs) x {serial, overlapping with the gates "
            "released in a scripted order different from the issue order, paced by quiescence or in a burst} x {io.Pipe, "
            "OS-pipe-like buffer, either one with every write split into scripted 1..n-byte chunks and scripted short reads} x "
            "{protocol 3: real RunATPServer, protocol 1: scripted legacy server}; serial sessions re-use run ids of earlier calls "
            "(45% of those with >= 2 calls); `overlap held`: 6-12 calls, ~70% with rejected inputs, issued in a burst over protocol 3 "
            "and an unbuffered pipe while the client side does not read (back-pressure on the server's output; reading starts at "
            "quiescence); plus the deterministic D26 replay and its protocol-3 twins; plus c05sched: gate-by-gate schedules of the real "
            "client against a scripted peer (no result lost, duplicated or delivered to another call); distinct by case text; non-trivial = (>= 2 calls or a fragmenting transport) and at least one "
            "accepted input")
    entry["rule"] = (entry.get("rule", "") + " | " if entry.get("rule") else "") + rule
    entry.setdefault("level_text",
                     "Data layer (Properties/C05.v, unbounded): Unserialize gives literally the same outcome on a decodable value "
                     "and on its CBOR round trip, for every schema kind (C05_norm_invariant); hence CallStep as a whole - result, "
                     "handler log, step-data tables - is the same on both (C05_callstep_norm_invariant). Protocol layer, server "
                     "half (unbounded, every client script x behaviour oracle x schedule of the server model ATP/Server.v): a "
                     "work-done for run id r with output o is written only for a consumed work-start with run id r whose execution "
                     "yields o (C05_server_routes_by_run_id; with C07: exactly one per accepted work-start). Protocol layer, client "
                     "half and COMPOSITION (unbounded; model ATP/System.v = client model ATP/Client.v x server model ATP/Server.v x "
                     "the two FIFO streams, the client model's scripted peer replaced by the real server model; every number of "
                     "calls, every input, every behaviour oracle, every schedule incl. every read-ahead and pipe chunking; "
                     "inductive invariants, no bounded sweep): C05_never_cross_delivered - in EVERY reachable state, with or without "
                     "Close, what Execute i has returned is spec_callstep of call i's own input; C05_refines_with_close - for "
                     "sessions WITH or without Close (Close runs concurrently with the calls in flight or after them), at the end "
                     "of EVERY maximal execution every Execute has returned spec_callstep of its own input AND Close has returned "
                     "nil, wait group 0, read loop and signal writers gone (new invariant CInv: FIFO order of the client->server "
                     "stream as a whole - no accepted work-start behind the first client-done, none left unread once the server "
                     "has consumed client-done; server_idle2 for the deferred / gone run() goroutine; the client model's Close "
                     "theorem re-proved for states quiet for the client goroutines only); C05_clean_shutdown - in such a session "
                     "the server side has shut down too: RunATPServer's closure handler has returned, the run() goroutine is gone, "
                     "wait group 0, report channel and pipe empty, no crash; C05_every_execute_returns / C05_refines / "
                     "C05_rejected_is_error (the close = false instances, kept); C05_client_routes_by_run_id (client model alone "
                     "against an arbitrary environment that delivers terminal messages of the calls in any order and multiplicity). "
                     "END TO END over values (ATP/SystemV.v, Proofs/C05Transparent.v): a payload of the composition is a NAME for a "
                     "gval - token i names the input value of call i, the server's behaviour oracle is the class of call_step "
                     "(Call/Step.v: Unserialize, Validate, handler, output lookup, Validate, Serialize) on cbor_norm n_in of that "
                     "value, the data of a work-done is decoded as cbor_norm n_out of the serialized output. "
                     "C05_transparent_end_to_end - for every plugin (schemas, handlers), every session with or without Close over "
                     "decodable inputs, every schedule: every Execute returns v_spec of ITS OWN input value = the in-process "
                     "CallStep result on the ORIGINAL value, output data after one CBOR round trip, and the CallStep the server ran "
                     "on the decoded value is literally the in-process one (same result, same handler log: the handler saw the same "
                     "unserialized input); C05_transparent_reads spells the success path out (data received = "
                     "cbor_norm(serialize(handler output)), handler invoked on unser(input)). The naming is a theorem, not an "
                     "inspection: C05_client_payload_parametric - for every f : P -> Q, mapping f over every payload held in a "
                     "client state commutes with every step of every label of ATP/Client.v - and C05_client_over_values - the "
                     "executions of the client model at payload := gval on the session as stated are exactly the images of the "
                     "token executions; C05_value_level_is_image - ATP/SystemVal.v is the composition as a transition system of its own "
                     "with the client at payload := gval (real values in the callers, on the wire, in the results; the server model "
                     "is handed each message under the name of its run id's call) and its executions ARE the images of the token "
                     "executions, label for label (free theorem + invS + SigInv: a signal carries its caller's input), hence "
                     "C05_transparent_values (the end-to-end statement verbatim for the value-level system) and C05_value_wire "
                     "(every work-start in the value-level pipe carries the input value of the call its run id names). Version 1: "
                     "C05_v1_concurrent_refuted (D26) and C05_v1_serial - under serial use (an "
                     "Execute starts only while none is in flight; every serial execution is an execution of the v1 model) every "
                     "reachable state has result i = CallStep(input i), and when no step fails every maximal serial execution "
                     "returns them all. Non-vacuity by vm_compute to final states: 3 overlapping calls with read-ahead, without "
                     "Close and with Close called while they are in flight (results, CloseOk, server HReturned), the same session "
                     "over gval with a list[int] echo step whose inputs the wire really changes, the serial v1 run. The end-to-end "
                     "differential check of the real client and server against the in-process CallStep (this family) ties the "
                     "composition to the code.")
    entry.setdefault("level_note",
                     "The interpreter (Interp/RunAtpxp.v) predicts each Execute result as cbor_norm of the recorded in-process "
                     "result; the harness re-checks that record against CallStep at run time (inproc-agrees); lib/props_c05.py "
                     "re-implements the normalisation for the direct check. Nothing of the plan is left unproved; what remains are "
                     "MODELLING LIMITS of the statements: (1) in the value-level system the SERVER component still holds values by "
                     "name (ATP/Server.v is not parametric: it takes the payload as an opaque token and consults it only through "
                     "its behaviour oracle, which v_scfg defines as CallStep on the decoded input value of the named call; that the "
                     "value crossing the pipe is that input is proved - C05_value_wire - but that the real server treats the "
                     "payload that way is the C07 correspondence, not a C05 theorem); every Execute of the client model calls step id \"s\" (unknown step ids are the behaviour "
                     "BFails); a signal carries its call's token; (2) run ids must be non-empty: Execute itself rejects a blank run "
                     "id before anything is written (atp/client.go), which the client model does not represent; (3) Close's first "
                     "step is enabled once every Execute of the session has written its work-start (the harness contract of C06): a "
                     "Close that overtakes an Execute still before its write is outside the model; (4) v1 is modelled minimally "
                     "(in-order sequential server; a failing step ends the plugin), the serial discipline is a hypothesis on the "
                     "schedule; (5) healthy transport only (stream faults are C08).")
    entry.setdefault("design_ref", "DESIGN.md §5 C05")
    entry.setdefault("trusted", [])
    entry["trusted"] += ["the session driver (harness/cmd/harness/c05_transparent.go): transports with scripted fragmentation, the "
                         "scripted version-1 server, deadlock detection from runtime.Stack goroutine states with a 10 s backstop, "
                         "token-addressed scripted handlers"]
    props.PROPS["C05"] = entry
