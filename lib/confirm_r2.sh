#!/bin/bash
# usage: lib/confirm_r2.sh Cxx — confirm the second-round independent mutations of /tmp/mut-Cxxb/out/m*/ in a scratch worktree
# (suite passes with the change; the demo TestR2CxxM<k> fails with it and passes without) and keep the confirmed ones as
# seeded/Cxx-r2m<k>/ (patch.diff, demo, meta.json).  The demo's package clause decides where it is placed.
# A later round: lib/confirm_r2.sh Cxx r3 c  (round tag, suffix of the scratch directory /tmp/mut-Cxx<suffix>).
p=$1; rd=${2:-r2}; sfx=${3:-b}; out=/tmp/mut-${p}${sfx}/out; RD=R${rd#r}
export GOFLAGS=-mod=mod GOPROXY=off GOSUMDB=off GOTOOLCHAIN=local
V="$(cd "$(dirname "$0")/.." && pwd)"
W=/tmp/confirm-r2-$p-$$
git -C /repo worktree add --detach $W HEAD >/dev/null 2>&1 || { echo "cannot create worktree"; exit 2; }
trap 'git -C /repo worktree remove --force $W >/dev/null 2>&1' EXIT
lc=$(echo $p | tr A-Z a-z)
flags=""; [ $p = C13 ] && { flags="-race"; export CGO_ENABLED=1; }
suite() { (cd $W && go test -vet=off -count=1 ./... >/dev/null 2>&1) && (cd $W/cmd/arcaflow-codegen && go test -vet=off -count=1 ./... >/dev/null 2>&1); }
for m in "$out"/m*/; do
  k=$(basename $m); k=${k#m}
  demo=$(ls $m/*_test.go 2>/dev/null | head -1)
  [ -f "$m/patch.diff" ] && [ -n "$demo" ] || { echo "$p m$k: incomplete"; continue; }
  pkg=$(grep -m1 '^package ' "$demo" | awk '{print $2}')
  case "$pkg" in atp|atp_test) dir=atp;; main) dir=cmd/arcaflow-codegen;; *) dir=schema;; esac
  dest=$dir/zz_${rd}_${lc}_m${k}_demo_test.go
  rx="Test${RD}${p}M${k}"
  grep -q "func $rx" "$demo" || rx=$(grep -o 'func Test[A-Za-z0-9_]*' "$demo" | head -1 | awk '{print $2}')
  git -C $W checkout -q -- . ; git -C $W clean -fdq
  git -C $W apply "$m/patch.diff" 2>/dev/null || { echo "$p m$k: patch does not apply"; continue; }
  if suite; then s1=pass; else s1=FAIL; fi
  cp "$demo" "$W/$dest"
  if (cd $W/$dir && timeout 900 go test $flags -vet=off -count=1 -run "$rx" . >/dev/null 2>&1); then d1=pass; else d1=fail; fi
  git -C $W checkout -q -- . ; git -C $W clean -fdq
  cp "$demo" "$W/$dest"
  if (cd $W/$dir && timeout 900 go test $flags -vet=off -count=1 -run "$rx" . >/dev/null 2>&1); then d0=pass; else d0=fail; fi
  rm -f "$W/$dest"
  echo "$p m$k: suite_with_change=$s1 demo_with_change=$d1 demo_without_change=$d0"
  if [ $s1 = pass ] && [ $d1 = fail ] && [ $d0 = pass ]; then
    t=$V/seeded/$p-${rd}m$k; mkdir -p $t
    cp "$m/patch.diff" $t/patch.diff; cp "$demo" $t/demo_test.go
    /usr/bin/python3 - "$m/meta.json" "$t/meta.json" "$dest" "$dir" "$rx" "$p" "$rd" <<'PY'
import json, sys
src, dst, d, tdir, r, p, rd = sys.argv[1:8]
try:
    m = json.load(open(src))
except Exception:
    m = {}
m["property"] = p
m["round"] = rd
m["origin"] = "independent sub-agent of a later round (see \"round\") given only the property text and a scratch worktree (asked to look beyond the obvious sites)"
m["confirmed_here"] = {"ran": "lib/confirm_r2.sh in a scratch worktree of /repo: git apply; full suite with the change; demo copied to %s and run with `go test -run '%s' .` in %s with the change and on the unchanged tree" % (d, r, tdir),
                       "suite_passes_with_change": True, "demo_fails_with_change": True, "demo_passes_without_change": True}
json.dump(m, open(dst, "w"), indent=1)
PY
  fi
done
