"""C19 (the code generator): configuration, statistics, direct check, disagreement explanation and the
known-finding class predicate.  Hooked into props.py by `register(props_module)`."""
import hashlib
import re

GO_KEYWORDS = {"break", "case", "chan", "const", "continue", "default", "defer", "else", "fallthrough", "for", "func",
               "go", "goto", "if", "import", "interface", "map", "package", "range", "return", "select", "struct",
               "switch", "type", "var"}


def _s(x):
    """text of a quoted string node of props.sx_parse"""
    return x[1] if isinstance(x, tuple) else x


def _decode(props, case):
    """case line -> ([(object, [(prop, type_id, ref_id)])], ignore or None)"""
    pl = props.case_payload(case)
    objs = [(_s(o[0]), [(_s(p[0]), _s(p[1]), _s(p[2])) for p in o[1]]) for o in pl[1][1]]
    ig = None if pl[2] == "none" else _s(pl[2])
    return objs, ig


def _type_token(tid, rid):
    t = rid if tid == "ref" else tid
    return {"integer": "int64", "float": "float64"}.get(t, t)


def keyword_class(objs, ig):
    """D46: a non-ignored object has a property whose type token is a Go keyword (type id `map`)."""
    return any(_type_token(t, r) in GO_KEYWORDS for o, ps in objs if o != ig for _, t, r in ps)


def _structs(obs):
    """(r ok ((S ((F T TAG)...))...)) -> [(S, [(F, T, TAG)])] or None"""
    if not (isinstance(obs, list) and len(obs) == 3 and obs[0] == "r" and obs[1] == "ok"):
        return None
    return [(_s(s[0]), [(_s(f[0]), _s(f[1]), _s(f[2])) for f in s[1]]) for s in obs[2]]


def make(props):
    def stats(rows):
        distinct = set()
        nontrivial = 0
        samples = []
        forms = {"no_ignore": 0, "ignore_hits_object": 0, "ignore_misses": 0}
        nobj = {}
        nprop = {}
        tids = {}
        outcomes = {}
        for case, obs, pred in rows:
            objs, ig = _decode(props, case)
            m = re.match(r"^\(obs \S+ \(r (\w+)", obs)
            k = m.group(1) if m else "other"
            outcomes[k] = outcomes.get(k, 0) + 1
            h = hashlib.sha1(re.sub(r"^\(case \S+ ", "", case).encode()).digest()
            if h in distinct:
                continue
            distinct.add(h)
            forms["no_ignore" if ig is None else "ignore_hits_object" if any(o == ig for o, _ in objs) else "ignore_misses"] += 1
            nobj[len(objs)] = nobj.get(len(objs), 0) + 1
            for _, ps in objs:
                nprop[len(ps)] = nprop.get(len(ps), 0) + 1
                for _, t, _ in ps:
                    tids[t] = tids.get(t, 0) + 1
            kept = [(o, ps) for o, ps in objs if o != ig]
            # non-trivial: the order of at least one map matters (>= 2 emitted structs, or a struct with >= 2 fields)
            if len(kept) >= 2 or any(len(ps) >= 2 for _, ps in kept):
                nontrivial += 1
                if len(samples) < 3 and len(distinct) % 97 == 1:
                    samples.append({"case": case, "observed": obs})
        return {"cases": len(rows), "distinct": len(distinct), "distinct_nontrivial": nontrivial, "argument_forms": forms,
                "objects_per_document": dict(sorted(nobj.items())), "properties_per_object": dict(sorted(nprop.items())),
                "type_ids": dict(sorted(tids.items())), "observed_outcomes": outcomes, "runs_per_case": 3, "samples": samples}

    def direct(case, obs):
        """The property evaluated on the implementation's observation alone (no model involved)."""
        o = props.sx_parse(obs)
        if not (isinstance(o, list) and o and o[0] == "r"):
            return "unreadable observation %s" % obs[:200]
        kind = o[1] if len(o) > 1 else "?"
        objs, ig = _decode(props, case)
        form = "gen in.yaml" + ("" if ig is None else " " + ig)
        if kind == "crash":
            return "generator crashed/panicked (`%s`, %d objects)" % (form, len(objs))
        if kind == "nondet":
            return ("output differs between runs on the same input (`%s`, %d objects; run 1 = empty directory, run 2 = over "
                    "its own previous output, run 3 = over a longer stale typedef_output.go)" % (form, len(objs)))
        if kind == "hang":
            return "generator did not finish within the time limit (`%s`)" % form
        if kind == "nooutput":
            return "generator exited with status 0 but wrote no typedef_output.go"
        if kind == "unparsable":
            return "typedef_output.go does not parse as Go"
        if kind == "notgofmt":
            return "typedef_output.go is not gofmt-formatted"
        if kind == "unexpected":
            return "typedef_output.go contains something other than struct declarations: %s" % _s(o[2])
        if kind == "buildfail":
            return "cmd/arcaflow-codegen does not build from the working tree"
        if kind != "ok":
            return "unknown observation %s" % obs[:200]
        # exactly one struct per non-ignored object, one tagged field per property, mapped types
        got = _structs(o)
        want = {}
        for name, ps in objs:
            if name == ig:
                continue
            want[name] = sorted((p, _type_token(t, r)) for p, t, r in ps)
        if len(got) != len(want):
            return "%d structs for %d non-ignored objects" % (len(got), len(want))
        # struct and field NAMES are judged by the model (title-casing); here: tags and types per struct,
        # matched through the multiset of (json tag, type) pairs
        gm = sorted(sorted((tag, typ) for _, typ, tag in fs) for _, fs in got)
        wm = sorted(want.values())
        if gm != wm:
            return "fields do not match the properties (json tag, type): got %s, expected %s" % (gm[:3], wm[:3])
        return None

    def explain(case, obs, pred):
        """Everything the property text itself fixes (exit status, run-to-run identity, gofmt validity, struct count,
        json tags, types) is judged by `direct` on the implementation alone.  What is left when the implementation
        and the model still disagree - the ORDER of structs/fields, or the title-cased NAMES - is not fixed by the
        property text, so such a case is not presented as a failing input: check.py then reports the broken
        correspondence (`no-failing-input-found`) unless a direct failure was found as well.  (With map-order
        iteration, D37, about 80 % of the quick cases fail `direct` with `(r nondet)`.)"""
        return None

    def known_keyword_type(m, case, obs, pred):
        if not obs.startswith("(r crash)"):
            return False
        objs, ig = _decode(props, case)
        return keyword_class(objs, ig)

    return stats, direct, explain, known_keyword_type


C19 = {
    "theory": "Properties/C19.v",
    "families": ["codegen"],
    "rule": "codegen: generated schema YAML documents (0-6 objects, 0-8 properties each, every arcaflow type id, references to "
            "present/absent objects and to objects called integer/float, identifier keys incl. leading underscores/digits, YAML "
            "words, Go predeclared names and keywords as keys) x {no ignore argument, ignore = an object key, ignore = no key}; the "
            "generator built from the working tree is run 3 times per case as a subprocess, outputs must be byte-identical, gofmt "
            "fixed points, and are re-parsed with go/parser into (struct, field, type, json tag) in file order; distinct by case text; "
            "non-trivial = at least two emitted structs or a struct with at least two fields (map order matters)",
    "assumptions": ["object/property keys, type ids and referenced ids are ASCII identifiers; no two keys of one map title-case to the "
                    "same Go name; every property has a type.type_id (and type.id for ref); go/format and go/parser are not modelled",
                    "x/text cases.Title on identifiers = upper-case the first ASCII letter (checked exhaustively up to length 6 over 8 "
                    "bytes and on every generated name)"],
    "level_text": "Theorems (unbounded, over all documents, both argument forms): the generator model finishes with the structured output "
                  "whenever no type token is a Go keyword and fails exactly when one is (type id `map`: D46, refuted as stated); the output is in "
                  "one-to-one correspondence with the non-ignored objects and their properties, named by the title-cased key, tagged with the "
                  "key, typed int64/float64/referenced id/type id, in strictly increasing key order; for every permutation of the object map "
                  "and of every property map (Coq Permutation, unique keys) outcome, structure and pre-gofmt text are identical. The pre-fix "
                  "code (unconditional os.Args[2]; map order) is refuted by witnesses. gofmt/go-parser behaviour is tied by the correspondence only.",
    "level_note": "Model = Codegen/Gen.v (hand-written, of the repaired generator: optional ignore argument, sorted keys), tied to "
                  "cmd/arcaflow-codegen/gen.go by running the binary built from the working tree on every generated document and comparing the "
                  "re-parsed output with the extracted model; title-casing is modelled for ASCII identifiers only.",
    "design_ref": "DESIGN.md §5 C19",
    "technique": "machine-checked proof in Coq 8.16.1 of theorems about a hand-written executable Gallina model of gen.go, tied to the code "
                 "by a differential correspondence check (extracted OCaml model vs. the generator binary built from /repo's "
                 "cmd/arcaflow-codegen and run as a subprocess, output re-parsed with go/parser)",
}


def register(props):
    stats, direct, explain, known_keyword_type = make(props)
    props.PROPS["C19"] = C19
    props.FAMILY_STATS["codegen"] = stats
    props.DIRECT[("C19", "codegen")] = direct
    props.EXPLAIN[("C19", "codegen")] = explain
    props.KNOWN_PREDICATES["codegen_keyword_type"] = known_keyword_type
