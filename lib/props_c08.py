"""C08 (a broken or garbled server stream fails client calls; it never hangs them): configuration and engine."""
import hashlib
import os
import re
import subprocess

import atp_engine as ae
import check
import props_c06


def direct_fault_final(session, final):
    """The property's predicate on one observed end of a FAULT session (message-level faults, any schedule)."""
    if not final.startswith("(final"):
        return None
    res, close, left = props_c06._results(final)
    for run, cls, n in res:
        if n > 1:
            return "Execute for run %r returned %d times" % (run, n)
        if cls == "none":
            return "Execute for run %r never returned - a call on a broken or misbehaving stream must fail, not hang (left: %s)" % (run, " ".join(left))
    if "(close 1)" in session and close == "none":
        return "Close never returned (left: %s)" % " ".join(left)
    if close == "panic":
        return "Close panicked"
    # never success for a run whose work-done message did not arrive intact: the scripted peer has no intact work-done
    # message for this run at all (its terminal message is an error or a malformed / data-less work-done message)
    for run, cls, n in res:
        if cls == "ok" and ('(pm "%s" done)' % run) not in session:
            return ("Execute for run %r reports SUCCESS although the peer never sends an intact work-done message for that run "
                    "(its script: %s)" % (run, " ".join(re.findall(r'\(pm "%s" (\w+)\)' % re.escape(run), session))))
    return None


def lost_readahead_class(session, lost, obs, dv):
    """The one place where the model is coarser than the code (ATP/Msg.v: read-ahead is a list of whole items): a read loop
    of the MODEL schedule ends at step `lost` with a non-empty read-ahead buffer and the transport fragments reads
    (frag > 0), so the real decoder held a byte prefix of the next item, or nothing.  Only a difference that shows AT OR
    AFTER that step falls in the class (an earlier divergence is a disagreement like any other)."""
    if lost < 0 or "(frag 0)" in session:
        return False
    if dv is not None:
        return int(dv["idx"]) >= lost
    return obs.startswith("(final")


def d25_class(session, final):
    """D25: the write side fails after the handshake and Close is called while the read loop is still blocked."""
    return "(wfail -1)" not in session and "(close panic)" in final


def flip_check(tr, kind, k, obs, ref):
    """Single-byte corruption (bit `kind[4]` of byte k inverted, the message delivered to its end, then EOF): the result of
    every call has to be what the reference decoding of the corrupted transcript gives (atpdrive/fault_ref.go: fxamacker/cbor
    with the client's decoding options + the client's protocol rules): an error wherever no intact answer can be decoded,
    success where the decoded work-done message equals the one the server sent; where the corruption leaves ANOTHER valid
    message (class othervalid / exec any) only `returns, no panic` is demanded."""
    schema = ae.split_top(ae.field(obs, "schema"))[1]
    execs = ae.split_top(ae.field(obs, "exec"))[1:]
    close = ae.split_top(ae.field(obs, "close"))[1]
    rschema = ae.split_top(ae.field(ref, "schema"))[1]
    rexec = ae.split_top(ae.field(ref, "exec"))[1:]
    rclass = ae.split_top(ae.field(ref, "class"))[1:]
    what = "bit %s of byte %d inverted (message ends at %s)" % (kind[4:], k, next((e for e in tr["ends"] if k < e), "-"))
    if schema == "hang":
        return "ReadSchema hangs (%s)" % what
    if schema == "panic" or rschema == "panic":
        return "ReadSchema panics on a corrupted hello message (%s)" % what
    if schema != rschema:
        return ("ReadSchema %s although the strict reference decoding of the corrupted hello message (same decoding options, "
                "version check, schema.UnserializeSchema) %s it (%s)" % (
                    "succeeded" if schema == "ok" else "failed", "rejects" if rschema == "err" else "accepts", what))
    if schema != "ok":
        return None
    for i, e in enumerate(execs):
        x, cl = rexec[i], rclass[i]
        if e == "hang":
            return "Execute #%d hangs (%s)" % (i, what)
        if e not in ("ok", "err"):
            return "Execute #%d: unexpected outcome %s (%s)" % (i, e, what)
        if x == "err" and e == "ok":
            return ("Execute #%d reports success although no intact work-done message for its run can be decoded from the "
                    "corrupted stream - the reference decoder (the client's own decoding options) gives an error, class %s (%s)"
                    % (i, cl, what))
        if x == "ok" and cl in ("before", "intact") and e != "ok":
            return ("Execute #%d fails although its work-done message %s (%s)" % (
                i, "arrived intact before the corruption" if cl == "before" else "still decodes to exactly what the server sent", what))
    if close in ("hang", "panic"):
        return "Close %ss (%s)" % (close, what)
    return None


def sweep_check(tr, kind, k, obs, ref=None):
    """Direct predicate for one byte-offset case.  tr = dict(ends, okmsg, conc, ver)."""
    if kind.startswith("flip"):
        if ref is None:
            return "the sweep line of a corruption case carries no reference decoding"
        return flip_check(tr, kind, k, obs, ref)
    schema = ae.split_top(ae.field(obs, "schema"))[1]
    execs = ae.split_top(ae.field(obs, "exec"))[1:]
    close = ae.split_top(ae.field(obs, "close"))[1]
    hello_end = tr["ends"][0]
    if schema == "hang":
        return "ReadSchema hangs"
    if schema == "panic":
        return "ReadSchema panics (fault %s at byte %d)" % (kind, k)
    if tr.get("badhello"):
        # the hello message carries an unsupported version / a schema that does not unserialize: whether it arrives
        # intact or is cut / garbled at byte k, ReadSchema has to return an error (no success, no panic, no hang)
        if schema != "err":
            return "ReadSchema %s although the hello message is unusable (unsupported version or invalid schema; fault %s at byte %d of %d)" % (
                "succeeded" if schema == "ok" else "ended with " + schema, kind, k, hello_end)
        return None
    if k < hello_end and schema == "ok":
        return "ReadSchema succeeded although the hello message is cut/garbled at byte %d of %d" % (k, hello_end)
    if k >= hello_end and schema != "ok":
        return "ReadSchema failed although the hello message arrived intact"
    if schema != "ok":
        return None
    for i, e in enumerate(execs):
        m = tr["okmsg"][i]
        intact = m >= 0 and k >= tr["ends"][m]
        if e == "hang":
            return "Execute #%d hangs (stream broken at byte %d)" % (i, k)
        if e == "ok" and not intact:
            return "Execute #%d reports success although its work-done message did not arrive intact (fault at byte %d, message ends at %s)" % (
                i, k, tr["ends"][m] if m >= 0 else "-")
        if e not in ("ok", "err"):
            return "Execute #%d: unexpected outcome %s" % (i, e)
    if close in ("hang", "panic"):
        return "Close %ss" % close
    return None


def engine_c08(prop, tier, seed, work, known):
    gates = ae.build_drive()
    res = {"name": "atpfault", "evaluations": 0, "distinct_nontrivial": 0, "samples": [], "violations": [],
           "disagreements": [], "known_hits": [], "traces_validated_against_impl": 0}
    kf_d25 = next((k for k in known if k["id"] == "D25"), None)
    # ---- 1. message-level faults, model schedules forced on the real client -------------------------------
    cases = os.path.join(work, "c08.cases")
    ae.gen_cases("c08", tier, seed, cases)
    scheds = ae.model_schedules(cases, os.path.join(work, "c08.pred"))
    items, expected, lostidx = [], {}, {}
    for cid, session, ss in scheds:
        for k, (steps, final, complete, _flight, lostbuf) in enumerate(ss):
            if not complete:
                raise check.ProofBroken("model", "a model schedule did not end within the fuel: case %s" % cid)
            i = "%s.%d" % (cid, k)
            items.append((i, session, steps))
            expected[i] = final
            lostidx[i] = lostbuf
    n_lost = 0
    obs = ae.replay(items, os.path.join(work, "replay"), timeout=2400)
    kinds = {}
    distinct = set()
    for i, session, steps in items:
        o = obs[i]
        case = "(sched %s %s %s)" % (i, session, steps)
        fk = ae.field(session, "fault")
        kinds[fk or "none"] = kinds.get(fk or "none", 0) + 1
        distinct.add(hashlib.sha1((session + steps).encode()).digest())
        dv = ae.diverged(o)
        o_eff = dv["final"] if dv and dv["final"] else o     # after a divergence: how the continued session ended
        why = direct_fault_final(session, o_eff)
        why_model = direct_fault_final(session, expected[i])
        if why and dv and not d25_class(session, o_eff):
            # the correspondence broke AND the continuation of that very run on the real client violates the property
            # (an Execute / Close that never returns, a double return, a panic): a concrete failing input
            res["violations"].append(("atpclient", case, o, expected[i], ae.diverged_text(dv, why)))
        elif why:
            if d25_class(session, o_eff) and kf_d25 is not None:
                res["known_hits"].append((kf_d25, case[:300], o[:200]))
            else:
                res["violations"].append(("atpclient", case, o, expected[i], why + " - fault session forced gate by gate on the real client"))
        elif why_model and not (d25_class(session, expected[i])):
            raise check.ProofBroken("model", "the model predicts a hang on a fault session: %s; %s" % (why_model, session))
        elif o != expected[i] and lost_readahead_class(session, lostidx[i], o, dv):
            # a misbehaving peer kept sending after the client had failed the run: the read loop ended with read-ahead in its
            # decoder.  The model drops whole items, the real decoder on a fragmenting transport a byte prefix (or nothing):
            # from that step on only the property's own predicate is checked (it passed: `why` is empty, nothing is stuck)
            n_lost += 1
        elif o != expected[i]:
            res["disagreements"].append(("atpclient", case, o, expected[i]))
        else:
            res["traces_validated_against_impl"] += 1
        if len(res["samples"]) < 2 and len(distinct) % 131 == 1:
            res["samples"].append({"case": case[:1200], "observed": o[:600]})
    res["evaluations"] += len(items)
    res["distinct_nontrivial"] += len(distinct)
    # ---- 2. byte-offset sweep of recorded transcripts --------------------------------------------------------
    sdir = os.path.join(work, "sweep")
    os.makedirs(sdir, exist_ok=True)
    procs = []
    for part in range(ae.NPROC):
        outp = os.path.join(sdir, "sw.%d.out" % part)
        procs.append((outp, subprocess.Popen([ae.ATPDRIVE, "fault", "sweep", tier, str(seed), outp, str(part), str(ae.NPROC)],
                                             env=check.GOENV, stdout=subprocess.DEVNULL, stderr=subprocess.PIPE)))
    nsweep = 0
    per = {}
    flipcls = {}
    for outp, pr in procs:
        try:
            _, err = pr.communicate(timeout=2400)
        except subprocess.TimeoutExpired:
            pr.kill()
            _, err = pr.communicate()
        if pr.returncode != 0:
            # the client brought the process down: a panic / fatal error is itself a violation of C08
            last = open(outp).read().strip().split("\n")[-1] if os.path.exists(outp) else ""
            res["violations"].append(("atpsweep", "(after %s)" % last[:200], "(crash)", "-",
                                      "the driver process died during the byte-offset sweep (panic in the client?): %s" % (err or b"").decode()[-600:]))
        tr = None
        trs = {}
        for line in open(outp) if os.path.exists(outp) else []:
            line = line.rstrip("\n")
            e = ae.split_top(line)
            if e[0] == "tr":
                trs[e[1]] = {"ends": [int(x) for x in ae.split_top(ae.field(line, "ends"))[1:]],
                             "okmsg": [int(x) for x in ae.split_top(ae.field(line, "okmsg"))[1:]],
                             "badhello": ae.field(line, "badhello") == "(badhello 1)",
                             "line": line}
                continue
            name, kind, k, o = e[1], e[2], int(e[3]), e[4]
            ref = e[5] if len(e) > 5 else None
            nsweep += 1
            pk = "flip" if kind.startswith("flip") else kind
            per[(name, pk)] = per.get((name, pk), 0) + 1
            if ref is not None:
                # how the reference decoder classified the corruption (evidence: the oracle is not constant)
                for cl in ae.split_top(ae.field(ref, "class"))[1:]:
                    flipcls[cl] = flipcls.get(cl, 0) + 1
                rs = "hello-" + ae.split_top(ae.field(ref, "schema"))[1]
                if k < trs[name]["ends"][0]:
                    flipcls[rs] = flipcls.get(rs, 0) + 1
            why = sweep_check(trs[name], kind, k, o, ref)
            if why:
                res["violations"].append(("atpsweep", "(sweep %s %s %d %s)" % (name, kind, k, trs[name]["line"]), o, ref or "-", why))
    res["evaluations"] += nsweep
    res["distinct_nontrivial"] += nsweep
    res["stats"] = {"gates": gates, "fault_sessions_replayed": len(items), "fault_kinds": {str(k): v for k, v in sorted(kinds.items(), key=str)},
                    "schedules_past_a_lost_read_ahead_checked_by_the_direct_predicate_only": n_lost,
                    "byte_offset_cases": nsweep, "byte_offset_cases_per_transcript_and_kind": {"%s/%s" % k: v for k, v in sorted(per.items())},
                    "single_byte_corruptions_by_reference_class": dict(sorted(flipcls.items())),
                    "rule": "message-level: distinct (session, schedule); byte-level: every offset of every transcript x {eof, readerr, garbage}; "
                            "single-bit corruption at every offset of the runtime messages (8 bits) and of two hello messages (3 of 8 bits, "
                            "rotating), classified by the strict reference decoder: detected / othererr / eof = the call must fail, "
                            "before / intact = it must succeed, othervalid = another valid message (outside the property)"}
    return res


def replay_atpsweep(d, work):
    ae.build_drive()
    e = ae.split_top(d["case"])
    p = check.run([ae.ATPDRIVE, "fault", "one", e[1], e[2], e[3]], env=check.GOENV, timeout=120)
    check.log(p.stdout)
    lines = [l for l in p.stdout.split("\n") if l.startswith("(")]
    if p.returncode != 0 or len(lines) < 2:
        check.log("VIOLATION property=C08 (the driver died)")
        return 1
    tr = {"ends": [int(x) for x in ae.split_top(ae.field(lines[0], "ends"))[1:]],
          "okmsg": [int(x) for x in ae.split_top(ae.field(lines[0], "okmsg"))[1:]],
          "badhello": ae.field(lines[0], "badhello") == "(badhello 1)"}
    f = ae.split_top(lines[1])
    why = sweep_check(tr, f[2], int(f[3]), f[4], f[5] if len(f) > 5 else None)
    if why:
        check.log("VIOLATION property=C08: " + why)
        return 1
    check.log("no violation on the current tree")
    return 0


def known_d25(m, case, obs, pred):
    return d25_class(case, obs)


C08 = {
    "theory": "Properties/C08.v",
    "families": [],
    "engines": [engine_c08],
    "rule": "atpfault: (1) fault sessions - 1-3 Execute calls (serial/overlapping, optional Close, signals), the scripted peer's n-th "
            "emission replaced by a sticky fault (EOF, read error, garbage, partial message then EOF) for EVERY n of three fixed sessions "
            "and random n of generated ones, plus server-fatal / run-less step-fatal / malformed work-done messages and write-side "
            "failures; model schedules (one per random choice list) are forced on the real client and every observable compared; "
            "(2) byte-offset sweep - transcripts recorded from the real RunATPServer (v3: 2 serial runs, 3 serial runs with a "
            "failing step, 3 concurrent runs) and synthesised in the v1 framing (1 and 2 runs) are replayed free-running to the real "
            "client with the fault at EVERY byte offset x {EOF, read error, garbage}; four hello messages that must be refused "
            "(versions 2 and 9, a schema that does not unserialize, a nil schema) arrive intact and cut/garbled at every byte offset: "
            "ReadSchema has to return an error; hang = quiescence of all goroutines, confirmed after pauses. (3) byte CORRUPTION: one bit "
            "inverted at every offset of every runtime / work-done message of the five transcripts (all 8 bits) and of a v3 and a v1 hello "
            "message (quick: 3 of 8 bits per offset), the corrupted message delivered to its end, then EOF; the verdict of every call is "
            "compared with a reference: the corrupted transcript decoded in the harness by fxamacker/cbor with the client's own options "
            "(stream items strict: unknown field = error; payloads with the default options) and the client's protocol rules - a call "
            "may succeed only through a work-done message for its run id that still decodes, and must succeed when what decodes is "
            "exactly what the server sent.",
    "assumptions": ["byte corruption that still decodes to a different well-formed message is indistinguishable from a lying peer and is "
                    "outside the property; 'garbage' = bytes that are not a CBOR item, followed by the end of the stream; which "
                    "single-byte corruptions are of that kind is decided per case by the reference decoder (class othervalid, counted in "
                    "the evidence), not assumed",
                    "a fault is sticky: once the stream has failed every later read fails too",
                    "read-ahead is modelled as whole items: when a read loop ends while its decoder still holds read-ahead (only after a "
                    "misbehaving peer kept sending for runs the client had already failed) the model drops items, the real decoder on "
                    "a fragmenting transport a byte prefix; from that step of such a schedule on, the replay checks the property's "
                    "own predicate (every call returns, once, no panic) instead of equality with the model - the schedules are counted "
                    "in the evidence",
                    "the version / schema faults of ReadSchema are covered by the sequential model of the handshake (theorem) and by "
                    "the bad-hello cases of the byte-offset sweep (implementation)"],
    "level_text": "Theorems, machine-checked, closed under the global context, for every good session (distinct run ids, every run's "
                  "script holds a terminal message or a fault; the scripted fault - EOF, read error, garbage, partial message - at ANY "
                  "emission; write failures allowed) and every schedule: C08_all_released - every maximal execution ends with every "
                  "Execute returned (C08_no_stuck: no reachable state with an unreturned Execute is stuck; C08_no_livelock); "
                  "C08_fatal_exit_notices + C08_released_with_error - once the read loop has taken its fatal exit on the broken stream, "
                  "every Execute that had not returned (pending or started later) returns an ERROR in every continuation; "
                  "C08_no_fabricated_success - for EVERY session: a caller's Ok implies an intact work-done message for its run id with "
                  "that output was decoded (ghost invariant); C08_close_returns - without write failures Close returns nil in every "
                  "maximal execution and nothing the client started stays blocked; C08_readschema_errors / C08_v1_success_iff_intact "
                  "(sequential handshake and v1 path). D25 (write side fails, read loop still blocked: Close panics after 5 s) is "
                  "refuted by a witness and kept as a known finding.",
    "level_note": "Same model and tie as C06 (coq/ATP/Client.v through cmd/instrument + cmd/atpdrive) with fault scripts; the conservation "
                  "invariant of C06 (Proofs/ATPClientInv.v) covers fault scripts and write failures, so no side condition is left on "
                  "the theorems. The byte-offset sweep (every offset of five transcripts x {EOF, read error, garbage}, plus intact and "
                  "cut hello messages with an unsupported version or an unusable schema) checks the property's own predicate on the "
                  "implementation alone. Outside the theorems: a peer that stops answering on an intact stream; corruption that still "
                  "decodes to another well-formed message; the 5 s timer is a model step.",
    "design_ref": "DESIGN.md §4, §5 C08",
    "trusted": ["cmd/instrument + cmd/atpdrive; the fault-injecting transports"],
}


def register(props):
    props.PROPS["C08"] = C08
    props.REPLAY_HANDLERS["atpsweep"] = replay_atpsweep
    props.KNOWN_PREDICATES["c08_write_side_fails_close_panics"] = known_d25
