"""C08 (a broken or garbled server stream fails client calls; it never hangs them): configuration and engine."""
import hashlib
import os
import subprocess

import atp_engine as ae
import check
import props_c06


def direct_fault_final(session, final):
    """The property's predicate on one observed end of a FAULT session (message-level faults, any schedule)."""
    if not final.startswith("(final"):
        return None
    res, close, left = props_c06._results(final)
    for run, cls, n in res:
        if n > 1:
            return "Execute for run %r returned %d times" % (run, n)
        if cls == "none":
            return "Execute for run %r never returned although the stream is broken (left: %s)" % (run, " ".join(left))
    if "(close 1)" in session and close == "none":
        return "Close never returned (left: %s)" % " ".join(left)
    if close == "panic":
        return "Close panicked"
    return None


def d25_class(session, final):
    """D25: the write side fails after the handshake and Close is called while the read loop is still blocked."""
    return "(wfail -1)" not in session and "(close panic)" in final


def sweep_check(tr, kind, k, obs):
    """Direct predicate for one byte-offset case.  tr = dict(ends, okmsg, conc, ver)."""
    schema = ae.split_top(ae.field(obs, "schema"))[1]
    execs = ae.split_top(ae.field(obs, "exec"))[1:]
    close = ae.split_top(ae.field(obs, "close"))[1]
    hello_end = tr["ends"][0]
    if schema == "hang":
        return "ReadSchema hangs"
    if k < hello_end and schema == "ok":
        return "ReadSchema succeeded although the hello message is cut/garbled at byte %d of %d" % (k, hello_end)
    if k >= hello_end and schema != "ok":
        return "ReadSchema failed although the hello message arrived intact"
    if schema != "ok":
        return None
    for i, e in enumerate(execs):
        m = tr["okmsg"][i]
        intact = m >= 0 and k >= tr["ends"][m]
        if e == "hang":
            return "Execute #%d hangs (stream broken at byte %d)" % (i, k)
        if e == "ok" and not intact:
            return "Execute #%d reports success although its work-done message did not arrive intact (fault at byte %d, message ends at %s)" % (
                i, k, tr["ends"][m] if m >= 0 else "-")
        if e not in ("ok", "err"):
            return "Execute #%d: unexpected outcome %s" % (i, e)
    if close in ("hang", "panic"):
        return "Close %ss" % close
    return None


def engine_c08(prop, tier, seed, work, known):
    gates = ae.build_drive()
    res = {"name": "atpfault", "evaluations": 0, "distinct_nontrivial": 0, "samples": [], "violations": [],
           "disagreements": [], "known_hits": [], "traces_validated_against_impl": 0}
    kf_d25 = next((k for k in known if k["id"] == "D25"), None)
    # ---- 1. message-level faults, model schedules forced on the real client -------------------------------
    cases = os.path.join(work, "c08.cases")
    ae.gen_cases("c08", tier, seed, cases)
    scheds = ae.model_schedules(cases, os.path.join(work, "c08.pred"))
    items, expected = [], {}
    for cid, session, ss in scheds:
        for k, (steps, final, complete, _flight) in enumerate(ss):
            if not complete:
                raise check.ProofBroken("model", "a model schedule did not end within the fuel: case %s" % cid)
            i = "%s.%d" % (cid, k)
            items.append((i, session, steps))
            expected[i] = final
    obs = ae.replay(items, os.path.join(work, "replay"), timeout=2400)
    kinds = {}
    distinct = set()
    for i, session, steps in items:
        o = obs[i]
        case = "(sched %s %s %s)" % (i, session, steps)
        fk = ae.field(session, "fault")
        kinds[fk or "none"] = kinds.get(fk or "none", 0) + 1
        distinct.add(hashlib.sha1((session + steps).encode()).digest())
        why = direct_fault_final(session, o)
        why_model = direct_fault_final(session, expected[i])
        if why:
            if d25_class(session, o) and kf_d25 is not None:
                res["known_hits"].append((kf_d25, case[:300], o[:200]))
            else:
                res["violations"].append(("atpclient", case, o, expected[i], why + " - fault session forced gate by gate on the real client"))
        elif why_model and not (d25_class(session, expected[i])):
            raise check.ProofBroken("model", "the model predicts a hang on a fault session: %s; %s" % (why_model, session))
        elif o != expected[i]:
            res["disagreements"].append(("atpclient", case, o, expected[i]))
        else:
            res["traces_validated_against_impl"] += 1
        if len(res["samples"]) < 2 and len(distinct) % 131 == 1:
            res["samples"].append({"case": case[:1200], "observed": o[:600]})
    res["evaluations"] += len(items)
    res["distinct_nontrivial"] += len(distinct)
    # ---- 2. byte-offset sweep of recorded transcripts --------------------------------------------------------
    sdir = os.path.join(work, "sweep")
    os.makedirs(sdir, exist_ok=True)
    procs = []
    for part in range(ae.NPROC):
        outp = os.path.join(sdir, "sw.%d.out" % part)
        procs.append((outp, subprocess.Popen([ae.ATPDRIVE, "fault", "sweep", tier, str(seed), outp, str(part), str(ae.NPROC)],
                                             env=check.GOENV, stdout=subprocess.DEVNULL, stderr=subprocess.PIPE)))
    nsweep = 0
    per = {}
    for outp, pr in procs:
        try:
            _, err = pr.communicate(timeout=2400)
        except subprocess.TimeoutExpired:
            pr.kill()
            _, err = pr.communicate()
        if pr.returncode != 0:
            # the client brought the process down: a panic / fatal error is itself a violation of C08
            last = open(outp).read().strip().split("\n")[-1] if os.path.exists(outp) else ""
            res["violations"].append(("atpsweep", "(after %s)" % last[:200], "(crash)", "-",
                                      "the driver process died during the byte-offset sweep (panic in the client?): %s" % (err or b"").decode()[-600:]))
        tr = None
        trs = {}
        for line in open(outp) if os.path.exists(outp) else []:
            line = line.rstrip("\n")
            e = ae.split_top(line)
            if e[0] == "tr":
                trs[e[1]] = {"ends": [int(x) for x in ae.split_top(ae.field(line, "ends"))[1:]],
                             "okmsg": [int(x) for x in ae.split_top(ae.field(line, "okmsg"))[1:]],
                             "line": line}
                continue
            name, kind, k, o = e[1], e[2], int(e[3]), e[4]
            nsweep += 1
            per[(name, kind)] = per.get((name, kind), 0) + 1
            why = sweep_check(trs[name], kind, k, o)
            if why:
                res["violations"].append(("atpsweep", "(sweep %s %s %d %s)" % (name, kind, k, trs[name]["line"]), o, "-", why))
    res["evaluations"] += nsweep
    res["distinct_nontrivial"] += nsweep
    res["stats"] = {"gates": gates, "fault_sessions_replayed": len(items), "fault_kinds": {str(k): v for k, v in sorted(kinds.items(), key=str)},
                    "byte_offset_cases": nsweep, "byte_offset_cases_per_transcript_and_kind": {"%s/%s" % k: v for k, v in sorted(per.items())},
                    "rule": "message-level: distinct (session, schedule); byte-level: every offset of every transcript x {eof, readerr, garbage}"}
    return res


def replay_atpsweep(d, work):
    ae.build_drive()
    e = ae.split_top(d["case"])
    p = check.run([ae.ATPDRIVE, "fault", "one", e[1], e[2], e[3]], env=check.GOENV, timeout=120)
    check.log(p.stdout)
    lines = [l for l in p.stdout.split("\n") if l.startswith("(")]
    if p.returncode != 0 or len(lines) < 2:
        check.log("VIOLATION property=C08 (the driver died)")
        return 1
    tr = {"ends": [int(x) for x in ae.split_top(ae.field(lines[0], "ends"))[1:]],
          "okmsg": [int(x) for x in ae.split_top(ae.field(lines[0], "okmsg"))[1:]]}
    f = ae.split_top(lines[1])
    why = sweep_check(tr, f[2], int(f[3]), f[4])
    if why:
        check.log("VIOLATION property=C08: " + why)
        return 1
    check.log("no violation on the current tree")
    return 0


def known_d25(m, case, obs, pred):
    return d25_class(case, obs)


C08 = {
    "theory": "Properties/C08.v",
    "families": [],
    "engines": [engine_c08],
    "rule": "atpfault: (1) fault sessions - 1-3 Execute calls (serial/overlapping, optional Close, signals), the scripted peer's n-th "
            "emission replaced by a sticky fault (EOF, read error, garbage, partial message then EOF) for EVERY n of three fixed sessions "
            "and random n of generated ones, plus server-fatal / run-less step-fatal / malformed work-done messages and write-side "
            "failures; model schedules (one per random choice list) are forced on the real client and every observable compared; "
            "(2) byte-offset sweep - transcripts recorded from the real RunATPServer (v3: 2 serial runs, 3 serial runs with a "
            "failing step, 3 concurrent runs) and synthesised in the v1 framing (1 and 2 runs) are replayed free-running to the real "
            "client with the fault at EVERY byte offset x {EOF, read error, garbage}; hang = quiescence of all goroutines.",
    "assumptions": ["byte corruption that still decodes to a different well-formed message is indistinguishable from a lying peer and is "
                    "outside the property; 'garbage' = bytes that are not a CBOR item, followed by the end of the stream",
                    "a fault is sticky: once the stream has failed every later read fails too",
                    "the version / schema faults of ReadSchema are covered by the sequential model of the handshake"],
    "level_text": "Theorems: the read-loop invariant of C06 holds for every session, faulty peers included (a pending entry always has a "
                  "live read loop, so a broken stream is always noticed); every step decreases the measure (no livelock, Close's "
                  "wait is reached in finitely many steps); the critical section that handles a decode failure or a server-fatal "
                  "message resolves EVERY entry and clears readLoopRunning (so every later Execute starts a loop that fails again); a "
                  "caller returns success only if an intact work-done message for its run id was decoded (all sessions, all "
                  "schedules); ReadSchema fails unless an intact hello with a supported version and a usable schema arrives and the "
                  "start message could be written. D25 (write side fails, read loop still blocked: Close panics after 5 s) is "
                  "refuted by a witness and kept as a known finding.",
    "level_note": "Same model and tie as C06 (coq/ATP/Client.v through cmd/instrument + cmd/atpdrive) with fault scripts; the byte-offset "
                  "sweep checks the property's own predicate on the implementation alone.",
    "design_ref": "DESIGN.md §4, §5 C08",
    "trusted": ["cmd/instrument + cmd/atpdrive; the fault-injecting transports"],
}


def register(props):
    props.PROPS["C08"] = C08
    props.REPLAY_HANDLERS["atpsweep"] = replay_atpsweep
    props.KNOWN_PREDICATES["c08_write_side_fails_close_panics"] = known_d25
