#!/bin/bash
# usage: lib/par_sweep.sh N OUT.tsv [pattern ...] — lib/seeded_sweep.sh over N parallel scratch copies
# (/tmp/psw-<i>/{verif,repo}: a copy of this tree incl. its build, and a detached worktree of /repo's HEAD), the seeded
# ids dealt round-robin; the tables are concatenated into OUT.tsv (sorted by id) and the copies removed.
# /repo itself is never touched; the scratch trees are removed at the end (also on failure).
N=$1; OUT=$2; shift 2
[ $# -gt 0 ] || set -- '*'
V="$(cd "$(dirname "$0")/.." && pwd)"
cd $V
ids=()
for pat in "$@"; do for d in seeded/$pat/; do [ -f $d/patch.diff ] && ids+=("$(basename $d)"); done; done
ids=($(printf '%s\n' "${ids[@]}" | sort -u))
echo "${#ids[@]} seeded changes over $N workers"
cleanup() { for i in $(seq 1 $N); do git -C /repo worktree remove --force /tmp/psw-$i/repo >/dev/null 2>&1; rm -rf /tmp/psw-$i; done; git -C /repo worktree prune; }
trap cleanup EXIT
for i in $(seq 1 $N); do
  rm -rf /tmp/psw-$i; mkdir -p /tmp/psw-$i
  cp -a $V /tmp/psw-$i/verif
  git -C /repo worktree add --detach /tmp/psw-$i/repo HEAD >/dev/null 2>&1
done
for i in $(seq 1 $N); do
  mine=()
  for j in "${!ids[@]}"; do [ $(( j % N + 1 )) = $i ] && mine+=("${ids[$j]}"); done
  # a private Go build cache per worker, removed with the copy: every mutated tree leaves ~100 MB of cache entries behind
  # (319 changes filled the shared cache with 88 GB once)
  ( cd /tmp/psw-$i/verif && GOCACHE=/tmp/psw-$i/gocache VERIF_REPO=/tmp/psw-$i/repo SWEEP_OUT=build/psw.tsv lib/seeded_sweep.sh "${mine[@]}" > /tmp/psw-$i/log 2>&1 ) &
done
wait
: > $OUT
for i in $(seq 1 $N); do cat /tmp/psw-$i/verif/build/psw.tsv >> $OUT; done
sort -o $OUT $OUT
echo "par sweep done: $(grep -c '	CAUGHT	' $OUT) caught, $(grep -c '	missed	' $OUT) missed, $(grep -c '	EQUIV	' $OUT) equivalent, $(grep -c '	NOAPPLY' $OUT) stale, $(grep -c '	NOPROP' $OUT) without a property"
