#!/usr/bin/env python3
"""Resolves merge conflicts in coq/Interp/Run.v (every work package adds one import and one dispatch line at
the same two places) by keeping both sides; and in known_findings.json by keeping both lists of entries."""
import json, os, re, sys
ROOT = os.path.dirname(os.path.dirname(os.path.abspath(__file__)))


def blocks(text):
    out, i = [], 0
    pat = re.compile(r"<<<<<<< [^\n]*\n(.*?)=======\n(.*?)>>>>>>> [^\n]*\n", re.S)
    for m in pat.finditer(text):
        out.append(("t", text[i:m.start()]))
        out.append(("c", m.group(1), m.group(2)))
        i = m.end()
    out.append(("t", text[i:]))
    return out


def run_v():
    p = os.path.join(ROOT, "coq/Interp/Run.v")
    s = open(p).read()
    if "<<<<<<<" not in s:
        return
    res = ""
    for b in blocks(s):
        if b[0] == "t":
            res += b[1]
            continue
        ours, theirs = b[1], b[2]
        if "Require" in ours:
            have = set(re.findall(r"Interp\.\w+", ours))
            new = [m for m in re.findall(r"Interp\.\w+", theirs) if m not in have]
            res += ours
            if new:
                res += "From Verif Require Import %s.\n" % " ".join(dict.fromkeys(new))
        else:
            res += ours
            for l in theirs.splitlines(True):
                if l not in ours:
                    res += l
    open(p, "w").write(res)
    print("resolved Run.v")


def kf():
    p = os.path.join(ROOT, "known_findings.json")
    s = open(p).read()
    if "<<<<<<<" not in s:
        return
    s = re.sub(r"<<<<<<< [^\n]*\n", "", s)
    s = re.sub(r"=======\n", "  },\n  {\n", s)
    s = re.sub(r">>>>>>> [^\n]*\n", "", s)
    d = json.loads(s)
    seen, out = set(), []
    for f in d["findings"]:
        k = (f["id"], f["property"])
        if k in seen:
            continue
        seen.add(k)
        out.append(f)
    d["findings"] = out
    json.dump(d, open(p, "w"), indent=1)
    print("resolved known_findings.json: %d entries" % len(out))


run_v()
kf()
