#!/usr/bin/env python3
"""canon_props.py FILE... — puts the canonical AGREE registry / agree() into a copy of lib/props.py (builders
added slightly different variants of it; identical text on both sides keeps the git merges conflict-free)."""
import re, sys
CANON = '''AGREE = {}   # (property, family) or family -> projection-aware comparison; default: textual equality


def agree(prop, fam, case, obs, pred):
    f = AGREE.get((prop, fam)) or AGREE.get(fam)
    return f(case, obs, pred) if f else obs == pred
'''
for p in sys.argv[1:]:
    s = open(p).read()
    s2 = re.sub(r"(?:^AGREE = [^\n]*\n\n*)?^def agree\(prop, fam, case, obs, pred\):\n(?:[ \t]+[^\n]*\n)+", CANON, s, count=1, flags=re.M)
    if s2 != s:
        open(p, "w").write(s2)
        print("canonicalised", p)
    else:
        print("unchanged", p)
