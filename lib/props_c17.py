"""C17 (a rejection names the offending element): registration of the property, the statistics of
its single-fault family, the property's own predicate on an observation, known-finding classes.

Case syntax (harness/cmd/harness/c17_faults.go, coq/Interp/RunC17.v):
    (c17 ENV SCHEMA (ops (u RAW)|(v NATIVE)|(s NATIVE) ...) (expect ok | (path KIND POSITION "seg"...) ...))
Observation: (r O...), O ::= (ok V) | (err CONSTRAINT? ("seg"...)) | panic
"""
import hashlib
import re

_P = None

_MARKER = re.compile(r"^\{oneof\[.*\]\}$")
OPNAME = {"u": "Unserialize", "v": "Validate", "s": "Serialize"}


def _segs(l):
    return [x[1] if isinstance(x, tuple) else str(x) for x in l]


def _strip_markers(segs):
    return [s for s in segs if not _MARKER.match(s)]


def _show(x, limit=400):
    if isinstance(x, tuple):
        return '"%s"' % x[1]
    if isinstance(x, list):
        s = "(" + " ".join(_show(y, limit) for y in x) + ")"
        return s if len(s) <= limit else s[:limit] + "..."
    return x


def _path_text(segs):
    return "[" + ", ".join(repr(s) for s in segs) + "]"


def _parse(case, obs):
    pl = _P.case_payload(case)
    # (c17 ENV SCHEMA (ops..) (expect..)) / (c17x ENV STRUCTS XSCHEMA (ops..) (expect..))
    ops = pl[-2][1:]
    expect = pl[-1][1:]
    o = _P.sx_parse(obs) if obs.startswith("(") else obs
    return pl, ops, expect, o


def _judge(op, exp, o):
    """None if observation o of operation op meets expectation exp, else a reason."""
    name = OPNAME.get(op[0], op[0])
    if isinstance(o, list) and len(o) == 3 and o[0] == "again":
        # the runner evaluates every call twice on the same schema instance (all the other calls of the case in between)
        # and reports (again FIRST SECOND) where an error is involved and the two differ
        def _p(x):
            return _path_text(_segs(x[2])) if isinstance(x, list) and len(x) == 3 and x[0] == "err" else _show(x, 200)
        want = "accepted" if exp == "ok" else "a constraint error with the path %s" % _path_text(_segs(exp[3:]))
        return ("%s of the SAME value gives different answers within one process: the first evaluation returned %s, the second "
                "(after the other calls of this case) %s; the property demands %s each time - the error of a rejection must not "
                "depend on earlier rejections - value %s" % (name, _p(o[1]), _p(o[2]), want, _show(op[1])))
    if exp == "ok":
        if isinstance(o, list) and o and o[0] == "ok":
            return None
        return ("premise: the generated VALID input is not accepted by %s (observed %s) - value %s"
                % (name, _show(o, 200), _show(op[1])))
    kind, pos, want = exp[1], exp[2], _segs(exp[3:])
    what = "%s of an otherwise valid input whose only fault is '%s' at the %s %s" % (name, kind, pos, _path_text(want))
    if o == "panic":
        return "%s panicked instead of returning a constraint error - value %s" % (what, _show(op[1]))
    if isinstance(o, list) and o and o[0] == "ok":
        return "%s was ACCEPTED (%s) - value %s" % (what, _show(o, 200), _show(op[1]))
    if not (isinstance(o, list) and len(o) == 3 and o[0] == "err"):
        return "%s gave the malformed observation %s" % (what, _show(o, 200))
    if o[1] != "1":
        return ("%s returned an error that is not a *ConstraintError, so it carries no path at all - value %s"
                % (what, _show(op[1])))
    got = _strip_markers(_segs(o[2]))
    if got != want:
        return ("%s returned a constraint error whose path is %s; the path leading to the offending element is %s - value %s"
                % (what, _path_text(_segs(o[2])), _path_text(want), _show(op[1])))
    return None


def c17_direct(case, obs):
    try:
        pl, ops, expect, o = _parse(case, obs)
    except Exception as e:  # a case we cannot read is a harness bug, not a verdict
        return None
    if not (isinstance(o, list) and o and o[0] == "r"):
        if o in ("panic", "crash", "hang"):
            return "the SDK %s while running the single-fault case" % {"panic": "panicked", "crash": "crashed", "hang": "hung"}[o]
        return None
    res = o[1:]
    if len(res) != len(ops) or len(expect) != len(ops):
        return None
    premise = {}
    for i, (op, exp) in enumerate(zip(ops, expect)):
        if exp == "ok":
            premise[op[0]] = _judge(op, exp, res[i])
    for i, (op, exp) in enumerate(zip(ops, expect)):
        if exp == "ok":
            if premise[op[0]] is not None:
                return "op#%d %s" % (i, premise[op[0]])
            continue
        if premise.get(op[0]) is not None:
            continue
        r = _judge(op, exp, res[i])
        if r is not None:
            return "op#%d %s" % (i, r)
    return None


def c17_failing_ops(case, obs):
    """[(index, op, expectation, observation)] of every operation that fails the property (for class predicates)."""
    pl, ops, expect, o = _parse(case, obs)
    out = []
    if not (isinstance(o, list) and o and o[0] == "r"):
        return out
    for i, (op, exp) in enumerate(zip(ops, expect)):
        if i + 1 < len(o) and _judge(op, exp, o[i + 1]) is not None:
            out.append((i, op, exp, o[i + 1]))
    return out


def c17_explain(case, obs, pred):
    # the direct check already judged the observation against the property; a remaining difference
    # is between the implementation and the model (e.g. a marker segment), not a failing input
    return None


def c17_stats(rows):
    kinds, poss, modes, depths, outcomes = {}, {}, {}, {}, {}
    distinct = set()
    nfaults = nontrivial = accepted_valid = 0
    samples = []
    for case, obs, pred in rows:
        try:
            pl, ops, expect, o = _parse(case, _P_strip(obs))
        except Exception:
            continue
        res = o[1:] if isinstance(o, list) and o and o[0] == "r" else []
        schema_txt = _show(pl[-3], 100000)
        for i, (op, exp) in enumerate(zip(ops, expect)):
            ob = res[i] if i < len(res) else "?"
            cls = ob[0] if isinstance(ob, list) and ob else ob
            if exp == "ok":
                if cls == "ok":
                    accepted_valid += 1
                continue
            nfaults += 1
            k = "%s/%s" % (exp[2], exp[1])
            kinds[k] = kinds.get(k, 0) + 1
            modes[op[0]] = modes.get(op[0], 0) + 1
            d = len(exp) - 3
            depths[d] = depths.get(d, 0) + 1
            oc = cls if cls != "err" else "err/%s" % ob[1]
            outcomes[oc] = outcomes.get(oc, 0) + 1
            h = hashlib.sha1((schema_txt + _show(op, 100000)).encode()).digest()
            if h in distinct:
                continue
            distinct.add(h)
            if d >= 1:
                nontrivial += 1
        if len(samples) < 3 and len(ops) > 2 and (len(distinct) % 7 == 1):
            samples.append({"case": case[:3000], "observed": obs[:1500]})
    return {"cases": len(rows), "valid_inputs_accepted": accepted_valid, "single_fault_operations": nfaults,
            "by_position_and_corruption": dict(sorted(kinds.items())), "by_operation": modes,
            "expected_path_length": dict(sorted(depths.items())), "observed_outcomes": outcomes,
            "distinct": len(distinct), "distinct_nontrivial": nontrivial, "samples": samples}


def _P_strip(obs):
    m = re.match(r"^\(obs \S+ (.*)\)$", obs)
    return m.group(1) if m else obs


def register(props):
    global _P
    _P = props
    props.FAMILY_STATS["c17"] = c17_stats
    props.DIRECT[("C17", "c17")] = c17_direct
    props.EXPLAIN[("C17", "c17")] = c17_explain
    props.FAMILY_STATS["c17struct"] = c17_stats
    props.DIRECT[("C17", "c17struct")] = c17_direct
    props.EXPLAIN[("C17", "c17struct")] = c17_explain
    props.PROPS["C17"] = {
        "theory": "Properties/C17.v",
        "families": ["c17", "c17struct"],
        "rule": "c17: generated nested schemas (objects / lists / maps / one-ofs / `any` leaves, through scopes and references, depth 1-3) "
                "with an input built from the schema that Unserialize (raw form, every representation), Validate and Serialize "
                "(native form, exactly typed or any-typed containers) accept - acceptance is part of the observation; then "
                "every leaf, map key, container and presence rule corrupted one at a time with every applicable corruption "
                "(wrong type in several flavours, below min, above max, NaN, not in enum, pattern miss, list/map size, "
                "extra key, non-string key, missing required, required_if, required_if_not, conflicts, one-of discriminator "
                "missing/unknown/mistyped; inside the value of an `any` schema every element and map key replaced by nil, a "
                "channel, an unsigned integer above MaxInt64) for Unserialize on the raw form and for Validate and Serialize on the native form; "
                "35 % of the properties (60 % inside one-of members) carry display data (a named property's errors are re-wrapped on a "
                "code path of their own); half of the one-property objects are written in the single-property shorthand (the value of "
                "the property instead of a map) at any depth, in the raw form; integer and int-enum map keys - with units (bytes, seconds) "
                "and without - are written, 60 % of the time, as a TEXT that is not the decimal text of the key's value ('01', '+1', ' 1', "
                "'1kB', '2 kilobytes', '1m30s'): the expected segment of a fault below such a key is the key AS WRITTEN in the value at "
                "hand (the raw text for Unserialize, the converted key for Validate / Serialize); 12 % of the properties are DISABLED "
                "(half of them without a stated reason), absent from the valid input, and 'the disabled property is used' is a "
                "corruption of its own (Unserialize; path = the property); a blank text is among the wrong-type corruptions of every "
                "number and bool. EVERY call of a case is evaluated TWICE on the same schema instance in the same process - the whole "
                "list, then the whole list again - and an error that differs between the two evaluations is reported as such "
                "(history-independence of error paths: an error value shared between calls and extended in place accumulates segments). "
                "c17struct: the same machinery on STRUCT-MAPPED objects (NewStructMappedObjectSchema[T] and [*T] over the struct family "
                "of xstruct_types.go - scalar, pointer, nested struct, pointer-to-struct, slices / maps of structs and of pointers, "
                "embedded struct, `any` and map-based members, through scopes and references; every property id is a json tag that "
                "differs from the Go field name): valid input and single faults generated on the map-based twin, the native values for "
                "Validate / Serialize rebuilt as Go structs by reflection (faults with no struct representation are applied to the raw "
                "form only), paths compared exactly with Schema/XOps.v and judged directly. "
                "distinct = distinct (schema, operation, corrupted value); non-trivial = the expected path has at least one segment",
        "assumptions": ["exactly one fault per input (with several, the first error follows Go's map iteration order)",
                        "lenient readings: an undeclared / non-string key and a bad one-of discriminator are reported at the "
                        "enclosing object / one-of (the key is named in the message); {oneof[k]} marker segments are ignored",
                        "map keys are strings, integers or booleans (what the model renders of fmt's %v)"],
        "level_text": "Theorems (unbounded: every fuel, environment, value, child schema, nesting depth): every failure of a scalar / "
                      "enum / pattern schema is a constraint error with the empty path (Unserialize and Validate); a list returns its "
                      "first failing item's error with exactly '[i]' in front, a map its failing key's with '{k}' / value's with '[k]', "
                      "for ANY child schema; with one faulty entry the result is the same for every permutation of the entries (maps under "
                      "Unserialize and Validate, the properties of an object given as a map, maps inside `any`); "
                      "by induction on the position, the path of the error is the path to the single fault, for each entry point: "
                      "C17_single_fault_path_unserialize (leaves, lists, maps, objects given as maps - property name in front, "
                      "undeclared key at the object, violated presence rule at the declaring property, defaults and the "
                      "single-property shorthand included -, one-ofs, references, scopes); C17_single_fault_path_validate (the same "
                      "kinds; through a one-of in its three failure modes: selection, the member's compatibility pre-check - "
                      "C17_compat_single_fault_path, the model of fix D67 -, the member's own Validate below one {oneof[k]} marker; "
                      "paths compared modulo markers); C17_single_fault_path_serialize (lists and maps run Validate first, objects "
                      "property by property, one-ofs without marker); C17_any_single_fault_path: inside the value of an `any` schema "
                      "('[i]' per list level, '{k}' for a key, '[k']' with the converted key for a value; every scalar failure is a "
                      "constraint error - after the fix of D53), a position of all three relations. Not proved, decided by the "
                      "direct check on the implementation and the path-exact correspondence only: struct-mapped objects (family "
                      "c17struct: paths compared exactly with the struct layer Schema/XOps.v, no path theorem over it), `any` "
                      "values below a one-of (its compatibility pre-check reads them by rules of its own).",
        "level_note": "Model = Schema/Ops.v with the segment syntax of schema/{list,map,object,oneof}.go, after the fixes for D34, D66, D67, D53; "
                      "tied to the code by the c17 family: implementation and extracted model are compared INCLUDING paths, and every "
                      "observation is judged directly against the expected path computed by the generator.",
        "design_ref": "DESIGN.md §5 C17",
    }
