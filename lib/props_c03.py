"""C03 (object presence rules, defaults, shorthand, one-of dispatch): registration, family statistics,
the property's own predicate on an observation (a tiny re-implementation of the declarative rule, written
from the property text, evaluated on the case descriptor), explanation of a disagreement with the model.

Hooked into props.py by `props_c03.register(_sys.modules[__name__])` (last lines of props.py).
Family c03objects (harness/cmd/harness/c03_objects.go): ordinary schema cases (label "schema"):
    (sch ENV SCHEMA (ops (u V) (v V) (s V) (rt V) ...))   ->   (r O ...)
"""
import hashlib
import re

_P = None
MAXI64 = 2 ** 63 - 1
MINI64 = -2 ** 63

# ------------------------------------------------------------------------------------------
# a fast reader for the interchange syntax (regex tokeniser; strings are ('s', text))
# ------------------------------------------------------------------------------------------
_TOK = re.compile(r'\(|\)|"(?:[^"\\]|\\[0-9a-fA-F]{2})*"|[^\s()"]+')
_ESC = re.compile(r"\\([0-9a-fA-F]{2})")


def parse(s):
    stack = [[]]
    for m in _TOK.finditer(s):
        t = m.group()
        if t == "(":
            stack.append([])
        elif t == ")":
            l = stack.pop()
            stack[-1].append(l)
        elif t[0] == '"':
            body = t[1:-1]
            if "\\" in body:
                body = _ESC.sub(lambda k: chr(int(k.group(1), 16)), body)
            stack[-1].append(("s", body))
        else:
            stack[-1].append(t)
    return stack[0][0]


def show(x):
    if isinstance(x, tuple):
        return '"%s"' % x[1]
    if isinstance(x, list):
        return "(" + " ".join(show(y) for y in x) + ")"
    return str(x)


# ------------------------------------------------------------------------------------------
# the declarative rule (property text of C03), on descriptors
# ------------------------------------------------------------------------------------------
REJECT = "reject"
UNKNOWN = "unknown"      # the property text does not determine this case: the direct check abstains


def head(x):
    return x[0] if isinstance(x, list) and x and isinstance(x[0], str) else x


def float_int(fx):
    """exact integer value of a float node, or None"""
    if fx in ("+0", "-0"):
        return 0
    if isinstance(fx, list):
        m, e = int(fx[1]), int(fx[2])
        if e < 0:
            return None          # canonical form has an odd mantissa: not integral
        v = m * 2 ** e
        return -v if fx[0] == "-" else v
    return None


def raw_int(v):
    """the fixed lenient readings of an integer: every int/uint width, integral floats, decimal strings"""
    h = head(v)
    if h == "i" and isinstance(v[1], str):
        z = int(v[2])
        return z if z <= MAXI64 else REJECT
    if h == "s" and v[1] == "str":
        t = v[2][1]
        if re.fullmatch(r"[+-]?[0-9]+", t) and MINI64 <= int(t) <= MAXI64:
            return int(t)
        return REJECT
    if h == "f" and v[1] in ("f64", "f32"):
        z = float_int(v[2])
        return z if z is not None and MINI64 <= z <= MAXI64 else REJECT
    if h == "b" and v[1] == "bool":
        return UNKNOWN           # the code reads true/false as 1/0; the property text is silent
    return REJECT


def raw_str(v):
    h = head(v)
    if h == "s" and v[1] == "str":
        return v[2][1]
    if h == "i" and isinstance(v[1], str):
        return str(int(v[2]))
    if h == "f" and v[1] in ("f64", "f32"):
        return UNKNOWN           # fmt %f rendering: C02's business
    return REJECT


def vint(z):
    return ["i", "i64", str(z)]


def vstr(t):
    return ["s", "str", ("s", t)]


def map_entries(v):
    """value node (m TYPE isnil (k v)...) -> (type, [(k, v)]) or None"""
    if head(v) == "m":
        return v[1], [(e[0], e[1]) for e in v[3:]]
    return None


STRMAP = ["map", "str", "any"]


def props_of(obj):
    out = {}
    for name, p in obj[3]:
        out[name[1]] = {"type": p[1], "req": p[3] == "1", "rif": [x[1] for x in p[4]], "rifn": [x[1] for x in p[5]],
                        "confl": [x[1] for x in p[6]], "dflt": None if p[7] == "none" else p[7][1], "dis": p[10] == "1"}
    return out


def decode_default(txt):
    """JSON text of the defaults used by the family: a number or a quoted string"""
    if re.fullmatch(r"-?[0-9]+", txt):
        return ["f", "f64", ["+" if int(txt) >= 0 else "-", str(abs(int(txt))), "0"]] if int(txt) != 0 else ["f", "f64", "+0"]
    m = re.fullmatch(r'"([^"\\]*)"', txt)
    if m:
        return vstr(m.group(1))
    return None


def rules_hold(props, present):
    for n, p in props.items():
        if n in present:
            if any(c in present for c in p["confl"]):
                return False
        else:
            if p["req"]:
                return False
            if any(r in present for r in p["rif"]):
                return False
            if p["rifn"] and not any(r in present for r in p["rifn"]):
                return False
    return True


def unser(t, v, scope=None):
    """Unserialize by the declarative rule: a native value (as a value node / dict for objects), REJECT or UNKNOWN"""
    h = head(t)
    if h == "int":
        z = raw_int(v)
        return z if z in (REJECT, UNKNOWN) else vint(z)
    if h == "string":
        s = raw_str(v)
        return s if s in (REJECT, UNKNOWN) else vstr(s)
    if h == "scope":
        tab = {o[0][1]: o[1] for o in t[1]}
        return unser(tab[t[2][1]], v, tab)
    if h == "ref":
        return unser(scope[t[1][1]], v, scope)
    if h == "object":
        props = props_of(t)
        me = map_entries(v)
        supplied = {}
        if me is None:
            if len(props) != 1:
                return REJECT
            supplied[next(iter(props))] = v          # a lone non-map value: shorthand for the single property
        else:
            for k, x in me[1]:
                if not (head(k) == "s" and k[1] == "str"):
                    return REJECT                    # non-string key
                if k[2][1] not in props:
                    return REJECT                    # undeclared key
                supplied[k[2][1]] = x
        present = {}
        unknown = False
        for n, p in props.items():
            if n in supplied:
                d = supplied[n]                      # a supplied value is never replaced
            elif p["dflt"] is not None:
                d = decode_default(p["dflt"])
                if d is None:
                    return UNKNOWN
            else:
                continue
            if p["dis"]:
                return REJECT                        # a disabled property is in use
            x = unser(p["type"], d, scope)
            if x == REJECT:
                return REJECT
            if x == UNKNOWN:
                unknown = True
            present[n] = x
        if not rules_hold(props, present):
            return REJECT
        return UNKNOWN if unknown else present
    if h == "oneof":
        int_keys, field, inlined = t[1] == "1", t[3][1], t[4] == "1"
        me = map_entries(v)
        if me is None:
            return REJECT
        entries = {}
        for k, x in me[1]:
            if not (head(k) == "s" and k[1] == "str"):
                return REJECT
            entries[k[2][1]] = x
        if field not in entries:
            return REJECT
        key = raw_int(entries[field]) if int_keys else raw_str(entries[field])
        if key in (REJECT, UNKNOWN):
            return key
        members = {(int(m[0]) if int_keys else m[0][1]): m[1] for m in t[2]}
        if key not in members:
            return REJECT
        body = [(k, x) for k, x in me[1] if inlined or k[2][1] != field]
        r = unser(members[key], ["m", STRMAP, "0"] + [[k, x] for k, x in body], scope)
        if r in (REJECT, UNKNOWN):
            return r
        if not inlined:
            r[field] = vint(key) if int_keys else vstr(key)
        return r
    return UNKNOWN


def native(t, v, scope=None, ser=False):
    """Validate / Serialize on a native value: the serialized value (== the native one for this family), REJECT, UNKNOWN"""
    h = head(t)
    if h == "int":
        return v if head(v) == "i" and v[1] == "i64" else (UNKNOWN if head(v) in ("i", "f") else REJECT)
    if h == "string":
        return v if head(v) == "s" and v[1] == "str" else (UNKNOWN if head(v) in ("s", "i", "sl") else REJECT)
    if h == "scope":
        tab = {o[0][1]: o[1] for o in t[1]}
        return native(tab[t[2][1]], v, tab, ser)
    if h == "ref":
        return native(scope[t[1][1]], v, scope, ser)
    if h == "object":
        props = props_of(t)
        me = map_entries(v)
        if me is None or me[0] != STRMAP:
            return REJECT if me is None else UNKNOWN     # only map[string]any is the native form
        present = {}
        unknown = False
        for k, x in me[1]:
            if k[2][1] not in props:
                return REJECT
            r = native(props[k[2][1]]["type"], x, scope, ser)
            if r == REJECT:
                return REJECT
            unknown = unknown or r == UNKNOWN
            present[k[2][1]] = r
        if not rules_hold(props, present):
            return REJECT
        return UNKNOWN if unknown else present
    if h == "oneof":
        int_keys, field, inlined = t[1] == "1", t[3][1], t[4] == "1"
        me = map_entries(v)
        if me is None:
            return REJECT
        if me[0] != STRMAP:
            return UNKNOWN
        entries = {k[2][1]: x for k, x in me[1]}
        d = entries.get(field)
        if d is None or d == "nil":
            return REJECT
        if int_keys:
            if not (head(d) == "i" and d[1] == "i64"):
                return REJECT if head(d) != "i" or isinstance(d[1], str) else UNKNOWN
            key = int(d[2])
        else:
            if not (head(d) == "s" and d[1] == "str"):
                return REJECT
            key = d[2][1]
        members = {(int(m[0]) if int_keys else m[0][1]): m[1] for m in t[2]}
        if key not in members:
            return REJECT
        body = [[k, x] for k, x in me[1] if inlined or k[2][1] != field]
        r = native(members[key], ["m", STRMAP, "0"] + body, scope, ser)
        if r in (REJECT, UNKNOWN):
            return r
        if field not in r:
            r[field] = d
        return r
    return UNKNOWN


def obs_map(o):
    """(ok (m (map str any) 0 ((s str "k") V)...)) -> {k: V} or None"""
    if head(o) != "ok":
        return None
    me = map_entries(o[1])
    if me is None or me[0] != STRMAP:
        return None
    return {k[2][1]: x for k, x in me[1]}


def plain(x):
    """nested dicts (objects inside objects) to value nodes for comparison"""
    if isinstance(x, dict):
        return ["m", STRMAP, "0"] + [[vstr(k), plain(x[k])] for k in sorted(x)]
    return x


def same_value(exp, got):
    if isinstance(exp, dict):
        g = map_entries(got)
        if g is None or g[0] != STRMAP:
            return False
        gd = {k[2][1]: x for k, x in g[1]}
        return set(gd) == set(exp) and all(same_value(exp[k], gd[k]) for k in exp)
    return exp == got


def c03_direct(case, obs):
    pl = parse(case)[3]
    if head(pl) != "sch":
        return None
    o = parse(obs) if obs.startswith("(") else obs
    if head(o) != "r":
        if obs in ("panic", "crash", "hang") or head(o) == "build-failed":
            return "the SDK gave %s on a well-formed object / one-of schema: %s" % (obs[:60], show(pl[2])[:300])
        return None
    schema = pl[2]
    for i, opx in enumerate(pl[3][1:]):
        kind, v = opx[0], opx[1]
        ob = o[i + 1] if i + 1 < len(o) else "?"
        if kind == "rt":
            kind, ob = "u", (ob[1] if isinstance(ob, list) and len(ob) > 1 else ob)
        if ob in ("panic", "crash", "hang"):
            return "%s panicked on %s under schema %s" % ({"u": "Unserialize", "v": "Validate", "s": "Serialize"}.get(kind, kind), show(v)[:200], show(schema)[:300])
        if kind == "u":
            exp = unser(schema, v)
        elif kind in ("v", "s"):
            exp = native(schema, v, None, kind == "s")
        else:
            continue
        if exp == UNKNOWN:
            continue
        what = {"u": "Unserialize", "v": "Validate", "s": "Serialize"}[kind]
        accepted = head(ob) == "ok"
        if exp == REJECT and accepted:
            return "%s accepted %s, which the declared rules of %s reject (result %s)" % (what, show(v)[:300], show(schema)[:600], show(ob)[:200])
        if exp != REJECT and not accepted:
            return "%s rejected %s, which the declared rules of %s accept (expected %s)" % (what, show(v)[:300], show(schema)[:600], show(plain(exp))[:200])
        if exp != REJECT and kind in ("u", "s") and not same_value(exp, ob[1]):
            return "%s of %s under %s returned %s; the declared rules give %s" % (what, show(v)[:300], show(schema)[:600], show(ob[1])[:300], show(plain(exp))[:300])
    return None


def c03_explain(case, obs, pred):
    if obs.startswith("(bad") or pred.startswith("(bad"):
        return None
    pl = parse(case)[3]
    o, p = parse(obs), parse(pred)
    if head(o) != "r" or head(p) != "r":
        return None
    for i, opx in enumerate(pl[3][1:]):
        a = o[i + 1] if i + 1 < len(o) else "?"
        b = p[i + 1] if i + 1 < len(p) else "?"
        if _P.strip_err_paths(show(a)) != _P.strip_err_paths(show(b)):
            # C03_object_iff / C03_oneof_routes / C03_paths_agree fix accept/reject and the result of every such call
            return ("%s %s under %s: the implementation gives %s, the proved model (C03_object_iff, C03_oneof_routes, C03_paths_agree) gives %s"
                    % ({"u": "Unserialize", "v": "Validate", "s": "Serialize", "rt": "round trip of"}.get(opx[0], opx[0]),
                       show(opx[1])[:300], show(pl[2])[:600], show(a)[:300], show(b)[:300]))
    return None


def c03_stats(rows):
    nprops, kinds, outcomes = {}, {}, {}
    distinct = set()
    nontrivial = 0
    samples = []
    for case, obs, pred in rows:
        h = hashlib.sha1(re.sub(r"^\(case \S+ ", "", case).encode()).digest()
        new = h not in distinct
        distinct.add(h)
        pl = parse(case)[3]
        s = pl[2]
        root = s
        if head(s) == "scope":
            root = {o[0][1]: o[1] for o in s[1]}[s[2][1]]
        k = head(s)
        if k == "object":
            n = len(s[3])
            nprops[n] = nprops.get(n, 0) + 1
            ruled = any(p[1][3] == "1" or p[1][4] or p[1][5] or p[1][6] or p[1][7] != "none" or p[1][10] == "1" for p in s[3])
        else:
            k = "oneof" if head(root) != "object" or any(head(p[1][1]) == "oneof" for p in root[3]) else k
            ruled = True
        kinds[k] = kinds.get(k, 0) + 1
        o = parse(obs) if obs.startswith("(") else obs
        if head(o) == "obs":
            o = o[2]
        acc = rej = 0
        if head(o) == "r":
            for i, opx in enumerate(pl[3][1:]):
                ob = o[i + 1] if i + 1 < len(o) else "?"
                if opx[0] == "rt" and isinstance(ob, list) and len(ob) > 1:
                    ob = ob[1]
                key = "%s:%s" % (opx[0], "ok" if head(ob) == "ok" else ("err" if head(ob) == "err" else str(ob)[:8]))
                outcomes[key] = outcomes.get(key, 0) + 1
                acc += head(ob) == "ok"
                rej += head(ob) == "err"
        # non-trivial: the schema carries at least one rule / default / disabled flag (or is a one-of) and the case
        # contains both an accepted and a rejected call
        if new and ruled and acc and rej:
            nontrivial += 1
        if len(samples) < 3 and new and len(distinct) % 1499 == 1:
            samples.append({"case": case[:1500], "observed": obs[:600]})
    return {"cases": len(rows), "schema_kinds": kinds, "object_property_counts": nprops, "outcomes_per_path": outcomes,
            "distinct": len(distinct), "distinct_nontrivial": nontrivial,
            "exhaustive": "0 and 1 properties: every configuration {required, default in {none, converted, rejected}, disabled, required_if, "
                          "required_if_not, conflicts subsets incl. self}; 2 properties: property a in every configuration over {a,b} x property b "
                          "in every rule-free mode (quick: 4 modes, thorough: 8); 3 properties (thorough): a in every configuration over {a,b,c} x "
                          "12 partner modes; each x every subset of supplied properties x {map[string]any, map[any]any} x {Unserialize, Validate, "
                          "Serialize}; the full 2-property product (262144 schemas) and 3..8 properties are seeded samples; one-of: 1..4 members x "
                          "int/string keys x inlined or not x every discriminator representation",
            "samples": samples}


def register(props):
    global _P
    _P = props
    for fam in ("c03objects", "c03rebuilt"):
        props.FAMILY_STATS[fam] = c03_stats
        props.DIRECT[("C03", fam)] = c03_direct
        props.EXPLAIN[("C03", fam)] = c03_explain
    prev_agree = props.agree

    def agree(prop, fam, case, obs, pred):
        if fam in ("c03objects", "c03rebuilt"):
            # error paths and the constraint flag are not C03's observables (with several faults the first error depends on
            # Go's map iteration order): accept/reject and the result value are
            return obs == pred or props.strip_err_paths(obs) == props.strip_err_paths(pred)
        return prev_agree(prop, fam, case, obs, pred)
    props.agree = agree
    props.PROPS["C03"] = {
        "theory": "Properties/C03.v",
        "families": ["c03objects", "c03rebuilt", "structobj"],
        "rule": "c03objects: map-based objects whose properties are unbounded ints, so acceptance is decided by keys, presence rules, "
                "defaults and the disabled flag alone; see `exhaustive` in the family statistics for the enumerated space; distinct by case "
                "text; non-trivial = the schema carries a rule/default/disabled flag (or is a one-of) and the case has an accepted and a "
                "rejected call. c03rebuilt: the same objects (every one-property configuration, sampled two-property and 3..6-property "
                "ones, defaults below the root through a reference / an inline object / a one-of member) built by the constructors, then "
                "SelfSerialize -> (real CBOR round trip for every other case) -> UnserializeScope or, for scopes without references, "
                "DescribeScope().Unserialize without the link step; the operations run on THAT instance "
                "(decoded-default cache still empty), the first one an Unserialize of the empty map; predicted by the model of the "
                "original schema. structobj: struct-mapped objects (lib/props_struct.py), incl. Validate and Serialize of one native "
                "value giving one verdict; one-ofs over struct-mapped members at the top and as the member of a struct (XHold): inlined "
                "ones whose members declare the discriminator as an optional / treat-empty-as-default / required property (XKindP, "
                "XKindV, XKindI), non-inlined ones over distinct struct types and a map-based member, with HAND-BUILT native member "
                "values (own discriminator field unset, set, set to another key) through Validate, Serialize and sr = Serialize then "
                "Unserialize; direct predicates: what Serialize of a one-of returns carries the discriminator; under an inlined "
                "discriminator it comes back from Unserialize as a value of the same Go type (known finding D85 otherwise)",
        "assumptions": ["property names of an object and keys of a raw map are unique (Go maps)",
                        "struct-mapped objects are covered by the struct-mapped extension of the model (another work package)"],
        "level_text": "Theorems (all property lists, all rule graphs, all raw maps, unbounded): Unserialize of a map-based object returns Ok n "
                      "iff the declarative object_accepts holds (string keys, all declared, or single-property shorthand; supplied values win "
                      "over defaults; decoded defaults go through the property type; no disabled property in use; required / required_if / "
                      "required_if_not / conflicts after defaulting) and n is that map; invariant under permutation of the property list; "
                      "one-of routes by the typed discriminator alone, passes it on iff inlined, accepts iff the member accepts and stores the "
                      "typed discriminator; Validate and Serialize enforce one and the same native predicate.",
        "level_note": "Model = Schema/Ops.v (hand-written from schema/object.go, property.go, oneof.go), declarative side Schema/SpecObj.v; "
                      "tied to the code by the exhaustive small-scope family c03objects, on which the declarative rule is ALSO evaluated "
                      "directly (lib/props_c03.py) against the SDK's accept/reject and result.",
        "design_ref": "DESIGN.md §5 C03",
    }
