#!/bin/bash
# Runs the repository's baseline test suite (guard off) exactly as BASELINE.json does, summarised.
export GOFLAGS=-mod=mod GOPROXY=off GOSUMDB=off GOTOOLCHAIN=local
rc=0
for m in . cmd/arcaflow-codegen; do
  (cd ${VERIF_REPO:-/repo}/$m && go test -vet=off -count=1 -timeout 25m ./... 2>&1 | grep -v 'no test files') || rc=1
done
exit $rc
