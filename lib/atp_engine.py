"""Engines for the ATP client properties (C06, C08): the overlay instrumenter + gate driver (DESIGN §4.3).

  build_drive()          instrument atp/client.go of the tree under test into build/atp-overlay (outside the tree),
                         build harness/cmd/atpdrive with `go build -overlay`; raises check.ProofBroken when the
                         instrumenter or the build fails on the tree.
  model_schedules(...)   run the extracted model (ocaml driver) on session cases -> schedules + predicted finals
  replay(...)            force schedules on the real client in parallel worker processes
  explore(...)           search on the implementation (seeded random / delay-bounded), stuck detection
"""
import json
import os
import re
import subprocess
import time

import check

OVERLAY = os.path.join(check.BUILD, "atp-overlay")
INSTRUMENT = os.path.join(check.BIN, "instrument")
ATPDRIVE = os.path.join(check.BIN, "atpdrive")
NPROC = int(os.environ.get("VERIF_ATP_PROCS", "12"))


def split_top(s):
    """'(a (b c) "d e")' -> ['a', '(b c)', '"d e"'] (top-level elements of one list expression)."""
    assert s[0] == "(" and s[-1] == ")", s[:80]
    out, depth, i, n, start = [], 0, 1, len(s) - 1, None
    while i < n:
        c = s[i]
        if c == '"':
            j = s.index('"', i + 1)
            if depth == 0:
                out.append(s[i:j + 1])
            i = j + 1
            continue
        if c == "(":
            if depth == 0:
                start = i
            depth += 1
        elif c == ")":
            depth -= 1
            if depth == 0:
                out.append(s[start:i + 1])
        elif c not in " \t" and depth == 0:
            j = i
            while j < n and s[j] not in ' \t()"':
                j += 1
            out.append(s[i:j])
            i = j
            continue
        i += 1
    return out


def build_drive():
    """Instrument and build; everything is regenerated from the tree under test on every run."""
    with check.Lock("build"):
        hdir = os.path.join(check.ROOT, "harness")
        os.makedirs(check.BIN, exist_ok=True)
        cmd = ["go", "build"]
        alt = os.path.join(check.BUILD, "alt.mod")
        if check.REPO != "/repo":
            cmd += ["-modfile", alt]
        p = check.run(cmd + ["-o", INSTRUMENT, "./cmd/instrument"], cwd=hdir, env=check.GOENV, timeout=900)
        if p.returncode != 0:
            raise check.ProofBroken("instrument-build", p.stdout[-3000:])
        import shutil
        shutil.rmtree(OVERLAY, ignore_errors=True)
        p = check.run([INSTRUMENT, check.REPO, OVERLAY, "client.go"], cwd=hdir, env=check.GOENV, timeout=300)
        if p.returncode != 0:
            raise check.ProofBroken("instrument", "the gate inserter failed on the tree's atp/client.go:\n" + p.stdout[-3000:])
        gates = p.stdout.strip().split("\n")[-1]
        p = check.run(cmd + ["-tags", "verif", "-overlay", os.path.join(OVERLAY, "overlay.json"), "-o", ATPDRIVE, "./cmd/atpdrive"],
                      cwd=hdir, env=check.GOENV, timeout=900)
        if p.returncode != 0:
            raise check.ProofBroken("atpdrive-build", "the instrumented client does not build (overlay):\n" + p.stdout[-3000:])
        return gates


def gen_cases(kind, tier, seed, path):
    p = check.run([ATPDRIVE, "gen", kind, tier, str(seed), path], env=check.GOENV, timeout=600)
    if p.returncode != 0:
        raise check.ProofBroken("atpdrive-gen", p.stdout[-2000:])
    return [l.rstrip("\n") for l in open(path) if l.strip()]


def model_schedules(cases_path, pred_path):
    """-> list of (case id, session text, [(steps text, final text, complete, flight_ok, lostbuf index)])"""
    with open(cases_path) as fin, open(pred_path, "w") as fout:
        q = subprocess.run([check.DRIVER], stdin=fin, stdout=fout, stderr=subprocess.PIPE, timeout=3600)
    if q.returncode != 0:
        raise check.ProofBroken("driver-run", "the model driver crashed: " + q.stderr.decode()[-2000:])
    cases = [l.rstrip("\n") for l in open(cases_path) if l.strip()]
    preds = [l.rstrip("\n") for l in open(pred_path)]
    if len(cases) != len(preds):
        raise check.ProofBroken("driver-run", "case/prediction counts differ")
    out = []
    for c, p in zip(cases, preds):
        ce = split_top(c)           # case ID fam (SESSION MODE)
        session = split_top(ce[3])[0]
        pe = split_top(p)           # obs ID (scheds ...)
        body = pe[2]
        if not body.startswith("(scheds"):
            raise check.ProofBroken("model", "the model rejected a generated session: %s -> %s" % (c[:300], body[:300]))
        scheds = []
        for s in split_top(body)[1:]:
            se = split_top(s)       # sched|sched-incomplete (steps ...) (final ...) (flightok B) (lostbuf IDX)
            lost = int(split_top(se[4])[1]) if len(se) > 4 and se[4].startswith("(lostbuf") else -1
            scheds.append((se[1], se[2], se[0] == "sched", len(se) > 3 and se[3] == "(flightok 1)", lost))
        out.append((ce[1], session, scheds))
    return out


def _run_chunks(mode, lines, work, tag, timeout):
    """Run `atpdrive MODE in out` over the lines in NPROC parallel processes; a process that dies marks the case it
    was working on as `crash` and the rest is restarted.  Returns {id: output line body}."""
    os.makedirs(work, exist_ok=True)
    chunks = [lines[i::NPROC] for i in range(NPROC)]
    results = {}
    pending = [(i, ch) for i, ch in enumerate(chunks) if ch]
    rounds = 0
    while pending and rounds < 50:
        rounds += 1
        procs = []
        for i, ch in pending:
            inp = os.path.join(work, "%s.%d.%d.in" % (tag, i, rounds))
            outp = os.path.join(work, "%s.%d.%d.out" % (tag, i, rounds))
            open(inp, "w").write("\n".join(ch) + "\n")
            procs.append((i, ch, outp, subprocess.Popen([ATPDRIVE, mode, inp, outp], env=check.GOENV,
                                                        stdout=subprocess.DEVNULL, stderr=subprocess.PIPE)))
        nxt = []
        for i, ch, outp, pr in procs:
            try:
                _, err = pr.communicate(timeout=timeout)
            except subprocess.TimeoutExpired:
                pr.kill()
                _, err = pr.communicate()
            got = [l.rstrip("\n") for l in open(outp)] if os.path.exists(outp) else []
            for l in got:
                e = split_top(l)
                results[e[1]] = l
            if len(got) < len(ch):
                bad = split_top(ch[len(got)])[1]
                results[bad] = "(obs %s (crash %s))" % (bad, json.dumps((err or b"").decode()[-400:]).replace("(", "[").replace(")", "]"))
                rest = ch[len(got) + 1:]
                if rest:
                    nxt.append((i, rest))
        pending = nxt
    return results


def replay(items, work, tag="replay", timeout=1500):
    """items: [(id, session text, steps text)] -> {id: observed final text}"""
    lines = ["(sched %s %s %s)" % (i, se, st) for i, se, st in items]
    res = _run_chunks("replay", lines, work, tag, timeout)
    out = {}
    for i, _, _ in items:
        l = res.get(i)
        out[i] = split_top(l)[2] if l else "(missing)"
    return out


def explore(case_lines, work, tag="explore", timeout=3000):
    """case lines `(case ID atpexplore (SESSION STRATEGY))` -> {id: xsum line}"""
    return _run_chunks("explore", case_lines, work, tag, timeout)


def diverged(obs):
    """`(diverged IDX ROLE WANT GOT (then (stuck B) FINAL (choices ...)))` -> dict, or None for any other observation.
    After a correspondence divergence the driver continues the session on the real client alone (deterministic
    gate-by-gate scheduler); `stuck` says that an Execute or Close had still not returned when nothing could move."""
    if not obs.startswith("(diverged"):
        return None
    e = split_top(obs)
    d = {"idx": e[1], "role": e[2], "want": e[3], "got": e[4], "stuck": False, "final": None, "choices": None}
    if len(e) > 5 and e[5].startswith("(then"):
        t = split_top(e[5])
        d["stuck"] = t[1] == "(stuck 1)"
        d["final"] = t[2]
        d["choices"] = t[3]
    return d


def diverged_text(d, why):
    return ("the real client leaves the model's schedule at step %s (%s: the model expects %s, found %s); continued from there gate by "
            "gate under a deterministic scheduler (peer answering) it ends with: %s - failing input = the schedule up to that step, "
            "then %s" % (d["idx"], d["role"], d["want"], d["got"], why, d["choices"]))


def field(text, name):
    """first top-level sub-list `(name ...)` of a list expression, as text (or None)"""
    for e in split_top(text):
        if e.startswith("(" + name + " ") or e == "(" + name + ")":
            return e
    return None
