#!/bin/bash
# usage: lib/par_thorough.sh OUTDIR — run the THOROUGH tier of all 19 properties on the current trees in 5 parallel scratch
# copies (/tmp/pth-<i>/{verif,repo}: a copy of this tree and a detached worktree of /repo's HEAD; each thorough run does its
# own make clean + rebuild + coqchk inside its copy).  A sanity run for the record: evidence that is committed comes from
# runs in /verif against /repo itself, never from these copies.  Logs: OUTDIR/Cxx.log, summary OUTDIR/summary.txt.
OUT=$1; mkdir -p $OUT
V="$(cd "$(dirname "$0")/.." && pwd)"
groups=("C04 C11 C19 C08" "C16 C14 C13" "C03 C05 C02 C18" "C07 C06 C09 C17" "C10 C01 C12 C15")
N=${#groups[@]}
cleanup() { for i in $(seq 1 $N); do git -C /repo worktree remove --force /tmp/pth-$i/repo >/dev/null 2>&1; rm -rf /tmp/pth-$i; done; git -C /repo worktree prune; }
trap cleanup EXIT
for i in $(seq 1 $N); do
  rm -rf /tmp/pth-$i; mkdir -p /tmp/pth-$i
  cp -a $V /tmp/pth-$i/verif
  git -C /repo worktree add --detach /tmp/pth-$i/repo HEAD >/dev/null 2>&1
done
: > $OUT/summary.txt
for i in $(seq 1 $N); do
  ( cd /tmp/pth-$i/verif
    for p in ${groups[$((i-1))]}; do
      t0=$(date +%s)
      VERIF_REPO=/tmp/pth-$i/repo VERIF_SEED=1 ./check.sh $p thorough > $OUT/$p.log 2>&1; rc=$?
      echo "$p rc=$rc $(( $(date +%s) - t0 ))s $(grep -E '^(OK|VIOLATION)' $OUT/$p.log | head -2 | tr '\n' ' ' | cut -c1-200)" >> $OUT/summary.txt
    done ) &
done
wait
sort -o $OUT/summary.txt $OUT/summary.txt
cat $OUT/summary.txt
