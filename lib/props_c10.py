"""C10 (a schema received from a plugin is rejected with an error or fully usable): registration,
statistics of the family c10mutants, the direct predicate (never a panic / crash / hang, at load time
or on use) and the class predicate of the one open known finding that shows through this property
(D11, owned by C04/C14: the inline shorthand of a one-property object recurses through a reference).
Hooked into props.py by `props_c10.register(_sys.modules[__name__])`.

Case / observation syntax: harness/cmd/harness/c10_mutants.go, coq/Interp/RunDescribe.v.
"""
import hashlib
import re

_P = None


def _val(case):
    return _P.case_payload(case)[3]


def _entries(m):
    """entries of a printed map value as [(key text or None, value)]"""
    out = []
    if isinstance(m, list) and m and m[0] == "m":
        for e in m[3:]:
            k = e[0]
            kt = None
            if isinstance(k, list) and len(k) == 3 and k[0] in ("s", "i"):
                kt = k[2][1] if isinstance(k[2], tuple) else k[2]
            out.append((kt, e[1]))
    return out


def _single_property_object_through_ref(v):
    """an object description with exactly one property whose type is a reference / object / scope /
    one-of: the shape on which the inline shorthand can recurse (D11)"""
    found = [False]

    def walk(n):
        if not isinstance(n, list):
            return
        es = dict((k, x) for k, x in _entries(n) if k is not None)
        if "properties" in es:
            ps = _entries(es["properties"])
            if len(ps) == 1:
                t = dict((k, x) for k, x in _entries(ps[0][1]) if k is not None).get("type")
                tid = dict((k, x) for k, x in _entries(t) if k is not None).get("type_id") if t is not None else None
                if isinstance(tid, list) and len(tid) == 3 and isinstance(tid[2], tuple) and tid[2][1] in (
                        "ref", "object", "scope", "one_of_int", "one_of_string"):
                    found[0] = True
        for c in n:
            walk(c)
    walk(v)
    return found[0]


def mutant_stats(rows):
    kinds, outcomes = {}, {}
    distinct = set()
    nontrivial = 0
    samples = []
    sizes = []
    for case, obs, pred in rows:
        pl = _P.case_payload(case)
        kinds[pl[1]] = kinds.get(pl[1], 0) + 1
        o = re.sub(r"^\(obs \S+ ", "", obs)[:-1]
        if o.startswith("(usable"):
            o = "usable"
        outcomes[o] = outcomes.get(o, 0) + 1
        h = hashlib.sha1(re.sub(r"^\(case \S+ ", "", case).encode()).digest()
        if h in distinct:
            continue
        distinct.add(h)
        sizes.append(case.count("("))
        # non-trivial: the description got past the first level of the meta-schema, i.e. it is a map with at
        # least one of the expected top-level keys, or it was accepted
        if o in ("usable", "pending") or re.search(r'\(s str "(objects|steps)"\)', case):
            nontrivial += 1
        if len(samples) < 3 and len(distinct) % 3001 == 7:
            samples.append({"case": case[:1500], "observed": obs[:400]})
    sizes.sort()
    return {"cases": len(rows), "distinct": len(distinct), "distinct_nontrivial": nontrivial, "entry_points": kinds,
            "outcomes": outcomes,
            "nodes_per_description": {"min": sizes[0] if sizes else 0, "median": sizes[len(sizes) // 2] if sizes else 0,
                                      "max": sizes[-1] if sizes else 0},
            "samples": samples}


def mutant_direct(case, obs):
    if obs in ("rejected", "pending") or obs.startswith("(usable ") or obs.startswith("(bad"):
        return None
    kind = _P.case_payload(case)[1]
    entry = {"scope": "UnserializeScope", "schema": "UnserializeSchema", "hello": "Client.ReadSchema"}.get(kind, kind)
    if obs == "(panic load)":
        return entry + " panicked on a decoded description instead of returning an error"
    if obs.startswith("(panic use"):
        return "%s accepted a description, and the schema it returned panicked on first use (%s)" % (entry, obs)
    if obs == "crash":
        return "%s accepted a description, and using the schema it returned killed the process (fatal error)" % entry
    if obs == "hang":
        return "%s / using the schema it returned did not come back within 20 s" % entry
    if obs == "panic":
        return "the case ended in a panic outside the supervised calls"
    return "unexpected observation " + obs


def mutant_explain(case, obs, pred):
    # rejected vs usable is not fixed by the property text (both are allowed outcomes); a difference is a
    # broken correspondence
    return None


def _d11(m, case, obs, pred):
    return obs == "crash" and _single_property_object_through_ref(_val(case))


def register(props):
    global _P
    _P = props
    props.FAMILY_STATS["c10mutants"] = mutant_stats
    props.DIRECT[("C10", "c10mutants")] = mutant_direct
    props.EXPLAIN[("C10", "c10mutants")] = mutant_explain
    props.KNOWN_PREDICATES["c10-inline-shorthand-cycle"] = _d11
    props.PROPS["C10"] = {
        "theory": "Properties/C10.v",
        "families": ["c10mutants"],
        "rule": "c10mutants: 40 (thorough 100) valid descriptions of generated scopes and plugin schemas (real SelfSerialize of the "
                "c09describe generator's output); every single structural mutation at every node — delete an entry / item, rename "
                "a key, retype a key, duplicate an entry / item, retype a value (nil, string, number, bool, list, map), re-point a "
                "string at every other string seen under the same key or a fresh one, flip booleans, boundary numbers — complete at "
                "the link-sensitive places (type_id, id, root, default, pattern, namespace) and a seeded 30 % sample elsewhere in the quick "
                "tier, complete in the thorough tier; a quarter of the unit definitions of the descriptions carry, in each of the eight name positions (base unit / multiplier, short / long, singular / plural), fragments that are special to a regular-expression engine: not valid expressions on their own (unbalanced group / class, dangling repetition, trailing backslash, unknown class) or valid with another meaning (. | ^ $ (s) [ab] a*), and the re-pointing mutation moves them between the positions; sampled double mutations; grammar-free random trees; the hand-written D30/D32 "
                "witnesses, each data schema of them placed as an output, a signal handler, a signal emitter, and as a handler / an emitter of "
                "a step whose handler and emitter maps SHARE a key; a third of the generated steps emit signals under the very keys under "
                "which they handle signals; the namespace of every reference is re-pointed at every other namespace seen and a fresh "
                "one (complete, like the other link-sensitive places); UnserializeScope / UnserializeSchema / Client.ReadSchema (a scripted plugin sends the hello over a pipe) "
                "in the supervised worker, then GetDefaults, SelfSerialize, Properties, ValidateReferences and Unserialize / "
                "ValidateCompatibility / Validate / Serialize (also of the unserialized value and back) on every step input, "
                "output and signal schema with generated and fixed inputs, the first four generated inputs also with every number "
                "written as its decimal text (numbers given as strings go through the units parser and the string mappers), plus "
                "the data operations on EVERY object of every scope table (reachable from the root or not), plus two inputs "
                "derived from the ACCEPTED schema itself through its public accessors (every property of every object — a property typed "
                "by a reference the loader left unlinked is SET too —, one item / "
                "entry per container, the first member of every one-of; numbers as numbers and as text): whatever the loader let "
                "through is used where it sits; distinct by case text; non-trivial = carries a top-level "
                "key of the meta-schema or is accepted",
        "assumptions": ["decoded inputs are Go values: a tree with two equal keys in one map is not a value and is not generated",
                        "UnserializeScope may return a scope that still references another namespace (observable `pending`): "
                        "it is usable once that namespace is applied, exactly like a scope built in code; UnserializeSchema "
                        "rejects such references",
                        "CallStep does not apply to a schema read from the wire (it has no handlers)"],
        "level_text": "Theorems (Properties/C10.v) over Schema/Describe.v and Schema/Ops.v. (1) C10_total / C10_total_plugin: for EVERY "
                      "value d, rebuild d and rebuild_plugin d are an error or a schema satisfying c10_wf - never Panic, never "
                      "OutOfFuel; the pre-fix loader is refuted by witnesses. (2) C10_usable / C10_usable_plugin (C10 composed with "
                      "C04): if the loader returns a schema then Unserialize, Validate, Serialize and data-mode ValidateCompatibility "
                      "on it (for UnserializeSchema / ReadSchema: on every step input, output and signal data schema) never Panic, for "
                      "EVERY Go value of the model's universe and every fuel, with no further hypothesis; and under the two boolean "
                      "known-finding classes of C04 (no_inline_cycle D11, defaults_total K D50) never OutOfFuel from the explicit "
                      "fuel_bound on. The link is proved, not assumed: C10_shape (distinct keys of every map, map key kinds, one-of "
                      "key / member kinds, scopes hold objects - by construction of parse), C10_link (c10_wf + shape + no foreign "
                      "reference => wf_use), C10_wf_relation (wf_schema <-> wf_use and ids_ok), and C04's totality re-established under "
                      "wf_use (C04_total_use, C04_never_panics_use). Refuted where a hypothesis is dropped: "
                      "C10_inline_cycle_refuted (D11) and C10_default_cycle_refuted (D50) are reachable through the loader; "
                      "C10_scope_foreign_ref_refuted (UnserializeScope, unlike UnserializeSchema, returns references into another "
                      "namespace unlinked: C10_usable carries foreign_refs s = false, C10_usable_plugin does not need it); "
                      "C10_wf_schema_not_established (the loader checks id = key for the root object only). (3) "
                      "C10_usable_applied_namespaces: a scope returned by UnserializeScope with references into other namespaces "
                      "is usable in the same sense in EVERY environment in which those namespaces are applied, are themselves "
                      "wf_use, and every foreign reference resolves to an object and, where it is a one-of member, passes the member "
                      "check of ApplyNamespace (ext_ok; C10_foreign_member_accepted shows the loader cannot check it).",
        "level_note": "Model = Schema/Describe.v (parse + link) and Schema/Ops.v (map-based objects; a schema read from the wire is "
                      "always map-based); tie = family c10mutants: the model's verdict rejected / usable / pending is compared with "
                      "the SDK on every mutant and every operation is run on whatever is returned. Partial: termination is proved "
                      "only outside the classes D11 / D50 (open known findings of C04, fatal stack overflow in Go); ApplyNamespace itself is "
                      "not modelled as an operation on a rebuilt scope: C10_usable_applied_namespaces is stated over the resolution "
                      "environment (e_ext) that Schema/Ops.v uses for applied namespaces.",
        "design_ref": "DESIGN.md §5 C10",
    }
