#!/bin/bash
# usage: lib/runall.sh [tier] [props...] — run the registered checks one after the other; one summary line each.
cd "$(dirname "$0")/.."
tier=${1:-quick}; shift
props=${@:-C01 C02 C03 C04 C05 C06 C07 C08 C09 C10 C11 C12 C13 C14 C15 C16 C17 C18 C19}
mkdir -p build/logs
for p in $props; do
  t0=$(date +%s)
  ./check.sh $p $tier > build/logs/run-$p.log 2>&1; rc=$?
  t1=$(date +%s)
  echo "$p rc=$rc $((t1-t0))s $(grep -E '^(OK|VIOLATION|proof obligation|correspondence machinery)' build/logs/run-$p.log | head -2 | tr '\n' ' ' | cut -c1-160) kf=$(grep -c '^KNOWN-FINDING' build/logs/run-$p.log)"
done
