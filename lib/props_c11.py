"""C11 (step calls: schema/schema.go CallStep / CallSignal, schema/step.go, schema/signal.go):
registration of the property, the statistics of its case family, the property's own predicate
on an observation (no model needed), and the explanation of a disagreement with the proved model.

Case / observation syntax: coq/Interp/RunStep.v.
"""
import hashlib
import re

_P = None


def _calls(pl):
    return pl[4][1:]


def _steps(pl):
    """step id -> (has_init, set(outputs), set(signal registration keys))"""
    out = {}
    for st in pl[2][1:]:
        out[st[1][1]] = (st[2] == "1", {o[0][1] for o in st[4]}, {g[0][1] for g in st[5]})
    return out


def _what(c):
    if c[0] == "call":
        return "CallStep(run %r, step %r, <input>) with a handler returning output id %r" % (c[1][1], c[2][1], c[4][1])
    if c[0] == "dcall":
        return ("CallableStep.Call(run %r, <native input>) called on the step object %r itself, with a handler returning output id %r"
                % (c[1][1], c[2][1], c[4][1]))
    if c[0] == "dsignal":
        return ("CallableStep.CallSignal(run %r, signal %r, <native data>) called on the step object %r itself"
                % (c[1][1], c[3][1], c[2][1]))
    return "CallSignal(run %r, step %r, signal %r, <data>)" % (c[1][1], c[2][1], c[3][1])


def _own_note(pl, sid, key):
    for st in pl[2][1:]:
        if st[1][1] == sid:
            for g in st[5]:
                if g[0][1] == key:
                    return "registration key %r, the signal's own id %r" % (key, g[2][1] if len(g) > 2 else key)
    return "registration key %r" % key


def _is_ok(x):
    return isinstance(x, list) and len(x) >= 1 and x[0] == "ok"


def steps_direct(case, obs):
    """The text of C11 evaluated on the implementation's observation alone.  The reference
    verdicts are the `iso` fields: the same data operations run in isolation on separately
    built copies of the schemas."""
    if obs.startswith("(bad") or obs.startswith("(build-failed"):
        return None
    if obs in ("panic", "crash", "hang"):
        return "the whole case ended in %s" % obs
    pl = _P.case_payload(case)
    o = _P.sx_parse(obs)
    calls = _calls(pl)
    steps = _steps(pl)
    rows = o[1]
    if len(rows) != len(calls):
        return "observation does not cover every call"
    reached = {}     # (step, run) that reached setupStepData
    seen = {}        # (step, run) -> set of step-data indices the handlers saw
    for c, row in zip(calls, rows):
        h, res, iso = row[1][1:], row[2], row[3][1:]
        what = _what(c)
        sid, run = c[2][1], c[1][1]
        if res == "panic":
            if iso[0] == "nostep":
                return "an unknown step id made the call panic: " + what
            if iso[0] == "nosig":
                return "an unknown signal id made the call panic (the plugin process dies with it): " + what
            return "the call panicked: " + what
        if res in ("diverged", "hang", "crash"):
            return "the call did not return: " + what
        is_err = isinstance(res, list) and res[0] == "err"
        cls = res[1] if is_err else None
        if isinstance(res, list) and res and res[0] == "bad":
            continue
        if c[0] == "dcall":
            # the step object called directly with a native value: Validate of that value (iso[0]) is the only
            # thing the property lets decide whether the handler runs
            if iso[0] == "nostep":
                continue
            v, ov = iso
            n_h = len([e for e in h if e[0] == "st"])
            if _is_ok(v):
                if n_h != 1 or len(h) != 1:
                    return "the native input is accepted by the step's input schema but the handler ran %d times: %s" % (n_h, what)
                if h[0][1][1] != sid:
                    return "the handler of another step ran: " + what
                if h[0][3] != c[3]:
                    return "the handler did not receive exactly the value passed to Call (saw %s): %s" % (h[0][3], what)
                reached[(sid, run)] = True
                seen.setdefault((sid, run), set()).add(str(h[0][2]))
            else:
                if h:
                    return ("the step's handler ran on an input that the step's input schema REJECTS (Validate of the native "
                            "value: %s; a value of the right Go type that violates a constraint is invalid input too) — the "
                            "handler is not shielded: %s, input %s" % (v, what, str(c[3])[:300]))
                if v == "err":
                    if not is_err:
                        return "a rejected native input did not yield an error: " + what
                    if cls != "input":
                        return "a rejected native input is reported with the error type of class %r, not InvalidInputError: %s" % (cls, what)
                continue
            if not is_err:
                if res[1][1] != c[4][1]:
                    return "Call returned output id %r, the handler returned %r: %s" % (res[1][1], c[4][1], what)
                if ov == "undeclared":
                    return "Call returned an UNDECLARED output id without an error: " + what
                if not _is_ok(ov):
                    return "Call returned output data that does not satisfy the declared output schema (Validate: %s): %s" % (ov, what)
                if res[2] != c[5]:
                    return "Call returned other output data than the handler's: " + what
            else:
                if ov == "undeclared" and cls != "output":
                    return "an undeclared output id is reported with the error type of class %r, not InvalidOutputError: %s" % (cls, what)
                if cls in ("badarg", "nosuchstep", "input"):
                    return "an output problem is reported with the error type of class %r (unknown step / rejected input): %s" % (cls, what)
            continue
        if c[0] == "call":
            if iso[0] == "nostep":
                if h:
                    return "a handler ran for an unknown step id: " + what
                if not is_err:
                    return "an unknown step id did not yield an error: " + what
                if cls not in ("badarg", "nosuchstep"):
                    return "an unknown step id is reported with the error type of class %r, which does not distinguish it: %s" % (cls, what)
                continue
            u, v, s = iso
            n_h = len([e for e in h if e[0] == "st"])
            if _is_ok(u):
                if n_h != 1 or len(h) != 1:
                    return "the input is accepted by the step's input schema but the handler ran %d times: %s" % (n_h, what)
                if h[0][1][1] != sid:
                    return "the handler of another step ran: " + what
                if h[0][3] != u[1]:
                    return "the handler did not receive exactly the unserialized input (saw %s, Unserialize gives %s): %s" % (h[0][3], u[1], what)
                reached[(sid, run)] = True
                seen.setdefault((sid, run), set()).add(str(h[0][2]))
            else:
                if h:
                    return "the input is rejected by the step's input schema (%s) but the handler ran: %s" % (u, what)
                if u == "err":
                    if not is_err:
                        return "a rejected input did not yield an error: " + what
                    if cls != "input":
                        return "a rejected input is reported with the error type of class %r, not InvalidInputError: %s" % (cls, what)
                continue
            # the handler ran
            if not is_err:
                if res[1][1] != c[4][1]:
                    return "CallStep returned output id %r, the handler returned %r: %s" % (res[1][1], c[4][1], what)
                if v == "undeclared":
                    return "CallStep returned an UNDECLARED output id without an error: " + what
                if not _is_ok(v):
                    return "CallStep returned output data that does not satisfy the declared output schema (Validate: %s): %s" % (v, what)
                if not _is_ok(s) or s[1] != res[2]:
                    return "CallStep returned %s, Serialize of the handler's data gives %s: %s" % (res[2], s, what)
            else:
                if v == "undeclared" and cls != "output":
                    return "an undeclared output id is reported with the error type of class %r, not InvalidOutputError: %s" % (cls, what)
                if cls in ("badarg", "nosuchstep", "input"):
                    return "an output problem is reported with the error type of class %r (unknown step / rejected input): %s" % (cls, what)
        else:
            if iso[0] in ("nostep", "nosig"):
                if h:
                    return "a signal handler ran for an unknown id: " + what
                if not is_err:
                    return "an unknown step or signal id did not yield an error: " + what
                continue
            u = iso[0]
            # the step registers a handler under this key: the signal id is KNOWN, whatever the signal's own id is
            if is_err and cls in ("badarg", "nosuchstep"):
                return ("a signal id under which the step registered a handler (%s) is reported as an unknown id (error class %r): %s"
                        % (_own_note(pl, sid, c[3][1]), cls, what))
            want_arg = c[4] if c[0] == "dsignal" else (u[1] if _is_ok(u) else None)
            if c[0] == "dsignal":
                reached[(sid, run)] = True          # the step's own CallSignal sets the step data up before the signal validates
            if _is_ok(u):
                reached[(sid, run)] = True          # setupStepData precedes the signal's own validation
                for e in h:
                    if e[0] != "sg" or e[1][1] != sid or e[2][1] != c[3][1]:
                        return "a foreign handler ran: " + what
                    if e[4] != want_arg:
                        return "the signal handler did not receive exactly the %s: %s" % (
                            "value passed to CallSignal" if c[0] == "dsignal" else "unserialized data", what)
                    seen.setdefault((sid, run), set()).add(str(e[3]))
                if len(h) > 1:
                    return "the signal handler ran %d times: %s" % (len(h), what)
                if not is_err and len(h) != 1:
                    return "CallSignal succeeded without running the handler: " + what
            else:
                if h:
                    return "the signal data is rejected by the signal's schema but the handler ran: " + what
                if u == "err" and not is_err:
                    return "rejected signal data did not yield an error: " + what
    # per-run step data: one value per (step, run), one initialiser run per (step, run) that got there
    for (sid, run), ks in sorted(seen.items()):
        if len(ks) > 1:
            return "the handlers of step %r, run %r saw %d different step-data values" % (sid, run, len(ks))
    inits = {x[0][1]: int(x[1]) for x in o[2][1:]}
    for sid, (has_init, _, _) in steps.items():
        want = len({r for (s, r) in reached if s == sid}) if has_init else 0
        if inits.get(sid) != want:
            return ("the step-data initialiser of step %r ran %s times for %d run ids that reached it (calls: %s)"
                    % (sid, inits.get(sid), want, " ; ".join(_what(c) for c in calls)[:600]))
    return None


def steps_explain(case, obs, pred):
    """The model is the property's specification for every projected observable (C11_handler_iff,
    C11_output_checked, C11_error_classes, C11_unknown_ids, C11_stepdata_once); a disagreement in
    the isolated data operations alone is a disagreement of the schema model (C01-C04), not of C11."""
    if obs.startswith("(bad") or pred.startswith("(bad") or obs.startswith("(build-failed"):
        return None
    try:
        o, p = _P.sx_parse(obs), _P.sx_parse(pred)
        pl = _P.case_payload(case)
    except Exception:
        return None
    calls = _calls(pl)
    if not (isinstance(o, list) and len(o) == 3 and len(o[1]) == len(calls) == len(p[1])):
        return None
    for c, ro, rp in zip(calls, o[1], p[1]):
        if ro[3] != rp[3]:
            return None        # the data layer itself disagrees: not attributable to C11
        if ro != rp:
            return "%s: observed %s, the proved model gives %s" % (_what(c), _P.strip_err_paths(str(ro))[:700], str(rp)[:700])
    if o[2] != p[2]:
        return "initialiser runs per step: observed %s, the proved model gives %s" % (o[2], p[2])
    return None


def steps_stats(rows):
    kinds, outcomes, modes = {}, {}, {}
    distinct = set()
    nontrivial = 0
    calls_total = 0
    samples = []
    for case, obs, pred in rows:
        pl = _P.case_payload(case)
        modes[pl[3]] = modes.get(pl[3], 0) + 1
        h = hashlib.sha1(re.sub(r"^\(case \S+ ", "", case).encode()).digest()
        new = h not in distinct
        distinct.add(h)
        try:
            o = _P.sx_parse(re.sub(r"^\(obs \S+ ", "", obs)[:-1])
        except Exception:
            continue
        ran = 0
        if isinstance(o, list) and len(o) == 3:
            for c, row in zip(_calls(pl), o[1]):
                calls_total += 1
                kinds[c[0]] = kinds.get(c[0], 0) + 1
                res = row[2]
                k = c[0] + ": " + (res if isinstance(res, str) else (res[0] + (" " + res[1] if res[0] == "err" else "")))
                outcomes[k] = outcomes.get(k, 0) + 1
                ran += len(row[1]) - 1
        # non-trivial: at least one handler actually ran in the case (a step or signal got through)
        if new and ran > 0:
            nontrivial += 1
        if new and len(samples) < 3 and (len(distinct) % 397 == 1):
            samples.append({"case": case[:1500], "observed": obs[:800]})
    return {"cases": len(rows), "calls": calls_total, "kinds": kinds, "outcomes": outcomes, "modes": modes,
            "distinct": len(distinct), "distinct_nontrivial": nontrivial,
            "exhaustive": "every arrival order (all permutations) of 6 fixed operation multisets over 2 steps x 2 run ids "
                          "(step call, two signals, rejected input, rejected signal data, unknown signal, direct Call with a valid / "
                          "out-of-range / too-short typed native input), each for step data of a pointer type and of an interface "
                          "type, with and without an initialiser, sequentially and with goroutines released together (initialisers "
                          "then take 0.4 ms each)",
            "samples": samples}


def register(props):
    global _P
    _P = props
    props.FAMILY_STATS["c11steps"] = steps_stats
    props.DIRECT[("C11", "c11steps")] = steps_direct
    props.EXPLAIN[("C11", "c11steps")] = steps_explain
    props.PROPS["C11"] = {
        "theory": "Properties/C11.v",
        "families": ["c11steps"],
        "rule": "c11steps: generated plugins of 1-3 steps (input scope, 1-3 output scopes, 0-2 signal handlers, all built from the "
                "schema descriptors of the structured generator: objects with presence rules and defaults, one-ofs, references, "
                "lists, maps, units, patterns) x 6-11 calls each: raw inputs generated from the input scope and mutated (35%), "
                "signals are registered under the keys cancel / pause while their OWN ids are those keys (55%), one reusable definition's id "
                "(20%), each other's keys (15%) or empty (10%); 25% of the signal calls go to CallableStep.CallSignal on the step "
                "object directly with native data (as unserialized / one leaf violating a constraint / mutated), 12% name the "
                "signal's own id instead of its key; "
                "recording handlers returning a declared id with conforming data / mutated data / raw-form data / another "
                "output's data, or an undeclared id; unknown step ids; signals with known/unknown ids and valid/invalid data; "
                "22% of the step calls go to CallableStep.Call on the step object DIRECTLY with a native input: as Unserialize "
                "made it, with one scalar leaf of the right Go type breaking a constraint, or mutated at random; 30% of the steps "
                "have step data of an interface type (StepData = any) instead of a pointer type, with or without initialiser; "
                "plus the order sub-family (every permutation of 6 operation multisets and random multisets of 4-16 operations "
                "over 2 steps x 3 run ids, run sequentially in that order and concurrently from goroutines released together, "
                "every initialiser then taking 0.4 ms so that step and signal arrivals for one run id overlap). "
                "distinct by case text; non-trivial = at least one handler ran in the case",
        "assumptions": ["the step's Go input type is the type its input scope unserializes to (here `any`): a handler typed to a "
                        "different Go type makes input.(InputType) panic and is outside the property's quantifier",
                        "handlers do not panic themselves",
                        "the step data is observed by identity (which initialiser run produced it): the initialiser takes no argument"],
        "level_text": "Theorems (all plugins, run-table states, raw inputs, handlers, fuels): the handler log of CallStep is exactly "
                      "[handler(step, n)] when the step exists, Unserialize(input)=Ok n and the re-validation of n passes, and empty "
                      "otherwise; CallableStep.Call called directly with a native value v runs the handler — once, with v — iff v "
                      "passes the input schema, a rejected v (right Go type, violated constraint included) gives InvalidInputError "
                      "and touches nothing, and CallStep = Unserialize ; Call ; Serialize (C11_direct_*, C11_call_step_factors); "
                      "Ok(out, w) iff the handler ran, out is declared, the data validates and w is its serialization; each "
                      "error provenance is assigned exactly under its condition and unknown-step / rejected-input / undeclared-output map "
                      "to three different Go error types; unknown step or signal ids give errors, never panics, and touch no state; a signal "
                      "is found by the key the step registered it under — CallSignal = lookup by key ; Unserialize ; the step's own "
                      "CallSignal, which runs the handler once with exactly its argument iff that passes the schema under the key "
                      "(C11_signal_factors, C11_direct_signal_*); for "
                      "EVERY history of CallStep/CallSignal operations (fold_left) and for every interleaving of setupStepData critical "
                      "sections and handler invocations the initialiser runs exactly once per run id that reaches it — triggered by the "
                      "first arrival — and every handler of a run sees that one value.",
        "level_note": "Model = Call/Step.v over Schema/Ops.v (hand-written from schema/schema.go, step.go, signal.go after the fixes for "
                      "D22 and D65), tied to the code by running the real CallableSchema on generated plugins; the data operations of each call "
                      "are also observed in isolation so that the property's predicate is evaluated on the implementation alone. "
                      "Goroutine interleavings inside a critical section are not modelled (sync.Mutex is trusted); the concurrent runs "
                      "sample schedules, the theorem covers all of them at mutex granularity.",
        "design_ref": "DESIGN.md §5 C11",
    }
