#!/bin/bash
# usage: lib/mkwp.sh NAME — scratch area for a builder: /tmp/wp-NAME/{verif (copy incl. build), repo (detached worktree), out}
set -e
n=$1; W=/tmp/wp-$n
mkdir -p $W/out
[ -d $W/verif ] || cp -a /verif $W/verif
[ -d $W/repo ] || git -C /repo worktree add --detach $W/repo HEAD >/dev/null
git -C $W/verif rev-parse HEAD > $W/base_verif; git -C $W/repo rev-parse HEAD > $W/base_repo
echo $W
