#!/bin/bash
# usage: lib/seedtest.sh <patch.diff> <Cxx> [tier]   — apply a seeded change to /repo, run the check, undo.
set -u
patch=$1; prop=$2; tier=${3:-quick}
cd /verif
if ! git -C /repo diff --quiet; then echo "/repo has uncommitted changes"; exit 2; fi
git -C /repo apply "$(realpath "$patch")" || { echo "patch does not apply"; exit 2; }
./check.sh "$prop" "$tier" > build/seedtest.out 2>&1; rc=$?
git -C /repo checkout -- . ; git -C /repo clean -fdq -- schema atp plugin 2>/dev/null
grep -E '^(VIOLATION|KNOWN-FINDING|OK)' build/seedtest.out | head -5
echo "exit=$rc"
