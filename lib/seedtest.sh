#!/bin/bash
# usage: lib/seedtest.sh <patch.diff> <Cxx> [tier]   — apply a seeded change to /repo, run the check, undo.
set -u
patch=$1; prop=$2; tier=${3:-quick}
cd "$(dirname "$0")/.."
R=${VERIF_REPO:-/repo}
if ! git -C $R diff --quiet; then echo "$R has uncommitted changes"; exit 2; fi
git -C $R apply "$(realpath "$patch")" || { echo "patch does not apply"; exit 2; }
./check.sh "$prop" "$tier" > build/seedtest.out 2>&1; rc=$?
git -C $R checkout -- . ; git -C $R clean -fdq -- schema atp plugin 2>/dev/null
grep -E '^(VIOLATION|KNOWN-FINDING|OK)' build/seedtest.out | head -5
echo "exit=$rc"
