#!/bin/bash
# usage: lib/integrate.sh NAME  — merge a builder's work area /tmp/wp-NAME/verif into /verif (git 3-way merge).
# Shared append-only files (_CoqProject, props.py) merge by union (.gitattributes); everything else that
# conflicts is left with conflict markers for manual resolution.  Repo patches are NOT applied here.
set -e
n=$1; W=/tmp/wp-$n
V="$(cd "$(dirname "$0")/.." && pwd)"
cd $W/verif
# evidence of other properties / the manifest are regenerated in /verif, never taken from a work area
git checkout -q -- MANIFEST.json 2>/dev/null || true
for f in $(git diff --name-only -- evidence); do git checkout -q -- "$f"; done
git add -A
git -c user.name=builder -c user.email=b@x commit -qm "work package $n" || echo "(nothing to commit in $W/verif)"
cd $V
git fetch -q $W/verif HEAD
git merge --no-ff --no-edit FETCH_HEAD || { echo "CONFLICTS:"; git diff --name-only --diff-filter=U; exit 1; }
echo "merged $n"
