"""C13 (schemas are safe for concurrent use from first use): registration of the property, the
race ENGINE (a second harness binary built with -race runs trials that race 2..16 goroutines on
fresh / freshly rebuilt schema instances, fresh and package-level unit definitions and callable
schemas, a fresh process per batch; Go race detector reports are canonicalised to the pair of SDK
functions involved and every result is compared with the isolated result), the sequential footprint
family c13foot, known-finding classes.

Trial / observation syntax: harness/cmd/harness/c13_race.go; footprint: coq/Interp/RunFootprint.v.
"""
import hashlib
import json
import os
import re
import shutil
import subprocess
import time
from concurrent.futures import ThreadPoolExecutor

_P = None
SDK = "go.flow.arcalot.io/pluginsdk/"

# ---- known-finding classes: by the SDK functions a race report names, never by address/line ----
D33_FUNCS = ("schema.(*UnitsDefinition).getSortedMultipliersCache", "schema.(*UnitsDefinition).updateReCache",
             "schema.(*UnitsDefinition).parse", "schema.(*ObjectSchema).GetDefaults")
D43_FUNCS = ("schema.(*ObjectSchema).applySubObjectDefaultValues", "schema.(*ObjectSchema).convertData")


def _race_funcs(obs):
    m = re.search(r"\(races (.*)\)$", obs)
    return m.group(1) if m else ""


def kf_d33(m, case, obs, pred):
    """a reported race both of whose accesses are in the lazily filled caches of units.go / object.go"""
    pairs = re.findall(r"\[([^\]]*)\]", _race_funcs(obs))
    return bool(pairs) and all(all(f.split(":", 1)[1] in D33_FUNCS for f in p.split(" | ")) for p in pairs)


def kf_d43(m, case, obs, pred):
    """a reported race on the shared decoded-default map of a struct-mapped parent (D43, repaired elsewhere)"""
    pairs = re.findall(r"\[([^\]]*)\]", _race_funcs(obs))
    return bool(pairs) and all(any(f.split(":", 1)[1] in D43_FUNCS for f in p.split(" | ")) for p in pairs)


# ---- race report parsing ----

def parse_stderr(text):
    """-> {trial id: [canonical race pair strings]}, [reports outside any trial]"""
    per, stray = {}, []
    cur = None
    block = None
    for line in text.split("\n"):
        if line.startswith("@@trial "):
            cur = line.split()[1]
            continue
        if line.startswith("@@end "):
            cur = None
            continue
        if line.startswith("WARNING: DATA RACE"):
            block = []
            continue
        if block is not None:
            if line.startswith("=================="):
                c = canon_race(block)
                (per.setdefault(cur, []) if cur else stray).append(c)
                block = None
            else:
                block.append(line)
    return per, stray


_ACC = re.compile(r"^(Previous )?(read|write|atomic read|atomic write) at 0x[0-9a-f]+ by (main )?goroutine", re.I)


def canon_race(block):
    """the two conflicting accesses as `kind:first SDK function on the stack`, sorted; no addresses, lines, ids"""
    acc = []
    cur = None
    for line in block:
        m = _ACC.match(line)
        if m:
            cur = [m.group(2).lower().replace("atomic ", ""), None, None]
            acc.append(cur)
            continue
        if line.startswith("Goroutine ") or not line.strip():
            cur = None
            continue
        if cur is not None and line.startswith("  ") and not line.startswith("      "):
            f = re.sub(r"\(\)$", "", line.strip())
            f = re.sub(r"\[[^\]]*\]", "", f)          # generic instantiation brackets
            if cur[2] is None:
                cur[2] = f
            if cur[1] is None and f.startswith(SDK):
                cur[1] = f[len(SDK):]
    parts = sorted("%s:%s" % (a[0], a[1] or ("!" + (a[2] or "?"))) for a in acc)
    return " | ".join(parts)


# ---- the engine ----

def build_race_binary(check):
    hdir = os.path.join(check.ROOT, "harness")
    out = os.path.join(check.BIN, "harness-race")
    env = dict(check.GOENV, CGO_ENABLED="1")
    cmd = ["go", "build", "-race", "-tags", "verif", "-o", out]
    if check.REPO != "/repo":
        cmd += ["-modfile", os.path.join(check.BUILD, "alt.mod")]
    with check.Lock("build"):
        p = check.run(cmd + ["./cmd/harness"], cwd=hdir, env=env, timeout=1800)
    if p.returncode != 0:
        if re.search(r"requires cgo|gcc|C compiler|cgo: C compiler", p.stdout):
            return None, p.stdout[-800:]
        raise check.ProofBroken("harness-build", "the -race harness does not build:\n" + p.stdout[-3000:])
    return out, ""


def run_batch(args):
    hr, bfile, ofile, env = args
    p = subprocess.run([hr, "run", bfile, ofile], env=env, stdout=subprocess.PIPE, stderr=subprocess.STDOUT,
                       text=True, errors="replace", timeout=1800)
    return bfile, ofile, p.returncode, p.stdout


def trial_id(case):
    m = re.match(r"^\(case \S+ c13race \(race (\S+) ", case)
    return m.group(1) if m else "?"


def race_engine(prop, tier, seed, work, known):
    import check
    t0 = time.time()
    hr, why = build_race_binary(check)
    if hr is None:
        return {"name": "c13race", "evaluations": 0, "stats": {"race_detector": "unavailable on this machine: " + why,
                                                               "fallback": "footprint correspondence only"}}
    gen = os.path.join(work, "c13race.cases")
    p = check.run([check.HARNESS, "gen", "c13race", tier, str(seed), gen], cwd=work, env=check.GOENV, timeout=1800)
    if p.returncode != 0:
        raise check.ProofBroken("harness-run", "trial generator failed: " + p.stdout[-2000:])
    cases = [l.rstrip("\n") for l in open(gen) if l.strip()]
    corpus = os.path.join(check.ROOT, "corpus", "c13race.cases")
    if os.path.exists(corpus):
        cases = [l.rstrip("\n") for l in open(corpus) if l.strip() and not l.startswith(";")] + cases
    bdir = os.path.join(work, "race")
    shutil.rmtree(bdir, ignore_errors=True)
    os.makedirs(bdir)
    bsize = 12
    env = dict(check.GOENV, GORACE="halt_on_error=0 history_size=3")
    jobs = []
    for b in range(0, len(cases), bsize):
        bf = os.path.join(bdir, "b%04d.cases" % (b // bsize))
        open(bf, "w").write("\n".join(cases[b:b + bsize]) + "\n")
        jobs.append((hr, bf, bf[:-6] + ".obs", env))
    rows = []            # (case, obs text incl. races)
    stray_all = []
    with ThreadPoolExecutor(max_workers=int(os.environ.get("VERIF_RACE_JOBS", "6"))) as ex:
        for bf, of, rc, out in ex.map(run_batch, jobs):
            if rc != 0:
                raise check.ProofBroken("harness-run", "the -race harness crashed on %s:\n%s" % (bf, out[-2000:]))
            per, stray = parse_stderr(out)
            stray_all += stray
            cl = [l.rstrip("\n") for l in open(bf) if l.strip()]
            ol = [l.rstrip("\n") for l in open(of)]
            if len(cl) != len(ol):
                raise check.ProofBroken("harness-run", "trial/observation counts differ in " + bf)
            for c, o in zip(cl, ol):
                races = sorted(set(per.get(trial_id(c), [])))
                o2 = check.strip_id(o)
                if races:
                    o2 = "%s (races %s)" % (o2, " ".join("[%s]" % r for r in races))
                rows.append((c, o2))
    violations, known_hits = [], []
    kinds, ngs, outcomes, race_pairs = {}, {}, {}, {}
    nontrivial = 0
    compared = 0
    for c, o in rows:
        pl = _P.case_payload(c)
        kind = pl[2] + ("/" + pl[3] if pl[2] == "schema" else ("/" + pl[3][0] if pl[2] == "units" else ""))
        kinds[kind] = kinds.get(kind, 0) + 1
        ng = pl[4] if pl[2] in ("schema", "units") else pl[3]
        ngs[ng] = ngs.get(ng, 0) + 1
        m = re.match(r"^\(t \S+ (same (\d+)|not-rebuildable|\(diff)", o)
        oc = "crash/hang/other"
        if m:
            oc = "same" if m.group(1).startswith("same") else ("not-rebuildable" if m.group(1) == "not-rebuildable" else "diff")
            if m.group(2):
                compared += int(m.group(2))
                if int(m.group(2)) > 0:
                    nontrivial += 1
        if "(races " in o:
            oc += "+race"
            for r in re.findall(r"\[([^\]]*)\]", _race_funcs(o)):
                race_pairs[r] = race_pairs.get(r, 0) + 1
        outcomes[oc] = outcomes.get(oc, 0) + 1
        reason = race_direct(c, o)
        if reason is None:
            continue
        kf = _P.match_known(known, "c13race", c, o, "")
        if kf is not None:
            known_hits.append((kf, c, o))
        else:
            violations.append(("c13race", c, o, "-", reason))
    if stray_all:
        raise check.ProofBroken("harness-run", "race reports outside any trial (a race in the harness itself?): " + "; ".join(sorted(set(stray_all))[:5]))
    samples = [{"case": c[:1200], "observed": o[:600]} for c, o in rows[:: max(1, len(rows) // 3)][:3]]
    return {"name": "c13race", "evaluations": len(rows), "distinct_nontrivial": nontrivial, "samples": samples,
            "violations": violations, "known_hits": known_hits,
            "stats": {"trials": len(rows), "kinds": kinds, "goroutines": ngs, "outcomes": outcomes,
                      "operation_results_compared_with_isolated": compared, "race_pairs_reported": race_pairs,
                      "distinct": len({hashlib.sha1(re.sub(r"^\(case \S+ ", "", c).encode()).digest() for c, _ in rows}),
                      "distinct_nontrivial": nontrivial, "batches_fresh_process_each": len(jobs),
                      "race_binary": "go build -race (CGO_ENABLED=1)", "wall_s": round(time.time() - t0, 1)}}


def _describe(case):
    pl = _P.case_payload(case)
    if pl[2] == "schema":
        return "%s goroutines, %d operations on one %s schema instance" % (pl[4], len(pl[6]) - 1, pl[3])
    if pl[2] == "units":
        tgt = "the package-level unit definition %s" % pl[3][1] if pl[3][0] == "pkg" else "one fresh unit definition"
        return "%s goroutines, %d operations on %s" % (pl[4], len(pl[5]) - 1, tgt)
    return "%s step/signal calls released together on one callable schema" % pl[3]


def race_direct(case, obs):
    """C13 on one trial: no data race reported, every result equal to the isolated one, no crash."""
    what = _describe(case)
    if "(races " in obs:
        return "the Go race detector reports a data race (%s): %s" % (_race_funcs(obs)[:500], what)
    if obs.startswith("(t ") and " (diff " in obs:
        m = re.search(r"\(diff \((\d+) (\d+) (\"(?:[^\"])*\") (\"(?:[^\"])*\")", obs)
        det = " goroutine %s, operation %s: got %s, in isolation %s" % (m.group(1), m.group(2), m.group(3)[:300], m.group(4)[:300]) if m else ""
        return "a call did not return what it returns in isolation;%s: %s" % (det, what)
    if re.match(r"^\(t \S+ (same \d+|not-rebuildable)\)$", obs):
        return None
    if obs.startswith("(bad"):
        return None
    return "the trial ended in %s: %s" % (obs[:80], what)


def race_replay(d, work):
    """re-run one recorded trial 12 times, a fresh -race process each time"""
    import check
    hr, why = build_race_binary(check)
    if hr is None:
        check.log("race detector unavailable: " + why)
        return 1
    bf = os.path.join(work, "r.cases")
    open(bf, "w").write(d["case"] + "\n")
    bad = 0
    for i in range(12):
        _, of, rc, out = run_batch((hr, bf, os.path.join(work, "r%d.obs" % i), dict(check.GOENV, GORACE="halt_on_error=0")))
        per, _ = parse_stderr(out)
        o = check.strip_id(open(of).read().strip())
        races = sorted(set(sum(per.values(), [])))
        if races:
            o += " (races %s)" % " ".join("[%s]" % r for r in races)
        reason = race_direct(d["case"], o)
        check.log("run %d: %s" % (i, o[:300]))
        if reason:
            bad += 1
    if bad:
        check.log("VIOLATION property=%s replay=%s (%d of 12 runs)" % (d["property"], d.get("replay_cmd", "").split()[-1], bad))
        return 1
    check.log("no violation on the current tree in 12 runs")
    return 0


# ---- the sequential footprint family ----

def foot_stats(rows):
    ops, distinct, nontrivial = {}, set(), 0
    for case, obs, pred in rows:
        h = hashlib.sha1(re.sub(r"^\(case \S+ ", "", case).encode()).digest()
        new = h not in distinct
        distinct.add(h)
        for k in re.findall(r"\((pi|pf|fsi|fli|fsf|flf|u|v|s|c|call|signal) ", case):
            ops[k] = ops.get(k, 0) + 1
        if new and "(w " in obs:         # non-trivial: at least one operation of the case wrote a cache cell
            nontrivial += 1
    return {"cases": len(rows), "operations": ops, "distinct": len(distinct), "distinct_nontrivial": nontrivial,
            "samples": [{"case": rows[0][0][:1200], "observed": rows[0][1][:600]}] if rows else []}


def foot_direct(case, obs):
    """first use may write cache cells, a later use of the same kind on the same instance writes nothing new:
    checked by the model correspondence (the model predicts the exact write set); here only totality."""
    if obs in ("panic", "crash", "hang"):
        return "the footprint case ended in " + obs
    return None


def foot_explain(case, obs, pred):
    if obs.startswith("(bad") or pred.startswith("(bad"):
        return None
    return ("the cache cells written by the operations differ from the model's footprint (C13_footprint: writes touch only "
            "cache cells, on first use, inside their guard): observed %s, model %s" % (obs[:500], pred[:500]))


def register(props):
    global _P
    _P = props
    props.KNOWN_PREDICATES["c13_lazy_cache_race"] = kf_d33
    props.KNOWN_PREDICATES["c13_shared_default_map_race"] = kf_d43
    props.REPLAY_HANDLERS["c13race"] = race_replay
    props.FAMILY_STATS["c13foot"] = foot_stats
    props.DIRECT[("C13", "c13foot")] = foot_direct
    props.EXPLAIN[("C13", "c13foot")] = foot_explain
    props.PROPS["C13"] = {
        "theory": "Properties/C13.v",
        "families": ["c13foot"],
        "engines": [race_engine],
        "rule": "c13race (engine, -race binary): trials on instances nobody has used yet — generated scopes fresh from the "
                "constructors or freshly rebuilt (SelfSerialize -> UnserializeSchema), fresh generated unit definitions, the "
                "five package-level unit definitions, callable schemas with steps and signal handlers — 2..16 goroutines "
                "released together, each running all operations (rotated start) on the one shared instance; every result is "
                "compared with the result on separately built instances (3 isolated repetitions; operations whose isolated "
                "result varies with map order are not compared); 12 trials per fresh process. non-trivial = at least one "
                "result was compared. c13foot: sequential first-use / later-use write sets of the cache cells against the model",
        "assumptions": ["Go's race detector (happens-before over the executed schedule) is the observer of 'no data race': a race "
                        "that needs a schedule not taken in any trial is not seen by the engine — the theorem covers all schedules "
                        "of the modelled access discipline",
                        "struct-mapped objects occur only through the SDK's own meta-schemas"],
        "level_text": "Theorems: every operation of the state-passing model (unit parse/format, defaults lookup, setupStepData, "
                      "reference use) yields an access trace whose writes touch only cache cells, each inside the guard (mutex) "
                      "that also covers every read of that cell (C13_footprint, all unit definitions / tables / arguments); any "
                      "interleaving of traces of that shape is data-race free — two conflicting accesses are always ordered by "
                      "the lock order of their common guard (C13_drf, all thread counts and interleavings); each call returns what "
                      "it returns alone (C13_isolation: results do not depend on the cache state); the unrepaired discipline is "
                      "refuted (C13_race_refuted: two first-use ParseInt on one fresh UnitsDefinition write reCache unguarded).",
        "level_note": "Model = ATP/Footprint.v (abstract cells, guards, traces) — partial: the Go memory model itself is not "
                      "formalised, the theorem is about the access discipline; tied to the code by the -race runs (search on the "
                      "implementation: a reported race or a result differing from the isolated one is a violation with the trial "
                      "as replay) and by the sequential footprint correspondence through verif-tagged read-only accessors.",
        "design_ref": "DESIGN.md §5 C13",
    }
