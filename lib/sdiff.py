#!/usr/bin/env python3
"""Debug helper: per-op differences between implementation observations and model predictions
for schema-family cases.  usage: sdiff.py CASES OBS PRED [max] [--strict]"""
import sys, os
sys.path.insert(0, os.path.dirname(os.path.abspath(__file__)))
from props import sx_parse

def show(x):
    if isinstance(x, tuple): return '"%s"' % x[1]
    if isinstance(x, list): return "(" + " ".join(show(y) for y in x) + ")"
    return x

def norm(o, strict):
    if isinstance(o, list) and o and o[0] == "err" and not strict:
        return "err"
    if isinstance(o, list) and o and o[0] == "rt":
        return ["rt"] + [norm(x, strict) for x in o[1:]]
    return o

def main():
    cases, obs, pred = sys.argv[1:4]
    mx = int(sys.argv[4]) if len(sys.argv) > 4 and sys.argv[4].isdigit() else 30
    strict = "--strict" in sys.argv
    n = 0
    summary = {}
    for c, o, p in zip(open(cases), open(obs), open(pred)):
        if o == p: continue
        cs, os_, ps = sx_parse(c.strip()), sx_parse(o.strip()), sx_parse(p.strip())
        payload = cs[3]
        if payload[0] != "sch":
            continue
        ops = payload[3][1:]
        ro, rp = os_[2], ps[2]
        if not (isinstance(ro, list) and isinstance(rp, list) and ro[0] == "r" and rp[0] == "r"):
            print("CASE", cs[1], "obs", show(ro)[:100], "pred", show(rp)[:100]); n += 1; continue
        for i, opx in enumerate(ops):
            a = ro[i + 1] if i + 1 < len(ro) else "?"
            b = rp[i + 1] if i + 1 < len(rp) else "?"
            if norm(a, strict) != norm(b, strict):
                key = (show(payload[2])[:60], opx[0])
                summary[key] = summary.get(key, 0) + 1
                if n < mx:
                    W = int(os.environ.get("W", "220"))
                    print("case %s op#%d schema %s\n   op %s\n   impl  %s\n   model %s" % (cs[1], i, show(payload[2])[:W], show(opx)[:W], show(a)[:W], show(b)[:W]))
                n += 1
    print("TOTAL differing ops:", n)
    for k, v in sorted(summary.items(), key=lambda kv: -kv[1])[:int(os.environ.get("S","8"))]:
        print("  %5d  %s  op=%s" % (v, k[0], k[1]))

main()
