#!/bin/bash
# usage: lib/apply_wp.sh NAME [checks...] — apply a builder's exported repo patches to /repo (git am, one commit each),
# run the unedited suite, merge the builder's /verif changes, regenerate the manifest, run the named quick checks.
# Everything is logged to /tmp/apply-NAME.log; a short summary is printed.
n=$1; shift
W=/tmp/wp-$n; L=/tmp/apply-$n.log
cd "$(dirname "$0")/.."
export GOFLAGS=-mod=mod GOPROXY=off GOSUMDB=off GOTOOLCHAIN=local
{
  echo "== repo patches"
  if ! ls $W/out/repo-patches/*.patch >/dev/null 2>&1 && [ -d $W/repo ] && [ -f $W/base_repo ]; then
    # the builder committed in its worktree but did not export: export what is on top of its base
    git -C $W/repo format-patch -q -o $W/out/repo-patches $(cat $W/base_repo)..HEAD
  fi
  if ls $W/out/repo-patches/*.patch >/dev/null 2>&1; then
    git -C /repo am -3 $W/out/repo-patches/*.patch || { echo "GIT-AM-FAILED"; git -C /repo am --abort; }
  else echo "(none)"; fi
  git -C /repo log --oneline | head -8
  echo "== suite"; lib/repo_test.sh && echo SUITE-OK || echo SUITE-FAILED
  echo "== merge"; lib/integrate.sh $n
  echo "== manifest"; python3 lib/mkmanifest.py
  for c in "$@"; do echo "== check $c"; ./check.sh $c quick 2>&1 | tail -6; done
} > $L 2>&1
grep -E 'GIT-AM-FAILED|SUITE-|CONFLICTS|^merged|MANIFEST|^OK property|^VIOLATION|^KNOWN-FINDING|Traceback|Error' $L | cut -c1-300
