#!/usr/bin/env python3
"""Rewrites the commit hashes of `fixed` entries in known_findings.json from the hashes the builders saw in
their scratch worktrees to the hashes of the same commits (matched by subject line) in /repo."""
import glob, json, os, re, subprocess
ROOT = os.path.dirname(os.path.dirname(os.path.abspath(__file__)))
def log(d):
    out = subprocess.run(["git", "-C", d, "log", "--format=%h %s", "-n", "200"], stdout=subprocess.PIPE, text=True).stdout
    return [l.split(" ", 1) for l in out.splitlines() if " " in l]
new = {s: h for h, s in log("/repo")}
old = {}
for d in glob.glob("/tmp/wp-*/repo"):
    for h, s in log(d):
        old[h] = s
p = os.path.join(ROOT, "known_findings.json")
kf = json.load(open(p))
n = 0
for f in kf["findings"]:
    c = f.get("commit")
    if not c or c in new.values():
        continue
    subj = old.get(c) or next((s for h, s in old.items() if h.startswith(c) or c.startswith(h)), None)
    if subj and subj in new:
        f["commit"] = new[subj]
        f["what"] = f["what"].replace(c, new[subj])
        n += 1
    else:
        print("unresolved commit", c, f["id"])
json.dump(kf, open(p, "w"), indent=1)
print("rewrote", n, "hashes")
