"""C18 (callable functions, schema/function.go): registration of the property, the statistics of
its case family, the property's own predicate on an observation, and the explanation of a
disagreement with the proved model.  Hooked into props.py by

    __import__("props_c18").register(__import__("sys").modules[__name__])

as the last line of props.py (after PROPS, FAMILY_STATS, DIRECT and EXPLAIN exist).

Case / observation syntax: coq/Interp/RunFunction.v.
"""
import hashlib
import re

_P = None  # the props module (for sx_parse / case_payload)


def _ty(t):
    """printable Go type of a TY node"""
    if isinstance(t, str):
        return {"i64": "int64", "f64": "float64", "str": "string", "err": "error"}.get(t, t)
    if t[0] == "sl":
        return "[]" + _ty(t[1])
    if t[0] == "m":
        return "map[%s]%s" % (_ty(t[1]), _ty(t[2]))
    if t[0] == "st":
        name = t[1][1]
        return "fakeerr.%s (a struct%s)" % (name, ", implements error" if t[2] == "1" else
                                            (" that is only NAMED error" if name == "error" else ""))
    return str(t)


def _sig_text(sig):
    ins = [_ty(t) for t in sig[1]]
    if sig[3] == "1" and ins:
        ins[-1] = "..." + ins[-1][2:]
    outs = [_ty(t) for t in sig[2]]
    res = "" if not outs else (" " + outs[0] if len(outs) == 1 and " " not in outs[0] else " (" + ", ".join(outs) + ")")
    return "func(" + ", ".join(ins) + ")" + res


def _decl_text(mode, decl):
    ins = "[" + ", ".join(_ty(t) for t in decl[1]) + "]"
    if mode == "dynamic":
        return "NewDynamicCallableFunction(inputs %s)" % ins
    return "NewCallableFunction(inputs %s, output %s, outputsError %s)" % (
        ins, "nil" if decl[2] == "none" else _ty(decl[2]), "true" if decl[3] == "1" else "false")


def _agrees(mode, sig, decl):
    """The declarative side of C18_accept_iff, with the reason when it fails."""
    if sig[3] == "1":
        return False, "the handler is variadic"
    if sig[1] != decl[1]:
        return False, "the handler's parameter types differ from the declared input types"
    if mode == "dynamic":
        outs = sig[2]
        if len(outs) == 2 and outs[1] == "err" and outs[0] in ("any", "err"):
            return True, ""
        return False, "a dynamic handler must return (any, error)"
    want = ([] if decl[2] == "none" else [decl[2]]) + (["err"] if decl[3] == "1" else [])
    if sig[2] != want:
        return False, "the handler's result types differ from the declared output / error flag"
    return True, ""


def _arg_text(a):
    return "nil" if a == "nil" else "%s#%s" % (_ty(a[1]), a[2])


_ERR_KINDS = {"0": "a nil error", "1": "a non-nil error",
              "2": "a non-nil error that itself is a *FunctionCallError with IsFunctionReportedError=false",
              "3": "a non-nil error that itself is a *FunctionCallError with IsFunctionReportedError=true"}


def _describe(pl):
    mode, sig, decl = pl[1], pl[2], pl[3]
    s = "%s with handler %s" % (_decl_text(mode, decl), _sig_text(sig))
    if pl[0] == "call":
        s += "; Call([%s]); handler returns %s" % (", ".join(_arg_text(a) for a in pl[4][1:]), _ERR_KINDS.get(pl[5][2], pl[5][2]))
    return s


def function_stats(rows):
    kinds, outcomes = {}, {}
    distinct = set()
    nontrivial = 0
    samples = []
    nparams, nargs = {}, {}
    for case, obs, pred in rows:
        pl = _P.case_payload(case)
        k = "%s/%s" % (pl[0], pl[1])
        kinds[k] = kinds.get(k, 0) + 1
        m = re.match(r"^\(obs \S+ \((r [a-z]+(?: [a-z]+)?)", obs)
        o = pl[0] + ": " + (m.group(1).replace(" none", "") if m else obs[:30])
        outcomes[o] = outcomes.get(o, 0) + 1
        np_ = len(pl[2][1])
        nparams[np_] = nparams.get(np_, 0) + 1
        if pl[0] == "call":
            na = len(pl[4]) - 1
            nargs[na] = nargs.get(na, 0) + 1
        h = hashlib.sha1(re.sub(r"^\(case \S+ ", "", case).encode()).digest()
        if h in distinct:
            continue
        distinct.add(h)
        # non-trivial: a handler with at least one parameter or result; for a call, one that reached Call
        # (the constructor accepted the handler)
        if (pl[2][1] or pl[2][2]) and not (pl[0] == "call" and "(r reject)" in obs):
            nontrivial += 1
        if len(samples) < 3 and (len(distinct) % 9973 == 1):
            samples.append({"case": case, "observed": obs})
    return {"cases": len(rows), "kinds": kinds, "outcomes": outcomes, "handler_parameters": nparams,
            "call_argument_counts": nargs, "distinct": len(distinct), "distinct_nontrivial": nontrivial,
            "exhaustive": "parameter tuples of length 0..3 over 7 native types x 22 result shapes x one-place "
                          "declaration mutants x both constructors; argument lists of every length 0..4",
            "samples": samples}


def function_direct(case, obs):
    """What the property says about an observation on its own (no model needed)."""
    pl = _P.case_payload(case)
    if obs.startswith("(bad"):
        return None
    what = _describe(pl)
    if obs == "panic" or obs == "(r panic)":
        if pl[0] == "accept":
            return "the constructor panicked: " + what
        ok, why = _agrees(pl[1], pl[2], pl[3])
        if not ok:
            return ("the constructor accepted a handler that does not agree with the declaration (%s) and Call then "
                    "panicked: %s" % (why, what))
        return "Call panicked (an accepted function may return a value or an error, never panic): " + what
    if pl[0] != "call":
        return None
    o = _P.sx_parse(obs)
    declared = len(pl[3][1])
    got = len(pl[4]) - 1
    if o[1] == "err":
        if o[2] == "untyped":
            return "Call returned an error that is not a *FunctionCallError: " + what
        if "with-value" in o:
            return "Call returned a value together with an error: " + what
        if o[2] == "shape" and "handler-ran" in o and pl[5][2] in ("2", "3"):
            return ("an error returned by the handler (a value that itself is a *FunctionCallError) was reported as NOT "
                    "function-reported: " + what)
        if o[2] == "shape" and "handler-ran" in o:
            return "Call ran the handler and then reported a call-shape problem: " + what
        if o[2] == "reported" and "not-the-handlers-error" in o:
            return "a function-reported error is not the error the handler returned: " + what
        if o[2] == "reported" and got != declared:
            return "a wrong argument count (%d for %d) was reported as a function-reported error: %s" % (got, declared, what)
        if o[2] == "reported" and pl[5][2] == "0":
            return "Call reports a function error although the handler returned a nil error: " + what
    if o[1] == "ok":
        if got != declared:
            return "Call succeeded with %d arguments for %d declared parameters: %s" % (got, declared, what)
        if "handler-calls" in o:
            return "Call succeeded but ran the handler %s times: %s" % (o[-1], what)
        if "unexpected-value" in o:
            return "Call returned a value from a function without output: " + what
    return None


def function_explain(case, obs, pred):
    """The model is the property's specification (C18_accept_iff decides acceptance from the
    signatures alone; C18_call_faithful / C18_wrong_count_is_error / C18_bad_argument_is_shape_error
    fix the result of every call), so any disagreement is a failing input."""
    if obs.startswith("(bad") or pred.startswith("(bad"):
        return None
    pl = _P.case_payload(case)
    what = _describe(pl)
    ok, why = _agrees(pl[1], pl[2], pl[3])
    if pred == "(r reject)" and obs != "(r reject)":
        return ("the constructor accepted a handler that does not agree with the declaration (%s)%s: %s"
                % (why, "" if pl[0] == "accept" else "; Call then gave " + obs, what))
    if obs == "(r reject)" and pred != "(r reject)":
        return "the constructor rejected a handler whose signature agrees exactly with the declaration: " + what
    return "Call returned %s; the handler's behaviour and the declaration determine %s: %s" % (obs, pred, what)


def register(props):
    global _P
    _P = props
    props.FAMILY_STATS["function"] = function_stats
    props.DIRECT[("C18", "function")] = function_direct
    props.EXPLAIN[("C18", "function")] = function_explain
    props.PROPS["C18"] = {
        "theory": "Properties/C18.v",
        "families": ["function"],
        "rule": "function: handlers built with reflect.FuncOf/MakeFunc (a sample cross-checked against literal funcs) for every "
                "parameter tuple of length 0..3 over the native types of the scalar/list/map/any schemas x 22 result shapes "
                "(none, T, error, (T,error), extra results, non-error last, wrong order, a struct NAMED error, a struct "
                "implementing error, (error,error)) x variadic variants x {the declaration the signature was written for, every "
                "declaration differing from it in one place} x both constructors; calls with the declared arguments, nil / a "
                "wrongly typed value at each position, every other length 0..4, handler returning nil and non-nil errors, and "
                "(handler-behaviour dimension) error VALUES that themselves are *FunctionCallError with the flag false / true, as "
                "a handler passes on from an inner call; result lists that extend an accepted one ((any, error) / (T, error) "
                "followed by one or two more results) for every parameter tuple of length 0..2 and both constructors; plus "
                "seeded random signatures with nested types; distinct by case text; non-trivial = handler has a parameter or "
                "result and, for a call, the constructor accepted it",
        "assumptions": ["the handler is a func value (a nil or non-func handler is outside the property's quantifier)",
                        "the handler itself does not panic; a CallableFunctionSchema is built by one of the two constructors",
                        "the dynamic constructor's output requirement is read as 'an interface-kind result followed by error' "
                        "(what the code tests); the stricter reading 'exactly any' is refuted in Properties/C18.v"],
        "level_text": "Theorems (unbounded over argument/result lists and types, handler behaviour universally quantified): "
                      "NewCallableFunction accepts iff parameters = reflected inputs, results = output ++ [error if outputsError], "
                      "not variadic; NewDynamicCallableFunction accepts iff parameters = reflected inputs, results = [I; error] for an "
                      "interface type I, not variadic; on an accepted function a call with fitting arguments returns exactly the "
                      "handler's value / the handler's error as function-reported; a wrong count or an unfitting argument is a "
                      "not-function-reported error; no argument list makes Call panic; a function-reported error is always the "
                      "handler's own; a non-nil handler error is function-reported whatever value it is (the error type is "
                      "abstract: a value that itself is a call error flagged not-function-reported changes nothing).",
        "level_note": "Model = Call/Function.v (hand-written from schema/function.go after the fixes for D35, D38, D39), tied to the "
                      "code by running the real constructors and Call on the full signature matrix; Go's assignability is modelled "
                      "for the types that occur (identity, or an interface the type implements).",
        "design_ref": "DESIGN.md §5 C18",
    }
