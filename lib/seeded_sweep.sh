#!/bin/bash
# usage: lib/seeded_sweep.sh [pattern ...] — run the quick check of its property against every seeded change
# (seeded/<id>/patch.diff + meta.json "property" / "breaks"); writes build/seeded_sweep.tsv (or $SWEEP_OUT):
#   id  property  verdict  exit  first line
# A change whose meta.json names SEVERAL properties (a list, or "C09,C10") is run under every one of them: one line per
# property.  verdict: CAUGHT (exit 1 with a VIOLATION line) | missed | NOAPPLY (the patch does not apply to the tree)
# | NOPROP (no property named) | EQUIV (not caught, and meta.json records "equivalent": true with the argument why no
# input can tell the change from the original; such a change that IS caught is reported CAUGHT — look at it).
cd "$(dirname "$0")/.."
[ $# -gt 0 ] || set -- '*'
out=${SWEEP_OUT:-build/seeded_sweep.tsv}; : > $out
for pat in "$@"; do
for d in seeded/$pat/; do
  id=$(basename $d)
  [ -f $d/patch.diff ] || continue
  grep -q "^$id	" $out && continue   # matched by an earlier pattern
  meta=$(/usr/bin/python3 - "$d/meta.json" <<'EOF' 2>/dev/null
import json, re, sys
m = json.load(open(sys.argv[1]))
p = m.get('property') or m.get('breaks') or ''
if not isinstance(p, str):
    p = ' '.join(str(x) for x in p)
props = []
for x in re.findall(r'C[0-9][0-9]', p):      # "XC03" (an older name of the struct-mapped run of C03) reads as C03
    if x not in props:
        props.append(x)
print(('1' if m.get('equivalent') is True else '0') + ' ' + ' '.join(props))
EOF
)
  equiv=${meta%% *}; props=${meta#* }
  [ -n "$meta" ] || { equiv=0; props=; }
  [ -n "$props" ] || props=$(echo $id | grep -o -i 'c[0-9][0-9]' | head -1 | tr a-z A-Z)
  [ -n "$props" ] || { echo -e "$id\t?\tNOPROP" >> $out; continue; }
  for prop in $props; do
    : > build/seedtest.out
    o=$(lib/seedtest.sh $d/patch.diff $prop quick 2>&1)
    rc=$(echo "$o" | grep -o 'exit=[0-9]*' | tail -1)
    first=$(grep -E '^(VIOLATION|OK)' build/seedtest.out | head -1 | cut -c1-100)
    if echo "$o" | grep -q 'does not apply'; then v=NOAPPLY; rc=; first=
    elif [ "$rc" = "exit=1" ] && grep -q '^VIOLATION' build/seedtest.out; then v=CAUGHT
    elif [ "$equiv" = 1 ]; then v=EQUIV
    else v=missed; fi
    echo -e "$id\t$prop\t$v\t$rc\t$first" >> $out
  done
done
done
echo "sweep done: $(grep -c '	CAUGHT	' $out) caught, $(grep -c '	missed	' $out) missed, $(grep -c '	EQUIV	' $out) equivalent, $(grep -c '	NOAPPLY' $out) stale, $(grep -c '	NOPROP' $out) without a property"
