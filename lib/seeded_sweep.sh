#!/bin/bash
# usage: lib/seeded_sweep.sh [pattern] — run the quick check of its property against every seeded change
# (seeded/<id>/patch.diff + meta.json "property"); writes build/seeded_sweep.tsv:  id  property  verdict  exit  first line
cd "$(dirname "$0")/.."
pat=${1:-*}
out=build/seeded_sweep.tsv; : > $out
for d in seeded/$pat/; do
  id=$(basename $d)
  [ -f $d/patch.diff ] || continue
  prop=$(/usr/bin/python3 -c "import json,sys; m=json.load(open('$d/meta.json')); p=m.get('property') or m.get('breaks') or ''; print(p if isinstance(p,str) else p[0])" 2>/dev/null)
  case "$prop" in C[0-9][0-9]) ;; *) prop=$(echo $id | grep -o -i 'c[0-9][0-9]' | head -1 | tr a-z A-Z);; esac
  [ -n "$prop" ] || { echo -e "$id\t?\tNOPROP" >> $out; continue; }
  o=$(lib/seedtest.sh $d/patch.diff $prop quick 2>&1)
  rc=$(echo "$o" | grep -o 'exit=[0-9]*' | tail -1)
  first=$(grep -E '^(VIOLATION|OK)' build/seedtest.out | head -1 | cut -c1-100)
  if echo "$o" | grep -q 'does not apply'; then v=NOAPPLY; elif [ "$rc" = "exit=1" ] && grep -q '^VIOLATION' build/seedtest.out; then v=CAUGHT; else v=missed; fi
  echo -e "$id\t$prop\t$v\t$rc\t$first" >> $out
done
echo "sweep done: $(grep -c CAUGHT $out) caught, $(grep -c missed $out) missed, $(grep -c NOAPPLY $out) stale"
