"""Per-property configuration: which theorem file, which case families, how an observation is
judged directly against the property text, and how known findings are matched."""
import hashlib
import re

TRUSTED_BASE = [
    "Coq 8.16.1 kernel (coqc; coqchk in the thorough tier); vm_compute; no native_compute",
    "no axioms: every property theorem is 'Closed under the global context' (checked on each run)",
    "extraction: ExtrOcamlBasic + ExtrOcamlString only, no Extract Constant/Inductive of our own; OCaml 4.13.1",
    "hand-written glue: ocaml/driver.ml (text <-> sexp only), the Go harness (generators, builders, canonical printer), lib/*.py",
    "correspondence is differential testing of the hand-written Coq model against the SDK built from /repo's working tree",
]


def sx_parse(s):
    """Tiny s-expression reader -> nested lists; strings are ('s', text)."""
    pos = 0
    n = len(s)

    def skip():
        nonlocal pos
        while pos < n and s[pos] in " \t":
            pos += 1

    def rd():
        nonlocal pos
        skip()
        if s[pos] == "(":
            pos += 1
            out = []
            while True:
                skip()
                if s[pos] == ")":
                    pos += 1
                    return out
                out.append(rd())
        if s[pos] == '"':
            pos += 1
            b = bytearray()
            while s[pos] != '"':
                if s[pos] == "\\":
                    b.append(int(s[pos + 1:pos + 3], 16))
                    pos += 3
                else:
                    b.append(ord(s[pos]))
                    pos += 1
            pos += 1
            return ("s", b.decode("latin-1"))
        j = pos
        while j < n and s[j] not in ' ()"':
            j += 1
        tok = s[pos:j]
        pos = j
        return tok
    return rd()


_ERR_RE = re.compile(r'\(err ([01]) \((?:"[^"]*" ?)*\)\)')


def strip_err_paths(text, keep_flag=False):
    """Project error observations: `(err C (segments...))` -> `err` (or `(err C)`).  With several
    simultaneous faults the FIRST error depends on Go's map iteration order and is not a property, so
    only the single-fault families (C17) compare paths."""
    return _ERR_RE.sub((lambda m: "(err %s)" % m.group(1)) if keep_flag else "err", text)


def case_payload(case):
    c = sx_parse(case)
    return c[3] if isinstance(c, list) and len(c) == 4 else c


# ------------------------------------------------------------------------------------------
# C16 units
# ------------------------------------------------------------------------------------------

def units_stats(rows):
    kinds = {}
    distinct = set()
    nontrivial = 0
    samples = []
    for case, obs, pred in rows:
        pl = case_payload(case)
        k = pl[0]
        kinds[k] = kinds.get(k, 0) + 1
        h = hashlib.sha1(re.sub(r"^\(case \S+ ", "", case).encode()).digest()
        if h in distinct:
            continue
        distinct.add(h)
        # non-trivial: a formatted value that uses at least one multiplier, or a parse input with >= 2 tokens / a rejection
        if k == "fmtint":
            if len(pl[1][2]) > 0 and int(pl[2]) >= 2:
                nontrivial += 1
        else:
            nontrivial += 1
        if len(samples) < 3 and (len(distinct) % 997 == 1):
            samples.append({"case": case, "observed": obs})
    acc = sum(1 for _, o, _ in rows if "(ok" in o)
    return {"cases": len(rows), "kinds": kinds, "distinct": len(distinct), "distinct_nontrivial": nontrivial,
            "observations_with_accept": acc, "samples": samples}


def units_direct(case, obs):
    pl = case_payload(case)
    o = sx_parse("(" + obs + ")")[0] if not obs.startswith("(") else sx_parse(obs)
    if o == "panic":
        return "the units code panicked"
    if pl[0] == "fmtint":
        n = pl[2]
        if int(n) < 0:
            return None
        # (r short long parse_short parse_long): format followed by parse must return the original
        if o[3] != ["ok", n]:
            return "ParseInt(FormatShortInt(%s)) = %s, expected %s (short form %r)" % (n, o[3], n, o[1][1])
        if o[4] != ["ok", n]:
            return "ParseInt(FormatLongInt(%s)) = %s, expected %s (long form %r)" % (n, o[4], n, o[2][1])
    if pl[0] == "fmtfloat":
        # (r short long parsefloat_short parsefloat_long): format followed by parse returns the original
        # within floating-point tolerance (each component is printed with six decimals)
        x = fl_value(pl[2])
        if x is None or x < 0:
            return None
        for form, text, res in (("Short", o[1][1], o[3]), ("Long", o[2][1], o[4])):
            if res == "err":
                return "Format%sFloat(%r) = %r, which ParseFloat rejects" % (form, x, text)
            got = fl_value(res[1])
            if got is None or abs(got - x) > 1e-6 * max(1.0, abs(x)):
                return "ParseFloat(Format%sFloat(%r)) = %r, expected %r within tolerance (formatted as %r)" % (form, x, got, x, text)
    if pl[0] == "unser":
        # (r IntSchema.Unserialize FloatSchema.Unserialize ParseInt ParseFloat): a schema with units reads a string
        # with the units grammar and nothing else, so both observation points give the same answer
        if o[1] != o[3]:
            return ("IntSchema(units).Unserialize(%r) = %s but UnitsDefinition.ParseInt gives %s: a string that is not counts followed "
                    "by declared unit names must be rejected (and a well-formed one must give the same number)" % (pl[2][1], o[1], o[3]))
        if o[2] != o[4]:
            return ("FloatSchema(units).Unserialize(%r) = %s but UnitsDefinition.ParseFloat gives %s: a string that is not counts "
                    "followed by declared unit names must be rejected (and a well-formed one must give the same number)"
                    % (pl[2][1], fl_show(o[2]), fl_show(o[4])))
    return None


def fl_value(x):
    """FL of the interchange syntax -> Python float (None for NaN)."""
    if isinstance(x, list):
        import math
        try:
            v = math.ldexp(float(int(x[1])), int(x[2]))
        except OverflowError:
            v = float("inf")
        return -v if x[0] == "-" else v
    return {"+0": 0.0, "-0": -0.0, "+inf": float("inf"), "-inf": float("-inf")}.get(x)


def fl_show(o):
    if isinstance(o, list) and o[0] == "ok":
        return "(ok %r)" % fl_value(o[1]) if o[1] != "nan" else "(ok NaN)"
    return str(o)


# ------------------------------------------------------------------------------------------
# registry
# ------------------------------------------------------------------------------------------

FAMILY_STATS = {"units": units_stats}
DIRECT = {("C16", "units"): units_direct}
REPLAY_HANDLERS = {}


def family_stats(fam, rows):
    f = FAMILY_STATS.get(fam)
    if f:
        return f(rows)
    distinct = {hashlib.sha1(re.sub(r"^\(case \S+ ", "", c).encode()).digest() for c, _, _ in rows}
    return {"cases": len(rows), "distinct": len(distinct), "distinct_nontrivial": len(distinct),
            "samples": [{"case": rows[0][0], "observed": rows[0][1]}] if rows else []}


def direct_check(prop, fam, case, obs):
    """The property's own predicate evaluated on the implementation's observation alone."""
    f = DIRECT.get((prop, fam))
    return f(case, obs) if f else None


AGREE = {}   # (property, family) or family -> projection-aware comparison; default: textual equality


def agree(prop, fam, case, obs, pred):
    f = AGREE.get((prop, fam)) or AGREE.get(fam)
    return f(case, obs, pred) if f else obs == pred


def explain_disagreement(prop, fam, case, obs, pred):
    """A disagreement with the proved model is itself a property failure when the property
    determines the observable completely (then the case is the failing input)."""
    f = EXPLAIN.get((prop, fam))
    if f:
        return f(case, obs, pred)
    return None


def units_explain(case, obs, pred):
    pl = case_payload(case)
    if pl[0] in ("parse", "parsefloat"):
        return ("%s(%r) returned %s; the specification (sum of count x multiplier for a string of counts followed by "
                "declared unit names, an error for every other string) gives %s"
                % ("ParseInt" if pl[0] == "parse" else "ParseFloat", pl[2][1], obs, pred))
    if pl[0] == "unser":
        return ("(IntSchema.Unserialize, FloatSchema.Unserialize, ParseInt, ParseFloat) of %r with units gave %s; the specification "
                "(sum of count x multiplier for counts followed by declared unit names, an error for every other string) gives %s"
                % (pl[2][1], obs, pred))
    if pl[0] == "fmtfloat":
        return "float formatting / re-parsing of %r differs from the model: observed %s, model %s" % (fl_value(pl[2]), obs, pred)
    return "formatting differs from the proved model: observed %s, model %s" % (obs, pred)


EXPLAIN = {("C16", "units"): units_explain}


def c16_sweep_engine(prop, tier, seed, work, known):
    """Thorough tier: PROVE format-then-parse = identity on the built-in unit sets (as dumped from the
    live SDK into Generated/Tables.v) for every integer in [0, 200000] - the range the property's
    quantifier names.  A finite domain decided inside the kernel: 16 shard lemmas
    `forallb ... = true` by vm_compute compiled in parallel, lifted by Proofs/UnitsSweep.sweep_all_sound
    and glued by lia into one theorem, with Print Assumptions.  A shard that does not check is a broken
    proof obligation; the failing integers are then searched for by the correspondence family."""
    import os
    import subprocess
    import check
    if tier != "thorough":
        return {"name": "builtin-sweep-proof", "stats": {"skipped": "thorough tier only; quick proves [0,2000] in Proofs/UnitsBuiltin.v"}}
    top, shards = 200000, 16
    size = (top + 1 + shards - 1) // shards
    d = os.path.join(work, "sweep")
    os.makedirs(d, exist_ok=True)
    hdr = ("From Coq Require Import Lia ZArith List.\n"
           "From Verif Require Import Base.Prelude Base.Str Schema.Regex Schema.Units Generated.Tables Proofs.UnitsSweep.\n"
           "Import ListNotations.\nOpen Scope Z_scope.\n")
    for k in range(shards):
        with open(os.path.join(d, "Shard%d.v" % k), "w") as f:
            f.write(hdr + "Lemma shard_%d : forallb (fun u => sweep u %d (Z.to_nat %d)) builtin_units = true.\n"
                          "Proof. vm_compute. reflexivity. Qed.\n" % (k, k * size, size))
    with open(os.path.join(d, "SweepAll.v"), "w") as f:
        f.write(hdr + "".join("From VerifSweep Require Import Shard%d.\n" % k for k in range(shards)))
        f.write("Theorem C16_roundtrip_builtin_%d : forall u n, In u builtin_units -> 0 <= n <= %d ->\n"
                "  parse_units_int u (format_short_int u n) = Some n /\\ parse_units_int u (format_long_int u n) = Some n.\n"
                "Proof.\n  intros u n Hu Hn.\n" % (top, top))
        for k in range(shards):
            f.write("  destruct (Z_lt_ge_dec n %d) as [L%d|G%d].\n"
                    "  { apply (sweep_all_sound builtin_units %d (Z.to_nat %d) shard_%d u n Hu). rewrite Z2Nat.id; lia. }\n"
                    % ((k + 1) * size, k, k, k * size, size, k))
        f.write("  exfalso; lia.\nQed.\nPrint Assumptions C16_roundtrip_builtin_%d.\n" % top)
    base = ["coqc", "-Q", check.COQ, "Verif", "-Q", d, "VerifSweep", "-w", "-notation-overridden"]
    procs = [subprocess.Popen(["timeout", "3000"] + base + ["Shard%d.v" % k], cwd=d, stdout=subprocess.PIPE,
                              stderr=subprocess.STDOUT, text=True) for k in range(shards)]
    outs = [p.communicate()[0] for p in procs]
    bad = [k for k, p in enumerate(procs) if p.returncode != 0]
    if bad:
        k = bad[0]
        raise check.ProofBroken("c16-sweep", "shard %d ([%d, %d)) of the built-in round-trip sweep does not check:\n%s"
                                % (k, k * size, (k + 1) * size, outs[k][-1500:]))
    p = check.run(["timeout", "3000"] + base + ["SweepAll.v"], cwd=d)
    if p.returncode != 0 or "Closed under the global context" not in p.stdout:
        raise check.ProofBroken("c16-sweep", "the glued theorem C16_roundtrip_builtin_%d does not check or is not axiom-free:\n%s"
                                % (top, p.stdout[-1500:]))
    return {"name": "builtin-sweep-proof", "evaluations": 0, "distinct_nontrivial": 0, "obligations": shards + 1,
            "stats": {"theorem": "C16_roundtrip_builtin_%d" % top, "range": [0, top], "shards": shards,
                      "qed": shards + 1, "assumptions": "Closed under the global context",
                      "unit_sets": "builtin_units from Generated/Tables.v (re-dumped from the SDK on this run)"}}


def match_known(known, fam, case, obs, pred):
    for k in known:
        m = k.get("match", {})
        if m.get("family") and fam not in str(m["family"]).split("|"):      # "famA|famB": the class may show in either family
            continue
        pred_fn = KNOWN_PREDICATES.get(m.get("predicate"))
        if pred_fn and pred_fn(m, case, obs, pred):
            return k
    return None


# ---- D73: caller-supplied ambiguous unit names (mirror of Proofs/UnitsStringRound.v names_unambiguous) ----

def _c16_bytes(x):
    return x[1].encode("latin-1") if isinstance(x, tuple) else b""


def _c16_ends_with_space(b):
    """does the byte string END with a character strings.TrimSpace trims (Base/Str.v head_sp usp2r usp3r on the reversed name)"""
    n = len(b)
    if n >= 1 and (b[-1] == 32 or 9 <= b[-1] <= 13):
        return True
    if n >= 2 and b[-2] == 0xC2 and b[-1] in (0x85, 0xA0):
        return True
    if n >= 3:
        c, d, e = b[-3], b[-2], b[-1]
        if c == 0xE1 and d == 0x9A and e == 0x80:
            return True
        if c == 0xE2 and ((d == 0x80 and (0x80 <= e <= 0x8A or e in (0xA8, 0xA9, 0xAF))) or (d == 0x81 and e == 0x9F)):
            return True
        if c == 0xE3 and d == 0x80 and e == 0x80:
            return True
    return False


def c16_names_unambiguous(units):
    """units: the parsed `(units (unit ss sp ls lp) ((k (unit ...)) ...))` descriptor."""
    dig = lambda c: 48 <= c <= 57
    resp = lambda c: c in (32, 9, 10, 12, 13)
    keyed = [(1, [_c16_bytes(x) for x in units[1][1:5]])] + [(int(m[0]), [_c16_bytes(x) for x in m[1][1:5]]) for m in units[2]]
    names = [x for _, ns in keyed for x in ns]
    for x in names:
        if not x or dig(x[0]) or resp(x[0]) or (x[0] == 46 and (len(x) == 1 or dig(x[1]))):
            return False
        if _c16_ends_with_space(x):
            return False
    for x in names:
        for y in names:
            if len(y) > len(x) and y.startswith(x) and (dig(y[len(x)]) or resp(y[len(x)])):
                return False
    for k1, n1 in keyed:
        for k2, n2 in keyed:
            if k1 != k2 and set(n1) & set(n2):
                return False
    return True


def c16_ambiguous_names(m, case, obs, pred):
    """D73: an integer formatted with a definition whose names are NOT unambiguous does not read back - exactly as the
    faithful model predicts (C16_roundtrip_arbitrary_refuted, C16_unambiguous_clauses_needed,
    C16_roundtrip_unicode_trail_refuted).  Only fmtint cases, only when the implementation agrees with the model."""
    pl = case_payload(case)
    if not isinstance(pl, list) or pl[0] != "fmtint" or obs != pred:
        return False
    return not c16_names_unambiguous(pl[1])


KNOWN_PREDICATES = {"c16_ambiguous_names": c16_ambiguous_names}

PROPS = {
    "C16": {
        "theory": "Properties/C16.v",
        "families": ["units"],
        "engines": [c16_sweep_engine],
        "rule": "units: the five built-in unit sets (from the live SDK) and generated definitions (prefix-overlapping names, "
                "regexp metacharacters) x {integer sweep 0..N, powers of ten, multiplier boundaries +-1, random 63-bit values} "
                "formatted short+long and re-parsed, plus generated well-formed and near-miss strings parsed; the float side: "
                "whole-number floats 0..N (and x10, /4), multiples of the multipliers, short and six-digit fractions, random "
                "mantissas, formatted short+long with FormatShortFloat/FormatLongFloat and re-parsed with ParseFloat (direct "
                "tolerance check 1e-6 relative), float strings through ParseFloat; the schema entry points: "
                "IntSchema/FloatSchema(units).Unserialize next to ParseInt/ParseFloat on well-formed, near-miss and "
                "number-look-alike strings (exponents, hex, inf/nan, signs, leading/trailing point, digit separators); Unicode "
                "white space (strings.TrimSpace trims unicode.IsSpace on the UTF-8 text, the grammar's \\s is ASCII-only): for every "
                "definition blank texts, texts padded outside with NBSP / NEL / U+3000 / U+2003 / U+2028 / U+1680 / \\v, the same "
                "characters BETWEEN count and unit, lone bytes 0xA0 / 0x85 / 0xC2 and U+200B / U+180E / U+FEFF (never trimmed); "
                "definitions whose names start with or contain such characters (must round-trip) and D73 witnesses whose names END "
                "in them (known finding, class predicate c16_ambiguous_names); distinct by "
                "case text; non-trivial = uses a multiplier (integer formatting) or is a float / parse / unserialize input",
        "assumptions": ["unit names are valid UTF-8 (regexp.MustCompile panics on a name that is not: not modelled)",
                        "floats formatted are non-negative, finite and below 2^53 x 2^40"],
        "level_text": "Theorems (unbounded): the greedy decomposition printed by the formatter sums back to n for any positive "
                      "multipliers; the parser's accumulator returns exactly the sum of count x multiplier or an error when a product or "
                      "partial sum leaves int64. Theorem (finite domain, by vm_compute): format-then-parse is the identity on the built-in "
                      "unit sets dumped from the live SDK for every integer in [0,2000] (thorough: [0,200000]). Float side, theorems "
                      "(unbounded): trimFraction returns the integer part of a decimal rendering untouched and removes only trailing "
                      "zeros of the fraction (value kept), and this is what the formatter prints for every finite float64 count. "
                      "String level, ARBITRARY well-formed definitions, unbounded (no sweep): (a) C16_matcher_sound / "
                      "C16_matcher_complete_weak - the model's backtracking matcher is sound w.r.t. a declarative semantics of the whole "
                      "regexp language of Schema/Regex.v, and with the fuel the model gives it it answers whenever a declarative match "
                      "exists; (b) C16_parse_sound - for every string, if ParseInt answers n then the trimmed input is a tokenisation "
                      "(optional spaces; per multiplier in strictly descending order and last the base unit: nothing, or count, spaces, "
                      "one of the four declared names) and n is exactly the sum of count x multiplier with every partial sum in int64; "
                      "(c) C16_roundtrip_partial - for every definition satisfying the boolean names_unambiguous (name heads are not "
                      "digits/spaces/'.'+digit, names do not end with a white-space character strings.TrimSpace trims - ASCII or Unicode in UTF-8 -, no name is a proper prefix of another that continues "
                      "with a digit or space, different units share no name) and EVERY n in [0, max int64]: ParseInt(FormatShortInt n) = n "
                      "and ParseInt(FormatLongInt n) = n; (d) C16_roundtrip_builtin_all - the five built-in sets dumped from the live SDK "
                      "are unambiguous, so their round trip holds on all of [0, max int64]; (e) C16_roundtrip_arbitrary_refuted + one "
                      "witness per clause - without names_unambiguous the round trip is false in the model, and the SDK answers "
                      "identically on the witnesses (3600 -> \"1m\" -> 60 when two units share the name \"m\"); "
                      "(f) C16_parse_complete / C16_parse_spec / C16_parse_spec_builtin - for definitions with plain names (boolean "
                      "names_plain: no digit, space or point inside a name, different units share no name; true of the five built-in "
                      "sets) ParseInt s = n IF AND ONLY IF the trimmed input is a non-empty tokenisation whose counts, products and "
                      "partial sums are int64 and whose sum is n: every well-formed string is accepted with the right number, every "
                      "other string is rejected (C16_tokens_determined: the tokens are a function of the string); "
                      "(f') C16_trim_space_blank_iff / C16_trim_space_id / C16_roundtrip_unicode_trail_refuted - the model's TrimSpace is "
                      "Go's (Unicode white space, UTF-8 aware; checked exhaustively against strings.TrimSpace on all byte strings of "
                      "length <= 3 and all code points): the trimmed text is empty iff the text is a sequence of white-space "
                      "characters, a text starting with a digit and not ending in one is untouched, and a name ending in U+00A0 "
                      "breaks the round trip in model and SDK alike; "
                      "(g) C16_parse_float_sound / C16_parse_float_of_int - a successful ParseFloat is the float accumulation over a "
                      "tokenisation of the input, and wherever ParseInt answers n ParseFloat answers float64(n). "
                      "Partial: names_unambiguous is sufficient, not proved weakest; the float round trip within tolerance is carried by "
                      "the correspondence check and the direct predicate only.",
        "level_note": "Model = Schema/Units.v + Schema/Regex.v (backtracking matcher with Go's leftmost-first semantics), hand-written; "
                      "tied to schema/units.go by differential runs on generated definitions and strings; Generated/Tables.v is re-dumped "
                      "from the SDK on every run. Go's regexp engine is modelled, not verified: the string-level theorems are about the "
                      "model's matcher (proved sound and weakly complete against a declarative regexp semantics); which of several "
                      "matches leftmost-first picks is not characterised - the round trip does not need it (the match is unique).",
        "design_ref": "DESIGN.md §5 C16",
    },
}

NOT_CLAIMED = {}


import sys as _sys
import props_c18
import props_c19
props_c18.register(_sys.modules[__name__])
props_c19.register(_sys.modules[__name__])
import props_c11
props_c11.register(_sys.modules[__name__])
import props_c13
props_c13.register(_sys.modules[__name__])
import props_c15
props_c15.register(_sys.modules[__name__])
import props_c14
props_c14.register(_sys.modules[__name__])
import props_c06
props_c06.register(_sys.modules[__name__])
import props_c08
props_c08.register(_sys.modules[__name__])
import props_c07
props_c07.register(_sys.modules[__name__])
import props_c05
props_c05.register(_sys.modules[__name__])
import props_c03
props_c03.register(_sys.modules[__name__])
import props_c01
props_c01.register(_sys.modules[__name__])
__import__("props_c04").register(_sys.modules[__name__])
__import__("props_c12").register(_sys.modules[__name__])
__import__("props_c17").register(_sys.modules[__name__])
__import__("props_c02").register(_sys.modules[__name__])
import props_c09
import props_c10
props_c09.register(_sys.modules[__name__])
props_c10.register(_sys.modules[__name__])
import props_struct
props_struct.register(_sys.modules[__name__])
