"""Per-property configuration: which theorem file, which case families, how an observation is
judged directly against the property text, and how known findings are matched."""
import hashlib
import re

TRUSTED_BASE = [
    "Coq 8.16.1 kernel (coqc; coqchk in the thorough tier); vm_compute; no native_compute",
    "no axioms: every property theorem is 'Closed under the global context' (checked on each run)",
    "extraction: ExtrOcamlBasic + ExtrOcamlString only, no Extract Constant/Inductive of our own; OCaml 4.13.1",
    "hand-written glue: ocaml/driver.ml (text <-> sexp only), the Go harness (generators, builders, canonical printer), lib/*.py",
    "correspondence is differential testing of the hand-written Coq model against the SDK built from /repo's working tree",
]


def sx_parse(s):
    """Tiny s-expression reader -> nested lists; strings are ('s', text)."""
    pos = 0
    n = len(s)

    def skip():
        nonlocal pos
        while pos < n and s[pos] in " \t":
            pos += 1

    def rd():
        nonlocal pos
        skip()
        if s[pos] == "(":
            pos += 1
            out = []
            while True:
                skip()
                if s[pos] == ")":
                    pos += 1
                    return out
                out.append(rd())
        if s[pos] == '"':
            pos += 1
            b = bytearray()
            while s[pos] != '"':
                if s[pos] == "\\":
                    b.append(int(s[pos + 1:pos + 3], 16))
                    pos += 3
                else:
                    b.append(ord(s[pos]))
                    pos += 1
            pos += 1
            return ("s", b.decode("latin-1"))
        j = pos
        while j < n and s[j] not in ' ()"':
            j += 1
        tok = s[pos:j]
        pos = j
        return tok
    return rd()


_ERR_RE = re.compile(r'\(err ([01]) \((?:"[^"]*" ?)*\)\)')


def strip_err_paths(text, keep_flag=False):
    """Project error observations: `(err C (segments...))` -> `err` (or `(err C)`).  With several
    simultaneous faults the FIRST error depends on Go's map iteration order and is not a property, so
    only the single-fault families (C17) compare paths."""
    return _ERR_RE.sub((lambda m: "(err %s)" % m.group(1)) if keep_flag else "err", text)


def case_payload(case):
    c = sx_parse(case)
    return c[3] if isinstance(c, list) and len(c) == 4 else c


# ------------------------------------------------------------------------------------------
# C16 units
# ------------------------------------------------------------------------------------------

def units_stats(rows):
    kinds = {}
    distinct = set()
    nontrivial = 0
    samples = []
    for case, obs, pred in rows:
        pl = case_payload(case)
        k = pl[0]
        kinds[k] = kinds.get(k, 0) + 1
        h = hashlib.sha1(re.sub(r"^\(case \S+ ", "", case).encode()).digest()
        if h in distinct:
            continue
        distinct.add(h)
        # non-trivial: a formatted value that uses at least one multiplier, or a parse input with >= 2 tokens / a rejection
        if k == "fmtint":
            if len(pl[1][2]) > 0 and int(pl[2]) >= 2:
                nontrivial += 1
        else:
            nontrivial += 1
        if len(samples) < 3 and (len(distinct) % 997 == 1):
            samples.append({"case": case, "observed": obs})
    acc = sum(1 for _, o, _ in rows if "(ok" in o)
    return {"cases": len(rows), "kinds": kinds, "distinct": len(distinct), "distinct_nontrivial": nontrivial,
            "observations_with_accept": acc, "samples": samples}


def units_direct(case, obs):
    pl = case_payload(case)
    o = sx_parse("(" + obs + ")")[0] if not obs.startswith("(") else sx_parse(obs)
    if o == "panic":
        return "the units code panicked"
    if pl[0] == "fmtint":
        n = pl[2]
        if int(n) < 0:
            return None
        # (r short long parse_short parse_long): format followed by parse must return the original
        if o[3] != ["ok", n]:
            return "ParseInt(FormatShortInt(%s)) = %s, expected %s (short form %r)" % (n, o[3], n, o[1][1])
        if o[4] != ["ok", n]:
            return "ParseInt(FormatLongInt(%s)) = %s, expected %s (long form %r)" % (n, o[4], n, o[2][1])
    return None


# ------------------------------------------------------------------------------------------
# registry
# ------------------------------------------------------------------------------------------

FAMILY_STATS = {"units": units_stats}
DIRECT = {("C16", "units"): units_direct}
REPLAY_HANDLERS = {}


def family_stats(fam, rows):
    f = FAMILY_STATS.get(fam)
    if f:
        return f(rows)
    distinct = {hashlib.sha1(re.sub(r"^\(case \S+ ", "", c).encode()).digest() for c, _, _ in rows}
    return {"cases": len(rows), "distinct": len(distinct), "distinct_nontrivial": len(distinct),
            "samples": [{"case": rows[0][0], "observed": rows[0][1]}] if rows else []}


def direct_check(prop, fam, case, obs):
    """The property's own predicate evaluated on the implementation's observation alone."""
    f = DIRECT.get((prop, fam))
    return f(case, obs) if f else None


AGREE = {}   # (property, family) or family -> projection-aware comparison; default: textual equality


def agree(prop, fam, case, obs, pred):
    f = AGREE.get((prop, fam)) or AGREE.get(fam)
    return f(case, obs, pred) if f else obs == pred


def explain_disagreement(prop, fam, case, obs, pred):
    """A disagreement with the proved model is itself a property failure when the property
    determines the observable completely (then the case is the failing input)."""
    f = EXPLAIN.get((prop, fam))
    if f:
        return f(case, obs, pred)
    return None


def units_explain(case, obs, pred):
    pl = case_payload(case)
    if pl[0] == "parse":
        return ("ParseInt(%r) returned %s; the specification (sum of count x multiplier for a string of counts followed by "
                "declared unit names, an error for every other string) gives %s" % (pl[2][1], obs, pred))
    return "formatting differs from the proved model: observed %s, model %s" % (obs, pred)


EXPLAIN = {("C16", "units"): units_explain}


def match_known(known, fam, case, obs, pred):
    for k in known:
        m = k.get("match", {})
        if m.get("family") and m["family"] != fam:
            continue
        pred_fn = KNOWN_PREDICATES.get(m.get("predicate"))
        if pred_fn and pred_fn(m, case, obs, pred):
            return k
    return None


KNOWN_PREDICATES = {}

PROPS = {
    "C16": {
        "theory": "Properties/C16.v",
        "families": ["units"],
        "rule": "units: the five built-in unit sets (from the live SDK) and generated definitions (prefix-overlapping names, "
                "regexp metacharacters) x {integer sweep 0..N, powers of ten, multiplier boundaries +-1, random 63-bit values} "
                "formatted short+long and re-parsed, plus generated well-formed and near-miss strings parsed; distinct by case "
                "text; non-trivial = uses a multiplier (formatting) or is a parse input",
        "assumptions": ["ASCII inputs for strings.TrimSpace; float formatting/parsing is modelled separately"],
        "level_text": "Theorems (unbounded): the greedy decomposition printed by the formatter sums back to n for any positive "
                      "multipliers; the parser's accumulator returns exactly the sum of count x multiplier or an error when a product or "
                      "partial sum leaves int64. Theorem (finite domain, by vm_compute): format-then-parse is the identity on the built-in "
                      "unit sets dumped from the live SDK for every integer in [0,2000] (thorough: [0,200000]). Partial: the string-level "
                      "round trip for arbitrary definitions and the float side are carried by the correspondence check only.",
        "level_note": "Model = Schema/Units.v + Schema/Regex.v (backtracking matcher with Go's leftmost-first semantics), hand-written; "
                      "tied to schema/units.go by differential runs on generated definitions and strings; Generated/Tables.v is re-dumped "
                      "from the SDK on every run. Go's regexp engine is modelled, not verified.",
        "design_ref": "DESIGN.md §5 C16",
    },
}

NOT_CLAIMED = {}


import sys as _sys
import props_c18
import props_c19
props_c18.register(_sys.modules[__name__])
props_c19.register(_sys.modules[__name__])
import props_struct
props_struct.register(_sys.modules[__name__])
