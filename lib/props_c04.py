"""C04 (schema operations are total: an error, never a panic / stack exhaustion / hang):
registration of the property, statistics of its case families, the property's own predicate on an
observation, the explanation of a disagreement with the proved model, and the class predicates of
the open known findings.

Case / observation syntax: coq/Interp/RunC04.v, harness/cmd/harness/c04_total.go, c04_struct.go.

  c04total  (c04 ENV SCHEMA (hyp NIC NDC) (ops (u|v|s|c V)...)) -> (r (wf 1) (hyp NIC NDC) ok|err|panic ...)
  c04struct (c04s NAME (ops ...))                               -> (r t|panic ...)      (direct check only)
"""
import hashlib
import re

_P = None

OPNAME = {"u": "Unserialize", "v": "Validate", "s": "Serialize", "c": "ValidateCompatibility"}


def _ops(pl):
    return pl[-1][1:]


def _short(x, n=260):
    s = _P_sx(x)
    return s if len(s) <= n else s[:n] + "..."


def _P_sx(x):
    if isinstance(x, tuple):
        return '"%s"' % x[1]
    if isinstance(x, list):
        return "(" + " ".join(_P_sx(y) for y in x) + ")"
    return x


def _classes(obs):
    """outcome classes of an observation line (without id), or None for crash / hang / panic / bad"""
    if not obs.startswith("(r "):
        return None
    o = _P.sx_parse(obs)
    return [c for c in o[1:] if isinstance(c, str)]


def _hyp(text):
    m = re.search(r"\(hyp ([01]) ([01])\)", text)
    return (m.group(1) == "1", m.group(2) == "1") if m else (True, True)


def _vkind(v):
    if isinstance(v, str):
        return v
    h = v[0]
    if h in ("i", "f", "s", "b"):
        t = v[1]
        return h + ":" + (t if isinstance(t, str) else "named")
    if h in ("sl", "m", "p", "st"):
        t = v[1]
        return h + ":" + (_P_sx(t) if len(_P_sx(t)) < 30 else "typed")
    if h == "op":
        return "op:" + v[1]
    return h


def total_stats(rows):
    nops = 0
    opk, cls, vk, skinds = {}, {}, {}, {}
    distinct = set()
    nontrivial = 0
    samples = []
    schemas = set()
    for case, obs, pred in rows:
        pl = _P.case_payload(case)
        sch = _P_sx(pl[2])
        schemas.add(hashlib.sha1(sch.encode()).digest())
        for k in re.findall(r"\((int|float|string|bool|pattern|any|enum_int|enum_str|list|map|object|oneof|ref|scope)\b", " (" + sch):
            skinds[k] = skinds.get(k, 0) + 1
        cl = _classes(re.sub(r"^\(obs \S+ ", "", obs)[:-1]) or []
        ops = _ops(pl)
        for i, o in enumerate(ops):
            nops += 1
            opk[o[0]] = opk.get(o[0], 0) + 1
            k = _vkind(o[1])
            vk[k] = vk.get(k, 0) + 1
            c = cl[i] if i < len(cl) else "crash"
            cls[c] = cls.get(c, 0) + 1
            h = hashlib.sha1((sch + "|" + _P_sx(o)).encode()).digest()
            if h in distinct:
                continue
            distinct.add(h)
            # non-trivial: the call went below the root of a structured schema, or a structured value met a scalar schema
            if not isinstance(pl[2], str) and pl[2][0] in ("list", "map", "object", "oneof", "scope", "ref") or not isinstance(o[1], str) and o[1][0] in ("sl", "m", "p", "st"):
                nontrivial += 1
        if len(samples) < 3 and len(rows) > 3 and (len(distinct) % 4999) < 40:
            samples.append({"case": case[:1500], "observed": obs[:400]})
    return {"cases": len(rows), "calls": nops, "schemas": len(schemas), "schema_node_kinds": skinds, "operations": opk,
            "outcome_classes": cls, "injected_value_kinds": dict(sorted(vk.items(), key=lambda kv: -kv[1])[:40]),
            "distinct": len(distinct), "distinct_nontrivial": nontrivial, "samples": samples,
            "exhaustive": "every fixed schema (each kind alone, under list / map / one- and two-property objects, one-ofs, "
                          "recursive / mutual / external references, nested scopes, defaults) x the whole value pool at the "
                          "root x four operations"}


def _describe(pl, i):
    o = _ops(pl)[i]
    return "%s(%s) on schema %s" % (OPNAME.get(o[0], o[0]), _short(o[1]), _short(pl[2], 400))


def total_direct(case, obs):
    """never panic / crash / hang — the predicate of C04 itself, on the implementation's observation"""
    pl = _P.case_payload(case)
    if obs in ("crash", "hang", "panic"):
        ops = _ops(pl)
        what = {"crash": "killed the process (fatal error: stack overflow or similar)", "hang": "did not return within 20 s",
                "panic": "panicked outside the operation's own recover"}[obs]
        if len(ops) == 1:
            return "%s %s" % (_describe(pl, 0), what)
        return "one of %d calls on schema %s %s" % (len(ops), _short(pl[2], 400), what)
    cl = _classes(obs)
    if cl is None:
        return None
    for i, c in enumerate(cl):
        if c == "panic":
            return "%s panicked (the property allows a result or an error only)" % _describe(pl, i)
    return None


def total_explain(case, obs, pred):
    """The model is proved total (C04) for wf schemas inside the two cycle hypotheses; a disagreement on
    ok/err is a model/code mismatch, not a failing input of C04 (left to no-failing-input-found)."""
    return None


def struct_stats(rows):
    nops = 0
    cls = {}
    distinct = set()
    for case, obs, pred in rows:
        pl = _P.case_payload(case)
        cl = _classes(re.sub(r"^\(obs \S+ ", "", obs)[:-1]) or []
        for i, o in enumerate(_ops(pl)):
            nops += 1
            c = cl[i] if i < len(cl) else "crash"
            cls[c] = cls.get(c, 0) + 1
            distinct.add(hashlib.sha1((_P_sx(pl[1]) + "|" + _P_sx(o)).encode()).digest())
    return {"cases": len(rows), "calls": nops, "outcome_classes": cls, "distinct": len(distinct),
            "distinct_nontrivial": len(distinct),
            "note": "struct-mapped objects (NewStructMappedObjectSchema over a fixed family of Go structs): not modelled; "
                    "the prediction is the statement of C04 (t = returned a result or an error), so this family is the direct check",
            "samples": [{"case": rows[0][0][:1200], "observed": rows[0][1][:300]}] if rows else []}


def struct_direct(case, obs):
    pl = _P.case_payload(case)
    if obs in ("crash", "hang", "panic"):
        return "a call on struct-mapped schema %s %s" % (_P_sx(pl[1]), {"crash": "killed the process", "hang": "did not return within 20 s", "panic": "panicked"}[obs])
    cl = _classes(obs)
    if cl is None:
        return None
    for i, c in enumerate(cl):
        if c == "panic":
            o = _ops(pl)[i]
            return "%s(%s) on struct-mapped schema %s panicked" % (OPNAME.get(o[0], o[0]), _short(o[1], 500), _P_sx(pl[1]))
    return None


# ---- known findings -------------------------------------------------------------------------

def _cycle_match(which):
    """class predicate: the MODEL says the hypothesis fails for this schema (pred carries the model's own
    evaluation of Wf.no_inline_cycle / Total.defaults_total) and the only differences between the
    implementation and the model are calls the model itself does not finish (`diverged`): the
    implementation crashed / hung there, or the whole single-call case did."""
    def pred_fn(m, case, obs, pred):
        nic, ndc = _hyp(pred)
        if (nic if which == 0 else ndc):
            return False
        if "diverged" not in pred:
            return False
        if obs in ("crash", "hang"):
            pl = _P.case_payload(case)
            return len(_ops(pl)) == 1
        oc, pc = _classes(obs), _classes(pred)
        if oc is None or pc is None or len(oc) != len(pc):
            return False
        return all(a == b or b == "diverged" and a in ("ok", "err") for a, b in zip(oc, pc)) and "panic" not in oc
    return pred_fn


def _struct_recursive_member(m, case, obs, pred):
    """class of D52: the struct-mapped holder whose member is a self-referential map-based object; a single
    Unserialize / data-mode compatibility call per case; the process died (stack overflow)"""
    pl = _P.case_payload(case)
    if pl[0] != "c04s" or not isinstance(pl[1], tuple) or pl[1][1] != "holder-recursive-member":
        return False
    ops = _ops(pl)
    return obs in ("crash", "hang") and len(ops) == 1 and ops[0][0] in ("u", "c")


def register(props):
    global _P
    _P = props
    props.KNOWN_PREDICATES["c04_struct_recursive_member"] = _struct_recursive_member
    props.FAMILY_STATS["c04total"] = total_stats
    props.FAMILY_STATS["c04struct"] = struct_stats
    props.DIRECT[("C04", "c04total")] = total_direct
    props.DIRECT[("C04", "c04struct")] = struct_direct
    props.EXPLAIN[("C04", "c04total")] = total_explain
    props.KNOWN_PREDICATES["c04_inline_cycle"] = _cycle_match(0)
    props.KNOWN_PREDICATES["c04_default_cycle"] = _cycle_match(1)
    props.PROPS["C04"] = {
        "theory": "Properties/C04.v",
        "families": ["c04total", "c04struct"],      # struct-mapped totality: c04struct; the structobj family runs under C01 / C03 (time budget)
        "rule": "c04total: every fixed schema (13 leaf kinds alone and under list / map / 1- and 2-property objects, int/string "
                "one-ofs inlined or not, recursive / mutually recursive / list- and map-carried / external-namespace references, "
                "nested scopes, harmless and cyclic single-property chains, harmless and diverging defaults) and seeded generated "
                "scopes x {the whole pool of ~160 decoder-producible and arbitrary Go values at the root - among them maps whose KEY is a "
                "float NaN (not equal to itself, so it cannot be looked up again: D81), +-Inf or -0, untyped and float-keyed, alone and "
                "below a map / list / object property / one-of member; NaN is hashable and is injected at key positions like every other "
                "pool value -; a pool value injected at "
                "every position (values and keys) of a valid raw tree (Unserialize, data-mode compatibility) and of the native tree "
                "Unserialize returned (Validate, Serialize); random compositions; for every fixed schema with units every edge string "
                "of its own unit definition (zero counts in every position, totals at the int64 edge, counts beyond int64) alone and as "
                "list item / map value / object property} x four operations; generated values use the opt-in classes of gen_rich.go "
                "(edge integers, multi-byte strings, unit strings from the definition, deep / heterogeneous any); observable = outcome class per "
                "call; c04struct: the same on struct-mapped objects over a fixed family of Go structs. distinct by (schema, call); "
                "non-trivial = structured schema or structured value",
        "assumptions": ["schemas are built by the public constructors (wf_schema, checked by the model on every case and observed as "
                        "'the constructors did not panic')",
                        "stack exhaustion by sheer input depth is outside the property (decoders bound nesting); depth <= 42 here",
                        "no inline-shorthand cycle (D11) and no diverging default (D50): known-finding classes, refuted in the model"],
        "level_text": "Theorems (all environments, all wf schemas, EVERY Go value of the model's universe, every fuel >= an explicit "
                      "bound): Unserialize, Validate, Serialize and data-mode ValidateCompatibility return Ok or Err - never Panic, "
                      "never OutOfFuel (so they terminate), under no_inline_cycle and defaults_total K; both hypotheses are boolean, "
                      "evaluated by the model on every case, and refuted where they fail (C04_inline_cycle_refuted, "
                      "C04_default_cycle_refuted: no fuel suffices). The same theorems hold under wf_use, i.e. wf_schema without the conjunct "
                      "'every object of a scope is stored under its own id' which no operation reads (C04_wf_schema_iff_use, "
                      "C04_total_use, C04_never_panics_use) - the form C10 needs for schemas received as descriptions. "
                      "Struct-mapped objects (model Schema/XOps.v, conservative over "
                      "Ops.v: Proofs/XEmbed.v): the PANIC half is a theorem too - C04_struct_never_panics: for every environment and "
                      "every xschema with xwf (Schema/XWf.v = wf_schema's contracts at every node + every property of a struct-mapped "
                      "object has a struct field, what buildObjectFieldCache guarantees), EVERY Go value and every fuel, none of "
                      "xunser / xvalidate / xserialize / xcompat returns Panic (sub-object default propagation, unserializeToStruct, "
                      "validateStruct / serializeStruct and the one-of lookup by reflected type included; no condition on field TYPES "
                      "is needed: an unconvertible value is the recovered constraint error 'Field cannot be set').",
        "level_note": "Model = Schema/Ops.v (map-based objects); Schema/Wf.v (constructor contracts), Schema/Total.v (bound). Tied to the "
                      "code by outcome-class correspondence on every call. PARTIAL for struct-mapped objects: the TERMINATION half "
                      "(x_struct_total with an explicit fuel bound under the analogues of no_inline_cycle / defaults_total and a third "
                      "boolean class for D52, sub-object default cycles) is NOT proved - C04_struct_subdefault_cycle_refuted shows a "
                      "well-formed (xwf) struct-mapped schema on which no fuel suffices (D52); termination on struct-mapped schemas is "
                      "covered by the supervised direct check of the families c04struct / structobj (hang = violation) and by the "
                      "outcome-class correspondence with the model at fuel FUEL.",
        "design_ref": "DESIGN.md §5 C04",
    }
