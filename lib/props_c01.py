"""C01 (Serialize/Unserialize are mutual inverses, in memory and over the CBOR wire; typed entry points agree with
the untyped ones): registration, family statistics, the property's own predicate on the `rt` observation of the
implementation, explanation of a disagreement with the model.

Families: structured (existing generator), c01rt (accepted values in every decoder representation), c01typed (typed
entry points through generic helpers, label "schema"), c01typedobj (typed struct-mapped objects and scopes,
implementation only).  Observation of an rt op (coq/Interp/RunSchema.v, harness run_schema.go):
    (rt U1 [V S [U2 S2 WC U3]])   U1 = Unserialize(raw), V = Validate(n), S = Serialize(n), U2 = Unserialize(w),
                                   S2 = Serialize(n2), WC = cbor(w), U3 = Unserialize(cbor(w))
Values are printed canonically (maps sorted by key, floats by bit pattern with one `nan`), so equality up to map
order with NaN = NaN is equality of the printed text.
"""
import hashlib
import re

import props_c03 as _S     # the fast reader

_P = None
parse, show, head = _S.parse, _S.show, _S.head


def _ok(o):
    return head(o) == "ok"


def rt_reason(o):
    """the property on one rt observation; None when it holds (or the raw value was rejected)"""
    if not (isinstance(o, list) and o and o[0] == "rt"):
        return None
    u1 = o[1]
    if u1 in ("panic", "crash", "hang"):
        return "Unserialize panicked"
    if not _ok(u1):
        return None
    n = show(u1[1])
    if len(o) < 4:
        return "the chain stopped after Unserialize: %s" % show(o)[:200]
    va, se = o[2], o[3]
    if not _ok(va):
        return "Unserialize returned %s, which Validate rejects (%s)" % (n[:300], show(va)[:80])
    if not _ok(se):
        return "Unserialize returned %s, which Serialize rejects (%s)" % (n[:300], show(se)[:80])
    w = show(se[1])
    if len(o) < 8:
        if len(o) > 6 and o[6] == "cbor-error":
            return "the serialized form %s cannot be CBOR-encoded" % w[:300]
        return "the chain stopped after Serialize: %s" % show(o)[:200]
    u2, s2, wc, u3 = o[4], o[5], o[6], o[7]
    if not _ok(u2):
        return "Serialize gave %s, which Unserialize rejects (%s)" % (w[:300], show(u2)[:80])
    if show(u2[1]) != n:
        return "Unserialize(Serialize(n)) = %s differs from n = %s (serialized form %s)" % (show(u2[1])[:300], n[:300], w[:300])
    if not _ok(s2):
        return "the re-unserialized value %s fails Serialize (%s)" % (show(u2[1])[:300], show(s2)[:80])
    if show(s2[1]) != w:
        return "Serialize is not idempotent on wire forms: %s then %s" % (w[:300], show(s2[1])[:300])
    if not _ok(u3):
        return "after a CBOR round trip the serialized form %s (decoded as %s) is rejected (%s)" % (w[:200], show(wc)[:300], show(u3)[:80])
    if show(u3[1]) != n:
        return "after a CBOR round trip Unserialize gives %s instead of %s (wire %s, decoded %s)" % (show(u3[1])[:300], n[:300], w[:200], show(wc)[:200])
    return None


def c01_rt_direct(case, obs):
    if "(rt " not in obs and "panic" not in obs and "crash" not in obs and "hang" not in obs:
        return None
    o = parse(obs) if obs.startswith("(") else obs
    if head(o) != "r":
        if obs in ("panic", "crash", "hang"):
            return "the SDK gave %s while building or running %s" % (obs, case[:300])
        return None
    pl = None
    for i, ob in enumerate(o[1:]):
        why = rt_reason(ob)
        if why is not None:
            pl = pl or parse(case)[3]
            opx = pl[3][1 + i]
            return "%s; raw value %s under schema %s" % (why, show(opx[1])[:400], show(pl[2])[:700])
    return None


def _arg_collides(opx):
    try:
        import props_c12
        return isinstance(opx, list) and len(opx) >= 2 and props_c12._collides(opx[1])
    except Exception:
        return False


def c01_typed_direct(case, obs):
    if "typed-differs" not in obs and "panic" not in obs and "crash" not in obs and "hang" not in obs and "build-failed" not in obs:
        return None
    o = parse(obs) if obs.startswith("(") else obs
    pl = parse(case)[3]
    if head(o) != "r":
        return "the SDK gave %s on the typed schema %s" % (obs[:80], show(pl[2] if head(pl) == "sch" else pl[1])[:300])
    ops = (pl[3] if head(pl) == "sch" else pl[2])[1:]
    schema = show(pl[2])[:500] if head(pl) == "sch" else "NewTypedObject/NewTypedScopeSchema[%s]" % pl[1]
    names = {"u": "UnserializeType", "v": "ValidateType", "s": "SerializeType"}
    if head(pl) == "sch":
        for i, ob in enumerate(o[1:]):
            opx = ops[i]
            if head(ob) == "typed-differs" and _arg_collides(opx):
                continue     # two keys of the argument read the same (D19 / D72 class, owned by C12): the survivor is map-order dependent
            if head(ob) == "typed-differs":
                return "%s(%s) = %s but the untyped call gives %s; schema %s" % (names.get(opx[0], opx[0]), show(opx[1])[:300], show(ob[1])[:200], show(ob[2])[:200], schema)
            if ob in ("panic", "crash", "hang"):
                return "%s / its untyped counterpart panicked on %s; schema %s" % (names.get(opx[0], opx[0]), show(opx[1])[:300], schema)
        return None
    for ob in o[1:]:
        if head(ob) == "typed-differs":
            return "a typed entry point of %s returned %s but the untyped call gives %s (ops %s)" % (schema, show(ob[1])[:200], show(ob[2])[:200], show(ops)[:400])
        if ob == "same-panic":
            return "a typed entry point of %s and its untyped counterpart both panicked (ops %s)" % (schema, show(ops)[:400])
    return None


def c01_explain(case, obs, pred):
    if obs.startswith("(bad") or pred.startswith("(bad"):
        return None
    pl = parse(case)[3]
    o, p = parse(obs), parse(pred)
    if head(o) != "r" or head(p) != "r":
        return None
    for i, opx in enumerate(pl[3][1:]):
        a = o[i + 1] if i + 1 < len(o) else "?"
        b = p[i + 1] if i + 1 < len(p) else "?"
        if _P.strip_err_paths(show(a)) != _P.strip_err_paths(show(b)):
            if opx[0] == "rt":
                why = rt_reason(a)
                if why:
                    return "%s; raw value %s under schema %s" % (why, show(opx[1])[:400], show(pl[2])[:700])
                return None          # the chain itself satisfies the property: a model/implementation mismatch, not a failing input
            return None
    return None


_INT_RE = re.compile(r"\(i (i0|i8|i16|i32|i64|u0|u8|u16|u32|u64) ")


def c01_stats(rows):
    kinds, reps = {}, {}
    distinct = set()
    nontrivial = rt = rt_ok = 0
    full = 0
    samples = []
    for case, obs, pred in rows:
        h = hashlib.sha1(re.sub(r"^\(case \S+ ", "", case).encode()).digest()
        new = h not in distinct
        distinct.add(h)
        pl = parse(case)[3]
        if head(pl) != "sch":
            kinds["typed struct-mapped"] = kinds.get("typed struct-mapped", 0) + 1
            if new and "same-ok" in obs:
                nontrivial += 1
            continue
        k = head(pl[2])
        kinds[k] = kinds.get(k, 0) + 1
        for m in _INT_RE.finditer(case):
            reps[m.group(1)] = reps.get(m.group(1), 0) + 1
        for name, pat in (("f32", "(f f32 "), ("f64", "(f f64 "), ("numeric-or-other string", "(s str "), ("map[string]any", "(m (map str any)"),
                          ("map[any]any", "(m (map any any)")):
            c = case.count(pat)
            if c:
                reps[name] = reps.get(name, 0) + c
        o = parse(obs)
        o = o[2] if head(o) == "obs" else o
        acc = False
        if head(o) == "r":
            for ob in o[1:]:
                if head(ob) == "rt":
                    rt += 1
                    if _ok(ob[1]):
                        rt_ok += 1
                        acc = acc or isinstance(ob[1][1], list) and ob[1][1][0] in ("sl", "m")
                        full += len(ob) >= 8
                elif _ok(ob) and isinstance(ob[1], list) and ob[1][0] in ("sl", "m"):
                    acc = True
        # non-trivial: accepted by Unserialize and not a bare scalar
        if new and acc:
            nontrivial += 1
        if len(samples) < 3 and new and len(distinct) % 211 == 1:
            samples.append({"case": case[:1500], "observed": obs[:600]})
    return {"cases": len(rows), "schema_kinds": kinds, "value_representations": reps, "rt_ops": rt, "rt_accepted": rt_ok,
            "rt_accept_rate": round(rt_ok / rt, 3) if rt else None, "rt_full_chains": full,
            "distinct": len(distinct), "distinct_nontrivial": nontrivial, "samples": samples}


# ------------------------------------------------------------------------------------------
# known-finding classes D70 / D71 (both found by the proof of C01_roundtrip; Schema/Ops.v carries both behaviours)
# ------------------------------------------------------------------------------------------

def _vkind(v):
    """reflect.Kind of a value node, as far as AnySchema.ValidateCompatibility tells kinds apart"""
    if not isinstance(v, list):
        return str(v)                       # nil
    if v[0] in ("i", "f", "s", "b"):
        t = v[1]
        return v[0] + ":" + (t if isinstance(t, str) else str(t[2]))
    return v[0]


T_ANY_SLICE = ["slice", "any"]
T_ANY_MAP = ["map", "any", "any"]


def any_clean(v):
    """Schema/C01Spec.v any_clean on a printed value: every []any is homogeneous by kind, every map[any]any is keyed by
    int64 only or by string only"""
    if not isinstance(v, list) or not v:
        return True
    if v[0] == "sl":
        items = v[3:]
        if not all(any_clean(x) for x in items):
            return False
        return v[1] != T_ANY_SLICE or len({_vkind(x) for x in items}) <= 1
    if v[0] == "m":
        es = v[3:]
        if not all(any_clean(e[0]) and any_clean(e[1]) for e in es):
            return False
        if v[1] != T_ANY_MAP:
            return True
        ks = {_vkind(e[0]) for e in es}
        return len(ks) == 0 or ks == {"i:i64"} or ks == {"s:str"}
    return True


def _has_oneof_over_any(schema):
    t = show(schema)
    return "(oneof " in t and re.search(r"[ (]any[ )]", t) is not None


def _named_inlined_discriminators(schema):
    """field names of the inlined one-ofs that have a member whose discriminator property is a NAMED string enum"""
    objs = {}

    def collect(n):
        if isinstance(n, list):
            if head(n) == "scope":
                for o in n[1]:
                    objs[o[0][1]] = o[1]
            for c in n:
                collect(c)
    collect(schema)
    out = set()

    def member_obj(t, depth=0):
        while isinstance(t, list) and depth < 20:
            depth += 1
            if head(t) == "ref":
                t = objs.get(t[1][1])
            elif head(t) == "scope":
                t = {o[0][1]: o[1] for o in t[1]}.get(t[2][1])
            else:
                break
        return t if head(t) == "object" else None

    def walk(n):
        if not isinstance(n, list):
            return
        if head(n) == "oneof" and len(n) == 5 and n[4] == "1":
            field = n[3][1]
            for m in n[2]:
                o = member_obj(m[1])
                if o is None:
                    continue
                for name, p in o[3]:
                    if name[1] == field and head(p[1]) == "enum_str" and p[1][1] != "none":
                        out.add(field)
        for c in n:
            walk(c)
    walk(schema)
    return out


def _carries_named_discriminator(v, fields):
    """the value holds a map entry FIELD -> a string of a named type"""
    if not isinstance(v, list) or not v:
        return False
    if v[0] == "m":
        for e in v[3:]:
            k, x = e[0], e[1]
            if head(k) == "s" and isinstance(k[2], tuple) and k[2][1] in fields and head(x) == "s" and isinstance(x[1], list) and x[1][0] == "named":
                return True
            if _carries_named_discriminator(x, fields):
                return True
        return False
    if v[0] == "sl":
        return any(_carries_named_discriminator(x, fields) for x in v[3:])
    return False


def _class_match(case, obs, pred, in_class):
    """every failure of the property in the case is `Unserialize accepted, Validate / Serialize of its result return an
    error`, lies in the class, and the whole observation is what the faithful model predicts (error paths aside)"""
    if not obs.startswith("(r ") or not pred.startswith("(r "):
        return False
    if _P.strip_err_paths(obs) != _P.strip_err_paths(pred):
        return False
    pl = parse(case)[3]
    if head(pl) != "sch":
        return False
    o = parse(obs)
    hits = 0
    for i, ob in enumerate(o[1:]):
        if rt_reason(ob) is None:
            continue
        if not (len(ob) >= 4 and _ok(ob[1]) and head(ob[2]) in ("ok", "err") and head(ob[3]) in ("ok", "err")
                and (head(ob[2]) == "err" or head(ob[3]) == "err")):
            return False
        if in_class(pl[2], ob[1][1]):
            hits += 1
        elif not any(c(pl[2], ob[1][1]) for c in (_class_d70, _class_d71)):
            return False                     # a failure outside both recorded classes: never hidden
    return hits > 0


def _class_d70(schema, n):
    return _has_oneof_over_any(schema) and not any_clean(n)


def _class_d71(schema, n):
    fields = _named_inlined_discriminators(schema)
    return bool(fields) and _carries_named_discriminator(n, fields)


def kf_oneof_any_heterogeneous(m, case, obs, pred):
    """D70: under a one-of whose member reaches `any` data, Unserialize returned data that is not any_clean"""
    return _class_match(case, obs, pred, _class_d70)


def kf_inlined_named_discriminator(m, case, obs, pred):
    """D71: an inlined one-of whose member's discriminator property is a typed (named) string enum, and the
    unserialized value carries that named string as the discriminator"""
    return _class_match(case, obs, pred, _class_d71)


def _agree_up_to_collisions(props, case, obs, pred):
    """The stated input assumption of C01 (and of C01_roundtrip: distinct_in) is that no two entries of one raw map
    denote the same key.  The generators do produce such arguments now and then (map[any]any{MyStr("x"): a, "x": b}):
    which entry survives then depends on Go's map iteration order (the D19 / D72 class, owned by C12, where it IS a
    recorded finding), while the model keeps one fixed entry.  So, for an operation whose OWN argument has two keys
    with the same text, only the verdict (ok / err) is compared; every other operation of the case must agree exactly
    (error paths aside).  Anything else is a disagreement."""
    try:
        import props_c12
        pl = props.sx_parse(case)[3]
        if not (isinstance(pl, list) and pl and pl[0] == "sch"):
            return False
        ops = pl[3][1:]
        o, p = props.sx_parse(props.strip_err_paths(obs)), props.sx_parse(props.strip_err_paths(pred))
        if not (isinstance(o, list) and isinstance(p, list) and o and p and o[0] == "r" and p[0] == "r"
                and len(o) == len(p) == len(ops) + 1):
            return False
        masked = 0
        for i, opx in enumerate(ops):
            a, b = o[i + 1], p[i + 1]
            if a == b:
                continue
            if not (isinstance(opx, list) and len(opx) >= 2 and props_c12._collides(opx[1])):
                return False
            ha = a[0] if isinstance(a, list) and a else a
            hb = b[0] if isinstance(b, list) and b else b
            if ha != hb or ha not in ("ok", "err"):
                return False
            masked += 1
        return masked > 0
    except Exception:
        return False


def register(props):
    global _P
    _P = props
    props.KNOWN_PREDICATES["c01_oneof_any_heterogeneous"] = kf_oneof_any_heterogeneous
    props.KNOWN_PREDICATES["c01_inlined_named_discriminator"] = kf_inlined_named_discriminator
    for fam in ("structured", "c01rt", "c01typed", "c01typedobj"):
        props.FAMILY_STATS[fam] = c01_stats
    props.DIRECT[("C01", "structured")] = c01_rt_direct
    props.DIRECT[("C01", "c01rt")] = c01_rt_direct
    props.DIRECT[("C01", "c01typed")] = c01_typed_direct
    props.DIRECT[("C01", "c01typedobj")] = c01_typed_direct
    for fam in ("structured", "c01rt", "c01typed"):
        props.EXPLAIN[("C01", fam)] = c01_explain
    prev_agree = props.agree

    def agree(prop, fam, case, obs, pred):
        if prop == "C01" and fam == "c01typedobj":
            return True      # struct-mapped objects are not in Schema/Ops.v: judged on the implementation alone
        if prop == "C01" and fam in ("structured", "c01rt", "c01typed"):
            if obs == pred or props.strip_err_paths(obs) == props.strip_err_paths(pred):
                return True
            return _agree_up_to_collisions(props, case, obs, pred)
        return prev_agree(prop, fam, case, obs, pred)
    props.agree = agree
    props.PROPS["C01"] = {
        "theory": "Properties/C01.v",
        "families": ["structured", "c01rt", "c01typed", "c01typedobj", "structobj"],
        "rule": "structured / c01rt: generated schemas (all kinds, scopes with references, one-of inlined or not, units, defaults) x raw values "
                "generated from the schema; c01rt re-expresses each accepted value in every decoder representation; each `rt` op is the whole "
                "chain Unserialize, Validate, Serialize, re-Unserialize, re-Serialize, real cbor.Marshal/Unmarshal, Unserialize; c01typed / "
                "c01typedobj: every typed constructor's UnserializeType / ValidateType / SerializeType against the untyped call on the same "
                "instance; structobj: struct-mapped objects (lib/props_struct.py). Input classes switched on for these families "
                "(harness gen_rich.go): integers at the edges of int64 and of the 2^53 / 2^31 / 2^24 / 2^8 windows (also as uint64, the CBOR "
                "form), strings generated by rune count with multi-byte characters, unit strings built from the schema's own unit definition "
                "(zero counts, totals at the int64 edge), structured any values with empty lists and maps; c01rt additionally: heterogeneous "
                "any data and one-of members with any-typed properties (D70), inlined discriminators of every admissible property type incl. "
                "a named string enum (D71); distinct by case text; non-trivial = accepted by Unserialize and not a bare scalar",
        "assumptions": ["no two entries of one raw map denote the same key under the schema at that position (Schema/C01Spec.v distinct_in; D19, a "
                        "known-finding class of C12); necessary: C01_roundtrip_collision_refuted",
                        "every integer of the unserialized value lies in the range of its Go type (ints_in_range: true of every Go value)",
                        "under a one-of: the `any` data is what AnySchema.ValidateCompatibility accepts (any_clean: homogeneous []any, map[any]any "
                        "keyed by int64 only or string only); necessary: C01_roundtrip_oneof_any_refuted, reproduced on the SDK",
                        "struct-mapped objects: the struct-mapped extension of the model (another work package); here only typed == untyped on the SDK"],
        "level_text": "Theorems (Properties/C01.v, all closed under the global context). C01_roundtrip, by induction on the fuel of the successful "
                      "Unserialize, for EVERY schema kind - int, float, string, bool, pattern, any, both enums, list, map, map-based object "
                      "(defaults, presence rules, one-property shorthand), reference, scope, nested in any way through scopes and namespaces, and "
                      "one-of (int or string keys; members objects / references / scopes) with a non-inlined discriminator or an inlined one of a "
                      "plain type (int / int enum without units, string, un-named string enum): wf_schema, "
                      "distinct_in (schema-directed no-key-collision) and ints_in_range imply, at every fuel >= 2f, Validate ok, Serialize gives "
                      "w in strong wire form (swire), Unserialize w = n with plain equality (which implies equality up to map order), the same "
                      "after cbor_norm to any depth, re-Serialize gives w again. C01_serialize_emits_wire (any schema, any input), "
                      "C01_cbor_norm_wire (+ _shape), C01_swire_wire_decodable, the typed-entry theorems, C01_roundtrip_partial (scalars and lists "
                      "without well-formedness / distinctness hypotheses). Refutations showing the hypotheses necessary: "
                      "C01_roundtrip_collision_refuted (D19), C01_roundtrip_oneof_any_refuted and C01_roundtrip_inlined_named_refuted (two "
                      "findings of the proof, both reproduced on the Go code: OneOf.Validate / Serialize reject what OneOf.Unserialize returned). "
                      "STILL PARTIAL: a one-of whose INLINED discriminator property has units or a named string type is outside the theorem "
                      "(c01_scope; the statement is false there for named types); there and for struct-mapped objects the chain is carried by "
                      "the correspondence + the direct check only.",
        "level_note": "Model = Schema/Ops.v + Schema/Cbor.v (cbor_norm), hand-written; the real fxamacker/cbor encode/decode is run on every "
                      "serialized form and compared with cbor_norm. The model's maps are ordered association lists, so the theorem's `=` is "
                      "stronger than the property's equality up to map order; Go's iteration order is covered by C12 (order independence under "
                      "the same no-collision hypothesis).",
        "design_ref": "DESIGN.md §5 C01",
    }
