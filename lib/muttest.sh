#!/bin/bash
# usage: lib/muttest.sh Cxx /tmp/mut-Cxx/out [tier]  — run the check for Cxx against every m*/patch.diff of an
# independent mutation agent (applied to /repo, reverted straight afterwards); one summary line per mutation:
#   mK: CAUGHT|missed exit=N <first VIOLATION line or OK line>
prop=$1; dir=$2; tier=${3:-quick}
cd "$(dirname "$0")/.."
for m in "$dir"/m*/; do
  [ -f "$m/patch.diff" ] || continue
  out=$(lib/seedtest.sh "$m/patch.diff" "$prop" "$tier" 2>&1)
  rc=$(echo "$out" | grep -o 'exit=[0-9]*' | tail -1)
  first=$(grep -E '^(VIOLATION|OK)' build/seedtest.out | head -1 | cut -c1-120)
  if echo "$out" | grep -q 'does not apply'; then verdict="NOAPPLY"; elif [ "$rc" = "exit=1" ] && grep -q '^VIOLATION' build/seedtest.out; then verdict=CAUGHT; else verdict=missed; fi
  echo "$(basename $m): $verdict $rc $first"
done
