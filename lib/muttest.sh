#!/bin/bash
# usage: lib/muttest.sh Cxx /tmp/mut-Cxx/out [tier]  — run the check for Cxx against every m*/patch.diff of an
# independent mutation agent (applied to /repo, reverted straight afterwards); one summary line per mutation.
prop=$1; dir=$2; tier=${3:-quick}
cd "$(dirname "$0")/.."
for m in "$dir"/m*/; do
  [ -f "$m/patch.diff" ] || continue
  r=$(lib/seedtest.sh "$m/patch.diff" "$prop" "$tier" 2>&1 | tail -4 | tr '\n' ' ' | cut -c1-400)
  echo "$(basename $m): $r"
done
