(* Proofs/Link3.v — a scope tree REBUILT from its description (Schema/Link.link_rebuilt: one ApplySelf of the
   outermost scope over a tree none of whose scopes went through NewScopeSchema) is linked lexically, exactly as
   the tree built through the constructors. *)
From Coq Require Import List Bool String.
From Verif Require Import Base.Prelude Base.Str Base.Float Base.GoVal Schema.Regex Schema.Units
  Schema.Syntax Schema.Ops Schema.Link Schema.Wf Proofs.Link Proofs.Link2.
Import ListNotations.
Open Scope string_scope.

(* ApplySelf over an unlinked tree: every self-namespace occurrence gets the object of its id in the table of the
   NEAREST enclosing scope (`occs None ""` hands the innermost scope's own table down) *)
Lemma apply_self_lexical : forall f here s lt lt', link_ns f None "" here s lt = Ok lt' -> luniq s = true ->
  forall p tab q id, In (p, (Some (tab, q), (id, ""))) (occs None "" here s) ->
  exists o, alookup id tab = Some o /\ lt_get p lt' = Some (mkLE q tab o).
Proof.
  intros f here s lt lt' Hl Hu p tab q id Hin.
  destruct (link_ns_sets f None "" here s lt lt' Hl Hu p (Some (tab, q)) id Hin) as [x [Hx Hg]].
  unfold good_entry in Hg. destruct Hg as [tab' [loc' [o [Hs [Ha He]]]]].
  injection Hs as <- <-. exists o. split; [exact Ha|]. rewrite Hx, He. reflexivity.
Qed.

Lemma rebuilt_lexical : forall f s lt, link_rebuilt f s = Ok lt -> luniq s = true ->
  forall p tab q id, In (p, (Some (tab, q), (id, ""))) (occs None "" [] s) ->
  exists o, alookup id tab = Some o /\ lt_get p lt = Some (mkLE q tab o).
Proof. intros f s lt H. exact (apply_self_lexical f [] s [] lt H). Qed.

(* at every self-namespace occurrence the rebuilt tree carries the very link the code-built tree carries *)
Lemma rebuilt_agrees_with_built : forall f g here s lt0 ltb ltr,
  link_build f here s lt0 = Ok ltb -> link_ns g None "" here s [] = Ok ltr -> luniq s = true ->
  forall p srcp id, In (p, (srcp, (id, ""))) (occs None "" here s) -> lt_get p ltb = lt_get p ltr.
Proof.
  intros f g here s lt0 ltb ltr Hb Hr Hu p srcp id Hin.
  destruct (link_ns_sets g None "" here s [] ltr Hr Hu p srcp id Hin) as [x [Hx Hg]].
  unfold good_entry in Hg. destruct Hg as [tab [loc [o [Hs [Ha He]]]]]. subst srcp.
  destruct (link_build_lexical f here s lt0 ltb Hb Hu p tab loc id Hin) as [o' [Ha' Hb']].
  rewrite Ha in Ha'. injection Ha' as <-. rewrite Hb', Hx, He. reflexivity.
Qed.
