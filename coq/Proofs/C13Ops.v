(* Proofs/C13Ops.v — the footprint of whole schema operations (C13): the access trace of the primitive
   uses an operation makes (Schema/FootprintOps.v) is disciplined, and a second run of the same uses
   fills nothing (first use writes, later uses do not). *)
From Coq Require Import List ZArith NArith Bool String Lia.
From Verif Require Import Base.Prelude Base.Str Base.Float Base.GoVal Schema.Regex Schema.Units Schema.Syntax Schema.Ops
  ATP.Msg ATP.Footprint Proofs.Footprint Schema.FootprintOps.
Import ListNotations.
Open Scope list_scope.

Section Ops.
Variable words : list (string * bool).
Variable pu : units -> string -> option fl.

(* the operations on a root schema *)
Lemma footprint_ops : forall sh st f e s v,
  disciplined [] (fst (run_prims sh true st (prims_unser words pu f e s v))) = true /\
  disciplined [] (fst (run_prims sh true st (prims_validate words pu f e s v))) = true /\
  disciplined [] (fst (run_prims sh true st (prims_serialize words pu f e s v))) = true /\
  disciplined [] (fst (run_prims sh true st (prims_compat words pu f e s v))) = true.
Proof. intros. repeat split; apply footprint_prims. Qed.

(* ... and at any node, under any numbering environment (what the recursion goes through) *)
Lemma footprint_ops_at : forall sh st f nb ne e s v,
  disciplined [] (fst (run_prims sh true st (map prim_of (xprims_unser words pu false f nb ne e s v)))) = true /\
  disciplined [] (fst (run_prims sh true st (map prim_of (xprims_validate words pu false f nb ne e s v)))) = true /\
  disciplined [] (fst (run_prims sh true st (map prim_of (xprims_serialize words pu false f nb ne e s v)))) = true /\
  disciplined [] (fst (run_prims sh true st (map prim_of (xprims_compat words pu false f nb ne e s v)))) = true.
Proof. intros. repeat split; apply footprint_prims. Qed.
End Ops.

(* ---------- first use fills, a later use of the same cells fills nothing ---------- *)
Lemma cell_eqb_true : forall a b, cell_eqb a b = true -> a = b.
Proof. destruct a, b; simpl; try discriminate; intros H; apply N.eqb_eq in H; subst; reflexivity. Qed.
Lemma cell_eqb_refl : forall a, cell_eqb a a = true.
Proof. destruct a; simpl; apply N.eqb_refl. Qed.

Lemma filled_fill_same : forall st c, filled (fill st c) c = true.
Proof.
  intros st c. unfold fill. destruct (filled st c) eqn:E; [exact E|].
  unfold filled. simpl. rewrite cell_eqb_refl. reflexivity.
Qed.
Lemma filled_fill_mono : forall st c d, filled st d = true -> filled (fill st c) d = true.
Proof.
  intros st c d H. unfold fill. destruct (filled st c); [exact H|].
  unfold filled in *. simpl. rewrite H. apply orb_true_r.
Qed.
Lemma fill_noop : forall st c, filled st c = true -> fill st c = st.
Proof. intros st c H. unfold fill. rewrite H. reflexivity. Qed.

(* the cells a primitive use fills when it finds them empty *)
Definition wants (sh : shape) (p : prim) : list cell :=
  match p with
  | PSorted u => if sh_has_mults sh u then [CUnitsSorted u] else []
  | PRe u => CUnitsRe u :: (if sh_has_mults sh u then [CUnitsSorted u] else [])
  | PDefaults o => if sh_lazy_defaults sh o then [CDefaults o] else []
  | _ => []
  end.

Lemma run_prim_mono : forall sh fx st p d, filled st d = true -> filled (snd (run_prim sh fx st p)) d = true.
Proof.
  intros sh fx st p d H. destruct p as [u|u|o|s run|r]; unfold run_prim, sorted_body; simpl.
  - destruct (filled st (CUnitsSorted u)); simpl; [exact H|].
    destruct (sh_has_mults sh u); simpl; [apply filled_fill_mono|]; exact H.
  - destruct (filled st (CUnitsRe u)); simpl; [exact H|].
    destruct (sh_has_mults sh u); simpl.
    + destruct (filled st (CUnitsSorted u)); simpl; repeat apply filled_fill_mono; exact H.
    + apply filled_fill_mono; exact H.
  - destruct (filled st (CDefaults o) || negb (sh_lazy_defaults sh o)); simpl; [exact H|].
    apply filled_fill_mono; exact H.
  - destruct (has_run st s run); simpl; exact H.
  - exact H.
Qed.

(* a state is CLOSED when a filled expression cell implies a filled multipliers cell (for definitions
   with multipliers): every state reached from the empty one is (updateReCache sorts before it compiles) *)
Definition closed (sh : shape) (st : cstate) : Prop :=
  forall u, filled st (CUnitsRe u) = true -> sh_has_mults sh u = true -> filled st (CUnitsSorted u) = true.

Lemma closed_empty : forall sh, closed sh cs_empty.
Proof. intros sh u H. discriminate. Qed.

Lemma filled_fill_inv : forall st c d, filled (fill st c) d = true -> d = c \/ filled st d = true.
Proof.
  intros st c d H. unfold fill in H. destruct (filled st c) eqn:E; [right; exact H|].
  unfold filled in H. simpl in H. apply orb_true_iff in H. destruct H as [H|H].
  - left. apply cell_eqb_true. exact H.
  - right. exact H.
Qed.

Lemma run_prim_closed : forall sh fx st p, closed sh st -> closed sh (snd (run_prim sh fx st p)).
Proof.
  intros sh fx st p Hc. destruct p as [u|u|o|s run|r]; unfold run_prim, sorted_body; simpl.
  - destruct (filled st (CUnitsSorted u)) eqn:E; simpl; [exact Hc|].
    destruct (sh_has_mults sh u) eqn:M; simpl; [|exact Hc].
    intros w Hw Hm. apply filled_fill_inv in Hw. destruct Hw as [Hw|Hw]; [discriminate|].
    apply filled_fill_mono. apply Hc; assumption.
  - destruct (filled st (CUnitsRe u)) eqn:E; simpl; [exact Hc|].
    destruct (sh_has_mults sh u) eqn:M; simpl.
    + destruct (filled st (CUnitsSorted u)) eqn:E2; simpl.
      * intros w Hw Hm. apply filled_fill_inv in Hw. destruct Hw as [Hw|Hw].
        -- inversion Hw; subst w. apply filled_fill_mono. exact E2.
        -- apply filled_fill_mono. apply Hc; assumption.
      * intros w Hw Hm. apply filled_fill_inv in Hw. destruct Hw as [Hw|Hw].
        -- inversion Hw; subst w. apply filled_fill_mono. apply filled_fill_same.
        -- apply filled_fill_inv in Hw. destruct Hw as [Hw|Hw]; [discriminate|].
           apply filled_fill_mono. apply filled_fill_mono. apply Hc; assumption.
    + intros w Hw Hm. apply filled_fill_inv in Hw. destruct Hw as [Hw|Hw].
      * inversion Hw; subst w. rewrite M in Hm. discriminate.
      * apply filled_fill_mono. apply Hc; assumption.
  - destruct (filled st (CDefaults o) || negb (sh_lazy_defaults sh o)); simpl; [exact Hc|].
    intros w Hw Hm. apply filled_fill_inv in Hw. destruct Hw as [Hw|Hw]; [discriminate|].
    apply filled_fill_mono. apply Hc; assumption.
  - destruct (has_run st s run); simpl; exact Hc.
  - exact Hc.
Qed.

Lemma run_prim_fills : forall sh fx st p d, closed sh st -> In d (wants sh p) -> filled (snd (run_prim sh fx st p)) d = true.
Proof.
  intros sh fx st p d Hc Hin. destruct p as [u|u|o|s run|r]; unfold run_prim, sorted_body; simpl in *.
  - destruct (sh_has_mults sh u) eqn:M; [|destruct Hin]. destruct Hin as [<-|[]].
    destruct (filled st (CUnitsSorted u)) eqn:E; simpl; [exact E|]. apply filled_fill_same.
  - destruct (filled st (CUnitsRe u)) eqn:E; simpl.
    + destruct Hin as [<-|Hin]; [exact E|].
      destruct (sh_has_mults sh u) eqn:M; [|destruct Hin]. destruct Hin as [<-|[]]. apply Hc; assumption.
    + destruct (sh_has_mults sh u) eqn:M; simpl.
      * destruct (filled st (CUnitsSorted u)) eqn:E2; simpl.
        -- destruct Hin as [<-|[<-|[]]]; [apply filled_fill_same|]. apply filled_fill_mono. exact E2.
        -- destruct Hin as [<-|[<-|[]]]; [apply filled_fill_same|]. apply filled_fill_mono. apply filled_fill_same.
      * destruct Hin as [<-|[]]. apply filled_fill_same.
  - destruct (sh_lazy_defaults sh o) eqn:L; [|destruct Hin]. destruct Hin as [<-|[]].
    destruct (filled st (CDefaults o)) eqn:E; simpl; [exact E|]. apply filled_fill_same.
  - destruct Hin.
  - destruct Hin.
Qed.

(* a use whose cells are all filled changes no cell *)
Lemma run_prim_noop : forall sh fx st p, (forall d, In d (wants sh p) -> filled st d = true) ->
  cs_filled (snd (run_prim sh fx st p)) = cs_filled st.
Proof.
  intros sh fx st p H. destruct p as [u|u|o|s run|r]; unfold run_prim, sorted_body; simpl in *.
  - destruct (filled st (CUnitsSorted u)) eqn:E; simpl; [reflexivity|].
    destruct (sh_has_mults sh u); simpl; [|reflexivity]. rewrite (H _ (or_introl eq_refl)) in E. discriminate.
  - rewrite (H _ (or_introl eq_refl)). reflexivity.
  - destruct (sh_lazy_defaults sh o) eqn:L; simpl.
    + rewrite (H _ (or_introl eq_refl)). reflexivity.
    + rewrite orb_true_r. reflexivity.
  - destruct (has_run st s run); reflexivity.
  - reflexivity.
Qed.

Lemma run_prims_mono : forall sh fx ps st d, filled st d = true -> filled (snd (run_prims sh fx st ps)) d = true.
Proof.
  intros sh fx ps. induction ps as [|p r IH]; intros st d H; simpl; [exact H|].
  pose proof (run_prim_mono sh fx st p d H) as Hp.
  destruct (run_prim sh fx st p) as [t st']. simpl in Hp. specialize (IH st' d Hp).
  destruct (run_prims sh fx st' r) as [t2 st2]. exact IH.
Qed.
Lemma run_prims_closed : forall sh fx ps st, closed sh st -> closed sh (snd (run_prims sh fx st ps)).
Proof.
  intros sh fx ps. induction ps as [|p r IH]; intros st H; simpl; [exact H|].
  pose proof (run_prim_closed sh fx st p H) as Hp.
  destruct (run_prim sh fx st p) as [t st']. simpl in Hp. specialize (IH st' Hp).
  destruct (run_prims sh fx st' r) as [t2 st2]. exact IH.
Qed.
Lemma run_prims_fills : forall sh fx ps st p d, closed sh st -> In p ps -> In d (wants sh p) ->
  filled (snd (run_prims sh fx st ps)) d = true.
Proof.
  intros sh fx ps. induction ps as [|q r IH]; intros st p d Hc Hp Hd; [destruct Hp|]. simpl.
  pose proof (run_prim_closed sh fx st q Hc) as Hc'.
  destruct Hp as [->|Hp].
  - pose proof (run_prim_fills sh fx st p d Hc Hd) as Hf.
    destruct (run_prim sh fx st p) as [t st']. simpl in Hf.
    pose proof (run_prims_mono sh fx r st' d Hf) as Hm.
    destruct (run_prims sh fx st' r) as [t2 st2]. exact Hm.
  - destruct (run_prim sh fx st q) as [t st']. simpl in Hc'.
    specialize (IH st' p d Hc' Hp Hd). destruct (run_prims sh fx st' r) as [t2 st2]. exact IH.
Qed.
Lemma run_prims_noop : forall sh fx ps st, (forall p d, In p ps -> In d (wants sh p) -> filled st d = true) ->
  cs_filled (snd (run_prims sh fx st ps)) = cs_filled st.
Proof.
  intros sh fx ps. induction ps as [|p r IH]; intros st H; simpl; [reflexivity|].
  pose proof (run_prim_noop sh fx st p (fun d Hd => H p d (or_introl eq_refl) Hd)) as Hp.
  destruct (run_prim sh fx st p) as [t st'] eqn:E. simpl in Hp.
  assert (H' : forall q d, In q r -> In d (wants sh q) -> filled st' d = true).
  { intros q d Hq Hd. unfold filled. rewrite Hp. apply (H q d (or_intror Hq) Hd). }
  specialize (IH st' H'). destruct (run_prims sh fx st' r) as [t2 st2]. simpl in *. congruence.
Qed.

(* after ANY sequence of primitive uses (started from a closed state, e.g. the empty one) a second run of
   the same uses fills no cell *)
Lemma second_run_fills_nothing : forall sh fx ps st, closed sh st ->
  let st1 := snd (run_prims sh fx st ps) in
  newly_filled st1 (snd (run_prims sh fx st1 ps)) = [].
Proof.
  intros sh fx ps st Hc st1. unfold newly_filled.
  rewrite (run_prims_noop sh fx ps st1).
  - assert (Hall : forall l, (forall c, In c l -> filled st1 c = true) -> filter (fun c => negb (filled st1 c)) l = []).
    { induction l as [|a l IHl]; intros H; simpl; [reflexivity|]. rewrite (H a (or_introl eq_refl)). simpl.
      apply IHl. intros c Hc0. apply H. right. exact Hc0. }
    apply Hall. intros c Hin. unfold filled. apply existsb_exists. exists c. split; [exact Hin|apply cell_eqb_refl].
  - intros p d Hp Hd. apply (run_prims_fills sh fx ps st p d Hc Hp Hd).
Qed.
