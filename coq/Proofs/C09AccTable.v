(* Proofs/C09AccTable.v — C09_accepted over the GENERATED meta-schema table.

   Schema/MetaTable.v `meta_scope` is the table schema/schema_schema.go has NOW (re-dumped from the SDK on
   every run and turned into a `schema`).  Here the GENERIC Unserialize of Schema/Ops.v, run on that table, is
   shown to accept every description `describe` produces for a describable schema: one lemma per meta object
   (Display, Unit, Units, Int, Float, String, BoolSchema, AnySchema, Pattern, IntEnum, StringEnum, Ref, List, Map,
   Property, Object, OneOfIntSchema, OneOfStringSchema, Scope), each evaluating only that object's properties
   (`open_obj`: the property list is computed from the table by vm_compute, then every declared property is
   discharged separately), and an induction over the described schema for the recursive positions.

   What breaks these lemmas: a field `describe` writes that the table does not declare, a declared type that does
   not accept what `describe` writes (a bound, a kind, a member missing from a one-of), a required field
   `describe` may omit, an inter-field rule, a disabled property, a different id pattern.  What does not: display
   texts, examples, the order of properties. *)
From Coq Require Import Lia.
From Verif Require Import Base.Prelude Base.Str Base.Float Base.GoVal
  Schema.Regex Schema.Units Schema.Syntax Schema.Ops Schema.SpecObj Schema.Describe Schema.MetaTable
  Proofs.OpsLemmas Proofs.OpsEq Proofs.C03Obj Proofs.SchemaInd Proofs.C09Fixpoint Proofs.C09AccBase Proofs.C09AccRe.
Open Scope string_scope.

(* ---------- pieces of the table, by computation ---------- *)
Definition mobj (id : string) : schema := match alookup id meta_objs with Some o => o | None => SAny end.

Lemma mobj_obj id :
  (match alookup id meta_objs with Some (SObject _ _ _) => true | _ => false end) = true ->
  exists i u, mobj id = SObject i u (meta_props id).
Proof.
  unfold mobj, meta_props. destruct (alookup id meta_objs) as [[]|]; intros H; try discriminate. eauto.
Qed.

(* the one-of over type_id that types a list item / map value / property type *)
Definition vtype : schema := Eval vm_compute in meta_ptype "List" "items".
Definition vtypes : list (okey * schema) := Eval vm_compute in match vtype with SOneOf ts _ _ _ => ts | _ => [] end.
Lemma vtype_eq : vtype = SOneOf vtypes false "type_id" false.
Proof. reflexivity. Qed.
Lemma vtype_map_values : meta_ptype "Map" "values" = vtype.
Proof. vm_compute. reflexivity. Qed.
Lemma vtype_property_type : meta_ptype "Property" "type" = vtype.
Proof. vm_compute. reflexivity. Qed.

(* map keys *)
Definition ktype : schema := Eval vm_compute in meta_ptype "Map" "keys".
Definition ktypes : list (okey * schema) := Eval vm_compute in match ktype with SOneOf ts _ _ _ => ts | _ => [] end.
Lemma ktype_eq : ktype = SOneOf ktypes false "type_id" false.
Proof. reflexivity. Qed.

(* one-of members, for the two key kinds *)
Definition mtype (ik : bool) : schema :=
  match meta_ptype (if ik then "OneOfIntSchema" else "OneOfStringSchema") "types" with SMap _ v _ _ => v | _ => SAny end.
Definition mtypes_i : list (okey * schema) := Eval vm_compute in match mtype true with SOneOf ts _ _ _ => ts | _ => [] end.
Definition mtypes_s : list (okey * schema) := Eval vm_compute in match mtype false with SOneOf ts _ _ _ => ts | _ => [] end.
Lemma mtype_i_eq : mtype true = SOneOf mtypes_i false "type_id" false.
Proof. vm_compute. reflexivity. Qed.
Lemma mtype_s_eq : mtype false = SOneOf mtypes_s false "type_id" false.
Proof. vm_compute. reflexivity. Qed.

(* the id type (object ids, scope keys, roots, reference targets) and its pattern *)
Definition tab_id_type : schema := Eval vm_compute in meta_ptype "Object" "id".
Definition tab_id_re : re :=
  Eval vm_compute in match tab_id_type with SString _ _ (Some (_, r)) => r | _ => Eps end.
Definition tab_id_src : string :=
  Eval vm_compute in match tab_id_type with SString _ _ (Some (s, _)) => s | _ => "" end.
Lemma tab_id_type_eq : tab_id_type = SString (Some 1%Z) (Some 255%Z) (Some (tab_id_src, tab_id_re)).
Proof. reflexivity. Qed.
Lemma tab_id_uses :
  meta_ptype "Scope" "root" = tab_id_type /\ meta_ptype "Ref" "id" = tab_id_type
  /\ match meta_ptype "Scope" "objects" with SMap k _ _ _ => k = tab_id_type | _ => False end.
Proof. repeat split; vm_compute; reflexivity. Qed.

(* regexp/syntax's parse of the table's id pattern matches what Describe.id_re matches *)
Lemma id_re_sim : re_sim id_re tab_id_re.
Proof.
  unfold id_re, plus, id_cls, tab_id_re.
  repeat (constructor; try (intros [[] [] [] [] [] [] [] []]; reflexivity)).
Qed.

(* the meta object that describes a schema of the given kind *)
Definition oid_of (s : schema) : string :=
  match s with
  | SInt _ _ _ => "Int" | SFloat _ _ _ => "Float" | SString _ _ _ => "String" | SBool => "BoolSchema"
  | SPattern => "Pattern" | SAny => "AnySchema" | SEnumInt _ _ => "IntEnum" | SEnumStr _ _ => "StringEnum"
  | SList _ _ _ => "List" | SMap _ _ _ _ => "Map" | SObject _ _ _ => "Object"
  | SOneOf _ ik _ _ => if ik then "OneOfIntSchema" else "OneOfStringSchema"
  | SRef _ _ _ => "Ref" | SScope _ _ => "Scope"
  end.

Lemma oid_declared s : amem (oid_of s) meta_objs = true.
Proof.
  destruct s as [mn mx u|mn mx u|mn mx pat| | | |vals u|named vals|it mn mx|k v mn mx|id un props|ts ik fld inl|id ns d|objs root];
    try destruct ik; vm_compute; reflexivity.
Qed.

Lemma vtypes_find s : exists k0 d,
  find (fun ks => okey_eqb (fst ks) (KS (tid_of s))) vtypes = Some (k0, SRef (oid_of s) "" d).
Proof.
  destruct s as [mn mx u|mn mx u|mn mx pat| | | |vals u|named vals|it mn mx|k v mn mx|id un props|ts ik fld inl|id ns d|objs root];
    try destruct ik; vm_compute; do 2 eexists; reflexivity.
Qed.

Definition is_key (s : schema) : bool := match s with SInt _ _ _ | SString _ _ _ => true | _ => false end.
Lemma ktypes_find s : is_key s = true -> exists k0 d,
  find (fun ks => okey_eqb (fst ks) (KS (tid_of s))) ktypes = Some (k0, SRef (oid_of s) "" d).
Proof.
  destruct s; intros H; try discriminate; vm_compute; do 2 eexists; reflexivity.
Qed.

Definition is_member (s : schema) : bool :=
  match s with SObject _ _ _ | SRef _ _ _ | SScope _ _ => true | _ => false end.
Lemma mtypes_i_find s : is_member s = true -> exists k0 d,
  find (fun ks => okey_eqb (fst ks) (KS (tid_of s))) mtypes_i = Some (k0, SRef (oid_of s) "" d).
Proof. destruct s; intros H; try discriminate; vm_compute; do 2 eexists; reflexivity. Qed.
Lemma mtypes_s_find s : is_member s = true -> exists k0 d,
  find (fun ks => okey_eqb (fst ks) (KS (tid_of s))) mtypes_s = Some (k0, SRef (oid_of s) "" d).
Proof. destruct s; intros H; try discriminate; vm_compute; do 2 eexists; reflexivity. Qed.

(* ---------- the fuel a description needs ---------- *)
Fixpoint tfuel (s : schema) : nat :=
  match s with
  | SList it _ _ => 4 + tfuel it
  | SMap k v _ _ => 4 + Nat.max (tfuel k) (tfuel v)
  | SObject _ _ props => 8 + fold_right (fun np n => Nat.max (tfuel (p_type (snd np))) n) 0 props
  | SOneOf types _ _ _ => 8 + fold_right (fun km n => Nat.max (tfuel (snd km)) n) 0 types
  | SScope os _ => 8 + fold_right (fun io n => Nat.max (tfuel (snd io)) n) 0 os
  | _ => 8
  end%nat.

Lemma fold_max_ge {A} (g : A -> nat) l x : In x l -> (g x <= fold_right (fun y n => Nat.max (g y) n) 0 l)%nat.
Proof.
  induction l as [|y t IH]; cbn; [contradiction|]. intros [E | H]; [subst; lia|]. specialize (IH H). lia.
Qed.

(* ---------- small facts about describable ---------- *)
Lemma size_nonempty s : nonempty s = true -> size_ok (Some 1%Z) None (slen s) = true.
Proof. intros H. unfold size_ok, ole, oge. unfold nonempty in H. rewrite H. reflexivity. Qed.

Lemma zlen_map {A B} (g : A -> B) l : zlen (map g l) = zlen l.
Proof. unfold zlen. rewrite map_length. reflexivity. Qed.

Lemma key_describable k : key_ok k = true -> describable k = true /\ is_key k = true.
Proof. destruct k; cbn; intros H; try discriminate; split; (exact H || reflexivity). Qed.

(* ---------- what the theorem assumes of a schema: describable, and regexp.Compile accepts every pattern ---------- *)
Definition cgood (jor : oracles) (s : schema) : Prop :=
  describable s = true /\ forall p, In p (pats_of s) -> o_re_ok jor (fst p) = true.

Lemma cgood_prop jor id un props n p : cgood jor (SObject id un props) -> In (n, p) props ->
  nonempty n = true /\ odisplay_ok (p_display p) = true /\ cgood jor (p_type p).
Proof.
  intros [Hd Hp] Hin. cbn [describable] in Hd. split_andb.
  rewrite forallb_forall in H0. specialize (H0 _ Hin).
  destruct p as [t d rq ri rin cf df ex em di rs]. cbn [Syntax.p_type Syntax.p_display] in *. split_andb.
  repeat split; try assumption.
  intros q Hq. apply Hp. cbn [pats_of]. apply in_flat_map. exists (n, mkProp t d rq ri rin cf df ex em di rs).
  split; [exact Hin | exact Hq].
Qed.
Lemma cgood_member jor types ik f i k m : cgood jor (SOneOf types ik f i) -> In (k, m) types ->
  okey_ok ik k = true /\ is_member m = true /\ cgood jor m.
Proof.
  intros [Hd Hp] Hin. cbn [describable] in Hd. split_andb.
  rewrite forallb_forall in H0. specialize (H0 _ Hin). cbn in H0. split_andb.
  repeat split; try assumption.
  intros q Hq. apply Hp. cbn [pats_of]. apply in_flat_map. exists (k, m). split; [exact Hin | exact Hq].
Qed.
Lemma cgood_obj jor os root i o : cgood jor (SScope os root) -> In (i, o) os ->
  id_ok i = true /\ (match o with SObject _ _ _ => true | _ => false end) = true /\ cgood jor o.
Proof.
  intros [Hd Hp] Hin. cbn [describable] in Hd. split_andb.
  rewrite forallb_forall in H0. specialize (H0 _ Hin). cbn in H0. split_andb.
  repeat split; try assumption.
  intros q Hq. apply Hp. cbn [pats_of]. apply in_flat_map. exists (i, o). split; [exact Hin | exact Hq].
Qed.
Lemma cgood_list jor it mn mx : cgood jor (SList it mn mx) -> cgood jor it /\ olen_ok mn = true /\ olen_ok mx = true.
Proof. intros [Hd Hp]. cbn [describable] in Hd. split_andb. repeat split; try assumption; intros p Hin; apply Hp; exact Hin. Qed.
Lemma cgood_map jor k v mn mx : cgood jor (SMap k v mn mx) ->
  key_ok k = true /\ cgood jor k /\ cgood jor v /\ olen_ok mn = true /\ olen_ok mx = true.
Proof.
  intros [Hd Hp]. cbn [describable] in Hd. split_andb.
  destruct (key_describable k) as [Hdk _]; [assumption|]. repeat split; try assumption.
  - intros p Hin. apply Hp. cbn [pats_of]. apply in_or_app. left; exact Hin.
  - intros p Hin. apply Hp. cbn [pats_of]. apply in_or_app. right; exact Hin.
Qed.

(* ---------- tactics: one meta object at a time ---------- *)
(* goal: acc .. (S n) (mobj ID) (dobj FS) with FS a list whose keys are literals.  Replaces the object by its
   property list as the table has it and leaves one goal per declared property. *)
Ltac open_obj id :=
  let i := fresh "i" in let u := fresh "u" in let E := fresh "E" in let Hs := fresh "Hshape" in
  assert (Hs : (match alookup id meta_objs with Some (SObject _ _ _) => true | _ => false end) = true)
    by (vm_compute; reflexivity);
  destruct (mobj_obj id Hs) as (i & u & E); clear Hs;
  rewrite E; clear E;
  let ps := eval vm_compute in (meta_props id) in
  change (meta_props id) with ps;
  apply acc_object; [vm_compute; reflexivity | reflexivity | ];
  repeat apply Forall_cons; try apply Forall_nil.

Ltac prop_split :=
  unfold prop_ok;
  cbn [fst snd p_type p_required p_required_if p_required_if_not p_conflicts p_default p_disabled
       default_value alookup String.eqb Ascii.eqb Bool.eqb andb];
  repeat split; try reflexivity.

Ltac len_hyps :=
  repeat match goal with
  | H : olen_ok (Some _) = true |- _ => apply olen_parts in H; destruct H
  end.

Section Table.
Variable words : list (string * bool).
Variable pu : units -> string -> option fl.
Variable tab : objtab.                         (* the object table the references resolve in *)
Hypothesis Htab : forall id o, alookup id meta_objs = Some o -> alookup id tab = Some o.
Variable jor : oracles.

Definition tenv : env := mkEnv tab [] jor.
Notation A := (acc words pu tenv).

Lemma A_ref n id d v : amem id meta_objs = true -> A n (mobj id) v -> A (S n) (SRef id "" d) v.
Proof.
  intros Hm H. apply acc_ref with (o := mobj id); [|exact H]. unfold tenv. cbn [e_self]. apply Htab.
  unfold mobj. unfold amem in Hm. destruct (alookup id meta_objs); [reflexivity | discriminate].
Qed.

Lemma A_id n s : id_ok s = true -> A (S n) tab_id_type (vstr s).
Proof.
  intros H. unfold id_ok in H. split_andb. rewrite tab_id_type_eq. apply acc_string.
  - unfold size_ok, ole, oge. rewrite H, H1. reflexivity.
  - rewrite <- (re_match_string_sim _ _ s id_re_sim). assumption.
Qed.

(* ---------- the objects without recursive positions ---------- *)
Lemma A_display n d : display_ok d = true -> A (S (S n)) (mobj "Display") (d_display d).
Proof.
  destruct d as [nm de ic]. unfold display_ok, d_display. cbn [d_name d_desc d_icon]. intros H. split_andb.
  destruct nm, de, ic; cbn [ofield app ostr_ok] in *; open_obj "Display"; prop_split;
    (apply acc_string; [apply size_nonempty; assumption | exact I]).
Qed.

Lemma A_unit n u : A (S (S n)) (mobj "Unit") (d_unit u).
Proof. unfold d_unit. open_obj "Unit"; prop_split; (apply acc_string; [reflexivity | exact I]). Qed.

Lemma A_units n u : units_ok u = true -> A (5 + n) (mobj "Units") (d_units u).
Proof.
  intros H. unfold units_ok in H. split_andb. unfold d_units. open_obj "Units"; prop_split.
  - apply A_ref; [vm_compute; reflexivity|]. apply A_unit.
  - apply acc_map; [reflexivity|]. apply Forall_forall. intros kv Hkv. apply in_map_iff in Hkv.
    destruct Hkv as ([m ud] & <- & Hin). cbn [fst snd].
    rewrite forallb_forall in H. specialize (H _ Hin). cbn [fst] in H. split_andb. split.
    + apply acc_int; [assumption|]. unfold size_ok, ole, oge. rewrite H. reflexivity.
    + apply A_ref; [vm_compute; reflexivity|]. apply A_unit.
Qed.

Ltac acc_auto :=
  lazymatch goal with
  | |- acc _ _ _ _ (SInt _ _ _) (vi64 _) => apply acc_int; [assumption | first [reflexivity | assumption]]
  | |- acc _ _ _ _ (SFloat _ _ _) (vf64 _) => apply acc_float; reflexivity
  | |- acc _ _ _ _ SBool (vbool _) => apply acc_bool
  | |- acc _ _ _ _ (SString None None None) (vstr _) => apply acc_string; [reflexivity | exact I]
  | |- acc _ _ _ _ (SString (Some _) None None) (vstr _) => apply acc_string; [apply size_nonempty; assumption | exact I]
  | |- acc _ _ _ _ (SString _ _ (Some _)) (vstr _) => apply A_id; assumption
  | |- acc _ _ _ _ (SRef "Units" _ _) (d_units _) => apply A_ref; [vm_compute; reflexivity | apply A_units; assumption]
  | |- acc _ _ _ _ (SRef "Display" _ _) (d_display _) => apply A_ref; [vm_compute; reflexivity | apply A_display; assumption]
  | |- acc _ _ _ _ (SList _ _ _) (dstrs _) => apply acc_strs
  end.

Lemma A_int n mn mx u : describable (SInt mn mx u) = true ->
  A (7 + n) (mobj "Int") (dobj (d_fields (SInt mn mx u))).
Proof.
  cbn [describable]. intros H. split_andb.
  destruct mn as [mn|], mx as [mx|], u as [u|]; cbn [d_fields ofield app oz_ok ounits_ok] in *;
    open_obj "Int"; prop_split; acc_auto.
Qed.

Lemma A_float n mn mx u : describable (SFloat mn mx u) = true ->
  A (7 + n) (mobj "Float") (dobj (d_fields (SFloat mn mx u))).
Proof.
  cbn [describable]. intros H.
  destruct mn as [mn|], mx as [mx|], u as [u|]; cbn [d_fields ofield app ounits_ok] in *;
    open_obj "Float"; prop_split; acc_auto.
Qed.

Lemma A_string n mn mx pat : describable (SString mn mx pat) = true ->
  (forall p, pat = Some p -> o_re_ok jor (fst p) = true) ->
  A (2 + n) (mobj "String") (dobj (d_fields (SString mn mx pat))).
Proof.
  cbn [describable]. intros H Hp. split_andb.
  destruct mn as [mn|], mx as [mx|], pat as [[src r]|]; cbn [d_fields ofield app fst] in *; len_hyps;
    open_obj "String"; prop_split;
    try (apply acc_pattern; exact (Hp (src, r) eq_refl)); acc_auto.
Qed.

Lemma A_bool n : A (S n) (mobj "BoolSchema") (dobj (d_fields SBool)).
Proof. cbn [d_fields]. open_obj "BoolSchema". Qed.
Lemma A_any n : A (S n) (mobj "AnySchema") (dobj (d_fields SAny)).
Proof. cbn [d_fields]. open_obj "AnySchema". Qed.
Lemma A_pattern n : A (S n) (mobj "Pattern") (dobj (d_fields SPattern)).
Proof. cbn [d_fields]. open_obj "Pattern". Qed.

Lemma A_enum_int n vals u : describable (SEnumInt vals u) = true ->
  A (7 + n) (mobj "IntEnum") (dobj (d_fields (SEnumInt vals u))).
Proof.
  cbn [describable]. intros H. split_andb.
  assert (Hvals : forall m dd, A (S (S (S (S m))))
            (SMap (SInt None None None) (SRef "Display" "" dd) (Some 1%Z) None)
            (dmap (map (fun zd : Z * option display => (vi64 (fst zd), d_odisp (snd zd))) vals))).
  { intros m dd. apply acc_map; [rewrite zlen_map; apply nonempty_size; assumption|].
    apply Forall_forall. intros kv Hkv. apply in_map_iff in Hkv. destruct Hkv as ([z od] & <- & Hin). cbn [fst snd].
    rewrite forallb_forall in H2. specialize (H2 _ Hin). cbn [fst snd] in H2. split_andb.
    destruct od as [d|]; [|discriminate]. cbn [d_odisp]. split; [acc_auto|].
    apply A_ref; [vm_compute; reflexivity | apply A_display; assumption]. }
  destruct u as [u|]; cbn [d_fields ofield app ounits_ok] in *; open_obj "IntEnum"; prop_split;
    first [acc_auto | apply Hvals].
Qed.

Lemma A_enum_str n named vals : describable (SEnumStr named vals) = true ->
  A (5 + n) (mobj "StringEnum") (dobj (d_fields (SEnumStr named vals))).
Proof.
  cbn [describable]. intros H. split_andb. cbn [d_fields]. open_obj "StringEnum"; prop_split.
  apply acc_map; [rewrite zlen_map; apply nonempty_size; assumption|].
  apply Forall_forall. intros kv Hkv. apply in_map_iff in Hkv. destruct Hkv as ([z od] & <- & Hin). cbn [fst snd].
  rewrite forallb_forall in H1. specialize (H1 _ Hin). cbn [fst snd] in H1.
  destruct od as [d|]; [|discriminate]. cbn [d_odisp]. split; [acc_auto|].
  apply A_ref; [vm_compute; reflexivity | apply A_display; assumption].
Qed.

Lemma A_refobj n id ns d : describable (SRef id ns d) = true ->
  A (4 + n) (mobj "Ref") (dobj (d_fields (SRef id ns d))).
Proof.
  cbn [describable]. intros H. split_andb.
  destruct d as [d|]; cbn [d_fields ofield app odisplay_ok] in *; open_obj "Ref"; prop_split; acc_auto.
Qed.

(* ---------- the one-ofs over type_id ---------- *)
Lemma A_vtype n s : A n (mobj (oid_of s)) (dobj (d_fields s)) -> A (S (S n)) vtype (d_type s).
Proof.
  intros H. rewrite vtype_eq. destruct (vtypes_find s) as (k0 & d & Hf). unfold d_type.
  eapply acc_oneof; [apply no_tid_fields | exact Hf |]. apply A_ref; [apply oid_declared | exact H].
Qed.
Lemma A_ktype n s : is_key s = true -> A n (mobj (oid_of s)) (dobj (d_fields s)) -> A (S (S n)) ktype (d_type s).
Proof.
  intros Hk H. rewrite ktype_eq. destruct (ktypes_find s Hk) as (k0 & d & Hf). unfold d_type.
  eapply acc_oneof; [apply no_tid_fields | exact Hf |]. apply A_ref; [apply oid_declared | exact H].
Qed.
Lemma A_mtype n ik s : is_member s = true -> A n (mobj (oid_of s)) (dobj (d_fields s)) -> A (S (S n)) (mtype ik) (d_type s).
Proof.
  intros Hk H. unfold d_type. destruct ik.
  - rewrite mtype_i_eq. destruct (mtypes_i_find s Hk) as (k0 & d & Hf).
    eapply acc_oneof; [apply no_tid_fields | exact Hf |]. apply A_ref; [apply oid_declared | exact H].
  - rewrite mtype_s_eq. destruct (mtypes_s_find s Hk) as (k0 & d & Hf).
    eapply acc_oneof; [apply no_tid_fields | exact Hf |]. apply A_ref; [apply oid_declared | exact H].
Qed.

(* ---------- the objects with recursive positions, given the recursive positions ---------- *)
Lemma A_list n it mn mx : olen_ok mn = true -> olen_ok mx = true ->
  A (S n) vtype (d_type it) -> A (S (S n)) (mobj "List") (dobj (d_fields (SList it mn mx))).
Proof.
  intros Hmn Hmx Hit. unfold d_type in Hit.
  destruct mn as [mn|], mx as [mx|]; cbn [d_fields ofield app] in *; len_hyps;
    open_obj "List"; prop_split; first [exact Hit | acc_auto].
Qed.

Lemma A_map n k v mn mx : olen_ok mn = true -> olen_ok mx = true ->
  A (S n) ktype (d_type k) -> A (S n) vtype (d_type v) ->
  A (S (S n)) (mobj "Map") (dobj (d_fields (SMap k v mn mx))).
Proof.
  intros Hmn Hmx Hk Hv. unfold d_type in Hk, Hv.
  destruct mn as [mn|], mx as [mx|]; cbn [d_fields ofield app] in *; len_hyps;
    open_obj "Map"; prop_split; first [exact Hk | exact Hv | acc_auto].
Qed.

Lemma A_property n t d req rif rifn confl dflt ex dis reason :
  odisplay_ok d = true -> A (3 + n) vtype (d_type t) ->
  A (4 + n) (mobj "Property")
    (dobj ([("conflicts", dstrs confl)] ++ ofield "default" vstr dflt ++ [("disabled", vbool dis)]
           ++ ofield "disabled_reason" vstr reason ++ ofield "display" d_display d
           ++ [("examples", dstrs ex); ("required", vbool req); ("required_if", dstrs rif);
               ("required_if_not", dstrs rifn);
               ("type", dobj (("type_id", vstr (tid_of t)) :: d_fields t))])).
Proof.
  intros Hd Ht. unfold d_type in Ht.
  destruct dflt as [df|], reason as [rs|], d as [d|]; cbn [ofield app odisplay_ok] in *;
    open_obj "Property"; prop_split; first [exact Ht | acc_auto].
Qed.

Lemma A_object n id un props :
  id_ok id = true ->
  (forall nm p, In (nm, p) props ->
     nonempty nm = true /\ odisplay_ok (p_display p) = true /\ A (3 + n) vtype (d_type (p_type p))) ->
  A (7 + n) (mobj "Object") (dobj (d_fields (SObject id un props))).
Proof.
  intros Hid Hps. cbn [d_fields]. open_obj "Object"; prop_split; try acc_auto.
  apply acc_map; [reflexivity|]. apply Forall_forall. intros kv Hkv. apply in_map_iff in Hkv.
  destruct Hkv as ([nm p] & <- & Hin). destruct (Hps nm p Hin) as (Hn & Hdp & Ht).
  destruct p as [t d rq ri rin cf df ex em di rs]. cbn [fst snd Syntax.p_type Syntax.p_display] in *. split.
  - acc_auto.
  - apply A_ref; [vm_compute; reflexivity|]. apply A_property; assumption.
Qed.

Lemma A_okey n ik k : okey_ok ik k = true ->
  A (S n) (if ik then SInt None None None else SString None None None) (key_val k).
Proof.
  destruct ik, k as [z|s0]; cbn [okey_ok key_val andb negb]; intros H; try discriminate.
  - apply acc_int; [assumption | reflexivity].
  - apply acc_string; [reflexivity | exact I].
Qed.

Lemma A_oneof n types ik field inl :
  (forall k m, In (k, m) types -> okey_ok ik k = true /\ A (S n) (mtype ik) (d_type m)) ->
  A (3 + n) (mobj (if ik then "OneOfIntSchema" else "OneOfStringSchema"))
    (dobj (d_fields (SOneOf types ik field inl))).
Proof.
  intros Hts. cbn [d_fields].
  assert (Hmap : A (S (S n)) (SMap (if ik then SInt None None None else SString None None None) (mtype ik) None None)
              (dmap (map (fun km : okey * schema =>
                            match km with (k, m) => (key_val k, dobj (("type_id", vstr (tid_of m)) :: d_fields m)) end) types))).
  { apply acc_map; [reflexivity|]. apply Forall_forall. intros kv Hkv. apply in_map_iff in Hkv.
    destruct Hkv as ([k m] & <- & Hin). destruct (Hts k m Hin) as (Hk & Hm). cbn [fst snd].
    split; [apply A_okey; exact Hk | exact Hm]. }
  destruct ik.
  - open_obj "OneOfIntSchema"; prop_split; first [acc_auto | exact Hmap].
  - open_obj "OneOfStringSchema"; prop_split; first [acc_auto | exact Hmap].
Qed.

Lemma A_scope n os root :
  id_ok root = true ->
  (forall i o, In (i, o) os -> id_ok i = true /\ A (S n) (mobj "Object") (dobj (d_fields o))) ->
  A (4 + n) (mobj "Scope") (dobj (d_fields (SScope os root))).
Proof.
  intros Hr Hos. cbn [d_fields]. open_obj "Scope"; prop_split; try acc_auto.
  apply acc_map; [reflexivity|]. apply Forall_forall. intros kv Hkv. apply in_map_iff in Hkv.
  destruct Hkv as ([oi o] & <- & Hin). destruct (Hos oi o Hin) as (Hi & Ho). cbn [fst snd]. split.
  - acc_auto.
  - apply A_ref; [vm_compute; reflexivity | exact Ho].
Qed.

(* ---------- the induction over the described schema ---------- *)
Definition accepted (s : schema) : Prop :=
  cgood jor s -> A (tfuel s) (mobj (oid_of s)) (dobj (d_fields s)).

Theorem table_accepts : forall s, accepted s.
Proof.
  apply (schema_ind' accepted); unfold accepted; cbn [oid_of tfuel].
  - intros mn mx u [Hd _]. apply (A_int 1). exact Hd.
  - intros mn mx u [Hd _]. apply (A_float 1). exact Hd.
  - intros mn mx pat [Hd Hp]. apply (A_string 6); [exact Hd|]. intros p E. subst pat. apply Hp. cbn. left; reflexivity.
  - intros _. apply A_bool.
  - intros _. apply A_pattern.
  - intros _. apply A_any.
  - intros vals u [Hd _]. apply (A_enum_int 1). exact Hd.
  - intros named vals [Hd _]. apply (A_enum_str 3). exact Hd.
  - (* list *)
    intros it mn mx IH Hg. destruct (cgood_list _ _ _ _ Hg) as (Hgi & Hmn & Hmx).
    apply (A_list (2 + tfuel it)); [assumption | assumption|].
    eapply acc_weaken; [apply (A_vtype (tfuel it)); apply IH; exact Hgi | lia].
  - (* map *)
    intros k v mn mx IHk IHv Hg. destruct (cgood_map _ _ _ _ _ Hg) as (Hk & Hgk & Hgv & Hmn & Hmx).
    destruct (key_describable k Hk) as [_ Hik].
    apply (A_map (2 + Nat.max (tfuel k) (tfuel v))); [assumption | assumption | |].
    + apply A_ktype; [exact Hik|]. eapply acc_weaken; [apply IHk; exact Hgk | lia].
    + apply A_vtype. eapply acc_weaken; [apply IHv; exact Hgv | lia].
  - (* object *)
    intros id un props IH Hg. pose proof Hg as [Hd _]. cbn [describable] in Hd. split_andb.
    apply (A_object (1 + fold_right (fun np n => Nat.max (tfuel (p_type (snd np))) n) 0 props)%nat); [assumption|].
    intros nm p Hin. destruct (cgood_prop _ _ _ _ _ _ Hg Hin) as (Hn & Hdp & Hgp).
    repeat split; try assumption.
    rewrite Forall_forall in IH. specialize (IH _ Hin Hgp). cbn [snd] in IH.
    pose proof (fold_max_ge (fun np : string * property_ schema => tfuel (p_type (snd np))) props (nm, p) Hin) as Hle.
    cbv beta in Hle. cbn [snd] in Hle.
    apply (A_vtype (2 + fold_right (fun np n => Nat.max (tfuel (p_type (snd np))) n) 0 props)%nat).
    eapply acc_weaken; [exact IH | lia].
  - (* one-of *)
    intros types ik field inl IH Hg.
    apply (A_oneof (5 + fold_right (fun km n => Nat.max (tfuel (snd km)) n) 0 types)%nat).
    intros k m Hin. destruct (cgood_member _ _ _ _ _ _ _ Hg Hin) as (Hk & Hm & Hgm). split; [exact Hk|].
    rewrite Forall_forall in IH. specialize (IH _ Hin Hgm). cbn [snd] in IH.
    pose proof (fold_max_ge (fun km : okey * schema => tfuel (snd km)) types (k, m) Hin) as Hle. cbv beta in Hle. cbn [snd] in Hle.
    apply (A_mtype (4 + fold_right (fun km n => Nat.max (tfuel (snd km)) n) 0 types)%nat); [exact Hm|].
    eapply acc_weaken; [exact IH | lia].
  - (* ref *)
    intros id ns d [Hd _]. apply (A_refobj 4). exact Hd.
  - (* scope *)
    intros os root IH Hg. pose proof Hg as [Hd _]. cbn [describable] in Hd. split_andb.
    apply (A_scope (4 + fold_right (fun io n => Nat.max (tfuel (snd io)) n) 0 os)%nat); [assumption|].
    intros i o Hin. destruct (cgood_obj _ _ _ _ _ Hg Hin) as (Hi & Ho & Hgo). split; [exact Hi|].
    rewrite Forall_forall in IH. specialize (IH _ Hin Hgo). cbn [snd] in IH.
    pose proof (fold_max_ge (fun io : string * schema => tfuel (snd io)) os (i, o) Hin) as Hle. cbv beta in Hle. cbn [snd] in Hle.
    destruct o; try discriminate. cbn [oid_of] in IH.
    eapply acc_weaken; [exact IH | lia].
Qed.

End Table.

(* ---------- C09_accepted: the Scope meta-scope, as UnserializeScope runs it ---------- *)
Definition c09_fuel (s : schema) : nat := S (tfuel s).

Lemma meta_root_obj : alookup meta_root meta_objs = Some (mobj "Scope").
Proof. vm_compute. reflexivity. Qed.

Theorem scope_description_accepted words pu jor os root :
  cgood jor (SScope os root) ->
  forall f, (c09_fuel (SScope os root) <= f)%nat ->
  exists x, unser words pu f (mkEnv [] [] jor) meta_scope (describe (SScope os root)) = Ok x.
Proof.
  intros Hg. rewrite meta_scope_eq. unfold describe.
  change (acc words pu (mkEnv [] [] jor) (S (tfuel (SScope os root))) (SScope meta_objs meta_root)
              (dobj (d_fields (SScope os root)))).
  apply (acc_scope words pu (mkEnv [] [] jor) meta_objs meta_root (mobj "Scope") (tfuel (SScope os root))).
  - exact meta_root_obj.
  - exact (table_accepts words pu meta_objs (fun _ _ H => H) jor (SScope os root) Hg).
Qed.
