(* Proofs/StepSigHist.v — histories that also contain the step's OWN CallSignal (Call/StepSig.v: sop2, exec_ops2):
   the per-run step-data statement of C11 (5) holds for them too. *)
From Coq Require Import List ZArith NArith Bool String Lia.
From Verif Require Import Base.Prelude Base.Str Base.Float Base.GoVal
  Schema.Regex Schema.Units Schema.Syntax Schema.Ops ATP.Msg Call.Step Call.StepSig Proofs.Step.
Import ListNotations.
Open Scope list_scope.

Section Calls2.
Variable words : list (string * bool).
Variable pu : units -> string -> option fl.
Variable e : env.
Variable fuel : nat.

Notation DSIGNAL := (call_signal_direct words pu e fuel).
Notation EXEC_OP2 := (exec_op2 words pu e fuel).
Notation EXEC_ACC2 := (exec_acc2 words pu e fuel).
Notation EXEC_OPS2 := (exec_ops2 words pu e fuel).

Lemma call_signal_direct_inv : forall p ps run sid sig input,
  ps_inv p ps ->
  ps_inv p (state_of (DSIGNAL ps p run sid sig input)) /\ ps_grows ps (state_of (DSIGNAL ps p run sid sig input)) /\
  log_ok (state_of (DSIGNAL ps p run sid sig input)) (log_of (DSIGNAL ps p run sid sig input)).
Proof.
  intros p ps run sid sig input Hinv. unfold call_signal_direct, state_of, log_of.
  destruct (alookup sid p) as [st|] eqn:Hst; [|simpl; auto using ps_grows_refl, log_ok_nil].
  destruct (alookup sig (sd_signals st)) as [ss|]; [|simpl; auto using ps_grows_refl, log_ok_nil].
  destruct (setup_step_data (sd_has_init st) run (tab_of ps sid)) as [t' d] eqn:Es.
  destruct (setup_in_ps _ _ _ _ _ _ _ Hst Hinv Es) as [H1 [H2 H3]].
  destruct (s_validate words pu e fuel ss input) as [u| | |]; simpl; (split; [exact H1|]); (split; [exact H2|]); try apply log_ok_nil.
  intros en [<-|[]]. exact H3.
Qed.

Lemma exec_op2_inv : forall p ps o,
  ps_inv p ps ->
  ps_inv p (state_of (EXEC_OP2 p ps o)) /\ ps_grows ps (state_of (EXEC_OP2 p ps o)) /\
  log_ok (state_of (EXEC_OP2 p ps o)) (log_of (EXEC_OP2 p ps o)).
Proof.
  intros p ps o Hinv. destruct o as [o|run sid sig input]; unfold exec_op2.
  - exact (exec_op_inv words pu e fuel p ps o Hinv).
  - pose proof (call_signal_direct_inv p ps run sid sig input Hinv) as H.
    destruct (DSIGNAL ps p run sid sig input) as [[r l] ps']. exact H.
Qed.

Lemma fold_inv2 : forall p ops acc,
  ps_inv p (snd acc) -> log_ok (snd acc) (all_logs (fst acc)) ->
  ps_inv p (snd (fold_left (EXEC_ACC2 p) ops acc)) /\
  log_ok (snd (fold_left (EXEC_ACC2 p) ops acc)) (all_logs (fst (fold_left (EXEC_ACC2 p) ops acc))) /\
  ps_grows (snd acc) (snd (fold_left (EXEC_ACC2 p) ops acc)).
Proof.
  intros p ops. induction ops as [|o ops IH]; intros acc Hinv Hlog; simpl.
  - auto using ps_grows_refl.
  - pose proof (exec_op2_inv p (snd acc) o Hinv) as [H1 [H2 H3]].
    assert (Hacc : EXEC_ACC2 p acc o =
                   (fst acc ++ [(res_of (EXEC_OP2 p (snd acc) o), log_of (EXEC_OP2 p (snd acc) o))],
                    state_of (EXEC_OP2 p (snd acc) o))).
    { unfold exec_acc2, res_of, log_of, state_of. destruct (EXEC_OP2 p (snd acc) o) as [[r l] ps']. reflexivity. }
    rewrite Hacc.
    destruct (IH (fst acc ++ [(res_of (EXEC_OP2 p (snd acc) o), log_of (EXEC_OP2 p (snd acc) o))],
                  state_of (EXEC_OP2 p (snd acc) o))) as [I1 [I2 I3]].
    + exact H1.
    + simpl. unfold all_logs. rewrite flat_map_app. apply log_ok_app.
      * eapply log_ok_grows; [exact Hlog|exact H2].
      * simpl. rewrite app_nil_r. exact H3.
    + split; [exact I1|]. split; [exact I2|]. eapply ps_grows_trans; [exact H2|exact I3].
Qed.

Lemma exec_ops2_inv : forall p ops,
  ps_inv p (snd (EXEC_OPS2 p ops)) /\ log_ok (snd (EXEC_OPS2 p ops)) (all_logs (fst (EXEC_OPS2 p ops))).
Proof.
  intros p ops. unfold exec_ops2.
  destruct (fold_inv2 p ops ([], [])) as [H1 [H2 _]]; simpl; auto using ps_inv_nil, log_ok_nil.
Qed.

(* the statement of C11 (5) for histories of CallStep / CallSignal / Call / the step's own CallSignal *)
Lemma stepdata_once_history2 : forall p ops,
  let res := fst (EXEC_OPS2 p ops) in
  let ps := snd (EXEC_OPS2 p ops) in
  (forall sid st, alookup sid p = Some st -> sd_has_init st = true ->
     t_inits (tab_of ps sid) = N.of_nat (List.length (t_entries (tab_of ps sid))) /\
     NoDup (map fst (t_entries (tab_of ps sid))) /\ NoDup (map snd (t_entries (tab_of ps sid)))) /\
  (forall en, In en (all_logs res) ->
     alookup (lk_run en) (t_entries (tab_of ps (lk_step en))) = Some (lk_data en)) /\
  (forall e1 e2, In e1 (all_logs res) -> In e2 (all_logs res) ->
     lk_step e1 = lk_step e2 -> lk_run e1 = lk_run e2 -> lk_data e1 = lk_data e2).
Proof.
  intros p ops res ps. subst res ps. destruct (exec_ops2_inv p ops) as [Hinv Hlog].
  split; [|split].
  - intros sid st Hst Hi. destruct (Hinv _ _ Hst) as [Hnd [Ht _]]. destruct (Ht Hi) as [_ [Hnd2 Hlen]].
    auto.
  - exact Hlog.
  - intros e1 e2 H1 H2 Hs Hr. pose proof (Hlog _ H1) as L1. pose proof (Hlog _ H2) as L2.
    rewrite Hs, Hr in L1. rewrite L1 in L2. inversion L2; reflexivity.
Qed.
End Calls2.
