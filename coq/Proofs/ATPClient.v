(* Proofs/ATPClient.v — lemmas about the transition system of the ATP client (ATP/Client.v):
   1. a natural-number measure that EVERY step (client or environment) strictly decreases, for every session;
   2. the read-loop invariant (pending entry => live loop that has not passed its exit check; readLoopRunning =
      "a loop is alive"; never two loops), for every session and every label list;
   3. progress: under the state predicate `aux_ok` (the conservation side conditions, evaluated on every model
      state during the correspondence runs) a state with an unreturned Execute / Close has an enabled step. *)
From Coq Require Import Lia.
From Verif Require Import Base.Prelude Base.Str ATP.Msg ATP.Client.
Local Open Scope nat_scope.

Section Proofs.
Variable payload : Type.
Notation state := (state payload).
Notation caller := (caller payload).
Notation event := (event payload).
Notation loop := (loop payload).

(* ------------------------------------------------------------------------------------------------ *)
(* 1. the measure                                                                                    *)
(* ------------------------------------------------------------------------------------------------ *)

Definition w_pc (c : caller) : nat :=
  match c_pc c with
  | CStart => 8 + (if c_hassig c then 3 + 2 * c_sleft c else 0)
  | CSend => 4 | CWait => 2 | CWaiting => 1 | CDone _ => 0
  end.
Definition w_sig (c : caller) : nat :=
  match c_spc c with
  | SNone => 0
  | SCheck => 2 + 2 * c_sleft c
  | SSelect => 1 + 2 * c_sleft c
  | SExit => 0
  end.
Definition w_caller (c : caller) : nat := w_pc c + w_sig c.
Fixpoint w_callers (l : list caller) : nat :=
  match l with [] => 0 | c :: t => w_caller c + w_callers t end.
Definition w_lpc (p : lpc payload) : nat :=
  match p with LDecode => 2 | LHandle _ => 4 | LCheck => 3 | LFatal => 1 | LExited => 0 end.
Definition w_loop (o : option loop) : nat :=
  match o with None => 0 | Some l => 3 * List.length (l_buf l) + w_lpc (l_pc l) end.
Fixpoint w_plan (p : list (runid * list event)) : nat :=
  match p with [] => 0 | (_, q) :: t => 4 * List.length q + w_plan t end.
Definition w_closer (k : kpc) : nat :=
  match k with KNone => 0 | KCancel => 6 | KMark => 5 | KSend => 4 | KWait => 1 | KFailWait => 2 | KDone _ => 0 end.

Definition mu (s : state) : nat :=
  w_callers (callers s) + w_loop (cur s) + 3 * List.length (from_server s) + List.length (to_server s)
  + w_plan (p_plan s) + w_closer (closer s) + (if p_dead s then 0 else 4).

Lemma w_callers_upd : forall (l : list caller) i c c',
  nth_error l i = Some c -> w_callers (upd l i c') + w_caller c = w_callers l + w_caller c'.
Proof.
  induction l as [|x t IH]; intros i c c' H; destruct i; cbn in *; try discriminate.
  - injection H as ->. lia.
  - specialize (IH _ _ c' H). lia.
Qed.

Lemma w_plan_aset : forall (p : list (runid * list event)) r ev rest,
  alookup r p = Some (ev :: rest) -> w_plan (aset r rest p) + 4 = w_plan p.
Proof.
  induction p as [|[k q] t IH]; intros r ev rest H; cbn in *; try discriminate.
  destruct (String.eqb r k).
  - injection H as ->. cbn. lia.
  - cbn. specialize (IH _ _ _ H). lia.
Qed.

Lemma w_callers_deliver : forall (l : list caller) r, w_callers (deliver l r) = w_callers l.
Proof.
  induction l as [|c t IH]; intros r; cbn; auto.
  destruct (String.eqb (c_run c) r && c_sigfrom c); cbn; auto.
Qed.

Lemma firstn_skipn_len : forall (A : Type) k (q : list A), List.length (firstn k q) + List.length (skipn k q) = List.length q.
Proof. intros. rewrite <- (firstn_skipn k q) at 3. now rewrite app_length. Qed.

Ltac break_step H :=
  repeat match type of H with
  | None = Some _ => discriminate H
  | Some _ = Some _ => injection H as H; subst
  | context [match ?x with _ => _ end] => destruct x eqn:?
  end.

Ltac use_upd Hc :=
  match goal with
  | |- context [w_callers (upd ?l ?i ?c')] => pose proof (@w_callers_upd l i _ c' Hc)
  end.

Lemma cwrite_mu : forall (s s1 : state) m, cwrite s m = Some s1 ->
  callers s1 = callers s /\ cur s1 = cur s /\ from_server s1 = from_server s /\
  List.length (to_server s1) = S (List.length (to_server s)) /\ p_plan s1 = p_plan s /\ closer s1 = closer s /\
  p_dead s1 = p_dead s /\ wg s1 = wg s /\ entries s1 = entries s /\ running s1 = running s /\ two_loops s1 = two_loops s
  /\ cdone s1 = cdone s /\ cancelled s1 = cancelled s.
Proof.
  intros s s1 m H. unfold cwrite in H.
  destruct (wr_left s) as [[|n]|]; try discriminate; injection H as <-; cbn; rewrite app_length; cbn;
    repeat split; lia.
Qed.

Theorem step_decreases : forall (s : state) l s', step s l = Some s' -> mu s' < mu s.
Proof.
  intros s l s' H. destruct l; cbn [step] in H.
  - (* caller *)
    unfold step_caller in H. destruct (nth_error (callers s) i) as [c|] eqn:Hc; [|discriminate].
    destruct (c_pc c) eqn:Hpc.
    + (* Start *)
      destruct (negb (pred_done s c)); [discriminate|].
      destruct (c_hassig c) eqn:Hs.
      * destruct (amem (c_run c) (entries (set_wg s (S (wg s))))); injection H as <-.
        -- unfold mu; cbn. use_upd Hc. unfold w_caller, w_pc, w_sig in *. cbn in *. rewrite Hpc, Hs in *.
           destruct (c_spc c); lia.
        -- destruct (c_sigfrom c); cbn; destruct (running s) eqn:Hr; cbn; rewrite ?Hr; cbn;
             unfold mu; cbn; use_upd Hc; unfold w_caller, w_pc, w_sig in *; cbn in *; rewrite Hpc, Hs in *;
             destruct (c_spc c); destruct (cur s) as [lo|]; cbn; lia.
      * destruct (amem (c_run c) (entries s)); injection H as <-.
        -- unfold mu; cbn. use_upd Hc. unfold w_caller, w_pc, w_sig in *. cbn in *. rewrite Hpc in *. cbn in *. lia.
        -- destruct (c_sigfrom c); cbn; destruct (running s) eqn:Hr; cbn; rewrite ?Hr; cbn;
             unfold mu; cbn; use_upd Hc; unfold w_caller, w_pc, w_sig in *; cbn in *; rewrite Hpc in *;
             destruct (cur s) as [lo|]; cbn; lia.
    + (* Send *)
      destruct (cwrite s _) as [s1|] eqn:Hw; injection H as <-.
      * apply cwrite_mu in Hw. destruct Hw as (E1 & E2 & E3 & E4 & E5 & E6 & E7 & _).
        unfold mu; cbn. rewrite ?E1, ?E2, ?E3, ?E4, ?E5, ?E6, ?E7. use_upd Hc.
        unfold w_caller, w_pc, w_sig in *. cbn in *. rewrite Hpc in *. cbn in *. lia.
      * unfold mu; cbn. use_upd Hc. unfold w_caller, w_pc, w_sig in *. cbn in *. rewrite Hpc in *. cbn in *. lia.
    + (* Wait *)
      destruct (alookup (c_run c) (entries s)) as [[r|]|]; injection H as <-;
        unfold mu; cbn; use_upd Hc; unfold w_caller, w_pc, w_sig in *; cbn in *; rewrite Hpc in *; cbn in *; lia.
    + (* Waiting *)
      destruct (alookup (c_run c) (entries s)) as [[r|]|]; try discriminate; injection H as <-;
        unfold mu; cbn; use_upd Hc; unfold w_caller, w_pc, w_sig in *; cbn in *; rewrite Hpc in *; cbn in *; lia.
    + discriminate.
  - (* sig *)
    unfold step_sig in H. destruct (nth_error (callers s) i) as [c|] eqn:Hc; [|discriminate].
    destruct (c_spc c) eqn:Hsp; try discriminate.
    + destruct (cdone s); injection H as <-; unfold mu; cbn; use_upd Hc;
        unfold w_caller, w_pc, w_sig in *; cbn in *; rewrite Hsp in *; cbn in *; destruct (c_pc c); destruct (c_hassig c); cbn in *; lia.
    + destruct (cancelled s).
      * injection H as <-; unfold mu; cbn; use_upd Hc; unfold w_caller, w_pc, w_sig in *; cbn in *; rewrite Hsp in *; cbn in *; destruct (c_pc c); destruct (c_hassig c); cbn in *; lia.
      * destruct (c_sleft c) as [|n] eqn:Hl.
        -- destruct (c_sclose c); [|discriminate]. injection H as <-; unfold mu; cbn; use_upd Hc;
             unfold w_caller, w_pc, w_sig in *; cbn in *; rewrite Hsp in *; cbn in *; destruct (c_pc c); destruct (c_hassig c); cbn in *; lia.
        -- destruct (cwrite s _) as [s1|] eqn:Hw; injection H as <-.
           ++ apply cwrite_mu in Hw. destruct Hw as (E1 & E2 & E3 & E4 & E5 & E6 & E7 & _).
              unfold mu; cbn. rewrite ?E1, ?E2, ?E3, ?E4, ?E5, ?E6, ?E7. use_upd Hc.
              unfold w_caller, w_pc, w_sig in *. cbn in *. rewrite Hsp, Hl in *. cbn in *. destruct (c_pc c); destruct (c_hassig c); cbn in *; lia.
           ++ unfold mu; cbn. use_upd Hc. unfold w_caller, w_pc, w_sig in *. cbn in *. rewrite Hsp, Hl in *. cbn in *. destruct (c_pc c); destruct (c_hassig c); cbn in *; lia.
  - (* loop *)
    unfold step_loop in H. destruct (cur s) as [lo|] eqn:Hcur; [|discriminate].
    destruct (l_pc lo) eqn:Hlp.
    + (* decode *)
      destruct (l_buf lo) as [|ev rest] eqn:Hb.
      * destruct (from_server s) as [|ev q] eqn:Hf; [discriminate|].
        destruct (is_fault ev) eqn:Hfa.
        -- destruct (Nat.eqb k 0); [|discriminate]. destruct ev; cbn in Hfa; try discriminate;
             injection H as <-; unfold mu; cbn; rewrite ?Hcur, Hf; cbn; rewrite ?Hb, ?Hlp; cbn; lia.
        -- destruct (Nat.leb k (List.length q) && all_msgs (firstn k q)); [|discriminate].
           pose proof (firstn_skipn_len _ k q) as Hlen.
           destruct ev; cbn in Hfa; try discriminate.
           injection H as <-. unfold mu; cbn. rewrite ?Hcur, Hf; cbn. rewrite ?Hb, ?Hlp; cbn.
           destruct (needs_handling m); cbn; lia.
      * destruct (Nat.eqb k 0); [|discriminate].
        destruct ev; injection H as <-; unfold mu; cbn; rewrite ?Hcur; cbn; rewrite ?Hb, ?Hlp; cbn;
          try (destruct (needs_handling m); cbn); lia.
    + (* handle *)
      destruct (Nat.eqb k 0); [|discriminate]. injection H as <-.
      unfold handle, loop_exit, fan_out, send_result.
      destruct m; cbn; unfold mu; cbn; rewrite ?Hcur; cbn; rewrite ?Hlp; cbn; try lia.
      * destruct (str_in run (sigchans s)); cbn; rewrite ?w_callers_deliver; rewrite ?Hcur; cbn; rewrite ?Hlp; cbn; lia.
      * destruct server_fatal; cbn; [rewrite ?Hcur; cbn; rewrite ?Hlp; cbn; lia|].
        destruct step_fatal; cbn; [destruct (String.eqb run ""%string); cbn|]; rewrite ?Hcur; cbn; rewrite ?Hlp; cbn; lia.
    + (* fatal *)
      destruct (Nat.eqb k 0); [|discriminate]. injection H as <-.
      unfold loop_exit, fan_out; unfold mu; cbn. rewrite ?Hcur; cbn. rewrite ?Hlp; cbn. lia.
    + (* check *)
      destruct (negb (Nat.eqb k 0)); [discriminate|].
      destruct (has_pending (entries s)); injection H as <-; unfold loop_exit; unfold mu; cbn; rewrite ?Hcur; cbn;
        rewrite ?Hlp; cbn; lia.
    + discriminate.
  - (* closer *)
    unfold step_closer in H. destruct (closer s) eqn:Hk; try discriminate.
    + destruct (forallb _ _); [|discriminate]. injection H as <-. unfold mu; cbn. rewrite ?Hk; cbn. lia.
    + destruct (cdone s); injection H as <-; unfold mu; cbn; rewrite ?Hk; cbn; lia.
    + destruct (cwrite s _) as [s1|] eqn:Hw; injection H as <-.
      * apply cwrite_mu in Hw. destruct Hw as (E1 & E2 & E3 & E4 & E5 & E6 & E7 & _).
        unfold mu; cbn. rewrite ?E1, ?E2, ?E3, ?E4, ?E5, ?E7, ?Hk. cbn. lia.
      * unfold mu; cbn. rewrite ?Hk. cbn. lia.
    + destruct (Nat.eqb (wg s) 0); [|discriminate]. injection H as <-. unfold mu; cbn. rewrite ?Hk; cbn. lia.
    + destruct (Nat.eqb (wg s) 0); [|discriminate]. injection H as <-. unfold mu; cbn. rewrite ?Hk; cbn. lia.
  - (* timeout *)
    unfold step_timeout in H. destruct (closer s) eqn:Hk; try discriminate.
    destruct (Nat.eqb (wg s) 0); [discriminate|]. injection H as <-. unfold mu; cbn. rewrite ?Hk; cbn. lia.
  - (* accept *)
    unfold step_accept in H. destruct (to_server s) as [|m q] eqn:Ht; [discriminate|].
    destruct m; injection H as <-; unfold mu; cbn; rewrite ?Ht; cbn; lia.
  - (* send *)
    unfold step_send in H. destruct (p_dead s || negb (str_in r (p_acc s))) eqn:Hd; [discriminate|].
    apply orb_false_elim in Hd. destruct Hd as [Hd _].
    destruct (alookup r (p_plan s)) as [[|ev rest]|] eqn:Hp; try discriminate.
    pose proof (w_plan_aset _ _ _ _ Hp) as Hw.
    destruct (p_fault s) as [[[|n] f]|]; injection H as <-; unfold mu; cbn; rewrite ?app_length; cbn; rewrite ?Hd; lia.
Qed.

(* every execution is finite: a label list that runs has at most mu(start) steps *)
Theorem run_length_bounded : forall ls (s s' : state), run s ls = Some s' -> List.length ls + mu s' <= mu s.
Proof.
  induction ls as [|l t IH]; intros s s' H; cbn in H.
  - injection H as <-. cbn. lia.
  - destruct (step s l) as [s1|] eqn:Hs; [|discriminate].
    apply step_decreases in Hs. specialize (IH _ _ H). cbn. lia.
Qed.

(* ------------------------------------------------------------------------------------------------ *)
(* 2. the read-loop invariant                                                                        *)
(* ------------------------------------------------------------------------------------------------ *)

Definition decode_has_pending (s : state) : Prop :=
  match cur s with
  | Some l => match l_pc l with LDecode => has_pending (entries s) = true | _ => True end
  | None => True
  end.

Record invA (s : state) : Prop := mkInvA {
  a_running : running s = loop_live (cur s);
  a_two : two_loops s = false;
  a_pending : has_pending (entries s) = true -> loop_live (cur s) = true;
  a_decode : decode_has_pending s }.

Lemma has_pending_app_none : forall (es : list (runid * option (result payload))) r,
  has_pending (es ++ [(r, None)]) = true.
Proof. intros. unfold has_pending. rewrite existsb_app. cbn. now rewrite orb_true_r. Qed.

Lemma has_pending_adel_mono : forall (es : list (runid * option (result payload))) r,
  has_pending (adel r es) = true -> has_pending es = true.
Proof.
  unfold has_pending. induction es as [|[k v] t IH]; intros r H; cbn in *; auto.
  destruct (String.eqb r k); cbn in *.
  - rewrite H. apply orb_true_r.
  - apply orb_true_iff in H. destruct H as [H|H].
    + rewrite H. reflexivity.
    + apply IH in H. rewrite H. apply orb_true_r.
Qed.

Lemma has_pending_adel_some : forall (es : list (runid * option (result payload))) r v,
  alookup r es = Some (Some v) -> has_pending (adel r es) = has_pending es.
Proof.
  unfold has_pending. induction es as [|[k w] t IH]; intros r v H; cbn in *; try discriminate.
  destruct (String.eqb r k).
  - injection H as ->. cbn. reflexivity.
  - cbn. erewrite IH; eauto.
Qed.

Lemma has_pending_aset_mono : forall (es : list (runid * option (result payload))) r v,
  has_pending (aset r (Some v) es) = true -> has_pending es = true.
Proof.
  unfold has_pending. induction es as [|[k w] t IH]; intros r v H; cbn in *; auto.
  destruct (String.eqb r k); cbn in *.
  - rewrite H. apply orb_true_r.
  - apply orb_true_iff in H. destruct H as [H|H].
    + rewrite H. reflexivity.
    + apply IH in H. rewrite H. apply orb_true_r.
Qed.

Lemma has_pending_fan : forall (es : list (runid * option (result payload))) (v : result payload),
  has_pending (map (fun e => (fst e, Some v)) es) = false.
Proof. unfold has_pending. induction es as [|e t IH]; intros v; cbn; auto. Qed.

Lemma has_pending_fan_false : forall (es : list (runid * option (result payload))) (v : result payload),
  has_pending (map (fun e => (fst e, Some v)) es) = true -> False.
Proof. intros es v H. rewrite has_pending_fan in H. discriminate. Qed.

Lemma cwrite_A : forall (s s1 : state) m, cwrite s m = Some s1 ->
  entries s1 = entries s /\ cur s1 = cur s /\ running s1 = running s /\ two_loops s1 = two_loops s.
Proof. intros s s1 m H. apply cwrite_mu in H. intuition. Qed.

Lemma invA_ext : forall (s s1 : state),
  entries s1 = entries s -> cur s1 = cur s -> running s1 = running s -> two_loops s1 = two_loops s -> invA s -> invA s1.
Proof.
  intros s s1 E1 E2 E3 E4 [A1 A2 A3 A4]. constructor; unfold decode_has_pending in *; rewrite ?E1, ?E2, ?E3, ?E4; auto.
Qed.

Theorem invA_step : forall (s : state) l s', invA s -> step s l = Some s' -> invA s'.
Proof.
  intros s l s' I H. destruct l; cbn [step] in H.
  - (* caller *)
    unfold step_caller in H. destruct (nth_error (callers s) i) as [c|] eqn:Hc; [|discriminate].
    destruct (c_pc c) eqn:Hpc.
    + destruct (negb (pred_done s c)); [discriminate|].
      assert (forall s0 : state, entries s0 = entries s -> cur s0 = cur s -> running s0 = running s -> two_loops s0 = two_loops s ->
              forall c1 : caller,
              (if amem (c_run c) (entries s0) then Some (set_caller s0 i (set_pc c1 (CDone (RErr ErrDup)))) else
               let s2 := set_entries s0 (entries s0 ++ [(c_run c, None)]) in
               let s3 := if c_sigfrom c then set_sigchans s2 (sigchans s2 ++ [c_run c]) else s2 in
               let s4 := if running s3 then s3 else
                    set_two_loops (set_nloops (set_cur (set_running (set_wg s3 (S (wg s3))) true)
                                                       (Some (mkLoop LDecode []))) (S (nloops s3)))
                                  (two_loops s3 || loop_live (cur s3)) in
               Some (set_caller s4 i (set_pc c1 CSend))) = Some s' -> invA s') as K.
      { intros s0 E1 E2 E3 E4 c1 H0. destruct I as [A1 A2 A3 A4].
        destruct (amem (c_run c) (entries s0)).
        - injection H0 as <-. constructor; unfold decode_has_pending in *; cbn; rewrite ?E1, ?E2, ?E3, ?E4; auto.
        - cbn in H0. destruct (c_sigfrom c); cbn in H0; rewrite E3 in H0; destruct (running s) eqn:Hr; injection H0 as <-;
            constructor; unfold decode_has_pending; cbn; rewrite ?E1, ?E2, ?E3, ?E4, ?Hr; cbn; auto;
            try (rewrite <- A1; reflexivity); try (intros _; rewrite <- A1; reflexivity);
            try (rewrite A2, <- A1; reflexivity); try apply has_pending_app_none;
            try (destruct (cur s) as [lo|]; [destruct (l_pc lo); auto; apply has_pending_app_none|auto]). }
      destruct (c_hassig c); [apply (K (set_wg s (S (wg s)))) with (c1 := set_spc c SCheck)|apply (K s) with (c1 := c)]; auto.
    + destruct (cwrite s _) as [s1|] eqn:Hw; injection H as <-.
      * apply cwrite_A in Hw. destruct Hw as (E1 & E2 & E3 & E4). eapply invA_ext; [..|exact I]; cbn; auto.
      * eapply invA_ext; [..|exact I]; cbn; auto.
    + destruct (alookup (c_run c) (entries s)) as [[r|]|] eqn:Hl; injection H as <-;
        try (eapply invA_ext; [..|exact I]; cbn; auto; fail).
      destruct I as [A1 A2 A3 A4]. constructor; unfold decode_has_pending in *; cbn; auto.
      * intros Hp. apply A3. eapply has_pending_adel_mono; eauto.
      * pose proof (has_pending_adel_some _ _ _ Hl) as Hq. unfold has_pending in *. rewrite Hq. auto.
    + destruct (alookup (c_run c) (entries s)) as [[r|]|] eqn:Hl; try discriminate; injection H as <-.
      destruct I as [A1 A2 A3 A4]. constructor; unfold decode_has_pending in *; cbn; auto.
      * intros Hp. apply A3. eapply has_pending_adel_mono; eauto.
      * pose proof (has_pending_adel_some _ _ _ Hl) as Hq. unfold has_pending in *. rewrite Hq. auto.
    + discriminate.
  - (* sig *)
    unfold step_sig in H. destruct (nth_error (callers s) i) as [c|] eqn:Hc; [|discriminate].
    destruct (c_spc c); try discriminate.
    + destruct (cdone s); injection H as <-; eapply invA_ext; [..|exact I]; cbn; auto.
    + destruct (cancelled s); [injection H as <-; eapply invA_ext; [..|exact I]; cbn; auto|].
      destruct (c_sleft c).
      * destruct (c_sclose c); [|discriminate]. injection H as <-; eapply invA_ext; [..|exact I]; cbn; auto.
      * destruct (cwrite s _) as [s1|] eqn:Hw; injection H as <-.
        -- apply cwrite_A in Hw. destruct Hw as (E1 & E2 & E3 & E4). eapply invA_ext; [..|exact I]; cbn; auto.
        -- eapply invA_ext; [..|exact I]; cbn; auto.
  - (* loop *)
    unfold step_loop in H. destruct (cur s) as [lo|] eqn:Hcur; [|discriminate].
    destruct I as [A1 A2 A3 A4]. unfold decode_has_pending in A4. rewrite Hcur in *.
    unfold loop_live in A1, A3.
    destruct (l_pc lo) eqn:Hlp; cbn in A1, A3.
    + (* decode: the loop stays alive, entries unchanged *)
      assert (forall (ev : event) buf (s0 : state), entries s0 = entries s -> running s0 = running s -> two_loops s0 = two_loops s ->
              match ev with
              | EvMsg m => Some (set_decoded (set_cur s0 (Some (mkLoop (if needs_handling m then LHandle m else LCheck) buf))) (decoded s0 ++ [m]))
              | _ => Some (set_cur s0 (Some (mkLoop LFatal buf)))
              end = Some s' -> invA s') as K.
      { intros ev buf s0 E1 E3 E4 H0. cbn in A1.
        destruct ev; injection H0 as <-; constructor; unfold decode_has_pending; cbn; rewrite ?E1, ?E3, ?E4; auto;
          try (destruct (needs_handling m); cbn; auto). }
      destruct (l_buf lo) as [|ev rest].
      * destruct (from_server s) as [|ev q]; [discriminate|]. destruct (is_fault ev).
        -- destruct (Nat.eqb k 0); [|discriminate]. eapply (K ev [] s); eauto.
        -- destruct (Nat.leb k (List.length q) && all_msgs (firstn k q)); [|discriminate].
           eapply (K ev _ (set_from_server s (skipn k q))); eauto.
      * destruct (Nat.eqb k 0); [|discriminate]. eapply (K ev rest s); eauto.
    + (* handle *)
      destruct (Nat.eqb k 0); [|discriminate]. injection H as <-. cbn in A1.
      unfold handle, loop_exit, fan_out, send_result.
      destruct m; cbn; try (constructor; unfold decode_has_pending; cbn; auto; fail).
      * destruct (str_in run (sigchans s)); constructor; unfold decode_has_pending; cbn; auto.
      * destruct server_fatal; cbn.
        -- constructor; unfold decode_has_pending; cbn; auto. intros Hq; exfalso; eapply has_pending_fan_false; exact Hq.
        -- destruct step_fatal; cbn; [destruct (String.eqb run ""%string)|]; constructor; unfold decode_has_pending; cbn; auto.
    + destruct (Nat.eqb k 0); [|discriminate]. injection H as <-. unfold loop_exit, fan_out.
      constructor; unfold decode_has_pending; cbn; auto. intros Hq; exfalso; eapply has_pending_fan_false; exact Hq.
    + destruct (negb (Nat.eqb k 0)); [discriminate|]. cbn in A1.
      destruct (has_pending (entries s)) eqn:Hp; injection H as <-; unfold loop_exit;
        constructor; unfold decode_has_pending; cbn; auto. intros Hq; unfold has_pending in *; congruence.
    + discriminate.
  - (* closer *)
    unfold step_closer in H. destruct (closer s); try discriminate.
    + destruct (forallb _ _); [|discriminate]. injection H as <-. eapply invA_ext; [..|exact I]; cbn; auto.
    + destruct (cdone s); injection H as <-; eapply invA_ext; [..|exact I]; cbn; auto.
    + destruct (cwrite s _) as [s1|] eqn:Hw; injection H as <-.
      * apply cwrite_A in Hw. destruct Hw as (E1 & E2 & E3 & E4). eapply invA_ext; [..|exact I]; cbn; auto.
      * eapply invA_ext; [..|exact I]; cbn; auto.
    + destruct (Nat.eqb (wg s) 0); [|discriminate]. injection H as <-. eapply invA_ext; [..|exact I]; cbn; auto.
    + destruct (Nat.eqb (wg s) 0); [|discriminate]. injection H as <-. eapply invA_ext; [..|exact I]; cbn; auto.
  - unfold step_timeout in H. destruct (closer s); try discriminate.
    destruct (Nat.eqb (wg s) 0); [discriminate|]. injection H as <-. eapply invA_ext; [..|exact I]; cbn; auto.
  - unfold step_accept in H. destruct (to_server s) as [|m q]; [discriminate|].
    destruct m; injection H as <-; eapply invA_ext; [..|exact I]; cbn; auto.
  - unfold step_send in H. destruct (p_dead s || negb (str_in r (p_acc s))); [discriminate|].
    destruct (alookup r (p_plan s)) as [[|ev rest]|]; try discriminate.
    destruct (p_fault s) as [[[|n] f]|]; injection H as <-; eapply invA_ext; [..|exact I]; cbn; auto.
Qed.

Lemma invA_init : forall se : session payload, invA (init se).
Proof. intros se. constructor; unfold decode_has_pending; cbn; auto; discriminate. Qed.

Theorem invA_run : forall ls (s s' : state), invA s -> run s ls = Some s' -> invA s'.
Proof.
  induction ls as [|l t IH]; intros s s' I H; cbn in H.
  - now injection H as <-.
  - destruct (step s l) as [s1|] eqn:Hs; [|discriminate]. eapply IH; [|exact H]. eapply invA_step; eauto.
Qed.

(* ------------------------------------------------------------------------------------------------ *)
(* 3. progress                                                                                       *)
(* ------------------------------------------------------------------------------------------------ *)

Lemma after_from_lt : forall (cs : list caller) k i c j,
  after_from k cs = true -> nth_error cs i = Some c -> c_after c = Some j -> j < k + i.
Proof.
  induction cs as [|x t IH]; intros k i c j H Hn Ha; destruct i; cbn in *; try discriminate.
  - injection Hn as ->. rewrite Ha in H. apply andb_true_iff in H. destruct H as [H _]. apply Nat.ltb_lt in H. lia.
  - apply andb_true_iff in H. destruct H as [_ H]. specialize (IH _ _ _ _ H Hn Ha). lia.
Qed.

Lemma alookup_none_pending : forall (es : list (runid * option (result payload))) r,
  alookup r es = Some None -> has_pending es = true.
Proof.
  unfold has_pending. induction es as [|[k v] t IH]; intros r H; cbn in *; try discriminate.
  destruct (String.eqb r k).
  - injection H as ->. reflexivity.
  - rewrite (IH _ H). apply orb_true_r.
Qed.

Lemma forallb_nth : forall (A : Type) (f : A -> bool) (l : list A) i x,
  forallb f l = true -> nth_error l i = Some x -> f x = true.
Proof. intros A f l i x H Hn. rewrite forallb_forall in H. apply H. eapply nth_error_In; eauto. Qed.

Theorem caller_progress : forall (s : state), invA s -> flight_ok s = true ->
  forall i c, nth_error (callers s) i = Some c -> caller_done c = false -> exists l, step s l <> None.
Proof.
  intros s I F. unfold flight_ok in F. apply andb_true_iff in F. destruct F as [F F3].
  apply andb_true_iff in F. destruct F as [F1 F2].
  induction i as [i IH] using lt_wf_ind. intros c Hc Hd.
  unfold caller_done in Hd. destruct (c_pc c) eqn:Hpc; try discriminate.
  - (* Start *)
    destruct (pred_done s c) eqn:Hp.
    + exists (LCaller i). cbn. unfold step_caller. rewrite Hc, Hpc, Hp. cbn.
      destruct (c_hassig c); cbn; match goal with |- context [if ?b then _ else _] => destruct b end; discriminate.
    + unfold pred_done in Hp. destruct (c_after c) as [j|] eqn:Ha; [|discriminate].
      destruct (nth_error (callers s) j) as [d|] eqn:Hj; [|discriminate].
      pose proof (after_from_lt _ _ _ _ _ F2 Hc Ha) as Hlt. cbn in Hlt.
      eapply (IH j Hlt d Hj Hp).
  - exists (LCaller i). cbn. unfold step_caller. rewrite Hc, Hpc. destruct (cwrite s _); discriminate.
  - exists (LCaller i). cbn. unfold step_caller. rewrite Hc, Hpc.
    destruct (alookup (c_run c) (entries s)) as [[r|]|]; discriminate.
  - (* Waiting *)
    destruct (alookup (c_run c) (entries s)) as [[r|]|] eqn:Hl.
    + exists (LCaller i). cbn. unfold step_caller. rewrite Hc, Hpc, Hl. discriminate.
    + (* pending: the read loop is alive *)
      pose proof (alookup_none_pending _ _ Hl) as Hpend.
      pose proof (a_pending _ I Hpend) as Hlive. unfold loop_live in Hlive.
      destruct (cur s) as [lo|] eqn:Hcur; [|discriminate].
      destruct (l_pc lo) eqn:Hlp; try discriminate.
      * (* Decode *)
        destruct (l_buf lo) as [|ev rest] eqn:Hb.
        -- destruct (from_server s) as [|ev q] eqn:Hf.
           ++ (* nothing to read: the peer is obligated *)
              assert (input_empty s = true) as Hie by (unfold input_empty; rewrite Hcur, Hlp, Hb, Hf; reflexivity).
              assert (waiting_pending s = true) as Hwp.
              { unfold waiting_pending. apply existsb_exists. exists c. split; [eapply nth_error_In; eauto|].
                rewrite Hpc, Hl. reflexivity. }
              rewrite Hwp, Hie in F3. cbn in F3. unfold peer_obligated in F3.
              apply orb_true_iff in F3. destruct F3 as [F3|F3].
              ** exists LPeerAccept. cbn. unfold step_accept. destruct (to_server s) as [|m t]; [discriminate|].
                 destruct m; discriminate.
              ** apply existsb_exists in F3. destruct F3 as [p [_ Hp]]. exists (LPeerSend (fst p)). cbn.
                 destruct (step_send s (fst p)); [discriminate|discriminate].
           ++ exists (LLoop 0). cbn. unfold step_loop. rewrite Hcur, Hlp, Hb, Hf.
              destruct (is_fault ev) eqn:Hfa; cbn; destruct ev; cbn in *; discriminate.
        -- exists (LLoop 0). cbn. unfold step_loop. rewrite Hcur, Hlp, Hb. cbn. destruct ev; discriminate.
      * exists (LLoop 0). cbn. unfold step_loop. rewrite Hcur, Hlp. cbn. discriminate.
      * exists (LLoop 0). cbn. unfold step_loop. rewrite Hcur, Hlp. cbn. discriminate.
      * exists (LLoop 0). cbn. unfold step_loop. rewrite Hcur, Hlp. cbn. destruct (has_pending (entries s)); discriminate.
    + (* a waiting caller without an entry: excluded by waiting_has_entry *)
      unfold waiting_has_entry in F1. pose proof (forallb_nth _ _ _ _ _ F1 Hc) as Hm. cbn in Hm. rewrite Hpc in Hm.
      unfold amem in Hm. rewrite Hl in Hm. discriminate.
Qed.

End Proofs.

Arguments invA {payload}.
Arguments mu {payload}.
