(* Proofs/XInlineEx.v — non-vacuity of the struct-mapped inline equivalence (Proofs/XInlineEquiv.v) on the harness
   descriptors of Proofs/XExamples.v: XNested{in: ref XInner, p: ref XInner, x} with both member references replaced
   by the struct-mapped object XInner — as an object in the scope's environment, and as the scope whose table holds
   the inlined XNested. *)
From Verif Require Import Base.Prelude Base.Str Base.Float Base.GoVal Base.XReflect
  Schema.Regex Schema.Units Schema.Syntax Schema.Ops Schema.XSyntax Schema.XOps
  Proofs.XStruct Proofs.XExamples Proofs.XInline Proofs.Link2Inline Proofs.XInlineStep Proofs.XInlineEquiv.
Open Scope string_scope.
Open Scope Z_scope.

Definition xs_nested_inl : xschema :=
  XObject "XNested" false
    [("in", xs_prop xs_inner true None false);
     ("p", xs_prop xs_inner false None false);
     ("x", xs_prop xs_int true None false)]
    (Some (mkStructInfo "XNested" false
             [("in", mkFieldRef "In" [0%nat] [0%nat] (TStruct "XInner"));
              ("p", mkFieldRef "P" [1%nat] [1%nat] (TPtr (TStruct "XInner")));
              ("x", mkFieldRef "X" [2%nat] [2%nat] (TInt I64))])).

Definition xs_tab_inl : xobjtab :=
  [("XNested", xs_nested_inl); ("XInner", xs_inner); ("XTwo", xs_two); ("XPtrs", xs_ptrs); ("XEmbPtr", xs_embptr); ("Choice", xs_choice)].

Lemma xs_inner_ref_inlines d : xinlines_to (xs_env xs_tab) (XRef "XInner" "" d) xs_inner.
Proof.
  unfold xs_inner. eapply XI_ref; [reflexivity|].
  apply F2_refl. intros np _. apply xprop_rel_refl. apply xinl_refl.
Qed.

Lemma xs_nested_inlines : xinlines_to (xs_env xs_tab) xs_nested xs_nested_inl.
Proof.
  unfold xs_nested, xs_nested_inl. apply XI_obj.
  constructor; [|constructor; [|constructor; [|constructor]]].
  - exists xs_inner. split; [reflexivity|]. apply xs_inner_ref_inlines.
  - exists xs_inner. split; [reflexivity|]. apply xs_inner_ref_inlines.
  - apply xprop_rel_refl. apply xinl_refl.
Qed.

Lemma xs_scope_inlines : xinlines_to (xs_env []) (xs_scope "XNested") (XScope xs_tab_inl "XNested").
Proof.
  unfold xs_scope, xs_tab, xs_tab_inl. apply XI_scope. constructor.
  - split; [reflexivity|]. split; [exact xs_nested_inlines | left; reflexivity].
  - apply F2_refl. intros io _. split; [reflexivity|]. split; [apply xinl_refl | right; reflexivity].
Qed.

(* the hypotheses of the theorems hold for the descriptor, the two schemas differ, and on an input that leaves the
   pointer member out (so that the parent's sub-object default pass builds it) both give the same struct *)
Example xinline_equiv_example :
  let e := xs_env xs_tab in
  let v := xs_m [("in", xs_m [("b", vstr "q")]); ("x", vi64 3)] in
  let n := VStruct (TStruct "XNested")
             [("In", xs_inner_v 1 "q"); ("P", VPtr (TPtr (TStruct "XInner")) (Some (xs_inner_v 1 ""))); ("X", vi64 3)] in
  xinl_env e e /\ xinlines_to e xs_nested xs_nested_inl /\
  xunser w_words w_pu 8 e xs_nested v = Ok n /\ xunser w_words w_pu 8 e xs_nested_inl v = Ok n /\
  xvalidate w_words w_pu 8 e xs_nested n = Ok tt /\ xvalidate w_words w_pu 8 e xs_nested_inl n = Ok tt /\
  xserialize w_words w_pu 8 e xs_nested n = xserialize w_words w_pu 8 e xs_nested_inl n /\
  is_ok (xserialize w_words w_pu 8 e xs_nested_inl n) = true.
Proof.
  split; [apply xinl_env_refl|]. split; [exact xs_nested_inlines|].
  vm_compute. repeat split; reflexivity.
Qed.

Example xinline_equiv_scope_example :
  let e := xs_env [] in
  let v := xs_m [("in", xs_m [("b", vstr "q")]); ("x", vi64 3)] in
  xinl_env e e /\ xinlines_to e (xs_scope "XNested") (XScope xs_tab_inl "XNested") /\
  is_ok (xunser w_words w_pu 30 e (xs_scope "XNested") v) = true /\
  xunser w_words w_pu 30 e (xs_scope "XNested") v = xunser w_words w_pu 30 e (XScope xs_tab_inl "XNested") v.
Proof.
  split; [apply xinl_env_refl|]. split; [exact xs_scope_inlines|].
  vm_compute. repeat split; reflexivity.
Qed.
