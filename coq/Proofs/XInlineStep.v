(* Proofs/XInlineStep.v — C14 (3) for the struct-mapped model (Schema/XOps.v), part 1: the relation
   `xinlines_to e s s'` (s' is s with any number of self-namespace references replaced by the objects
   they denote, themselves inlined further; closed under every constructor of xschema: lists, maps,
   (struct-mapped) objects and their properties, one-of members, scopes), the relation it induces on
   environments (`xinl_env`), and ONE congruence step lemma per operation (`xstep_*`: if the sub-calls at
   fuel f / g agree, the calls at S f / S g agree), parametrised by the relation, which Proofs/XInlineEquiv.v
   uses in both directions.  The structure is that of Proofs/Link2Inline.v; what the struct-mapped model
   adds is: the sub-object default pass of xunser (xsub_defaults — hypothesis Rel_sub, discharged with
   s7b's Proofs/XInline.v lemma generalised to the full relation), xto_struct / xis_empty (the struct table
   must be the same: Rel_st), the reflected types (xrtype, xstruct_rtype: they depend on the ENVIRONMENT
   here, so Rel_rtype / Rel_srt relate both), and findUnderlyingType of the one-of. *)
From Coq Require Import Lia.
From Verif Require Import Base.Prelude Base.Str Base.Float Base.GoVal Base.XReflect
  Schema.Regex Schema.Units Schema.Syntax Schema.Ops Schema.XSyntax Schema.XOps
  Proofs.OpsEq Proofs.MonoEq Proofs.XOpsEq Proofs.XMono Proofs.XInline Proofs.Link2Inline.
Open Scope string_scope.

(* ---------- the relation ---------- *)
Definition xi_leaf (s : xschema) : bool :=
  match s with
  | XList _ _ _ | XMap _ _ _ _ | XObject _ _ _ _ | XOneOf _ _ _ _ | XScope _ _ => false
  | _ => true
  end.
Definition xnot_ref (s : xschema) : bool := match s with XRef _ _ _ => false | _ => true end.

Definition xprop_rel (R : xschema -> xschema -> Prop) (np np' : string * property_ xschema) : Prop :=
  exists t', np' = (fst np, xwith_type (snd np) t') /\ R (p_type (snd np)) t'.
Definition xmem_rel (R : xschema -> xschema -> Prop) (km km' : okey * xschema) : Prop :=
  fst km' = fst km /\ R (snd km) (snd km').
(* an entry of an object table: inlined, and — unless it is left as it is — not itself a bare reference
   (in Go the tables are map[string]*ObjectSchema) *)
Definition xtab_ok (R : xschema -> xschema -> Prop) (o o' : xschema) : Prop :=
  R o o' /\ (xnot_ref o = true \/ o' = o).
Definition xobj_rel (R : xschema -> xschema -> Prop) (io io' : string * xschema) : Prop :=
  fst io' = fst io /\ xtab_ok R (snd io) (snd io').

Inductive xinlines_to : xenv -> xschema -> xschema -> Prop :=
| XI_leaf e s : xi_leaf s = true -> xinlines_to e s s        (* scalars, any, a reference left alone *)
| XI_list e it it' mn mx : xinlines_to e it it' -> xinlines_to e (XList it mn mx) (XList it' mn mx)
| XI_map e k k' v v' mn mx : xinlines_to e k k' -> xinlines_to e v v' ->
    xinlines_to e (XMap k v mn mx) (XMap k' v' mn mx)
| XI_obj e id u ps ps' m : Forall2 (xprop_rel (xinlines_to e)) ps ps' ->
    xinlines_to e (XObject id u ps m) (XObject id u ps' m)     (* struct-mapped or not: the same struct information *)
| XI_oneof e ts ts' ik fd il : Forall2 (xmem_rel (xinlines_to e)) ts ts' ->
    xinlines_to e (XOneOf ts ik fd il) (XOneOf ts' ik fd il)
| XI_scope e objs objs' root : Forall2 (xobj_rel (xinlines_to (xenv_enter e objs))) objs objs' ->
    xinlines_to e (XScope objs root) (XScope objs' root)
| XI_ref e id d i u ps ps' m :                                  (* the reference replaced by its object *)
    xresolve e id "" = Some (XObject i u ps m, e) -> Forall2 (xprop_rel (xinlines_to e)) ps ps' ->
    xinlines_to e (XRef id "" d) (XObject i u ps' m).

Definition xtab_rel (x : list (string * xobjtab)) (o : oracles) (st : stab) (tab tab' : xobjtab) : Prop :=
  Forall2 (xobj_rel (xinlines_to (mkXEnv tab x o st))) tab tab'.
(* the environment whose tables hold the inlined objects: same oracles, same struct table *)
Definition xinl_env (e e' : xenv) : Prop :=
  xe_or e' = xe_or e /\ xe_structs e' = xe_structs e /\
  xtab_rel (xe_ext e) (xe_or e) (xe_structs e) (xe_self e) (xe_self e') /\
  Forall2 (fun nt nt' => fst nt' = fst nt /\ xtab_rel (xe_ext e) (xe_or e) (xe_structs e) (snd nt) (snd nt'))
          (xe_ext e) (xe_ext e').

Definition xstr_like (s : xschema) : bool := match s with XString _ _ _ => true | _ => false end.

(* ---------- xwith_type ---------- *)
Lemma xwt_type (p : xproperty) t : p_type (xwith_type p t) = t.
Proof. reflexivity. Qed.
Lemma xwt_disabled (p : xproperty) t : p_disabled (xwith_type p t) = p_disabled p.
Proof. reflexivity. Qed.
Lemma xwt_default (p : xproperty) t : p_default (xwith_type p t) = p_default p.
Proof. reflexivity. Qed.
Lemma xwt_empty (p : xproperty) t : p_empty_is_default (xwith_type p t) = p_empty_is_default p.
Proof. reflexivity. Qed.
Lemma xwt_required (p : xproperty) t : p_required (xwith_type p t) = p_required p.
Proof. reflexivity. Qed.
Lemma xwt_id (p : xproperty) : xwith_type p (p_type p) = p.
Proof. destruct p; reflexivity. Qed.
Lemma xwt_twice (p : xproperty) t t' : xwith_type (xwith_type p t) t' = xwith_type p t'.
Proof. reflexivity. Qed.

Lemma xprop_rel_refl (R : xschema -> xschema -> Prop) np : R (p_type (snd np)) (p_type (snd np)) -> xprop_rel R np np.
Proof. intros H. exists (p_type (snd np)). split; [|exact H]. destruct np as [n p]; cbn [fst snd]. rewrite xwt_id. reflexivity. Qed.

Lemma xprop_rel_flip (R : xschema -> xschema -> Prop) np np' : xprop_rel R np np' -> xprop_rel (fun a b => R b a) np' np.
Proof.
  intros (t' & -> & HR). exists (p_type (snd np)). cbn [fst snd]. split.
  - rewrite xwt_twice, xwt_id. destruct np; reflexivity.
  - rewrite xwt_type. exact HR.
Qed.

(* ---------- property lists ---------- *)
Section XPropLists.
Variable R : xschema -> xschema -> Prop.

Lemma xamem_props ps1 ps2 : Forall2 (xprop_rel R) ps1 ps2 -> forall k, amem k ps2 = amem k ps1.
Proof.
  intros H k. unfold amem. induction H as [|[n p] y t t' (t0 & -> & _) _ IH]; cbn; [reflexivity|].
  destruct (String.eqb k n); [reflexivity | exact IH].
Qed.

Lemma xalookup_props ps1 ps2 k : Forall2 (xprop_rel R) ps1 ps2 ->
  match alookup k ps1 with
  | Some p1 => exists t', alookup k ps2 = Some (xwith_type p1 t') /\ R (p_type p1) t'
  | None => alookup k ps2 = None
  end.
Proof.
  induction 1 as [|[n p] y t t' (t0 & -> & HR) _ IH]; cbn; [reflexivity|].
  destruct (String.eqb k n); [exists t0; split; [reflexivity | exact HR] | exact IH].
Qed.

Lemma xforM_props (g : string * property_ xschema -> outcome unit) ps1 ps2 : Forall2 (xprop_rel R) ps1 ps2 ->
  (forall np t', g (fst np, xwith_type (snd np) t') = g np) -> forM_ g ps2 = forM_ g ps1.
Proof.
  intros H Hg. induction H as [|np y t t' (t0 & -> & _) _ IH]; cbn; [reflexivity|].
  rewrite Hg, IH. reflexivity.
Qed.

Lemma xcheck_rules_props ps1 ps2 set : Forall2 (xprop_rel R) ps1 ps2 -> xcheck_rules ps2 set = xcheck_rules ps1 set.
Proof. intros H. unfold xcheck_rules. apply xforM_props; [exact H|]. intros np t'. reflexivity. Qed.

Lemma xsingle_props ps1 ps2 : Forall2 (xprop_rel R) ps1 ps2 ->
  (ps1 = [] /\ ps2 = []) \/
  (exists n p t', ps1 = [(n, p)] /\ ps2 = [(n, xwith_type p t')] /\ R (p_type p) t') \/
  (exists a b t a' b' t', ps1 = a :: b :: t /\ ps2 = a' :: b' :: t').
Proof.
  intros H. destruct H as [|[n p] y t t' (t0 & -> & HR) H]; [left; split; reflexivity|].
  destruct H as [|b b' tt1 tt2 _ _].
  - right; left. exists n, p, t0. cbn. repeat split; auto.
  - right; right. repeat eexists.
Qed.

Lemma xtype_id_str {A} (s : xschema) (a b : A) :
  match xtype_id_of s with IdString => a | _ => b end = if xstr_like s then a else b.
Proof.
  destruct s; try reflexivity. cbn.
  match goal with |- context [if ?c then IdOneOfInt else _] => destruct c end; reflexivity.
Qed.

Hypothesis R_str : forall a b, R a b -> xstr_like a = xstr_like b.

Lemma xdecode_default_props o (np : string * property_ xschema) t' txt : R (p_type (snd np)) t' ->
  xdecode_default o (xwith_type (snd np) t') txt = xdecode_default o (snd np) txt.
Proof.
  intros HR. unfold xdecode_default. destruct (o_json o txt); [reflexivity|].
  rewrite !xtype_id_str. rewrite xwt_type. rewrite <- (R_str _ _ HR). reflexivity.
Qed.

Definition xdflt_step (o : oracles) (a : raw) (np : string * property_ xschema) : raw :=
  if amem (fst np) a then a
  else match p_default (snd np) with
       | Some txt => match xdecode_default o (snd np) txt with
                     | Some d => (a ++ [(fst np, d)])%list
                     | None => a
                     end
       | None => a
       end.

Lemma xdflt_step_with o a (np : string * property_ xschema) t0 : R (p_type (snd np)) t0 ->
  xdflt_step o a (fst np, xwith_type (snd np) t0) = xdflt_step o a np.
Proof.
  intros HR. unfold xdflt_step. cbn [fst snd]. rewrite xwt_default.
  destruct (p_default (snd np)) as [txt|]; [|reflexivity].
  rewrite (xdecode_default_props o np t0 txt HR). reflexivity.
Qed.

Lemma xdflt_fold_step (o : oracles) ps1 ps2 : Forall2 (xprop_rel R) ps1 ps2 -> forall r0 : raw,
  fold_left (xdflt_step o) ps2 r0 = fold_left (xdflt_step o) ps1 r0.
Proof.
  induction 1 as [|np y t t' (t0 & -> & HR) _ IH]; intros r0; cbn [fold_left]; [reflexivity|].
  rewrite IH. rewrite (xdflt_step_with o r0 np t0 HR). reflexivity.
Qed.

Lemma xdflt_fold_props (o : oracles) ps1 ps2 : Forall2 (xprop_rel R) ps1 ps2 -> forall r0 : raw,
  fold_left (fun a np =>
               if amem (fst np) a then a
               else match p_default (snd np) with
                    | Some txt => match xdecode_default o (snd np) txt with
                                  | Some d => (a ++ [(fst np, d)])%list
                                  | None => a
                                  end
                    | None => a
                    end) ps2 r0 =
  fold_left (fun a np =>
               if amem (fst np) a then a
               else match p_default (snd np) with
                    | Some txt => match xdecode_default o (snd np) txt with
                                  | Some d => (a ++ [(fst np, d)])%list
                                  | None => a
                                  end
                    | None => a
                    end) ps1 r0.
Proof. intros H r0. exact (xdflt_fold_step o ps1 ps2 H r0). Qed.
End XPropLists.

Lemma xfind_rel (R : xschema -> xschema -> Prop) ts1 ts2 key : Forall2 (xmem_rel R) ts1 ts2 ->
  match find (fun ks => okey_eqb (fst ks) key) ts1, find (fun ks => okey_eqb (fst ks) key) ts2 with
  | Some km1, Some km2 => fst km2 = fst km1 /\ R (snd km1) (snd km2)
  | None, None => True
  | _, _ => False
  end.
Proof.
  induction 1 as [|x y t t' [Hk HR] _ IH]; cbn; [exact I|].
  rewrite Hk. destruct (okey_eqb (fst x) key); [split; assumption | exact IH].
Qed.

Lemma xfind_rel_p (R : xschema -> xschema -> Prop) (p1 p2 : xschema -> bool) ts1 ts2 :
  (forall a b, R a b -> p1 a = p2 b) -> Forall2 (xmem_rel R) ts1 ts2 ->
  match find (fun ks => p1 (snd ks)) ts1, find (fun ks => p2 (snd ks)) ts2 with
  | Some km1, Some km2 => fst km2 = fst km1 /\ R (snd km1) (snd km2)
  | None, None => True
  | _, _ => False
  end.
Proof.
  intros Hp. induction 1 as [|x y t t' [Hk HR] _ IH]; cbn; [exact I|].
  rewrite (Hp _ _ HR). destruct (p2 (snd y)); [split; assumption | exact IH].
Qed.

Lemma xto_struct_st e1 e2 si r : xe_structs e1 = xe_structs e2 -> xto_struct e1 si r = xto_struct e2 si r.
Proof. intros H. unfold xto_struct. rewrite H. reflexivity. Qed.

Lemma le_rel_ok {A B} (Q : A -> B -> Prop) a b : Q a b -> le_rel Q (Ok a) (Ok b).
Proof. intros H. right. exact H. Qed.

(* ---------- the congruence step ---------- *)
Section XStep.
Variable words : list (string * bool).
Variable pu : units -> string -> option fl.
Notation xunser := (xunser words pu).
Notation xvalidate := (xvalidate words pu).
Notation xserialize := (xserialize words pu).
Notation xcompat := (xcompat words pu).
Notation xoneof_find := (xoneof_find words pu).

Variable Rel : xenv -> xschema -> xenv -> xschema -> Prop.
Hypothesis Rel_or : forall e1 s1 e2 s2, Rel e1 s1 e2 s2 -> xe_or e1 = xe_or e2.
Hypothesis Rel_st : forall e1 s1 e2 s2, Rel e1 s1 e2 s2 -> xe_structs e1 = xe_structs e2.
Hypothesis Rel_rtype : forall e1 s1 e2 s2, Rel e1 s1 e2 s2 -> xrtype e1 s1 = xrtype e2 s2.
Hypothesis Rel_srt : forall e1 s1 e2 s2, Rel e1 s1 e2 s2 -> xstruct_rtype e1 s1 = xstruct_rtype e2 s2.
Hypothesis Rel_str : forall e1 s1 e2 s2, Rel e1 s1 e2 s2 -> xstr_like s1 = xstr_like s2.
Hypothesis Rel_sub : forall f e1 e2 pid (p : xproperty) t' r, Rel e1 (p_type p) e2 t' ->
  xsub_defaults f e1 pid p r = xsub_defaults f e2 pid (xwith_type p t') r.

(* one layer of structure, the parts related by Rel *)
Inductive xcong (e1 e2 : xenv) : xschema -> xschema -> Prop :=
| XC_leaf s : xi_leaf s = true -> (forall id ns d, s <> XRef id ns d) -> xcong e1 e2 s s
| XC_list it1 it2 mn mx : Rel e1 it1 e2 it2 -> xcong e1 e2 (XList it1 mn mx) (XList it2 mn mx)
| XC_map k1 v1 k2 v2 mn mx : Rel e1 k1 e2 k2 -> Rel e1 v1 e2 v2 -> xcong e1 e2 (XMap k1 v1 mn mx) (XMap k2 v2 mn mx)
| XC_obj id u ps1 ps2 m : Forall2 (xprop_rel (fun a b => Rel e1 a e2 b)) ps1 ps2 ->
    xcong e1 e2 (XObject id u ps1 m) (XObject id u ps2 m)
| XC_oneof ts1 ts2 ik fd il : Forall2 (xmem_rel (fun a b => Rel e1 a e2 b)) ts1 ts2 ->
    xcong e1 e2 (XOneOf ts1 ik fd il) (XOneOf ts2 ik fd il)
| XC_ref id ns d1 d2 :
    match xresolve e1 id ns, xresolve e2 id ns with
    | Some (o1, e1'), Some (o2, e2') => Rel e1' o1 e2' o2
    | None, None => True
    | _, _ => False
    end -> xcong e1 e2 (XRef id ns d1) (XRef id ns d2)
| XC_scope objs1 objs2 root :
    match alookup root objs1, alookup root objs2 with
    | Some o1, Some o2 => Rel (xenv_enter e1 objs1) o1 (xenv_enter e2 objs2) o2
    | None, None => True
    | _, _ => False
    end -> xcong e1 e2 (XScope objs1 root) (XScope objs2 root).

Definition xQof (e1 e2 : xenv) (x y : okey * xschema * gval) : Prop :=
  fst (fst y) = fst (fst x) /\ snd y = snd x /\ Rel e1 (snd (fst x)) e2 (snd (fst y)).

Definition xops_le (f g : nat) : Prop :=
  (forall e1 s1 e2 s2 v, Rel e1 s1 e2 s2 -> le_out (xunser f e1 s1 v) (xunser g e2 s2 v)) /\
  (forall e1 s1 e2 s2 v, Rel e1 s1 e2 s2 -> le_out (xvalidate f e1 s1 v) (xvalidate g e2 s2 v)) /\
  (forall e1 ts1 e2 ts2 ik fd il v, Forall2 (xmem_rel (fun a b => Rel e1 a e2 b)) ts1 ts2 ->
      le_rel (xQof e1 e2) (xoneof_find f e1 ts1 ik fd il v) (xoneof_find g e2 ts2 ik fd il v)) /\
  (forall e1 s1 e2 s2 v, Rel e1 s1 e2 s2 -> le_out (xserialize f e1 s1 v) (xserialize g e2 s2 v)) /\
  (forall e1 s1 e2 s2 v, Rel e1 s1 e2 s2 -> le_out (xcompat f e1 s1 v) (xcompat g e2 s2 v)).

Lemma xops_le_0 g : xops_le 0 g.
Proof using All. repeat split; intros; try apply le_oof; left; reflexivity. Qed.

(* more fuel on the right *)
Lemma xops_le_mono f g g' : (g <= g')%nat -> xops_le f g -> xops_le f g'.
Proof using All.
  intros Hle (Hu & Hv & Ho & Hs & Hc).
  destruct (xops_mono words pu g g' Hle) as (Mu & Mv & Mo & Ms & Mc).
  repeat split; intros.
  - eapply leo_trans; [apply Hu; eassumption | apply Mu].
  - eapply leo_trans; [apply Hv; eassumption | apply Mv].
  - eapply le_rel_trans_r; [apply Ho; eassumption | apply Mo].
  - eapply leo_trans; [apply Hs; eassumption | apply Ms].
  - eapply leo_trans; [apply Hc; eassumption | apply Mc].
Qed.

Lemma xfind_srt e1 e2 tv ts1 ts2 : Forall2 (xmem_rel (fun a b => Rel e1 a e2 b)) ts1 ts2 ->
  match find (fun ks => match xstruct_rtype e1 (snd ks) with Some t => gtype_eqb t tv | None => false end) ts1,
        find (fun ks => match xstruct_rtype e2 (snd ks) with Some t => gtype_eqb t tv | None => false end) ts2 with
  | Some km1, Some km2 => fst km2 = fst km1 /\ Rel e1 (snd km1) e2 (snd km2)
  | None, None => True
  | _, _ => False
  end.
Proof using Rel_srt.
  intros HM.
  apply (xfind_rel_p (fun a b => Rel e1 a e2 b)
           (fun s => match xstruct_rtype e1 s with Some t => gtype_eqb t tv | None => false end)
           (fun s => match xstruct_rtype e2 s with Some t => gtype_eqb t tv | None => false end)); [|exact HM].
  intros a b HR. rewrite (Rel_srt _ _ _ _ HR). reflexivity.
Qed.

Ltac xfind_case HM :=
  match goal with
  | |- le_out (match find (fun ks => okey_eqb (fst ks) ?key) ?t1 with _ => _ end)
              (match find _ ?t2 with _ => _ end) =>
      generalize (xfind_rel _ t1 t2 key HM);
      destruct (find (fun ks => okey_eqb (fst ks) key) t1) as [[? ?]|];
      destruct (find (fun ks => okey_eqb (fst ks) key) t2) as [[? ?]|];
      cbn [fst snd]; intros Hfind; try contradiction
  | |- le_rel _ (match find (fun ks => okey_eqb (fst ks) ?key) ?t1 with _ => _ end)
                (match find _ ?t2 with _ => _ end) =>
      generalize (xfind_rel _ t1 t2 key HM);
      destruct (find (fun ks => okey_eqb (fst ks) key) t1) as [[? ?]|];
      destruct (find (fun ks => okey_eqb (fst ks) key) t2) as [[? ?]|];
      cbn [fst snd]; intros Hfind; try contradiction
  end.

Ltac xrel_solve :=
  repeat match goal with
  | |- le_rel _ (Err ?x) (Err ?x) => apply le_rel_err
  | |- le_rel _ (match ?d with _ => _ end) (match ?d with _ => _ end) => destruct d
  end.

Lemma xstep_oneof f g e1 ts1 e2 ts2 ik fd il v :
  xops_le f g -> Forall2 (xmem_rel (fun a b => Rel e1 a e2 b)) ts1 ts2 ->
  le_rel (xQof e1 e2) (xoneof_find (S f) e1 ts1 ik fd il v) (xoneof_find (S g) e2 ts2 ik fd il v).
Proof using All.
  intros (Hu & Hv & Ho & Hs & Hc) HM. rewrite !(xoneof_find_S words pu). cbv beta iota zeta.
  xrel_solve; try apply le_rel_err.
  all: try (xfind_case HM; try apply le_rel_err;
            destruct Hfind as [Hk HR]; subst;
            (apply le_rel_guard; [apply le_rewrap_path; apply Hc; exact HR | unfold xQof; cbn [fst snd]; repeat split; exact HR])).
  all: match goal with
       | |- le_rel _ (match find (fun ks => match xstruct_rtype _ (snd ks) with Some t => gtype_eqb t ?tv | None => false end) ?t1 with _ => _ end) _ =>
           generalize (xfind_srt e1 e2 tv ts1 ts2 HM);
           destruct (find _ ts1) as [[? ?]|]; destruct (find _ ts2) as [[? ?]|];
           cbn [fst snd]; intros Hfind; try contradiction; try apply le_rel_err;
           destruct Hfind as [Hk HR]; subst; apply le_rel_ok; unfold xQof; cbn [fst snd]; repeat split; exact HR
       end.
Qed.

Lemma xstep_unser f g e1 e2 s1 s2 : (f <= g)%nat -> xops_le f g -> Rel e1 s1 e2 s2 -> xcong e1 e2 s1 s2 ->
  forall v, le_out (xunser (S f) e1 s1 v) (xunser (S g) e2 s2 v).
Proof using All.
  intros Hfg Hops HR HC v.
  destruct Hops as (Hu & Hv & Ho & Hs & Hc).
  pose proof (Rel_or _ _ _ _ HR) as Hor.
  pose proof (Rel_st _ _ _ _ HR) as Hst.
  rewrite !(xunser_S words pu).
  inversion HC as [s Hl Hnr | it1 it2 mn mx HRi | k1 v1 k2 v2 mn mx HRk HRv | id u ps1 ps2 m HPR
                  | ts1 ts2 ik fd il HMR | id ns d1 d2 Href | objs1 objs2 root Hsc]; subst; cbv beta iota zeta.
  - destruct s2; try discriminate; try (exfalso; eapply Hnr; reflexivity); try apply le_refl.
    + rewrite Hor; apply le_refl.
    + apply any_conv_mono; exact Hfg.
  - rewrite (Rel_rtype _ _ _ _ HRi). le_solve_with ltac:(first [apply Hu; assumption]).
  - rewrite (Rel_rtype _ _ _ _ HRk), (Rel_rtype _ _ _ _ HRv). le_solve_with ltac:(first [apply Hu; assumption]).
  - pose proof (xamem_props _ _ _ HPR) as Ham.
    destruct v;
      try solve [ destruct (xsingle_props _ _ _ HPR) as [[-> ->] | [(xn & xp & xt2 & -> & -> & HRt) | ([? ?] & xb & xt & [? ?] & xb' & xt' & -> & ->)]];
              cbv beta iota zeta; [apply le_refl | | apply le_refl];
              rewrite (xcheck_rules_props _ _ _ _ HPR); rewrite ?xwt_type, ?xwt_disabled;
              le_solve_with ltac:(first [apply Hu; exact HRt | rewrite (xto_struct_st e1 e2 _ _ Hst)]) ].
    apply le_bind.
    { le_solve_with ltac:(first [apply le_refl | rewrite Ham]). }
    intros r0. rewrite Hor.
    rewrite (xdflt_fold_props (fun a b => Rel e1 a e2 b) (fun a b H => Rel_str _ _ _ _ H) (xe_or e2) _ _ HPR).
    apply le_bind.
    { destruct m as [si|]; [|apply le_refl].
      apply (le_fold2 (xprop_rel (fun a b => Rel e1 a e2 b))); [exact HPR | | apply le_refl].
      intros a a' np np' (t' & -> & HRt) Ha. cbn [fst snd]; unfold xproperty.
      apply le_bind; [exact Ha|]. intros r. destruct (amem (fst np) r0); [apply le_refl|].
      rewrite <- (Rel_sub g e1 e2 (fst np) (snd np) t' r HRt). apply xsub_defaults_mono. exact Hfg. }
    intros r1'.
    apply le_bind.
    { apply (le_fold2 (xprop_rel (fun a b => Rel e1 a e2 b))); [exact HPR | | apply le_refl].
      intros a a' np np' (t' & -> & HRt) Ha. cbn [fst snd]; unfold xproperty.
      apply le_bind; [exact Ha|]. intros r. destruct (alookup (fst np) r); [|apply le_refl].
      apply le_bind; [|intros; apply le_refl]. apply le_seg. rewrite xwt_type, xwt_disabled.
      destruct (p_disabled (snd np)); [apply le_refl|]. apply Hu. exact HRt. }
    intros r2. rewrite (xcheck_rules_props _ _ _ _ HPR).
    apply le_bind; [apply le_refl|]. intros _.
    destruct m as [si|]; [rewrite (xto_struct_st e1 e2 _ _ Hst)|]; apply le_refl.
  - le_solve_with ltac:(first [xfind_case HMR | apply Hu; apply Hfind]).
  - revert Href. destruct (xresolve e1 id ns) as [[? ?]|]; destruct (xresolve e2 id ns) as [[? ?]|];
      intros Href; cbv beta iota in Href; try contradiction; [apply Hu; exact Href | apply le_refl].
  - revert Hsc. destruct (alookup root objs1) as [?|]; destruct (alookup root objs2) as [?|];
      intros Hsc; cbv beta iota in Hsc; try contradiction; [apply Hu; exact Hsc | apply le_refl].
Qed.

(* the field loop of validateStruct / serializeStruct: one step *)
Lemma xstep_validate f g e1 e2 s1 s2 : (f <= g)%nat -> xops_le f g -> Rel e1 s1 e2 s2 -> xcong e1 e2 s1 s2 ->
  forall v, le_out (xvalidate (S f) e1 s1 v) (xvalidate (S g) e2 s2 v).
Proof using All.
  intros Hfg Hops HR HC v.
  destruct Hops as (Hu & Hv & Ho & Hs & Hc).
  pose proof (Rel_st _ _ _ _ HR) as Hst.
  rewrite !(xvalidate_S words pu).
  inversion HC as [s Hl Hnr | it1 it2 mn mx HRi | k1 v1 k2 v2 mn mx HRk HRv | id u ps1 ps2 m HPR
                  | ts1 ts2 ik fd il HMR | id ns d1 d2 Href | objs1 objs2 root Hsc]; subst; cbv beta iota zeta.
  - destruct s2; try discriminate; try (exfalso; eapply Hnr; reflexivity); try apply le_refl.
    apply le_bind; [apply any_conv_mono; exact Hfg | intros; apply le_refl].
  - le_solve_with ltac:(first [apply Hv; assumption]).
  - le_solve_with ltac:(first [apply Hv; assumption]).
  - destruct m as [si|].
    + destruct (xstruct_arg si v) as [sv|]; [|apply le_refl].
      apply le_bind; [|intros r; rewrite (xcheck_rules_props _ _ _ _ HPR); apply le_refl].
      apply (le_fold2 (xprop_rel (fun a b => Rel e1 a e2 b))); [exact HPR | | apply le_refl].
      intros a a' np np' (t' & -> & HRt) Ha. cbn [fst snd]; unfold xproperty.
      rewrite xwt_type, xwt_empty. rewrite <- (Rel_rtype _ _ _ _ HRt), <- Hst.
      le_solve_with ltac:(first [apply Hv; exact HRt]).
    + destruct (is_str_any_map v); [|apply le_refl].
      rewrite (xcheck_rules_props _ _ _ _ HPR). apply le_bind; [apply le_refl|]. intros _.
      apply le_forM. intros kv. pose proof (xalookup_props _ _ _ (fst kv) HPR) as HL.
      destruct (alookup (fst kv) ps1) as [p1|]; [destruct HL as (t' & -> & HRt) | rewrite HL; apply le_refl].
      rewrite xwt_type. apply le_seg. apply Hv. exact HRt.
  - eapply le_rel_bind; [apply Ho; exact HMR|].
    intros [[k1 m1] d1] [[k2 m2] d2] (Hk & Hd & HRm). cbn [fst snd] in Hk, Hd, HRm. subst.
    apply le_seg. apply Hv. exact HRm.
  - revert Href. destruct (xresolve e1 id ns) as [[? ?]|]; destruct (xresolve e2 id ns) as [[? ?]|];
      intros Href; cbv beta iota in Href; try contradiction; [apply Hv; exact Href | apply le_refl].
  - revert Hsc. destruct (alookup root objs1) as [?|]; destruct (alookup root objs2) as [?|];
      intros Hsc; cbv beta iota in Hsc; try contradiction; [apply Hv; exact Hsc | apply le_refl].
Qed.

Lemma xstep_serialize f g e1 e2 s1 s2 : (f <= g)%nat -> xops_le f g -> Rel e1 s1 e2 s2 -> xcong e1 e2 s1 s2 ->
  forall v, le_out (xserialize (S f) e1 s1 v) (xserialize (S g) e2 s2 v).
Proof using All.
  intros Hfg Hops HR HC v.
  destruct Hops as (Hu & Hv & Ho & Hs & Hc).
  pose proof (Rel_st _ _ _ _ HR) as Hst.
  rewrite !(xserialize_S words pu).
  inversion HC as [s Hl Hnr | it1 it2 mn mx HRi | k1 v1 k2 v2 mn mx HRk HRv | id u ps1 ps2 m HPR
                  | ts1 ts2 ik fd il HMR | id ns d1 d2 Href | objs1 objs2 root Hsc]; subst; cbv beta iota zeta.
  - destruct s2; try discriminate; try (exfalso; eapply Hnr; reflexivity); try apply le_refl.
    apply any_conv_mono; exact Hfg.
  - le_solve_with ltac:(first [apply Hs; assumption | apply Hv; assumption]).
  - le_solve_with ltac:(first [apply Hs; assumption | apply Hv; assumption]).
  - destruct m as [si|].
    + destruct (xstruct_arg si v) as [sv|]; [|apply le_refl].
      apply le_bind; [|intros r; rewrite (xcheck_rules_props _ _ _ _ HPR); apply le_refl].
      apply (le_fold2 (xprop_rel (fun a b => Rel e1 a e2 b))); [exact HPR | | apply le_refl].
      intros a a' np np' (t' & -> & HRt) Ha. cbn [fst snd]; unfold xproperty.
      rewrite xwt_type, xwt_empty. rewrite <- (Rel_rtype _ _ _ _ HRt), <- Hst.
      le_solve_with ltac:(first [apply Hs; exact HRt]).
    + destruct (is_str_any_map v); [|apply le_refl].
      rewrite (xcheck_rules_props _ _ _ _ HPR). apply le_bind; [apply le_refl|]. intros _.
      apply le_bind; [|intros; apply le_refl].
      apply le_mapM. intros kv. pose proof (xalookup_props _ _ _ (fst kv) HPR) as HL.
      destruct (alookup (fst kv) ps1) as [p1|]; [destruct HL as (t' & -> & HRt) | rewrite HL; apply le_refl].
      rewrite xwt_type. apply le_bind; [|intros; apply le_refl]. apply le_seg. apply Hs. exact HRt.
  - eapply le_rel_bind; [apply Ho; exact HMR|].
    intros [[k1 m1] d1] [[k2 m2] d2] (Hk & Hd & HRm). cbn [fst snd] in Hk, Hd, HRm. subst.
    apply le_bind; [apply Hs; exact HRm | intros; apply le_refl].
  - revert Href. destruct (xresolve e1 id ns) as [[? ?]|]; destruct (xresolve e2 id ns) as [[? ?]|];
      intros Href; cbv beta iota in Href; try contradiction; [apply Hs; exact Href | apply le_refl].
  - revert Hsc. destruct (alookup root objs1) as [?|]; destruct (alookup root objs2) as [?|];
      intros Hsc; cbv beta iota in Hsc; try contradiction; [apply Hs; exact Hsc | apply le_refl].
Qed.

Lemma xstep_compat f g e1 e2 s1 s2 : (f <= g)%nat -> xops_le f g -> Rel e1 s1 e2 s2 -> xcong e1 e2 s1 s2 ->
  forall v, le_out (xcompat (S f) e1 s1 v) (xcompat (S g) e2 s2 v).
Proof using All.
  intros Hfg Hops HR HC v.
  destruct Hops as (Hu & Hv & Ho & Hs & Hc).
  rewrite !(xcompat_S words pu).
  inversion HC as [s Hl Hnr | it1 it2 mn mx HRi | k1 v1 k2 v2 mn mx HRk HRv | id u ps1 ps2 m HPR
                  | ts1 ts2 ik fd il HMR | id ns d1 d2 Href | objs1 objs2 root Hsc]; subst; cbv beta iota zeta.
  - pose proof (fun v0 => any_conv_mono f g v0 Hfg) as Ha.
    destruct s2; try discriminate; try (exfalso; eapply Hnr; reflexivity);
      le_solve_with ltac:(first [apply Hu; exact HR | apply Hv; exact HR | apply Hc; exact HR | apply Ha]).
  - le_solve_with ltac:(first [apply Hc; assumption]).
  - le_solve_with ltac:(first [apply Hc; assumption]).
  - destruct (is_str_any_map v).
    + rewrite (xforM_props _ _ _ _ HPR); [|intros; reflexivity].
      apply le_bind; [|intros; apply le_refl].
      apply le_forM. intros kv. pose proof (xalookup_props _ _ _ (fst kv) HPR) as HL.
      destruct (alookup (fst kv) ps1) as [p1|]; [destruct HL as (t' & -> & HRt) | rewrite HL; apply le_refl].
      rewrite xwt_type, xwt_disabled. apply le_seg. apply le_bind; [|intros; apply le_refl].
      apply le_rewrap_path. apply Hc. exact HRt.
    + apply le_bind; [|intros; apply le_refl]. apply le_rewrap_path. apply Hu. exact HR.
  - destruct (is_str_any_map v).
    + eapply le_rel_bind; [apply Ho; exact HMR|]. intros; apply le_refl.
    + le_solve_with ltac:(first [apply Hv; exact HR]).
  - revert Href. destruct (xresolve e1 id ns) as [[? ?]|]; destruct (xresolve e2 id ns) as [[? ?]|];
      intros Href; cbv beta iota in Href; try contradiction; [apply Hc; exact Href | apply le_refl].
  - revert Hsc. destruct (alookup root objs1) as [?|]; destruct (alookup root objs2) as [?|];
      intros Hsc; cbv beta iota in Hsc; try contradiction; [apply Hc; exact Hsc | apply le_refl].
Qed.
End XStep.
