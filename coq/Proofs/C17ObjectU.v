(* Proofs/C17ObjectU.v — C17 for UNSERIALIZE through map-based objects, one-ofs, references and
   scopes: a (property_ schema)'s error comes back with the (property_ schema) name in front; an undeclared or
   non-string key is reported at the object; a violated presence rule at the (property_ schema) that declares
   it; a one-of passes its member's error on unchanged and reports discriminator problems at itself;
   references and scopes add no segment.  With the leaf / list / map steps of Proofs/C17.v: the path of
   Unserialize's error is the path to the single fault, for every nesting of all these kinds.
   Scope: objects given as maps (not the single-(property_ schema) shorthand) whose properties declare no
   defaults. *)
From Coq Require Import Lia.
From Verif Require Import Base.Prelude Base.Str Base.Float Base.GoVal
  Schema.Regex Schema.Units Schema.Syntax Schema.Ops Proofs.C02Containers Proofs.C17 Proofs.C17Object Proofs.C17Any.
Open Scope Z_scope.
Open Scope list_scope.

(* ---------- association lists ---------- *)
Lemma alookup_app {A} k (l1 l2 : list (string * A)) :
  alookup k (l1 ++ l2) = match alookup k l1 with Some v => Some v | None => alookup k l2 end.
Proof.
  induction l1 as [|[k0 v0] t IH]; cbn [app alookup]; [reflexivity|].
  destruct (String.eqb k k0); [reflexivity | exact IH].
Qed.

Lemma alookup_map_set k k' (x : gval) t : k <> k' ->
  alookup k' (map (fun kv : string * gval => if String.eqb (fst kv) k then (k, x) else kv) t) = alookup k' t.
Proof.
  intro Hne. induction t as [|[k0 v0] t IH]; cbn [map alookup fst]; [reflexivity|].
  destruct (String.eqb k0 k) eqn:E0; cbn [alookup].
  - apply String.eqb_eq in E0. subst k0.
    assert (E : String.eqb k' k = false) by (apply String.eqb_neq; congruence). rewrite E. exact IH.
  - destruct (String.eqb k' k0); [reflexivity | exact IH].
Qed.

Lemma alookup_raw_set_other k k' x a : k <> k' -> alookup k' (raw_set k x a) = alookup k' a.
Proof.
  intro Hne. unfold raw_set. destruct (amem k a).
  - apply alookup_map_set. exact Hne.
  - rewrite alookup_app. destruct (alookup k' a); [reflexivity|]. cbn [alookup].
    assert (E : String.eqb k' k = false) by (apply String.eqb_neq; congruence). rewrite E. reflexivity.
Qed.

Lemma alookup_map_set_same k (x : gval) t : amem k t = true ->
  alookup k (map (fun kv : string * gval => if String.eqb (fst kv) k then (k, x) else kv) t) = Some x.
Proof.
  unfold amem. induction t as [|[k0 v0] t IH]; cbn [map alookup fst]; [discriminate|].
  destruct (String.eqb k0 k) eqn:E0; cbn [alookup].
  - rewrite String.eqb_refl. reflexivity.
  - rewrite String.eqb_sym, E0. exact IH.
Qed.

Lemma amem_raw_set_member k x a : amem k a = true -> forall k', amem k' (raw_set k x a) = amem k' a.
Proof.
  intros Hm k'. destruct (String.eqb k k') eqn:E.
  - apply String.eqb_eq in E. subst k'. unfold raw_set. rewrite Hm.
    unfold amem. rewrite (alookup_map_set_same k x a Hm). reflexivity.
  - apply String.eqb_neq in E. unfold amem. rewrite (alookup_raw_set_other k k' x a E). reflexivity.
Qed.

Lemma existsb_ext' (f g : string -> bool) l : (forall a, f a = g a) -> existsb f l = existsb g l.
Proof. intro H. induction l as [|a t IH]; cbn [existsb]; [reflexivity | rewrite H, IH; reflexivity]. Qed.

Lemma check_prop_rules_ext set set' name p : (forall k, set k = set' k) ->
  check_prop_rules set name p = check_prop_rules set' name p.
Proof.
  intro H. unfold check_prop_rules. rewrite (H name).
  rewrite (existsb_ext' set set' (p_conflicts p) H), (existsb_ext' set set' (p_required_if p) H).
  destruct (p_required_if_not p) as [|a l]; [reflexivity|].
  rewrite (existsb_ext' set set' (a :: l) H). reflexivity.
Qed.

Lemma NoDup_prefix {A} (l1 l2 : list A) : NoDup (l1 ++ l2) -> NoDup l1.
Proof.
  induction l1 as [|a t IH]; cbn [app]; intro H; [constructor|].
  inversion H as [|a' l' Hnotin Hnd]; subst.
  constructor; [intro Hin; apply Hnotin; apply in_or_app; left; exact Hin | apply IH; exact Hnd].
Qed.

Section WithTables.
Variable words : list (string * bool).
Variable pu : units -> string -> option fl.
Notation unser := (unser words pu).

(* ---------- the object code path, with its folds named ---------- *)
Definition conv_step (props : list (string * (property_ schema))) (acc : outcome (list (string * gval))) (kv : gval * gval) : outcome (list (string * gval)) :=
  a <- acc ;;
  match fst kv with
  | VStr TStr k => if amem k props then Ok (a ++ [(k, snd kv)]) else Err (cerr EKey)
  | _ => Err (cerr EKey)
  end.

Definition dflt_step (e : env) (a : (list (string * gval))) (np : string * (property_ schema)) : (list (string * gval)) :=
  if amem (fst np) a then a
  else match p_default (snd np) with
       | Some txt => match decode_default (e_or e) (snd np) txt with
                     | Some d => a ++ [(fst np, d)]
                     | None => a
                     end
       | None => a
       end.

Definition prop_step f e (acc : outcome (list (string * gval))) (np : string * (property_ schema)) : outcome (list (string * gval)) :=
  a <- acc ;;
  match alookup (fst np) a with
  | Some d =>
      x <- seg (fst np) (if p_disabled (snd np) then Err (cerr EDisabled) else unser f e (p_type (snd np)) d) ;;
      Ok (raw_set (fst np) x a)
  | None => Ok a
  end.

Definition obj_unser f e (props : list (string * (property_ schema))) (v : gval) : outcome gval :=
  match v with
  | VMap _ _ kvs =>
      r0 <- fold_left (conv_step props) kvs (Ok []) ;;
      let r1 := fold_left (dflt_step e) props r0 in
      r2 <- fold_left (prop_step f e) props (Ok r1) ;;
      _ <- check_rules props (fun k => amem k r2) ;;
      Ok (raw_to_val r2)
  | _ =>
      match props with
      | [(name, p)] =>
          x <- seg name (if p_disabled p then Err (cerr EDisabled) else unser f e (p_type p) v) ;;
          _ <- check_rules props (fun k => String.eqb k name) ;;
          Ok (raw_to_val [(name, x)])
      | _ => Err (cerr ERepr)
      end
  end.

Lemma unser_object_eq f e id un props v :
  unser (S f) e (SObject id un props) v = obj_unser f e props v.
Proof. reflexivity. Qed.

(* the raw form of an object: a map whose keys are the strings of r *)
Definition obj_val (t : gtype) (nl : bool) (r : (list (string * gval))) : gval :=
  VMap t nl (map (fun kv => (VStr TStr (fst kv), snd kv)) r).

Lemma conv_fold_err props l : forall er, fold_left (conv_step props) l (Err er) = Err er.
Proof. induction l as [|kv t IH]; intro er; cbn [fold_left]; [reflexivity | apply IH]. Qed.

Lemma conv_fold_ok props : forall r acc, Forall (fun kv => amem (fst kv) props = true) r ->
  fold_left (conv_step props) (map (fun kv => (VStr TStr (fst kv), snd kv)) r) (Ok acc) = Ok (acc ++ r).
Proof.
  induction r as [|[k v] t IH]; intros acc H; cbn [map fold_left].
  - rewrite app_nil_r. reflexivity.
  - inversion H as [|kv l Hk Hrest]; subst. cbn [fst snd] in *.
    unfold conv_step at 2. cbn [bind fst snd]. rewrite Hk. cbv beta iota.
    rewrite (IH (acc ++ [(k, v)]) Hrest). rewrite <- app_assoc. reflexivity.
Qed.

Lemma conv_fold_extra props r1 k x r2 : Forall (fun kv => amem (fst kv) props = true) r1 ->
  amem k props = false ->
  fold_left (conv_step props) (map (fun kv => (VStr TStr (fst kv), snd kv)) (r1 ++ (k, x) :: r2)) (Ok []) = Err (cerr EKey).
Proof.
  intros H1 Hk. rewrite map_app, fold_left_app, (conv_fold_ok props r1 [] H1). cbn [map fold_left app].
  unfold conv_step at 2. cbn [bind fst snd]. rewrite Hk. cbv beta iota. apply conv_fold_err.
Qed.

Lemma dflt_fold_id e props : Forall (fun np => p_default (snd np) = None) props ->
  forall r, fold_left (dflt_step e) props r = r.
Proof.
  induction props as [|np t IH]; intros H r; cbn [fold_left]; [reflexivity|].
  inversion H as [|np' l Hd Hrest]; subst. unfold dflt_step at 2. rewrite Hd.
  destruct (amem (fst np) r); apply IH; exact Hrest.
Qed.

Lemma prop_fold_err f e l : forall er, fold_left (prop_step f e) l (Err er) = Err er.
Proof. induction l as [|np t IH]; intro er; cbn [fold_left]; [reflexivity | apply IH]. Qed.

(* a (property_ schema) of the object is fine w.r.t. the data r: absent, or enabled and its value accepted *)
Definition prop_fine f e (r : (list (string * gval))) (np : string * (property_ schema)) : Prop :=
  match alookup (fst np) r with
  | Some d => p_disabled (snd np) = false /\ exists y, unser f e (p_type (snd np)) d = Ok y
  | None => True
  end.

Lemma props_fold_ok f e : forall ps a, NoDup (map fst ps) -> Forall (prop_fine f e a) ps ->
  exists a', fold_left (prop_step f e) ps (Ok a) = Ok a' /\
             (forall k, amem k a' = amem k a) /\
             (forall k, ~ In k (map fst ps) -> alookup k a' = alookup k a).
Proof.
  induction ps as [|[n p] t IH]; intros a Hnd Hf; cbn [fold_left].
  - exists a. repeat split; reflexivity.
  - cbn [map fst] in Hnd. inversion Hnd as [|n0 l0 Hnotin Hnd']; subst.
    inversion Hf as [|np l Hnp Hrest]; subst.
    unfold prop_step at 2. cbn [bind fst snd]. unfold prop_fine in Hnp. cbn [fst snd] in Hnp.
    destruct (alookup n a) as [d|] eqn:Ed.
    + destruct Hnp as [Hdis (y & Hy)]. rewrite Hdis, Hy. cbn [seg map_err bind].
      assert (Hm : amem n a = true) by (unfold amem; rewrite Ed; reflexivity).
      assert (Hf' : Forall (prop_fine f e (raw_set n y a)) t).
      { apply Forall_forall. intros np' Hin. pose proof (proj1 (Forall_forall _ _) Hrest np' Hin) as Hq.
        unfold prop_fine in *. rewrite alookup_raw_set_other; [exact Hq|].
        intro E. apply Hnotin. subst n. apply in_map. exact Hin. }
      destruct (IH (raw_set n y a) Hnd' Hf') as (a' & Ha' & Hmem & Hlook).
      exists a'. split; [exact Ha'|]. split.
      * intro k. rewrite Hmem. apply amem_raw_set_member. exact Hm.
      * intros k Hk. cbn [map fst In] in Hk. rewrite Hlook by tauto.
        apply alookup_raw_set_other. intro E. apply Hk. left. exact E.
    + destruct (IH a Hnd' Hrest) as (a' & Ha' & Hmem & Hlook).
      exists a'. split; [exact Ha'|]. split; [exact Hmem|].
      intros k Hk. cbn [map fst In] in Hk. apply Hlook. tauto.
Qed.

Lemma props_fold_err f e ps1 name p ps2 r x er :
  NoDup (map fst (ps1 ++ (name, p) :: ps2)) -> Forall (prop_fine f e r) ps1 ->
  alookup name r = Some x -> p_disabled p = false -> unser f e (p_type p) x = Err er ->
  fold_left (prop_step f e) (ps1 ++ (name, p) :: ps2) (Ok r) = Err (add_seg name er).
Proof.
  intros Hnd Hf Hx Hdis Hu. rewrite fold_left_app.
  assert (Hnd1 : NoDup (map fst ps1) /\ ~ In name (map fst ps1)).
  { rewrite map_app in Hnd. cbn [map fst] in Hnd. split.
    - apply NoDup_prefix in Hnd. exact Hnd.
    - apply NoDup_remove_2 in Hnd. intro Hin. apply Hnd. apply in_or_app. left. exact Hin. }
  destruct Hnd1 as [Hnd1 Hnot].
  destruct (props_fold_ok f e ps1 r Hnd1 Hf) as (a1 & Ha1 & _ & Hlook). rewrite Ha1.
  cbn [fold_left]. unfold prop_step at 2. cbn [bind fst snd]. rewrite (Hlook name Hnot), Hx, Hdis, Hu.
  cbn [seg map_err bind]. apply prop_fold_err.
Qed.

(* ---------- the object steps ---------- *)
(* [with_defaults e props r]: the data after extractObjectDefaultValues filled in the declared defaults of
   absent properties (the identity when no property declares a default: dflt_fold_id) *)
Definition with_defaults (e : env) (props : list (string * (property_ schema))) (r : (list (string * gval))) : (list (string * gval)) :=
  fold_left (dflt_step e) props r.

Lemma unser_object_prop_error f e id un ps1 name p ps2 t nl r x er :
  Forall (fun kv => amem (fst kv) (ps1 ++ (name, p) :: ps2) = true) r ->
  NoDup (map fst (ps1 ++ (name, p) :: ps2)) ->
  Forall (prop_fine f e (with_defaults e (ps1 ++ (name, p) :: ps2) r)) ps1 ->
  alookup name (with_defaults e (ps1 ++ (name, p) :: ps2) r) = Some x -> p_disabled p = false ->
  unser f e (p_type p) x = Err er ->
  unser (S f) e (SObject id un (ps1 ++ (name, p) :: ps2)) (obj_val t nl r) = Err (add_seg name er).
Proof.
  intros Hdecl Hnd Hf Hx Hdis Hu. rewrite unser_object_eq. unfold obj_unser, obj_val. cbv zeta.
  rewrite (conv_fold_ok _ r [] Hdecl). cbn [bind app].
  change (fold_left (dflt_step e) (ps1 ++ (name, p) :: ps2) r) with (with_defaults e (ps1 ++ (name, p) :: ps2) r).
  rewrite (props_fold_err f e ps1 name p ps2 _ x er Hnd Hf Hx Hdis Hu). reflexivity.
Qed.

Lemma unser_object_extra_key f e id un props t nl r1 k x r2 :
  Forall (fun kv => amem (fst kv) props = true) r1 -> amem k props = false ->
  unser (S f) e (SObject id un props) (obj_val t nl (r1 ++ (k, x) :: r2)) = Err (cerr EKey).
Proof.
  intros H1 Hk. rewrite unser_object_eq. unfold obj_unser, obj_val. cbv zeta.
  rewrite (conv_fold_extra props r1 k x r2 H1 Hk). reflexivity.
Qed.

(* the single-property shorthand: a non-map value is read as the value of the only property *)
Lemma unser_object_shorthand_error f e id un name p v er :
  (forall t nl l, v <> VMap t nl l) -> p_disabled p = false -> unser f e (p_type p) v = Err er ->
  unser (S f) e (SObject id un [(name, p)]) v = Err (add_seg name er).
Proof.
  intros Hno Hdis Hu. rewrite unser_object_eq. unfold obj_unser.
  destruct v as [| t b | t z | t x | t s | t nl l | t nl l | t o | t fs | src | k d];
    try (rewrite Hdis, Hu; reflexivity).
  exfalso. exact (Hno t nl l eq_refl).
Qed.

Lemma unser_object_rule f e id un ps1 name p ps2 t nl r0 :
  Forall (fun kv => amem (fst kv) (ps1 ++ (name, p) :: ps2) = true) r0 ->
  NoDup (map fst (ps1 ++ (name, p) :: ps2)) ->
  Forall (prop_fine f e (with_defaults e (ps1 ++ (name, p) :: ps2) r0)) (ps1 ++ (name, p) :: ps2) ->
  Forall (fun np => check_prop_rules (fun k => amem k (with_defaults e (ps1 ++ (name, p) :: ps2) r0)) (fst np) (snd np) = Ok tt) ps1 ->
  check_prop_rules (fun k => amem k (with_defaults e (ps1 ++ (name, p) :: ps2) r0)) name p <> Ok tt ->
  unser (S f) e (SObject id un (ps1 ++ (name, p) :: ps2)) (obj_val t nl r0) = Err (cerr_at [name] EPresence).
Proof.
  intros Hdecl Hnd Hf Hok Hbad. rewrite unser_object_eq. unfold obj_unser, obj_val. cbv zeta.
  rewrite (conv_fold_ok _ r0 [] Hdecl). cbn [bind app].
  change (fold_left (dflt_step e) (ps1 ++ (name, p) :: ps2) r0) with (with_defaults e (ps1 ++ (name, p) :: ps2) r0).
  set (r := with_defaults e (ps1 ++ (name, p) :: ps2) r0) in *.
  destruct (props_fold_ok f e _ r Hnd Hf) as (a' & Ha' & Hmem & _). rewrite Ha'. cbn [bind].
  assert (E : check_rules (ps1 ++ (name, p) :: ps2) (fun k => amem k a') = Err (cerr_at [name] EPresence)).
  { apply check_rules_single.
    - eapply Forall_impl; [|exact Hok]. intros np H.
      rewrite (check_prop_rules_ext (fun k => amem k a') (fun k => amem k r) (fst np) (snd np) Hmem). exact H.
    - rewrite (check_prop_rules_ext (fun k => amem k a') (fun k => amem k r) name p Hmem). exact Hbad. }
  rewrite E. reflexivity.
Qed.

(* ---------- one-of: the member's error is passed on unchanged ---------- *)
Definition str_keys (kvs : list (gval * gval)) : bool :=
  forallb (fun kv => match fst kv with VStr TStr _ => true | _ => false end) kvs.
Definition oneof_key (ik : bool) (d : gval) : option okey :=
  if ik then option_map KI (int_mapper None d) else option_map KS (string_mapper d).

Definition oneof_unser f e (types : list (okey * schema)) (ik : bool) (field : string) (inlined : bool) (v : gval) : outcome gval :=
  match v with
  | VNil => Err (cerr ERepr)
  | VMap _ _ kvs =>
      if str_keys kvs then
        match smap_get field kvs with
        | None => Err (cerr EKey)
        | Some d =>
            match oneof_key ik d with
            | None => Err (cerr ERepr)
            | Some key =>
                match find (fun ks => okey_eqb (fst ks) key) types with
                | None => Err (cerr EKey)
                | Some (_, member) =>
                    let clone := if inlined then kvs else smap_del field kvs in
                    x <- unser f e member (VMap t_str_map false clone) ;;
                    match is_str_any_map x with
                    | Some xs =>
                        if inlined then Ok x
                        else Ok (VMap t_str_map false
                                   (map_set (vstr field) (match key with KI z => vi64 z | KS s0 => vstr s0 end) xs))
                    | None => Ok x
                    end
                end
            end
        end
      else Err (cerr EKey)
  | _ => Err (cerr ERepr)
  end.

Lemma unser_oneof_eq f e types ik field inlined v :
  unser (S f) e (SOneOf types ik field inlined) v = oneof_unser f e types ik field inlined v.
Proof. reflexivity. Qed.

Lemma unser_oneof_member_error f e types ik field (inlined : bool) t nl kvs d key k0 member er :
  str_keys kvs = true -> smap_get field kvs = Some d -> oneof_key ik d = Some key ->
  find (fun ks => okey_eqb (fst ks) key) types = Some (k0, member) ->
  unser f e member (VMap t_str_map false (if inlined then kvs else smap_del field kvs)) = Err er ->
  unser (S f) e (SOneOf types ik field inlined) (VMap t nl kvs) = Err er.
Proof.
  intros H1 H2 H3 H4 H5. rewrite unser_oneof_eq. unfold oneof_unser. rewrite H1, H2, H3, H4.
  cbv beta iota zeta. rewrite H5. reflexivity.
Qed.

Lemma unser_oneof_discriminator f e types ik field inlined t nl kvs :
  (str_keys kvs = false \/
   smap_get field kvs = None \/
   (exists d, smap_get field kvs = Some d /\ oneof_key ik d = None) \/
   (exists d key, smap_get field kvs = Some d /\ oneof_key ik d = Some key /\
                  find (fun ks => okey_eqb (fst ks) key) types = None)) ->
  exists c, unser (S f) e (SOneOf types ik field inlined) (VMap t nl kvs) = Err (cerr c).
Proof.
  intros H. rewrite unser_oneof_eq. unfold oneof_unser.
  destruct (str_keys kvs) eqn:E1; [|exists EKey; reflexivity].
  destruct H as [H | [H | [(d & H2 & H3) | (d & key & H2 & H3 & H4)]]].
  - discriminate H.
  - rewrite H. exists EKey. reflexivity.
  - rewrite H2, H3. exists ERepr. reflexivity.
  - rewrite H2, H3, H4. exists EKey. reflexivity.
Qed.

(* ---------- a single fault under Unserialize, through every map-based kind ---------- *)
Inductive fault_uo : env -> nat -> schema -> gval -> list string -> Prop :=
| UO_leaf : forall e f s v, is_leaf s -> (forall n, unser (S f) e s v <> Ok n) -> fault_uo e (S f) s v []
| UO_list_type : forall e f it mn mx v, (forall t nl l, v <> VSlice t nl l) -> fault_uo e (S f) (SList it mn mx) v []
| UO_list_size : forall e f it mn mx t nl l, size_ok mn mx (zlen l) = false -> fault_uo e (S f) (SList it mn mx) (VSlice t nl l) []
| UO_item : forall e f it mn mx t nl l1 x l2 p,
    size_ok mn mx (zlen (l1 ++ x :: l2)) = true ->
    Forall (fun y => exists n, unser f e it y = Ok n) l1 ->
    fault_uo e f it x p ->
    fault_uo e (S f) (SList it mn mx) (VSlice t nl (l1 ++ x :: l2)) (idx_seg (zlen l1) :: p)
| UO_map_type : forall e f ks vs mn mx v, (forall t nl l, v <> VMap t nl l) -> fault_uo e (S f) (SMap ks vs mn mx) v []
| UO_map_size : forall e f ks vs mn mx t nl l, size_ok mn mx (zlen l) = false -> fault_uo e (S f) (SMap ks vs mn mx) (VMap t nl l) []
| UO_key : forall e f ks vs mn mx t nl kvs1 k x kvs2 p,
    size_ok mn mx (zlen (kvs1 ++ (k, x) :: kvs2)) = true ->
    Forall (entry_ok (unser f e ks) (unser f e vs)) kvs1 -> Forall (entry_ok (unser f e ks) (unser f e vs)) kvs2 ->
    fault_uo e f ks k p ->
    fault_uo e (S f) (SMap ks vs mn mx) (VMap t nl (kvs1 ++ (k, x) :: kvs2)) (mkey_seg k :: p)
| UO_value : forall e f ks vs mn mx t nl kvs1 k x kvs2 p,
    size_ok mn mx (zlen (kvs1 ++ (k, x) :: kvs2)) = true ->
    Forall (entry_ok (unser f e ks) (unser f e vs)) kvs1 -> Forall (entry_ok (unser f e ks) (unser f e vs)) kvs2 ->
    (exists k', unser f e ks k = Ok k') ->
    fault_uo e f vs x p ->
    fault_uo e (S f) (SMap ks vs mn mx) (VMap t nl (kvs1 ++ (k, x) :: kvs2)) (mval_seg k :: p)
| UO_object_type : forall e f id un props v,
    (forall t nl l, v <> VMap t nl l) -> (forall name p, props <> [(name, p)]) ->
    fault_uo e (S f) (SObject id un props) v []
| UO_extra_key : forall e f id un props t nl r1 k x r2,
    Forall (fun kv => amem (fst kv) props = true) r1 -> Forall (fun kv => amem (fst kv) props = true) r2 ->
    amem k props = false ->
    fault_uo e (S f) (SObject id un props) (obj_val t nl (r1 ++ (k, x) :: r2)) []
| UO_rule : forall e f id un ps1 name p ps2 t nl r,
    Forall (fun kv => amem (fst kv) (ps1 ++ (name, p) :: ps2) = true) r ->
    NoDup (map fst (ps1 ++ (name, p) :: ps2)) ->
    Forall (prop_fine f e (with_defaults e (ps1 ++ (name, p) :: ps2) r)) (ps1 ++ (name, p) :: ps2) ->
    Forall (fun np => check_prop_rules (fun k => amem k (with_defaults e (ps1 ++ (name, p) :: ps2) r)) (fst np) (snd np) = Ok tt) ps1 ->
    Forall (fun np => check_prop_rules (fun k => amem k (with_defaults e (ps1 ++ (name, p) :: ps2) r)) (fst np) (snd np) = Ok tt) ps2 ->
    check_prop_rules (fun k => amem k (with_defaults e (ps1 ++ (name, p) :: ps2) r)) name p <> Ok tt ->
    fault_uo e (S f) (SObject id un (ps1 ++ (name, p) :: ps2)) (obj_val t nl r) [name]
| UO_prop : forall e f id un ps1 name p ps2 t nl r x path,
    Forall (fun kv => amem (fst kv) (ps1 ++ (name, p) :: ps2) = true) r ->
    NoDup (map fst (ps1 ++ (name, p) :: ps2)) ->
    Forall (prop_fine f e (with_defaults e (ps1 ++ (name, p) :: ps2) r)) ps1 ->
    Forall (prop_fine f e (with_defaults e (ps1 ++ (name, p) :: ps2) r)) ps2 ->
    alookup name (with_defaults e (ps1 ++ (name, p) :: ps2) r) = Some x -> p_disabled p = false ->
    fault_uo e f (p_type p) x path ->
    fault_uo e (S f) (SObject id un (ps1 ++ (name, p) :: ps2)) (obj_val t nl r) (name :: path)
| UO_shorthand : forall e f id un name p v path,
    (forall t nl l, v <> VMap t nl l) -> p_disabled p = false ->
    fault_uo e f (p_type p) v path ->
    fault_uo e (S f) (SObject id un [(name, p)]) v (name :: path)
| UO_oneof_type : forall e f types ik field inlined v,
    (forall t nl l, v <> VMap t nl l) -> fault_uo e (S f) (SOneOf types ik field inlined) v []
| UO_oneof_discriminator : forall e f types ik field inlined t nl kvs,
    (str_keys kvs = false \/
     smap_get field kvs = None \/
     (exists d, smap_get field kvs = Some d /\ oneof_key ik d = None) \/
     (exists d key, smap_get field kvs = Some d /\ oneof_key ik d = Some key /\
                    find (fun ks => okey_eqb (fst ks) key) types = None)) ->
    fault_uo e (S f) (SOneOf types ik field inlined) (VMap t nl kvs) []
| UO_oneof_member : forall e f types ik field (inlined : bool) t nl kvs d key k0 member p,
    str_keys kvs = true -> smap_get field kvs = Some d -> oneof_key ik d = Some key ->
    find (fun ks => okey_eqb (fst ks) key) types = Some (k0, member) ->
    fault_uo e f member (VMap t_str_map false (if inlined then kvs else smap_del field kvs)) p ->
    fault_uo e (S f) (SOneOf types ik field inlined) (VMap t nl kvs) p
| UO_ref : forall e f id ns d o e' v p,
    resolve e id ns = Some (o, e') -> fault_uo e' f o v p -> fault_uo e (S f) (SRef id ns d) v p
| UO_scope : forall e f objs root o v p,
    alookup root objs = Some o -> fault_uo (env_enter e objs) f o v p -> fault_uo e (S f) (SScope objs root) v p
| UO_any : forall e f v p, fault_any f v p -> fault_uo e (S f) SAny v p.

Theorem single_fault_path_unser_all : forall e f s v p, fault_uo e f s v p ->
  exists c, unser f e s v = Err (mkErr true p c).
Proof.
  intros e f s v p H. induction H as
    [e f s v Hl Hno | e f it mn mx v Hno | e f it mn mx t nl l Hs
     | e f it mn mx t nl l1 x l2 p Hs Hok Hx IH
     | e f ks vs mn mx v Hno | e f ks vs mn mx t nl l Hs
     | e f ks vs mn mx t nl kvs1 k x kvs2 p Hs Hok1 Hok2 Hx IH
     | e f ks vs mn mx t nl kvs1 k x kvs2 p Hs Hok1 Hok2 Hk Hx IH
     | e f id un props v Hno Hsingle
     | e f id un props t nl r1 k x r2 H1 H2 Hk
     | e f id un ps1 name p ps2 t nl r Hdecl Hnd Hf Hok1 Hok2 Hbad
     | e f id un ps1 name p ps2 t nl r x path Hdecl Hnd Hf1 Hf2 Hx Hdis Hfault IH
     | e f id un name p v path Hno Hdis Hfault IH
     | e f types ik field inlined v Hno
     | e f types ik field inlined t nl kvs Hd
     | e f types ik field inlined t nl kvs d key k0 member p H1 H2 H3 H4 Hx IH
     | e f id ns d o e' v p Hres Hx IH
     | e f objs root o v p Hroot Hx IH
     | e f v p Hany].
  - destruct (leaf_unser_outcome words pu s Hl f e v) as [(n & Hn) | (c & Hc)]; [exfalso; exact (Hno n Hn) | exists c; exact Hc].
  - exists ERepr. cbn [Ops.unser].
    destruct v as [| t b | t z | t x | t s | t nl l | t nl l | t o | t fs | src | k d]; try reflexivity.
    exfalso. exact (Hno t nl l eq_refl).
  - exists EBound. cbn [Ops.unser]. rewrite Hs. reflexivity.
  - destruct IH as (c & IH). exists c.
    rewrite (unser_list_item_error words pu f e it mn mx t nl l1 x l2 _ Hs Hok IH). reflexivity.
  - exists ERepr. cbn [Ops.unser].
    destruct v as [| t b | t z | t x | t s | t nl l | t nl l | t o | t fs | src | k d]; try reflexivity.
    exfalso. exact (Hno t nl l eq_refl).
  - exists EBound. cbn [Ops.unser]. rewrite Hs. reflexivity.
  - destruct IH as (c & IH). exists c.
    rewrite (unser_map_key_error words pu f e ks vs mn mx t nl kvs1 k x kvs2 _ Hs Hok1 IH). reflexivity.
  - destruct IH as (c & IH). exists c.
    rewrite (unser_map_value_error words pu f e ks vs mn mx t nl kvs1 k x kvs2 _ Hs Hok1 Hk IH). reflexivity.
  - exists ERepr. rewrite unser_object_eq. unfold obj_unser.
    destruct v as [| t b | t z | t x | t s | t nl l | t nl l | t o | t fs | src | k d];
      try (destruct props as [|[n0 p0] [|q rest]]; try reflexivity; exfalso; exact (Hsingle n0 p0 eq_refl)).
    exfalso. exact (Hno t nl l eq_refl).
  - exists EKey. rewrite (unser_object_extra_key f e id un props t nl r1 k x r2 H1 Hk). reflexivity.
  - exists EPresence. rewrite (unser_object_rule f e id un ps1 name p ps2 t nl r Hdecl Hnd Hf Hok1 Hbad). reflexivity.
  - destruct IH as (c & IH). exists c.
    rewrite (unser_object_prop_error f e id un ps1 name p ps2 t nl r x _ Hdecl Hnd Hf1 Hx Hdis IH). reflexivity.
  - destruct IH as (c & IH). exists c.
    rewrite (unser_object_shorthand_error f e id un name p v _ Hno Hdis IH). reflexivity.
  - exists ERepr. rewrite unser_oneof_eq. unfold oneof_unser.
    destruct v as [| t b | t z | t x | t s | t nl l | t nl l | t o | t fs | src | k d]; try reflexivity.
    exfalso. exact (Hno t nl l eq_refl).
  - destruct (unser_oneof_discriminator f e types ik field inlined t nl kvs Hd) as (c & Hc). exists c. exact Hc.
  - destruct IH as (c & IH). exists c.
    exact (unser_oneof_member_error f e types ik field inlined t nl kvs d key k0 member _ H1 H2 H3 H4 IH).
  - destruct IH as (c & IH). exists c. cbn [Ops.unser]. rewrite Hres. exact IH.
  - destruct IH as (c & IH). exists c. cbn [Ops.unser]. rewrite Hroot. exact IH.
  - destruct (single_fault_path_any f v p Hany) as (c & Hc). exists c. rewrite (unser_any_eq words pu). exact Hc.
Qed.

End WithTables.
