(* Proofs/C05Shutdown.v — the SERVER side of a session with Close (composition ATP/System.v): at the end of every maximal
   execution RunATPServer has RETURNED - the closure handler is in HReturned, the run() goroutine is gone (workDone
   closed), the wait group of the step / signal goroutines is 0, the report channel is empty - and the pipe is empty.
   Together with Proofs/C05Close.v sys_refines_close (every Execute returned its result, Close returned nil) the whole
   system has shut down cleanly: nothing is left blocked on either side.

   Extra invariant WInv: Close has marked the client done only from KMark on; once Close is in KWait / KDone CloseOk a
   client-done is in the client -> server stream or has been consumed by the server's read loop (ghost history).  The
   server-only fact `cd_closes` (Proofs/C05ServerIdle2.v): a consumed client-done has closed stdin. *)
From Coq Require Import Lia.
From Verif Require Import Base.Prelude Base.Str ATP.Msg ATP.System.
From Verif Require Proofs.ATPClient Proofs.ATPClientInv Proofs.ATPClientFinal Proofs.ServerInv Proofs.Server
  Proofs.ServerRoute Proofs.C05Vocab Proofs.C05Client Proofs.C05Server Proofs.C05ClientAbs Proofs.C05ServerIdle
  Proofs.C05ServerIdle2.
From Verif Require Import Proofs.C05System Proofs.C05Live Proofs.C05Close.
Local Open Scope string_scope.
Local Open Scope list_scope.
Local Open Scope nat_scope.

Definition wrote (k : C.kpc) : bool := match k with C.KWait | C.KDone C.CloseOk => true | _ => false end.
Definition unmarked (k : C.kpc) : bool := match k with C.KNone | C.KCancel | C.KMark => true | _ => false end.

Record WInv (s : sstate) : Prop := mkWInv {
  w_unmarked : unmarked (C.closer (cl s)) = true -> C.cdone (cl s) = false;
  w_wrote : wrote (C.closer (cl s)) = true -> has_cd (stream s) = true \/ SD2.hist_cd (sv s) = true }.

Lemma is_cd_ev : forall ev, is_cd ev = SD2.ev_cd ev.
Proof. intros ev. reflexivity. Qed.

Lemma step_cdone : forall (s s' : C.state Z) l, C.step s l = Some s' -> l <> C.LCloser -> C.cdone s' = C.cdone s.
Proof.
  intros s s' l H N. destruct l; try congruence; CF.funfold_step H; CF.fbs H; CF.fbg; cbn; auto.
Qed.

Lemma closer_step : forall (s s' : C.state Z), C.wr_left s = None -> C.step s C.LCloser = Some s' ->
  (unmarked (C.closer s) = true -> C.cdone s = false) ->
  (unmarked (C.closer s') = true -> C.cdone s' = false) /\
  (wrote (C.closer s') = true -> wrote (C.closer s) = true \/ C.to_server s' = C.to_server s ++ [ClientDone]).
Proof.
  intros s s' Hw H W1. cbn [C.step] in H. unfold C.step_closer in H.
  destruct (C.closer s) eqn:Hk; try discriminate H.
  - destruct (forallb _ _); [|discriminate H]. injection H as <-. cbn.
    split; [intros _; apply W1; reflexivity|intros X; discriminate X].
  - rewrite (W1 eq_refl) in H. injection H as <-. cbn. split; intros X; discriminate X.
  - unfold C.cwrite in H. rewrite Hw in H. injection H as <-. cbn.
    split; [intros X; discriminate X|intros _; right; reflexivity].
  - destruct (Nat.eqb (C.wg s) 0); [|discriminate H]. injection H as <-. cbn.
    split; [intros X; discriminate X|intros _; left; reflexivity].
  - destruct (Nat.eqb (C.wg s) 0); [|discriminate H]. injection H as <-. cbn. split; intros X; discriminate X.
Qed.

Lemma winv_client : forall s l cs', C.wr_left (cl s) = None -> WInv s -> client_label l = true ->
  C.step (cl s) l = Some cs' -> WInv (mkSys cs' (sv s)).
Proof.
  intros s l cs' Hw [W1 W2] Hl Hs.
  assert (has_cd (stream s) = true -> has_cd (stream (mkSys cs' (sv s))) = true) as Hmono.
  { intros X. destruct (CA.step_to_server2 _ _ _ _ Hs) as [E|[(m & E & ->)|[(i & c0 & _ & _ & E)|[(r0 & d & E)|(_ & E)]]]].
    - unfold stream in *. cbn [cl sv]. rewrite E. exact X.
    - discriminate Hl.
    - rewrite (stream_snoc _ _ _ E), has_cd_snoc, X. reflexivity.
    - rewrite (stream_snoc _ _ _ E), has_cd_snoc, X. reflexivity.
    - rewrite (stream_snoc _ _ _ E), has_cd_snoc, X. reflexivity. }
  assert (l = C.LCloser \/ l = C.LTimeout \/ (l <> C.LCloser /\ l <> C.LTimeout)) as [->|[->|[N1 N2]]].
  { destruct l; auto; right; right; split; discriminate. }
  - destruct (closer_step _ _ Hw Hs W1) as [W1' Hwr]. constructor; cbn [cl sv]; [exact W1'|].
    intros X. destruct (Hwr X) as [Y|E].
    + destruct (W2 Y) as [Z0|Z0]; [left; apply Hmono; exact Z0|right; exact Z0].
    + left. rewrite (stream_snoc _ _ _ E), has_cd_snoc. apply orb_true_r.
  - cbn [C.step] in Hs. unfold C.step_timeout in Hs. destruct (C.closer (cl s)) eqn:Hk; try discriminate Hs.
    destruct (Nat.eqb (C.wg (cl s)) 0); [discriminate Hs|]. injection Hs as <-.
    constructor; cbn; intros X; discriminate X.
  - destruct (CI.step_frameK _ _ _ _ Hs N1 N2) as (E1 & _). pose proof (step_cdone _ _ _ Hs N1) as E2.
    constructor; cbn [cl sv]; rewrite E1, ?E2; [exact W1|].
    intros X. destruct (W2 X) as [Z0|Z0]; [left; apply Hmono; exact Z0|right; exact Z0].
Qed.

Lemma winv_pipe : forall s m q cs', WInv s -> C.to_server (cl s) = m :: q ->
  C.step (cl s) C.LPeerAccept = Some cs' -> WInv (mkSys cs' (S.set_inq (S.inq (sv s) ++ [EvMsg m]) (sv s))).
Proof.
  intros s m q cs' [W1 W2] Hts Hs.
  destruct (CA.step_accept_spec _ _ _ Hs) as (m' & q' & Hts' & Eq & _). rewrite Hts in Hts'. injection Hts' as <- <-.
  assert (stream (mkSys cs' (S.set_inq (S.inq (sv s) ++ [EvMsg m]) (sv s))) = stream s) as Es.
  { unfold stream. cbn [cl sv S.inq S.set_inq]. rewrite Eq, Hts. cbn [map]. rewrite <- app_assoc. reflexivity. }
  assert (C.LPeerAccept <> C.LCloser) as N1 by discriminate. assert (C.LPeerAccept <> C.LTimeout) as N2 by discriminate.
  destruct (CI.step_frameK _ _ _ _ Hs N1 N2) as (E1 & _). pose proof (step_cdone _ _ _ Hs N1) as E2.
  constructor; cbn [cl sv]; rewrite E1, ?E2, ?Es; [exact W1|exact W2].
Qed.

Lemma winv_server : forall (c : S.cfg) s l ss' evs, S.hp (sv s) <> S.HClose -> S.rl (sv s) <> S.RStart -> WInv s ->
  (forall ev, l <> S.LArrive ev) -> S.step c (sv s) l = Some ss' -> WInv (mkSys (push (cl s) evs) ss').
Proof.
  intros c s l ss' evs Hh Hr [W1 W2] Hna Hs. constructor; cbn [cl sv]; [exact W1|].
  intros X. specialize (W2 X).
  destruct (SD.step_io _ _ _ _ Hs) as [(ev & -> & _)|[(E1 & E2 & _)|[(ev & E1 & E2 & _ & _)|E3]]].
  - exfalso. eapply Hna; reflexivity.
  - unfold stream, SD2.hist_cd in *. cbn [cl sv]. rewrite E1, E2. exact W2.
  - assert (stream s = ev :: stream (mkSys (push (cl s) evs) ss')) as Es by (unfold stream; cbn [cl sv]; rewrite E1; reflexivity).
    unfold SD2.hist_cd in *. rewrite E2, existsb_app. cbn [existsb]. rewrite orb_false_r.
    destruct W2 as [Z0|Z0]; [|right; rewrite Z0; reflexivity].
    rewrite Es, has_cd_cons in Z0. apply orb_true_iff in Z0. destruct Z0 as [Z0|Z0]; [right|left; exact Z0].
    rewrite is_cd_ev in Z0. rewrite Z0. apply orb_true_r.
  - contradiction.
Qed.

Section C05Shutdown.
Variable g : scfg.
Variable callspecs : list (C.callspec Z).
Variable close : bool.
Hypothesis runs_named : forall x, In x callspecs -> C.cs_run x <> "".
Hypothesis session_wf : CI.wf_session (sys_session callspecs close).

Notation c := (sc_srv g).
Notation cls := (calls callspecs).
Notation SInv := (SInv g callspecs).

Lemma winv_step : forall s y s', SInv s -> WInv s -> sys_step g s y = Some s' -> WInv s'.
Proof.
  intros s y s' IS W H.
  pose proof (CC.s_wr _ _ _ _ (si_S _ _ _ IS)) as Hw. pose proof (si_O _ _ _ IS) as IOr.
  assert (S.hp (sv s) <> S.HClose) as Hh.
  { pose proof (CS.o_hp _ _ _ IOr) as R. intros E. rewrite E in R. exact R. }
  assert (S.rl (sv s) <> S.RStart) as Hr.
  { pose proof (CS.o_rl _ _ _ IOr) as R. unfold CS.okrl in R. intros E. rewrite E in R. exact R. }
  destruct y as [l| |l|t]; cbn [sys_step] in H.
  - destruct (client_label l) eqn:Hl; [|discriminate].
    destruct (C.step (cl s) l) as [cs'|] eqn:Hs; [|discriminate]. injection H as <-. eapply winv_client; eauto.
  - destruct (C.to_server (cl s)) as [|m q] eqn:Hts; [discriminate|].
    destruct (C.step (cl s) C.LPeerAccept) as [cs'|] eqn:Hs; [|discriminate].
    destruct (S.step c (sv s) (S.LArrive (EvMsg m))) as [ss'|] eqn:Hv; [|discriminate]. injection H as <-.
    rewrite (arrive_spec _ _ _ _ Hv). eapply winv_pipe; eauto.
  - destruct (S.is_internal l) eqn:Hl; [|discriminate]. unfold srv_step in H.
    destruct (S.step c (sv s) l) as [ss'|] eqn:Hs; [|discriminate]. injection H as <-.
    eapply winv_server; eauto. intros ev ->. discriminate Hl.
  - destruct (existsb _ _); [|discriminate]. unfold srv_step in H.
    destruct (S.step c (sv s) (S.LRelease t)) as [ss'|] eqn:Hs; [|discriminate]. injection H as <-.
    eapply winv_server; eauto. intros ev; discriminate.
Qed.

Lemma winv_init : WInv (sys_init callspecs close).
Proof. constructor; cbn; [intros _; reflexivity|destruct close; intros X; discriminate X]. Qed.

Lemma winv_run : forall ys s s', SInv s -> WInv s -> sys_run g s ys = Some s' -> WInv s'.
Proof.
  induction ys as [|y t IH]; intros s s' IS W H; cbn in H.
  - now injection H as <-.
  - destruct (sys_step g s y) as [s1|] eqn:Hs; [|discriminate]. eapply IH; [| |exact H].
    + eapply (sinv_step g callspecs runs_named); eauto.
    + eapply winv_step; eauto.
Qed.

(* CLEAN SHUTDOWN of the server side *)
Theorem sys_shutdown : close = true ->
  forall ys s, sys_run g (sys_init callspecs close) ys = Some s -> sys_final g s ->
  S.hp (sv s) = S.HReturned /\ S.rl (sv s) = S.RGone /\ S.nworkers (sv s) = 0 /\ S.wd (sv s) = [] /\
  S.crashed (sv s) = false /\ C.to_server (cl s) = [].
Proof.
  intros Hclose ys s H F.
  assert (LInvC g callspecs close s) as I.
  { eapply (linvc_run g callspecs close); try eassumption. apply linvc_init; assumption. }
  pose proof (winv_run _ _ _ (sinv_init g callspecs close session_wf) winv_init H) as [W1 W2].
  destruct (sys_refines_close g callspecs close runs_named session_wf _ _ H F) as [_ K]. destruct (K Hclose) as (Kc & _).
  destruct I as [IS II IR ID IF IH IA IO IK [K1 K2 K3 K4]].
  pose proof (SI.inv_reachable c _ IR) as SInv0. pose proof (SI.inv_nocrash _ SInv0) as Hnc.
  pose proof (si_O _ _ _ IS) as IOr.
  assert (C.to_server (cl s) = []) as Hts.
  { destruct (C.to_server (cl s)) as [|m q] eqn:Hts; auto. exfalso.
    pose proof (F YPipe) as Fy. cbn [sys_step] in Fy. rewrite Hts in Fy. cbn [C.step] in Fy. unfold C.step_accept in Fy.
    rewrite Hts in Fy. unfold S.step in Fy. rewrite Hnc in Fy. destruct m; discriminate Fy. }
  assert ((S.rl (sv s) = S.RLoop /\ S.stdin_closed (sv s) = false) \/ (exists e, S.rl (sv s) = S.RReport e S.KLoop) \/
          S.rl (sv s) = S.RDefer \/ S.rl (sv s) = S.RGone) as Hrl.
  { pose proof (CS.o_rl _ _ _ IOr) as R. unfold CS.okrl in R. destruct (S.rl (sv s)); try contradiction; auto.
    destruct R as (_ & -> & _). eauto. }
  assert (S.hp (sv s) <> S.HClose) as Hh.
  { pose proof (CS.o_hp _ _ _ IOr) as R. intros E. rewrite E in R. exact R. }
  destruct (SD2.server_idle2 c (sv s) SInv0 Hrl Hh) as (Hio & Ewd & Hg & Hhp).
  - apply srv_step_none. exact (F (YServer S.LRead)).
  - apply srv_step_none. exact (F (YServer (S.LHandler true))).
  - intros j. apply srv_step_none. exact (F (YServer (S.LWorker j))).
  - intros j w st tok Hn Hp1 Hk. pose proof (F (YRelease tok)) as Fy. cbn [sys_step] in Fy.
    destruct (existsb (blocked_on c (sv s) tok) (S.workers (sv s))) eqn:Hex.
    + change (srv_step g s (S.LRelease tok) = None) in Fy. apply srv_step_none in Fy. unfold S.step in Fy. rewrite Hnc in Fy. discriminate Fy.
    + assert (blocked_on c (sv s) tok w = false) as Hb.
      { destruct (blocked_on c (sv s) tok w) eqn:Eb; auto.
        assert (existsb (blocked_on c (sv s) tok) (S.workers (sv s)) = true) as X
          by (apply existsb_exists; exists w; split; [eapply nth_error_In; eauto|exact Eb]). congruence. }
      unfold blocked_on in Hb. rewrite Hp1, Hk, Z.eqb_refl in Hb. cbn [andb] in Hb. exact Hb.
  - assert (S.rl (sv s) = S.RGone) as Erl.
    { destruct Hio as [[Ei Erl]|Erl]; [exfalso|exact Erl].
      assert (S.stdin_closed (sv s) = false) as Hsc.
      { pose proof (CS.o_rl _ _ _ IOr) as R. unfold CS.okrl in R. rewrite Erl in R. exact R. }
      assert (wrote (C.closer (cl s)) = true) as Hwr by (rewrite Kc; reflexivity).
      destruct (W2 Hwr) as [Z0|Z0].
      - unfold stream in Z0. rewrite Ei, Hts in Z0. discriminate Z0.
      - rewrite (SD2.cd_closes c _ IR Z0) in Hsc. discriminate Hsc. }
    pose proof (SI.inv_rl_closed _ SInv0 Erl) as Hwc. pose proof (SI.inv_closed_nw _ SInv0 Hwc) as Hnw.
    assert (S.hp (sv s) = S.HReturned) as Ehp.
    { pose proof (F (YServer (S.LHandler true))) as Fy. cbn [sys_step S.is_internal] in Fy. apply srv_step_none in Fy.
      unfold S.step in Fy. rewrite Hnc in Fy. unfold S.step_handler in Fy.
      destruct Hhp as [E|[E|E]]; [exfalso|exfalso|exact E]; rewrite E in Fy.
      - rewrite Ewd, Hwc in Fy. discriminate Fy.
      - rewrite Erl, Hnw in Fy. discriminate Fy. }
    repeat split; auto.
Qed.

End C05Shutdown.
