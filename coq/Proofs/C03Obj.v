(* Proofs/C03Obj.v — the object / one-of layer of Schema/Ops.v is the reflection of the
   declarative semantics of Schema/SpecObj.v (property C03). *)
From Coq Require Import Lia Permutation.
From Verif Require Import Base.Prelude Base.Str Base.Float Base.GoVal
  Schema.Regex Schema.Units Schema.Syntax Schema.Ops Schema.SpecObj Proofs.OpsLemmas.
Open Scope string_scope.

(* ---------- the object branch of unser, with its three folds named ---------- *)
Definition kbody (props : list (string * property)) (a : raw) (kv : gval * gval) : outcome raw :=
  match fst kv with
  | VStr TStr k => if amem k props then Ok (a ++ [(k, snd kv)])%list else Err (cerr EKey)
  | _ => Err (cerr EKey)
  end.
Definition kstep props (acc : outcome raw) (kv : gval * gval) : outcome raw := a <- acc ;; kbody props a kv.

Definition dstep (orc : oracles) (a : raw) (np : string * property) : raw :=
  if amem (fst np) a then a
  else match p_default (snd np) with
       | Some txt => match decode_default orc (snd np) txt with
                     | Some d => (a ++ [(fst np, d)])%list
                     | None => a
                     end
       | None => a
       end.

Definition ubody (uns : schema -> gval -> outcome gval) (a : raw) (np : string * property) : outcome raw :=
  match alookup (fst np) a with
  | Some d =>
      x <- seg (fst np) (if p_disabled (snd np) then Err (cerr EDisabled) else uns (p_type (snd np)) d) ;;
      Ok (raw_set (fst np) x a)
  | None => Ok a
  end.
Definition ustep uns (acc : outcome raw) (np : string * property) : outcome raw := a <- acc ;; ubody uns a np.

Definition obj_unser (uns : schema -> gval -> outcome gval) (orc : oracles)
                     (props : list (string * property)) (v : gval) : outcome gval :=
  match v with
  | VMap _ _ kvs =>
      r0 <- fold_left (kstep props) kvs (Ok []) ;;
      let r1 := fold_left (dstep orc) props r0 in
      r2 <- fold_left (ustep uns) props (Ok r1) ;;
      _ <- check_rules props (fun k => amem k r2) ;;
      Ok (raw_to_val r2)
  | _ =>
      match props with
      | [(name, p)] =>
          x <- seg name (if p_disabled p then Err (cerr EDisabled) else uns (p_type p) v) ;;
          _ <- check_rules props (fun k => String.eqb k name) ;;
          Ok (raw_to_val [(name, x)])
      | _ => Err (cerr ERepr)
      end
  end.

Lemma unser_object_eq words pu f e id u props v :
  unser words pu (S f) e (SObject id u props) v = obj_unser (unser words pu f e) (e_or e) props v.
Proof. destruct v; reflexivity. Qed.

(* ---------- presence rules ---------- *)
Lemma existsb_false {A} (g : A -> bool) l : existsb g l = false <-> forall x, In x l -> g x = false.
Proof.
  induction l as [|y t IH]; cbn; [split; [intros _ ? [] | reflexivity]|].
  rewrite Bool.orb_false_iff, IH. split.
  - intros [H1 H2] x [E | Hx]; [subst; exact H1 | apply H2; exact Hx].
  - intros H. split; [apply H; left; reflexivity | intros; apply H; right; assumption].
Qed.

Lemma check_prop_rules_ok set name p : check_prop_rules set name p = Ok tt <-> rule_holds set name p.
Proof.
  unfold check_prop_rules, rule_holds. destruct (set name).
  - destruct (existsb set (p_conflicts p)) eqn:E.
    + split; [discriminate|]. intros H. apply existsb_exists in E. destruct E as (c & Hc & Hs).
      rewrite (H c Hc) in Hs. discriminate.
    + split; [intros _; apply existsb_false; exact E | reflexivity].
  - destruct (p_required p).
    { split; [discriminate | intros (H & _); discriminate]. }
    destruct (existsb set (p_required_if p)) eqn:E.
    { split; [discriminate|]. intros (_ & H & _). apply existsb_exists in E. destruct E as (c & Hc & Hs).
      rewrite (H c Hc) in Hs. discriminate. }
    assert (Hrif : forall r, In r (p_required_if p) -> set r = false) by (apply existsb_false; exact E).
    destruct (p_required_if_not p) as [|r0 rs] eqn:En.
    { split; [intros _; repeat split; [exact Hrif | intros C; contradiction] | reflexivity]. }
    destruct (existsb set (r0 :: rs)) eqn:E2.
    + split; [|reflexivity]. intros _. repeat split; [exact Hrif|]. intros _.
      apply existsb_exists in E2. exact E2.
    + split; [discriminate|]. intros (_ & _ & H). destruct H as (r & Hr & Hs); [discriminate|].
      assert (Hf : set r = false) by (apply (proj1 (existsb_false set (r0 :: rs)) E2); exact Hr). congruence.
Qed.

Lemma check_rules_ok props set :
  check_rules props set = Ok tt <-> forall name p, In (name, p) props -> rule_holds set name p.
Proof.
  unfold check_rules. rewrite forM_ok. split.
  - intros H name p Hin. apply check_prop_rules_ok. apply (H (name, p) Hin).
  - intros H [name p] Hin. apply check_prop_rules_ok. apply H; exact Hin.
Qed.

Lemma rule_holds_ext set set' name p : (forall k, set k = set' k) -> rule_holds set name p -> rule_holds set' name p.
Proof.
  intros E. unfold rule_holds. rewrite <- (E name). destruct (set name).
  - intros H c Hc. rewrite <- E. apply H; exact Hc.
  - intros (H1 & H2 & H3). repeat split; [exact H1 | intros r Hr; rewrite <- E; apply H2; exact Hr|].
    intros Hn. destruct (H3 Hn) as (r & Hr & Hs). exists r; split; [exact Hr | rewrite <- E; exact Hs].
Qed.

(* ---------- fold 1: keys ---------- *)
Lemma kfold_cons props kv t acc r0 :
  fold_left (kstep props) (kv :: t) (Ok acc) = Ok r0 <->
  exists a', kbody props acc kv = Ok a' /\ fold_left (kstep props) t (Ok a') = Ok r0.
Proof. exact (fold_bind_cons (kbody props) kv t acc r0). Qed.

Lemma kbody_ok props a kv a' :
  kbody props a kv = Ok a' <-> exists k, fst kv = VStr TStr k /\ amem k props = true /\ a' = (a ++ [(k, snd kv)])%list.
Proof.
  unfold kbody. split.
  - destruct (fst kv) as [| | | |t s| | | | | |]; try discriminate. destruct t; try discriminate.
    destruct (amem s props) eqn:E; [|discriminate]. intros H. inversion H. exists s. auto.
  - intros (k & Ek & Em & Ea). rewrite Ek, Em, Ea. reflexivity.
Qed.

Definition kv_entry (kv : gval * gval) (e : string * gval) : Prop := fst kv = VStr TStr (fst e) /\ snd kv = snd e.

Lemma kfold_ok props kvs : forall acc r0,
  fold_left (kstep props) kvs (Ok acc) = Ok r0 <->
  exists es, Forall2 kv_entry kvs es /\ Forall (fun e => amem (fst e) props = true) es /\ r0 = (acc ++ es)%list.
Proof.
  induction kvs as [|kv t IH]; intros acc r0.
  - cbn. split.
    + intros H. inversion H. exists []. rewrite app_nil_r. repeat split; constructor.
    + intros (es & H2 & _ & E). inversion H2; subst. rewrite app_nil_r. reflexivity.
  - rewrite kfold_cons. split.
    + intros (a' & Hb & Hf). apply kbody_ok in Hb. destruct Hb as (k & Ek & Em & Ea). subst a'.
      apply IH in Hf. destruct Hf as (es & H2 & Hd & E). exists ((k, snd kv) :: es). repeat split.
      * constructor; [split; [exact Ek | reflexivity] | exact H2].
      * constructor; [exact Em | exact Hd].
      * rewrite E, <- app_assoc. reflexivity.
    + intros (es & H2 & Hd & E). inversion H2 as [| ? e ? es' [Ek Ev] H2']; subst.
      inversion Hd as [| ? ? Hm Hd']; subst.
      exists (acc ++ [(fst e, snd kv)])%list. split.
      * apply kbody_ok. exists (fst e). auto.
      * apply IH. exists es'. repeat split; [exact H2' | exact Hd'|].
        rewrite <- app_assoc. cbn. rewrite Ev. destruct e; reflexivity.
Qed.

Lemma raw_of_entries_rel kvs es : Forall2 kv_entry kvs es -> raw_of_entries kvs = es.
Proof.
  induction 1 as [| kv e t es' [Ek Ev] _ IH]; [reflexivity|].
  unfold raw_of_entries in *. cbn. rewrite Ek, IH, Ev. destruct e; reflexivity.
Qed.

Lemma In_amem {A} k (v : A) l : In (k, v) l -> amem k l = true.
Proof.
  intros H. destruct (amem k l) eqn:E; [reflexivity|]. apply amem_false, alookup_None_notin in E.
  exfalso; apply E. apply (in_map fst) in H. exact H.
Qed.

(* ---------- fold 2: defaults ---------- *)
Lemma dstep_eq orc a np :
  dstep orc a np = if amem (fst np) a then a
                   else match default_value orc (snd np) with Some d => (a ++ [(fst np, d)])%list | None => a end.
Proof. unfold dstep, default_value. destruct (amem (fst np) a); [reflexivity|]. destruct (p_default (snd np)); reflexivity. Qed.

Lemma dfold_lookup orc ps : NoDup (map fst ps) -> forall a k,
  alookup k (fold_left (dstep orc) ps a) =
  match alookup k a with
  | Some d => Some d
  | None => match alookup k ps with Some p => default_value orc p | None => None end
  end.
Proof.
  induction ps as [|[n p] t IH]; intros Hnd a k.
  - cbn. destruct (alookup k a); reflexivity.
  - inversion Hnd as [| ? ? Hni Hnd']; subst. cbn [fold_left]. rewrite (IH Hnd'). rewrite dstep_eq. cbn [fst snd alookup].
    destruct (amem n a) eqn:Em.
    + destruct (alookup k a) eqn:Ek; [reflexivity|].
      destruct (String.eqb k n) eqn:E; [|reflexivity].
      apply String.eqb_eq in E; subst k. apply amem_alookup in Em. destruct Em as (x & Hx). congruence.
    + apply amem_false in Em.
      destruct (default_value orc p) as [d|] eqn:Ed.
      * rewrite alookup_app. cbn [alookup]. destruct (alookup k a) eqn:Ek; [reflexivity|].
        destruct (String.eqb k n) eqn:E; [|reflexivity].
        apply String.eqb_eq in E; subst k. exact (eq_sym Ed).
      * destruct (alookup k a) eqn:Ek; [reflexivity|].
        destruct (String.eqb k n) eqn:E; [|reflexivity].
        apply String.eqb_eq in E; subst k.
        assert (Hn : alookup n t = None) by (apply alookup_None_notin; exact Hni). rewrite Hn. exact (eq_sym Ed).
Qed.

Lemma nodup_snoc {A} (l : list (string * A)) k v : NoDup (map fst l) -> alookup k l = None -> NoDup (map fst (l ++ [(k, v)])).
Proof.
  intros Hnd Hn. rewrite map_app. cbn. eapply Permutation_NoDup; [apply Permutation_cons_append|].
  constructor; [apply alookup_None_notin; exact Hn | exact Hnd].
Qed.

Lemma dfold_nodup orc ps : forall a, NoDup (map fst a) -> NoDup (map fst (fold_left (dstep orc) ps a)).
Proof.
  induction ps as [|[n p] t IH]; intros a Hnd; [exact Hnd|].
  cbn [fold_left]. apply IH. rewrite dstep_eq. cbn [fst snd].
  destruct (amem n a) eqn:Em; [exact Hnd|]. destruct (default_value orc p); [|exact Hnd].
  apply nodup_snoc; [exact Hnd | apply amem_false; exact Em].
Qed.

(* ---------- fold 3: every property in use through its type ---------- *)
Section UFold.
Variable uns : schema -> gval -> outcome gval.

Lemma ufold_cons np t a r2 :
  fold_left (ustep uns) (np :: t) (Ok a) = Ok r2 <->
  exists a', ubody uns a np = Ok a' /\ fold_left (ustep uns) t (Ok a') = Ok r2.
Proof. exact (fold_bind_cons (ubody uns) np t a r2). Qed.

Definition prop_reads (p : property) (d x : gval) : Prop := p_disabled p = false /\ uns (p_type p) d = Ok x.

Lemma ubody_ok a n p a' :
  ubody uns a (n, p) = Ok a' <->
  match alookup n a with
  | Some d => exists x, prop_reads p d x /\ a' = raw_set n x a
  | None => a' = a
  end.
Proof.
  unfold ubody, prop_reads. cbn [fst snd]. destruct (alookup n a) as [d|].
  - rewrite bind_ok. split.
    + intros (x & Hx & H). apply seg_ok in Hx. inversion H. exists x. destruct (p_disabled p); [discriminate|]. auto.
    + intros (x & (Hd & Hx) & E). exists x. rewrite Hd. split; [apply seg_ok; exact Hx | rewrite E; reflexivity].
  - split; intros H; [inversion H; reflexivity | rewrite H; reflexivity].
Qed.

Lemma ufold_sound ps : NoDup (map fst ps) -> forall a r2,
  fold_left (ustep uns) ps (Ok a) = Ok r2 ->
  map fst r2 = map fst a /\
  forall k, match alookup k a with
            | None => alookup k r2 = None
            | Some d => match alookup k ps with
                        | Some p => exists x, prop_reads p d x /\ alookup k r2 = Some x
                        | None => alookup k r2 = Some d
                        end
            end.
Proof.
  induction ps as [|[n p] t IH]; intros Hnd a r2 H.
  - cbn in H. inversion H; subst. split; [reflexivity|]. intros k. destruct (alookup k r2); reflexivity.
  - inversion Hnd as [| ? ? Hni Hnd']; subst. apply ufold_cons in H. destruct H as (a' & Hb & Hf).
    apply ubody_ok in Hb. specialize (IH Hnd' a' r2 Hf). destruct IH as (IHk & IHl).
    assert (Hnt : alookup n t = None) by (apply alookup_None_notin; exact Hni).
    destruct (alookup n a) as [d|] eqn:En.
    + destruct Hb as (x & Hr & Ea). subst a'.
      assert (Hm : amem n a = true) by (apply amem_alookup; eauto).
      destruct (raw_set_present n x a Hm) as (Hk & Hl). split; [rewrite IHk; exact Hk|].
      intros k. specialize (IHl k). rewrite Hl in IHl. cbn [alookup].
      destruct (String.eqb k n) eqn:E.
      * apply String.eqb_eq in E; subst k. rewrite En. rewrite Hnt in IHl. exists x. auto.
      * exact IHl.
    + subst a'. split; [exact IHk|]. intros k. specialize (IHl k). cbn [alookup].
      destruct (String.eqb k n) eqn:E; [|exact IHl].
      apply String.eqb_eq in E; subst k. rewrite En in *. exact IHl.
Qed.

Lemma ufold_complete ps : NoDup (map fst ps) -> forall a,
  (forall k p d, alookup k ps = Some p -> alookup k a = Some d -> exists x, prop_reads p d x) ->
  exists r2, fold_left (ustep uns) ps (Ok a) = Ok r2.
Proof.
  induction ps as [|[n p] t IH]; intros Hnd a Hall.
  - exists a; reflexivity.
  - inversion Hnd as [| ? ? Hni Hnd']; subst.
    assert (Hnt : alookup n t = None) by (apply alookup_None_notin; exact Hni).
    assert (Hne : forall k p', alookup k t = Some p' -> String.eqb k n = false).
    { intros k p' Hk. destruct (String.eqb k n) eqn:E; [|reflexivity]. apply String.eqb_eq in E; subst. congruence. }
    destruct (alookup n a) as [d|] eqn:En.
    + destruct (Hall n p d) as (x & Hr); [cbn; rewrite String.eqb_refl; reflexivity | exact En|].
      assert (Hm : amem n a = true) by (apply amem_alookup; eauto).
      destruct (raw_set_present n x a Hm) as (_ & Hl).
      destruct (IH Hnd' (raw_set n x a)) as (r2 & Hr2).
      { intros k p' d' Hk Hd'. rewrite Hl, (Hne k p' Hk) in Hd'. apply (Hall k p' d'); [|exact Hd'].
        cbn. rewrite (Hne k p' Hk). exact Hk. }
      exists r2. apply ufold_cons. exists (raw_set n x a). split; [|exact Hr2].
      apply ubody_ok. rewrite En. exists x; auto.
    + destruct (IH Hnd' a) as (r2 & Hr2).
      { intros k p' d' Hk Hd'. apply (Hall k p' d'); [|exact Hd']. cbn. rewrite (Hne k p' Hk). exact Hk. }
      exists r2. apply ufold_cons. exists a. split; [|exact Hr2]. apply ubody_ok. rewrite En. reflexivity.
Qed.
End UFold.

(* ---------- C03_object: soundness and completeness against object_accepts ---------- *)
Section ObjectIff.
Variable uns : schema -> gval -> outcome gval.
Variable orc : oracles.

Lemma option_ext {A} (a b : option A) : (forall x, a = Some x <-> b = Some x) -> a = b.
Proof.
  intros H. destruct a as [x|], b as [y|]; try reflexivity.
  - apply H; reflexivity.
  - symmetry; apply H; reflexivity.
  - apply H; reflexivity.
Qed.

(* the raw value of a declared property after defaulting is input_of *)
Lemma r1_lookup props r0 k : NoDup (map fst props) ->
  alookup k (fold_left (dstep orc) props r0) =
  match alookup k r0 with
  | Some d => Some d
  | None => match alookup k props with Some p => default_value orc p | None => None end
  end.
Proof. intros H. apply dfold_lookup; exact H. Qed.

Lemma r1_input props r0 k p : NoDup (map fst props) -> alookup k props = Some p ->
  alookup k (fold_left (dstep orc) props r0) = input_of orc r0 k p.
Proof. intros Hnd Hp. rewrite r1_lookup by exact Hnd. unfold input_of. rewrite Hp. reflexivity. Qed.

Lemma r1_declared props r0 k d : NoDup (map fst props) ->
  (forall k, amem k r0 = true -> amem k props = true) ->
  alookup k (fold_left (dstep orc) props r0) = Some d -> exists p, alookup k props = Some p.
Proof.
  intros Hnd Hdecl H. rewrite r1_lookup in H by exact Hnd.
  destruct (alookup k r0) eqn:E.
  - apply amem_alookup. apply Hdecl. apply amem_alookup. eauto.
  - destruct (alookup k props); [eauto | discriminate].
Qed.

Lemma alookup_single {A} k n (v : A) : alookup k [(n, v)] = if String.eqb k n then Some v else None.
Proof. reflexivity. Qed.

Definition short_unser (name : string) (p : property) (v : gval) : outcome gval :=
  x <- seg name (if p_disabled p then Err (cerr EDisabled) else uns (p_type p) v) ;;
  _ <- check_rules [(name, p)] (fun k => String.eqb k name) ;;
  Ok (raw_to_val [(name, x)]).

Lemma obj_unser_nonmap props v : is_map v = false ->
  obj_unser uns orc props v = match props with [(name, p)] => short_unser name p v | _ => Err (cerr ERepr) end.
Proof. intros H; destruct v; try (cbn in H; discriminate H); destruct props as [|[name p] [|q rest]]; reflexivity. Qed.

Lemma shorthand_sound name p v n : is_map v = false ->
  short_unser name p v = Ok n -> object_accepts uns orc [(name, p)] v n.
Proof.
  intros Hnm H. unfold short_unser in H.
  apply bind_ok in H. destruct H as (x & Hx & H). apply bind_ok in H. destruct H as (u & Hc & H).
  inversion H; subst n; clear H. apply unit_ok in Hc. apply seg_ok in Hx.
  destruct (p_disabled p) eqn:Hdis; [discriminate|].
  exists [(name, v)], [(name, x)].
  split; [apply (sup_short _ v name p); [exact Hnm | reflexivity]|].
  split. { intros k. unfold amem. rewrite !alookup_single. destruct (String.eqb k name); cbn; [reflexivity | intros C; discriminate C]. }
  split; [reflexivity|].
  split. { cbn. constructor; [intros [] | constructor]. }
  split; [|split].
  - intros k y. rewrite alookup_single. destruct (String.eqb k name) eqn:E.
    + apply String.eqb_eq in E; subst k. split.
      * intros Hk. inversion Hk; subst y. exists p, v. unfold input_of. rewrite !alookup_single, String.eqb_refl. auto.
      * intros (p' & d & Hp & Hin & _ & Hr). unfold input_of in Hin. rewrite alookup_single, String.eqb_refl in Hp. rewrite alookup_single, String.eqb_refl in Hin.
        inversion Hp; subst p'. inversion Hin; subst d. congruence.
    + split; [intros C; discriminate C|]. intros (p' & d & Hp & _). rewrite alookup_single, E in Hp. discriminate Hp.
  - intros k p' d Hp Hin. unfold input_of in Hin. rewrite alookup_single in Hp. rewrite alookup_single in Hin.
    destruct (String.eqb k name) eqn:E; [|discriminate Hp]. inversion Hp; subst p'. inversion Hin; subst d. split; [exact Hdis | eauto].
  - intros name' p' Hin. apply (rule_holds_ext (fun k => String.eqb k name)).
    + intros k. unfold amem. rewrite alookup_single. destruct (String.eqb k name); reflexivity.
    + apply (proj1 (check_rules_ok _ _) Hc). exact Hin.
Qed.

Lemma object_sound props v n :
  NoDup (map fst props) -> raw_keys_unique v = true ->
  obj_unser uns orc props v = Ok n -> object_accepts uns orc props v n.
Proof.
  intros Hnd Hku H. destruct (is_map v) eqn:Em.
  2: { rewrite (obj_unser_nonmap props v Em) in H. destruct props as [|[name p] [|q rest]]; try discriminate.
       apply shorthand_sound; assumption. }
  destruct v as [| | | | | |t nl kvs| | | |]; try discriminate Em. clear Em.
  unfold obj_unser in H.
  apply bind_ok in H. destruct H as (r0 & Hk & H). cbv zeta in H.
  apply bind_ok in H. destruct H as (r2 & Hu & H).
  apply bind_ok in H. destruct H as (u & Hc & H). inversion H; subst n. clear H.
  apply unit_ok in Hc. apply kfold_ok in Hk. destruct Hk as (es & H2 & Hd & E). cbn in E. subst es.
  assert (Hdecl : forall k, amem k r0 = true -> amem k props = true).
  { intros k Hm. apply amem_alookup in Hm. destruct Hm as (x & Hx). apply alookup_In in Hx.
    rewrite Forall_forall in Hd. apply (Hd (k, x) Hx). }
  assert (Hnd0 : NoDup (map fst r0)).
  { cbn in Hku. rewrite (raw_of_entries_rel kvs r0 H2) in Hku. apply nodup_str_NoDup; exact Hku. }
  pose proof (dfold_nodup orc props r0 Hnd0) as Hnd1.
  destruct (ufold_sound uns props Hnd _ r2 Hu) as (Hkeys & Hl).
  exists r0, r2.
  split; [constructor; exact H2|].
  split; [exact Hdecl|].
  split; [reflexivity|].
  split; [rewrite Hkeys; exact Hnd1|].
  split; [|split].
  - intros k x. split.
    + intros Hx. specialize (Hl k). destruct (alookup k (fold_left (dstep orc) props r0)) as [d|] eqn:E1; [|congruence].
      destruct (r1_declared props r0 k d Hnd Hdecl E1) as (p & Hp). rewrite Hp in Hl.
      destruct Hl as (x' & (Hdis & Hr) & Hx'). exists p, d.
      split; [exact Hp|]. split; [rewrite <- (r1_input props r0 k p Hnd Hp); exact E1|].
      split; [exact Hdis | congruence].
    + intros (p & d & Hp & Hin & Hdis & Hr). specialize (Hl k).
      rewrite (r1_input props r0 k p Hnd Hp), Hin, Hp in Hl. destruct Hl as (x' & (_ & Hr') & Hx'). congruence.
  - intros k p d Hp Hin. specialize (Hl k).
    rewrite (r1_input props r0 k p Hnd Hp), Hin, Hp in Hl. destruct Hl as (x' & (Hdis & Hr) & _). split; [exact Hdis | eauto].
  - apply check_rules_ok. exact Hc.
Qed.

Lemma object_complete props v n :
  NoDup (map fst props) -> raw_keys_unique v = true ->
  object_accepts uns orc props v n ->
  exists n', obj_unser uns orc props v = Ok n' /\ same_entries n n'.
Proof.
  intros Hnd Hku (r0 & r2 & Hsup & Hdecl & En & Hnd2 & Hl & Hall & Hrules).
  destruct Hsup as [t nl kvs r0 H2 | v name p Hnm Eprops].
  - (* a map *)
    assert (Hnd0 : NoDup (map fst r0)).
    { cbn in Hku. rewrite (raw_of_entries_rel kvs r0 H2) in Hku. apply nodup_str_NoDup; exact Hku. }
    assert (Hk : fold_left (kstep props) kvs (Ok []) = Ok r0).
    { apply kfold_ok. exists r0. split; [exact H2|]. split; [|reflexivity].
      apply Forall_forall. intros [k x] Hin. apply Hdecl. apply (In_amem k x). exact Hin. }
    pose proof (dfold_nodup orc props r0 Hnd0) as Hnd1.
    destruct (ufold_complete uns props Hnd (fold_left (dstep orc) props r0)) as (r2c & Hu).
    { intros k p d Hp Hd. rewrite (r1_input props r0 k p Hnd Hp) in Hd.
      destruct (Hall k p d Hp Hd) as (Hdis & x & Hx). exists x. split; assumption. }
    destruct (ufold_sound uns props Hnd _ r2c Hu) as (Hkeys & Hlc).
    assert (Heq : forall k, alookup k r2 = alookup k r2c).
    { intros k. apply option_ext. intros x. rewrite Hl. split.
      - intros (p & d & Hp & Hin & Hdis & Hr). specialize (Hlc k).
        rewrite (r1_input props r0 k p Hnd Hp), Hin, Hp in Hlc. destruct Hlc as (x' & (_ & Hr') & Hx'). congruence.
      - intros Hx. specialize (Hlc k). destruct (alookup k (fold_left (dstep orc) props r0)) as [d|] eqn:E1; [|congruence].
        destruct (r1_declared props r0 k d Hnd Hdecl E1) as (p & Hp). rewrite Hp in Hlc.
        destruct Hlc as (x' & (Hdis & Hr) & Hx'). exists p, d.
        split; [exact Hp|]. split; [rewrite <- (r1_input props r0 k p Hnd Hp); exact E1|].
        split; [exact Hdis | congruence]. }
    exists (raw_to_val r2c). split.
    + assert (Hc : check_rules props (fun k => amem k r2c) = Ok tt).
      { apply check_rules_ok. intros name p Hin. apply (rule_holds_ext (fun k => amem k r2)).
        - intros k. unfold amem. rewrite Heq. reflexivity.
        - apply Hrules; exact Hin. }
      unfold obj_unser. apply bind_ok. exists r0. split; [exact Hk|]. cbv zeta.
      apply bind_ok. exists r2c. split; [exact Hu|].
      apply bind_ok. exists tt. split; [exact Hc | reflexivity].
    + exists r2, r2c. split; [exact En|]. split; [reflexivity|]. split; [exact Hnd2|].
      split; [rewrite Hkeys; exact Hnd1 | exact Heq].
  - (* shorthand *)
    subst props.
    assert (Hin : input_of orc [(name, v)] name p = Some v) by (unfold input_of; rewrite alookup_single, String.eqb_refl; reflexivity).
    assert (Hp : alookup name [(name, p)] = Some p) by (rewrite alookup_single, String.eqb_refl; reflexivity).
    destruct (Hall name p v Hp Hin) as (Hdis & x & Hx).
    assert (Hx2 : alookup name r2 = Some x) by (apply Hl; exists p, v; auto).
    assert (Heq : forall k, alookup k r2 = alookup k [(name, x)]).
    { intros k. rewrite alookup_single. destruct (String.eqb k name) eqn:E; [apply String.eqb_eq in E; subst; exact Hx2|].
      destruct (alookup k r2) as [y|] eqn:Ey; [|reflexivity].
      apply Hl in Ey. destruct Ey as (p' & d & Hp' & _). rewrite alookup_single, E in Hp'. discriminate. }
    exists (raw_to_val [(name, x)]). split.
    + assert (Hc : check_rules [(name, p)] (fun k => String.eqb k name) = Ok tt).
      { apply check_rules_ok. intros name' p' Hin'. apply (rule_holds_ext (fun k => amem k r2)).
        - intros k. unfold amem. rewrite Heq, alookup_single. destruct (String.eqb k name); reflexivity.
        - apply Hrules; exact Hin'. }
      rewrite (obj_unser_nonmap _ v Hnm). unfold short_unser.
      apply bind_ok. exists x. split; [apply seg_ok; rewrite Hdis; exact Hx|].
      apply bind_ok. exists tt. split; [exact Hc | reflexivity].
    + exists r2, [(name, x)]. split; [exact En|]. split; [reflexivity|]. split; [exact Hnd2|].
      split; [cbn; constructor; [intros [] | constructor] | exact Heq].
Qed.

(* invariance of the specification under permutation of the property list *)
Lemma object_accepts_perm props props' v n :
  Permutation props props' -> NoDup (map fst props) ->
  object_accepts uns orc props v n -> object_accepts uns orc props' v n.
Proof.
  intros HP Hnd (r0 & r2 & Hsup & Hdecl & En & Hnd2 & Hl & Hall & Hrules).
  assert (Hlk : forall k, alookup k props = alookup k props') by (apply alookup_perm; assumption).
  exists r0, r2.
  split.
  { destruct Hsup as [t nl kvs r0 H2 | v name p Hnm Eprops]; [constructor; exact H2|].
    subst props. apply Permutation_length_1_inv in HP. subst props'. apply (sup_short _ v name p); [exact Hnm | reflexivity]. }
  split. { intros k Hm. unfold amem. rewrite <- Hlk. apply Hdecl; exact Hm. }
  split; [exact En|]. split; [exact Hnd2|].
  split; [|split].
  - intros k x. rewrite Hl. split; intros (p & d & Hp & R); exists p, d; (split; [|exact R]); [rewrite <- Hlk | rewrite Hlk]; exact Hp.
  - intros k p d Hp Hin. rewrite <- Hlk in Hp. apply (Hall k p d Hp Hin).
  - intros name p Hin. apply Hrules. eapply Permutation_in; [apply Permutation_sym; exact HP | exact Hin].
Qed.

End ObjectIff.

(* ---------- one-of: Unserialize routes by the typed discriminator alone ---------- *)
Section OneOf.
Variable words : list (string * bool).
Variable pu : units -> string -> option fl.

Lemma str_keys_forallb (kvs : list (gval * gval)) :
  forallb (fun kv => match fst kv with VStr TStr _ => true | _ => false end) kvs = true <->
  (forall kv, In kv kvs -> exists k, fst kv = VStr TStr k).
Proof.
  rewrite forallb_forall. split; intros H kv Hin; specialize (H kv Hin).
  - destruct (fst kv) as [| | | |t s| | | | | |]; try discriminate. destruct t; try discriminate. eauto.
  - destruct H as (k & E). rewrite E. reflexivity.
Qed.

Lemma discr_denotes_iff (ik : bool) (d : gval) (key : okey) :
  (if ik then option_map KI (int_mapper None d) else option_map KS (string_mapper d)) = Some key <-> discr_denotes ik d key.
Proof.
  unfold discr_denotes. destruct ik.
  - destruct (int_mapper None d) as [z|]; cbn; split.
    + intros H; inversion H; eauto.
    + intros (z' & E & K); inversion E; subst; reflexivity.
    + discriminate.
    + intros (z' & E & _); discriminate.
  - destruct (string_mapper d) as [s|]; cbn; split.
    + intros H; inversion H; eauto.
    + intros (z' & E & K); inversion E; subst; reflexivity.
    + discriminate.
    + intros (z' & E & _); discriminate.
Qed.

Lemma oneof_unser_iff f e types ik field inlined v n :
  unser words pu (S f) e (SOneOf types ik field inlined) v = Ok n <->
  oneof_routes (unser words pu f e) types ik field inlined v n.
Proof.
  unfold oneof_routes. split.
  - intros H. cbn [unser] in H.
    destruct v as [| | | | | |t nl kvs| | | |]; try discriminate H.
    destruct (forallb _ kvs) eqn:Ek; [|discriminate H].
    destruct (smap_get field kvs) as [d|] eqn:Ed; [|discriminate H].
    destruct (if ik then option_map KI (int_mapper None d) else option_map KS (string_mapper d)) as [key|] eqn:Ekey; [|discriminate H].
    destruct (find (fun ks => okey_eqb (fst ks) key) types) as [[k0 member]|] eqn:Ef; [|discriminate H].
    cbv zeta in H. apply bind_ok in H. destruct H as (x & Hx & H).
    exists t, nl, kvs, d, key, k0, member, x.
    split; [reflexivity|]. split; [apply str_keys_forallb; exact Ek|]. split; [exact Ed|].
    split; [apply discr_denotes_iff; exact Ekey|]. split; [exact Ef|]. split; [exact Hx|].
    destruct (is_str_any_map x) as [xs|]; [destruct inlined|]; inversion H; subst; try reflexivity; destruct key; reflexivity.
  - intros (t & nl & kvs & d & key & k0 & member & x & Ev & Hk & Ed & Hkey & Ef & Hx & En).
    subst v. cbn [unser]. rewrite (proj2 (str_keys_forallb kvs) Hk), Ed, (proj2 (discr_denotes_iff ik d key) Hkey), Ef.
    cbv zeta. apply bind_ok. exists x. split; [exact Hx|]. subst n.
    destruct (is_str_any_map x) as [xs|]; [destruct inlined|]; try reflexivity; destruct key; reflexivity.
Qed.

(* ---------- native values: Validate and Serialize enforce one and the same predicate ---------- *)
Lemma validate_object_iff f e id u props v :
  validate words pu (S f) e (SObject id u props) v = Ok tt <->
  obj_native_ok (fun s x => validate words pu f e s x = Ok tt) props v.
Proof.
  unfold obj_native_ok. cbn [validate]. destruct (is_str_any_map v) as [kvs|].
  - cbv zeta. rewrite bind_ok. split.
    + intros (u0 & Hc & Hf). apply unit_ok in Hc. exists kvs. split; [reflexivity|].
      split; [apply check_rules_ok; exact Hc|]. intros k x Hin.
      apply (proj1 (forM_ok _ _) Hf) in Hin. cbn [fst snd] in Hin.
      destruct (alookup k props) as [p|] eqn:Ea; [|discriminate Hin]. exists p. split; [exact Ea | apply seg_ok in Hin; exact Hin].
    + intros (kvs' & E & Hr & Hv). inversion E; subst kvs'. exists tt. split; [apply check_rules_ok; exact Hr|].
      apply forM_ok. intros [k x] Hin. cbn [fst snd]. destruct (Hv k x Hin) as (p & Hp & Hx). unfold property in *. rewrite Hp. apply seg_ok. exact Hx.
  - split; [discriminate | intros (kvs' & E & _); discriminate E].
Qed.

Lemma mapM_exists {A B} (g : A -> outcome B) l :
  (forall x, In x l -> exists y, g x = Ok y) -> exists out, mapM g l = Ok out.
Proof.
  induction l as [|x t IH]; intros H; [exists []; reflexivity|].
  destruct (H x (or_introl eq_refl)) as (y & Hy). destruct IH as (ys & Hys); [intros; apply H; right; assumption|].
  exists (y :: ys). cbn. rewrite Hy. cbn. rewrite Hys. reflexivity.
Qed.

Lemma serialize_object_iff f e id u props v :
  (exists w, serialize words pu (S f) e (SObject id u props) v = Ok w) <->
  obj_native_ok (fun s x => exists y, serialize words pu f e s x = Ok y) props v.
Proof.
  unfold obj_native_ok. cbn [serialize]. destruct (is_str_any_map v) as [kvs|].
  - cbv zeta. split.
    + intros (w & H). apply bind_ok in H. destruct H as (u0 & Hc & H). apply unit_ok in Hc.
      apply bind_ok in H. destruct H as (out & Hm & _). exists kvs. split; [reflexivity|].
      split; [apply check_rules_ok; exact Hc|]. intros k x Hin. apply mapM_ok in Hm.
      destruct (forall2_in_l _ _ _ _ Hm Hin) as (o & _ & Ho). cbn [fst snd] in Ho.
      destruct (alookup k props) as [p|] eqn:Ea; [|discriminate Ho]. exists p. split; [exact Ea|].
      apply bind_ok in Ho. destruct Ho as (y & Hy & _). apply seg_ok in Hy. eauto.
    + intros (kvs' & E & Hr & Hv). inversion E; subst kvs'.
      destruct (mapM_exists (fun kv : string * gval => match alookup (fst kv) props with
                                | Some p => x <- seg (fst kv) (serialize words pu f e (p_type p) (snd kv)) ;; Ok (fst kv, x)
                                | None => Err (cerr EKey) end) (raw_of_entries kvs)) as (out & Hout).
      { intros [k x] Hin. cbn [fst snd]. destruct (Hv k x Hin) as (p & Hp & y & Hy). unfold property in *. rewrite Hp.
        exists (k, y). apply bind_ok. exists y. split; [apply seg_ok; exact Hy | reflexivity]. }
      exists (raw_to_val out). apply bind_ok. exists tt. split; [apply check_rules_ok; exact Hr|].
      apply bind_ok. exists out. split; [exact Hout | reflexivity].
  - split; [intros (w & H); discriminate H | intros (kvs' & E & _); discriminate E].
Qed.

Definition is_nil (v : gval) : bool := match v with VNil => true | _ => false end.

Definition oneof_find_spec (cmp : schema -> gval -> outcome unit) (types : list (okey * schema)) (ik : bool)
    (field : string) (inlined : bool) (v : gval) : outcome (okey * schema * gval) :=
  match is_str_any_map v with
  | None => Err (cerr ERepr)
  | Some kvs =>
      match smap_get field kvs with
      | None => Err (cerr EKey)
      | Some d =>
          if is_nil d then Err (cerr EKey)
          else match typed_discr ik d with
               | None => Err (cerr ERepr)
               | Some key =>
                   match find (fun ks => okey_eqb (fst ks) key) types with
                   | None => Err (cerr EKey)
                   | Some (_, member) =>
                       let clone := VMap t_str_map false (if inlined then kvs else smap_del field kvs) in
                       _ <- rewrap_path (cmp member clone) ;; Ok (key, member, clone)
                   end
               end
      end
  end.

Lemma str_map_kind t : gtype_eqb t t_str_map = true -> kind_of_type t = KMap.
Proof. destruct t; try discriminate; reflexivity. Qed.

Lemma oneof_find_eq f e types ik field inlined v :
  oneof_find words pu (S f) e types ik field inlined v =
  oneof_find_spec (compat words pu f e) types ik field inlined v.
Proof.
  unfold oneof_find_spec.
  destruct v as [| | | | | |t nl kvs| | | |]; cbn [oneof_find]; try reflexivity;
    try (destruct (kind_of _); reflexivity).
  cbn [kind_of is_str_any_map]. destruct (gtype_eqb t t_str_map) eqn:Et.
  - rewrite (str_map_kind t Et). destruct (smap_get field kvs) as [d|]; [|reflexivity].
    unfold typed_discr. destruct d; reflexivity.
  - destruct (kind_of_type t); reflexivity.
Qed.

Lemma oneof_find_iff f e types ik field inlined v key member d' :
  oneof_find words pu (S f) e types ik field inlined v = Ok (key, member, d') <->
  oneof_native_routes (fun m x => compat words pu f e m x = Ok tt) types ik field inlined v key member d'.
Proof.
  rewrite oneof_find_eq. unfold oneof_find_spec, oneof_native_routes.
  destruct (is_str_any_map v) as [kvs|].
  2: { split; [discriminate | intros (kvs' & d & k0 & E & _); discriminate E]. }
  split.
  - intros H. destruct (smap_get field kvs) as [d|] eqn:Ed; [|discriminate H].
    destruct (is_nil d) eqn:En; [discriminate H|].
    destruct (typed_discr ik d) as [key0|] eqn:Ek; [|discriminate H].
    destruct (find (fun ks => okey_eqb (fst ks) key0) types) as [[k0 member0]|] eqn:Ef; [|discriminate H].
    cbv zeta in H. apply bind_ok in H. destruct H as (u0 & Hc & H). inversion H; subst. clear H.
    apply (proj1 (rewrap_path_ok _ _)) in Hc. apply unit_ok in Hc.
    exists kvs, d, k0. split; [reflexivity|]. split; [exact Ed|].
    split; [intros C; subst d; discriminate En|]. split; [exact Ek|]. split; [exact Ef|]. split; [reflexivity | exact Hc].
  - intros (kvs' & d & k0 & E & Ed & Hn & Ek & Ef & Ed' & Hc). inversion E; subst kvs'. rewrite Ed.
    assert (En : is_nil d = false) by (destruct d; try reflexivity; contradiction). rewrite En, Ek, Ef.
    cbv zeta. subst d'. apply bind_ok. exists tt. split; [apply rewrap_path_ok; exact Hc | reflexivity].
Qed.

Lemma validate_oneof_iff f e types ik field inlined v :
  validate words pu (S f) e (SOneOf types ik field inlined) v = Ok tt <->
  exists key member d', oneof_find words pu f e types ik field inlined v = Ok (key, member, d')
                        /\ validate words pu f e member d' = Ok tt.
Proof.
  cbn [validate]. rewrite bind_ok. split.
  - intros ([[key member] d'] & Hf & Hv). exists key, member, d'. split; [exact Hf | apply seg_ok in Hv; exact Hv].
  - intros (key & member & d' & Hf & Hv). exists (key, member, d'). split; [exact Hf | apply seg_ok; exact Hv].
Qed.

Lemma serialize_oneof_iff f e types ik field inlined v :
  (exists w, serialize words pu (S f) e (SOneOf types ik field inlined) v = Ok w) <->
  exists key member d', oneof_find words pu f e types ik field inlined v = Ok (key, member, d')
                        /\ exists x xs, serialize words pu f e member d' = Ok x /\ is_str_any_map x = Some xs.
Proof.
  cbn [serialize]. split.
  - intros (w & H). apply bind_ok in H. destruct H as ([[key member] d'] & Hf & H).
    apply bind_ok in H. destruct H as (x & Hx & H). exists key, member, d'. split; [exact Hf|].
    destruct (is_str_any_map x) as [xs|] eqn:Em; [|discriminate H]. exists x, xs. split; [exact Hx | exact Em].
  - intros (key & member & d' & Hf & x & xs & Hx & Em).
    exists (match smap_get field xs with
            | Some _ => x
            | None => VMap t_str_map false (map_set (vstr field) (match key with KI z => vi64 z | KS s0 => vstr s0 end) xs)
            end).
    apply bind_ok. exists (key, member, d'). split; [exact Hf|]. apply bind_ok. exists x. split; [exact Hx|].
    rewrite Em. destruct (smap_get field xs); reflexivity.
Qed.
End OneOf.
