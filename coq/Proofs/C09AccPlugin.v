(* Proofs/C09AccPlugin.v — C09_accepted for whole plugin schemas: the GENERATED Schema meta-scope
   (Schema/MetaTable.v `meta_schema_scope` = DescribeSchema().SelfSerialize() of the SDK under test; what
   UnserializeSchema and Client.ReadSchema run) accepts `describe_plugin p` through the generic Unserialize of
   Schema/Ops.v.  The Schema table holds the objects of the Scope table unchanged (`meta_objs_in_schema_objs`, by
   computation) plus Schema, Step, StepOutput and Signal, so the per-object lemmas of Proofs/C09AccTable.v apply
   to it as they are; the four extra objects get their lemma here. *)
From Coq Require Import Lia.
From Verif Require Import Base.Prelude Base.Str Base.Float Base.GoVal
  Schema.Regex Schema.Units Schema.Syntax Schema.Ops Schema.SpecObj Schema.Describe Schema.MetaTable
  Proofs.OpsLemmas Proofs.OpsEq Proofs.C03Obj Proofs.SchemaInd Proofs.C09Fixpoint Proofs.C09AccBase Proofs.C09AccRe
  Proofs.C09AccTable.
Open Scope string_scope.

Definition schema_objs : objtab :=
  Eval vm_compute in match meta_schema_scope with SScope objs _ => objs | _ => [] end.
Definition schema_root : string :=
  Eval vm_compute in match meta_schema_scope with SScope _ root => root | _ => "" end.
Lemma meta_schema_scope_eq : meta_schema_scope = SScope schema_objs schema_root.
Proof. reflexivity. Qed.

(* the Schema table = the Scope table + four objects *)
Definition extra_ids : list string := ["Schema"; "Signal"; "Step"; "StepOutput"].
Lemma meta_objs_in_schema_objs :
  meta_objs = filter (fun io => negb (str_in (fst io) extra_ids)) schema_objs.
Proof. vm_compute. reflexivity. Qed.

Lemma alookup_filter_none {A} (q : string -> bool) (l : list (string * A)) id :
  q id = false -> alookup id (filter (fun io => q (fst io)) l) = None.
Proof.
  intros Hq. induction l as [|[k v] t IH]; [reflexivity|]. cbn [filter fst].
  destruct (q k) eqn:Ek; [|exact IH]. cbn [alookup]. destruct (String.eqb id k) eqn:E; [|exact IH].
  apply String.eqb_eq in E. subst. congruence.
Qed.
Lemma alookup_filter_some {A} (q : string -> bool) (l : list (string * A)) id o :
  alookup id (filter (fun io => q (fst io)) l) = Some o -> alookup id l = Some o.
Proof.
  induction l as [|[k v] t IH]; [discriminate|]. cbn [filter fst alookup].
  destruct (q k) eqn:Ek.
  - cbn [alookup]. destruct (String.eqb id k); [auto | exact IH].
  - intros H. destruct (String.eqb id k) eqn:E; [|exact (IH H)].
    apply String.eqb_eq in E. subst k. rewrite (alookup_filter_none q t id Ek) in H. discriminate.
Qed.

Lemma schema_tab : forall id o, alookup id meta_objs = Some o -> alookup id schema_objs = Some o.
Proof.
  intros id o H. rewrite meta_objs_in_schema_objs in H.
  exact (alookup_filter_some (fun k => negb (str_in k extra_ids)) schema_objs id o H).
Qed.

Definition sobj (id : string) : schema := match alookup id schema_objs with Some o => o | None => SAny end.
Definition schema_props (id : string) : list (string * property) :=
  match alookup id schema_objs with Some (SObject _ _ ps) => ps | _ => [] end.
Lemma sobj_obj id :
  (match alookup id schema_objs with Some (SObject _ _ _) => true | _ => false end) = true ->
  exists i u, sobj id = SObject i u (schema_props id).
Proof.
  unfold sobj, schema_props. destruct (alookup id schema_objs) as [[]|]; intros H; try discriminate. eauto.
Qed.

Ltac open_sobj id :=
  let i := fresh "i" in let u := fresh "u" in let E := fresh "E" in let Hs := fresh "Hshape" in
  assert (Hs : (match alookup id schema_objs with Some (SObject _ _ _) => true | _ => false end) = true)
    by (vm_compute; reflexivity);
  destruct (sobj_obj id Hs) as (i & u & E); clear Hs;
  rewrite E; clear E;
  let ps := eval vm_compute in (schema_props id) in
  change (schema_props id) with ps;
  apply acc_object; [vm_compute; reflexivity | reflexivity | ];
  repeat apply Forall_cons; try apply Forall_nil.

(* ---------- what the theorem assumes of a plugin schema ---------- *)
Definition is_scope (s : schema) : bool := match s with SScope _ _ => true | _ => false end.
Definition cgood_scope (jor : oracles) (s : schema) : Prop := is_scope s = true /\ cgood jor s.
Definition cgood_signal (jor : oracles) (kg : string * dsignal) : Prop :=
  id_ok (fst kg) = true /\ id_ok (sg_id (snd kg)) = true /\ odisplay_ok (sg_display (snd kg)) = true
  /\ cgood_scope jor (sg_data (snd kg)).
Definition cgood_output (jor : oracles) (ko : string * doutput) : Prop :=
  id_ok (fst ko) = true /\ odisplay_ok (so_display (snd ko)) = true /\ cgood_scope jor (so_schema (snd ko)).
Definition cgood_step (jor : oracles) (ks : string * Describe.dstep) : Prop :=
  let st := snd ks in
  id_ok (fst ks) = true /\ id_ok (st_id st) = true /\ odisplay_ok (st_display st) = true
  /\ cgood_scope jor (st_input st)
  /\ Forall (cgood_output jor) (st_outputs st)
  /\ Forall (cgood_signal jor) (st_handlers st) /\ Forall (cgood_signal jor) (st_emitters st).
Definition cgood_plugin (jor : oracles) (p : dplugin) : Prop := Forall (cgood_step jor) p.

(* the fuel: the deepest data schema decides *)
Definition lmax (l : list nat) : nat := fold_right Nat.max 0%nat l.
Lemma lmax_ge l x : In x l -> (x <= lmax l)%nat.
Proof. unfold lmax. induction l as [|y t IH]; cbn; [contradiction|]. intros [E | H]; [subst; lia | specialize (IH H); lia]. Qed.
Definition step_fuel (st : Describe.dstep) : nat := lmax (map tfuel (scopes_of_step st)).
Definition plugin_fuel (p : dplugin) : nat := (11 + lmax (map (fun ks => step_fuel (snd ks)) p))%nat.

Section Plugin.
Variable words : list (string * bool).
Variable pu : units -> string -> option fl.
Variable jor : oracles.
Notation A := (acc words pu (tenv schema_objs jor)).

Lemma S_ref n id d v : amem id schema_objs = true -> A n (sobj id) v -> A (S n) (SRef id "" d) v.
Proof.
  intros Hm H. apply acc_ref with (o := sobj id); [|exact H]. unfold tenv. cbn [e_self].
  unfold sobj. unfold amem in Hm. destruct (alookup id schema_objs); [reflexivity | discriminate].
Qed.

(* a data schema, through the reference to the Scope object *)
Lemma S_data n s d : cgood_scope jor s -> (tfuel s <= n)%nat -> A (S n) (SRef "Scope" "" d) (describe s).
Proof.
  intros [Hs Hg] Hle. destruct s; try discriminate. unfold describe.
  apply (A_ref words pu schema_objs schema_tab jor); [vm_compute; reflexivity|].
  eapply acc_weaken; [exact (table_accepts words pu schema_objs schema_tab jor _ Hg) | exact Hle].
Qed.

Lemma S_display n d dd : odisplay_ok (Some d) = true -> A (S (S (S n))) (SRef "Display" "" dd) (d_display d).
Proof.
  intros H. apply (A_ref words pu schema_objs schema_tab jor); [vm_compute; reflexivity|].
  apply (A_display words pu schema_objs jor). exact H.
Qed.

Ltac leaf :=
  lazymatch goal with
  | |- acc _ _ _ _ SBool (vbool _) => apply acc_bool
  | |- acc _ _ _ _ (SString _ _ (Some _)) (vstr _) => apply (A_id words pu schema_objs jor); assumption
  | |- acc _ _ _ _ (SRef "Display" _ _) (d_display _) => apply S_display; assumption
  | |- acc _ _ _ _ (SRef "Scope" _ _) (describe _) => apply S_data; [assumption | lia]
  end.

Lemma S_signal n g :
  id_ok (sg_id g) = true -> odisplay_ok (sg_display g) = true -> cgood_scope jor (sg_data g) ->
  (tfuel (sg_data g) <= n)%nat ->
  A (4 + n) (sobj "Signal") (d_signal g).
Proof.
  intros Hid Hd Hs Hle. destruct g as [id data disp]. cbn [sg_id sg_data sg_display] in *. unfold d_signal.
  cbn [sg_id sg_data sg_display].
  destruct disp as [disp|]; cbn [ofield app] in *; open_sobj "Signal"; prop_split; leaf.
Qed.

Lemma S_output n o :
  odisplay_ok (so_display o) = true -> cgood_scope jor (so_schema o) -> (tfuel (so_schema o) <= n)%nat ->
  A (4 + n) (sobj "StepOutput") (d_output o).
Proof.
  intros Hd Hs Hle. destruct o as [sc disp er]. cbn [so_schema so_display so_error] in *. unfold d_output.
  cbn [so_schema so_display so_error].
  destruct disp as [disp|]; cbn [ofield app] in *; open_sobj "StepOutput"; prop_split; leaf.
Qed.

Lemma S_signals n l dd :
  Forall (cgood_signal jor) l -> (forall kg, In kg l -> (tfuel (sg_data (snd kg)) <= n)%nat) ->
  A (6 + n) (SMap tab_id_type (SRef "Signal" "" dd) None None) (d_signals l).
Proof.
  intros Hl Hn. unfold d_signals. apply acc_map; [reflexivity|]. apply Forall_forall. intros kv Hkv.
  apply in_map_iff in Hkv. destruct Hkv as (kg & <- & Hin). cbn [fst snd].
  rewrite Forall_forall in Hl. destruct (Hl kg Hin) as (Hk & Hid & Hd & Hs). split.
  - apply (A_id words pu schema_objs jor). exact Hk.
  - apply S_ref; [vm_compute; reflexivity|]. apply S_signal; try assumption. apply Hn. exact Hin.
Qed.

Lemma S_step n ks : cgood_step jor ks -> (step_fuel (snd ks) <= n)%nat ->
  A (7 + n) (sobj "Step") (d_step (snd ks)).
Proof.
  intros (Hk & Hid & Hd & Hin & Hout & Hsh & Hse) Hle. destruct ks as [key st]. cbn [fst snd] in *.
  destruct st as [id input outs sh se disp]. cbn [st_id st_input st_outputs st_handlers st_emitters st_display] in *.
  unfold step_fuel, scopes_of_step in Hle. cbn [st_input st_outputs st_handlers st_emitters] in Hle.
  assert (Hi : (tfuel input <= n)%nat).
  { etransitivity; [|exact Hle]. apply lmax_ge. cbn [map]. left. reflexivity. }
  assert (Ho : forall ko, In ko outs -> (tfuel (so_schema (snd ko)) <= n)%nat).
  { intros ko Hko. etransitivity; [|exact Hle]. apply lmax_ge. cbn [map]. right. rewrite !map_app.
    apply in_or_app. left. rewrite map_map. apply in_map_iff. exists ko. split; [reflexivity | exact Hko]. }
  assert (Hh : forall kg, In kg sh -> (tfuel (sg_data (snd kg)) <= n)%nat).
  { intros kg Hkg. etransitivity; [|exact Hle]. apply lmax_ge. cbn [map]. right. rewrite !map_app.
    apply in_or_app. right. apply in_or_app. left. rewrite map_map. apply in_map_iff. exists kg. split; [reflexivity | exact Hkg]. }
  assert (He : forall kg, In kg se -> (tfuel (sg_data (snd kg)) <= n)%nat).
  { intros kg Hkg. etransitivity; [|exact Hle]. apply lmax_ge. cbn [map]. right. rewrite !map_app.
    apply in_or_app. right. apply in_or_app. right. rewrite map_map. apply in_map_iff. exists kg. split; [reflexivity | exact Hkg]. }
  unfold d_step. cbn [st_id st_input st_outputs st_handlers st_emitters st_display].
  destruct disp as [disp|]; cbn [ofield app] in *; open_sobj "Step"; prop_split;
    first [ leaf
          | apply S_signals; assumption
          | (apply acc_map; [reflexivity|]; apply Forall_forall; intros kv Hkv; apply in_map_iff in Hkv;
             destruct Hkv as (ko & <- & Hko); cbn [fst snd];
             rewrite Forall_forall in Hout; destruct (Hout ko Hko) as (Hok & Hod & Hos); split;
             [ apply (A_id words pu schema_objs jor); exact Hok
             | apply S_ref; [vm_compute; reflexivity|]; apply S_output; [assumption | assumption | apply Ho; exact Hko] ]) ].
Qed.

Theorem plugin_table_accepts p : cgood_plugin jor p ->
  A (plugin_fuel p) (sobj "Schema") (describe_plugin p).
Proof.
  intros Hp. unfold describe_plugin, plugin_fuel.
  open_sobj "Schema"; prop_split.
  apply acc_map; [reflexivity|]. apply Forall_forall. intros kv Hkv. apply in_map_iff in Hkv.
  destruct Hkv as (ks & <- & Hin). cbn [fst snd]. unfold cgood_plugin in Hp. rewrite Forall_forall in Hp.
  pose proof (Hp ks Hin) as Hs. split.
  - destruct Hs as (Hk & _). apply (A_id words pu schema_objs jor). exact Hk.
  - apply S_ref; [vm_compute; reflexivity|].
    eapply acc_weaken; [apply (S_step (lmax (map (fun ks => step_fuel (snd ks)) p))); [exact Hs|] | lia].
    apply lmax_ge. apply in_map_iff. exists ks. split; [reflexivity | exact Hin].
Qed.
End Plugin.

Lemma schema_root_obj : alookup schema_root schema_objs = Some (sobj "Schema").
Proof. vm_compute. reflexivity. Qed.

Theorem plugin_description_accepted words pu jor p :
  cgood_plugin jor p ->
  forall f, (S (plugin_fuel p) <= f)%nat ->
  exists x, unser words pu f (mkEnv [] [] jor) meta_schema_scope (describe_plugin p) = Ok x.
Proof.
  intros Hg. rewrite meta_schema_scope_eq.
  change (acc words pu (mkEnv [] [] jor) (S (plugin_fuel p)) (SScope schema_objs schema_root) (describe_plugin p)).
  apply (acc_scope words pu (mkEnv [] [] jor) schema_objs schema_root (sobj "Schema") (plugin_fuel p)).
  - exact schema_root_obj.
  - exact (plugin_table_accepts words pu jor p Hg).
Qed.
