(* Proofs/C17Order.v — Go iterates maps in random order: the entries of a map value, the properties
   present in an object given as a map, the entries of a map inside an `any` value.  With a single
   fault (every other entry acceptable) the reported error - path included - is the same for every
   order of the entries.  (Unserialize through a map: Proofs/C17.v map_order_irrelevant_unser.) *)
From Coq Require Import Permutation Bool Lia.
From Verif Require Import Base.Prelude Base.Str Base.Float Base.GoVal
  Schema.Regex Schema.Units Schema.Syntax Schema.Ops Proofs.C02Containers Proofs.C17 Proofs.C17Object
  Proofs.C02Any Proofs.C17Any.
Open Scope Z_scope.
Open Scope list_scope.

(* ---------- presence does not depend on the order ---------- *)
Lemma amem_in {A} k (l : list (string * A)) : amem k l = true <-> In k (map fst l).
Proof.
  unfold amem. induction l as [|[k0 v0] t IH]; cbn [alookup map fst In].
  - split; [discriminate | intros []].
  - destruct (String.eqb_spec k k0) as [->|Hne].
    + split; [intros _; left; reflexivity | reflexivity].
    + rewrite IH. split; [intro H; right; exact H | intros [H|H]; [exfalso; apply Hne; symmetry; exact H | exact H]].
Qed.

Lemma amem_perm {A} k (l l' : list (string * A)) : Permutation l l' -> amem k l = amem k l'.
Proof.
  intro Hp. apply Bool.eq_true_iff_eq. rewrite !amem_in. split; intro H.
  - eapply Permutation_in; [apply Permutation_map; exact Hp | exact H].
  - eapply Permutation_in; [apply Permutation_map; apply Permutation_sym; exact Hp | exact H].
Qed.

Lemma existsb_ext' {A} (f g : A -> bool) l : (forall x, f x = g x) -> existsb f l = existsb g l.
Proof. intro H. induction l as [|a t IH]; cbn [existsb]; [reflexivity | rewrite H, IH; reflexivity]. Qed.

Lemma check_prop_rules_ext s1 s2 name p : (forall k, s1 k = s2 k) ->
  check_prop_rules s1 name p = check_prop_rules s2 name p.
Proof.
  intro H. unfold check_prop_rules.
  rewrite (H name), (existsb_ext' s1 s2 (p_conflicts p) H), (existsb_ext' s1 s2 (p_required_if p) H).
  destruct (p_required_if_not p) as [|a l]; [reflexivity|].
  rewrite (existsb_ext' s1 s2 (a :: l) H). reflexivity.
Qed.

Lemma check_rules_ext props s1 s2 : (forall k, s1 k = s2 k) -> check_rules props s1 = check_rules props s2.
Proof.
  intro H. unfold check_rules. induction props as [|np t IH]; cbn [forM_]; [reflexivity|].
  rewrite (check_prop_rules_ext s1 s2 (fst np) (snd np) H), IH. reflexivity.
Qed.

Section WithTables.
Variable words : list (string * bool).
Variable pu : units -> string -> option fl.
Notation validate := (validate words pu).

Theorem map_order_irrelevant_validate : forall e f ks vs mn mx t nl kvs1 k x kvs2 kvs' er,
  size_ok mn mx (zlen (kvs1 ++ (k, x) :: kvs2)) = true ->
  Forall (ventry_ok words pu f e ks vs) kvs1 -> Forall (ventry_ok words pu f e ks vs) kvs2 ->
  (validate f e ks k = Err er \/ validate f e ks k = Ok tt /\ validate f e vs x = Err er) ->
  Permutation (kvs1 ++ (k, x) :: kvs2) kvs' ->
  validate (S f) e (SMap ks vs mn mx) (VMap t nl kvs') =
  validate (S f) e (SMap ks vs mn mx) (VMap t nl (kvs1 ++ (k, x) :: kvs2)).
Proof.
  intros e f ks vs mn mx t nl kvs1 k x kvs2 kvs' er Hs H1 H2 Hx Hp.
  destruct (perm_split_entry _ (k, x) kvs1 kvs2 kvs' Hp H1 H2) as (m1 & m2 & -> & M1 & M2).
  assert (Hs' : size_ok mn mx (zlen (m1 ++ (k, x) :: m2)) = true) by (rewrite <- (zlen_perm _ _ Hp); exact Hs).
  destruct Hx as [Hk | [Hk Hv]].
  - rewrite (validate_map_key_error words pu f e ks vs mn mx t nl m1 k x m2 er Hs' M1 Hk).
    rewrite (validate_map_key_error words pu f e ks vs mn mx t nl kvs1 k x kvs2 er Hs H1 Hk). reflexivity.
  - rewrite (validate_map_value_error words pu f e ks vs mn mx t nl m1 k x m2 er Hs' M1 Hk Hv).
    rewrite (validate_map_value_error words pu f e ks vs mn mx t nl kvs1 k x kvs2 er Hs H1 Hk Hv). reflexivity.
Qed.

(* the properties present in an object given as a map[string]any *)
Theorem object_order_irrelevant_validate : forall e f id un props r1 name x r2 r' p er,
  check_rules props (fun k => amem k (r1 ++ (name, x) :: r2)) = Ok tt ->
  Forall (prop_ok words pu f e props) r1 -> Forall (prop_ok words pu f e props) r2 ->
  alookup name props = Some p -> validate f e (p_type p) x = Err er ->
  Permutation (r1 ++ (name, x) :: r2) r' ->
  validate (S f) e (SObject id un props) (raw_to_val r') =
  validate (S f) e (SObject id un props) (raw_to_val (r1 ++ (name, x) :: r2)).
Proof.
  intros e f id un props r1 name x r2 r' p er Hr H1 H2 Hp Hx Hperm.
  destruct (perm_split_entry _ (name, x) r1 r2 r' Hperm H1 H2) as (m1 & m2 & -> & M1 & M2).
  assert (Hr' : check_rules props (fun k => amem k (m1 ++ (name, x) :: m2)) = Ok tt).
  { rewrite <- Hr. apply check_rules_ext. intro k. symmetry. apply amem_perm. exact Hperm. }
  rewrite (validate_object_prop_error words pu f e id un props m1 name x m2 p er Hr' M1 Hp Hx).
  rewrite (validate_object_prop_error words pu f e id un props r1 name x r2 p er Hr H1 Hp Hx). reflexivity.
Qed.

End WithTables.

(* a map inside an `any` value *)
Theorem any_map_order_irrelevant : forall f t nl kvs1 k x kvs2 kvs' er,
  kind_of_type t = KMap ->
  Forall (any_entry_ok (any_conv f)) kvs1 -> Forall (any_entry_ok (any_conv f)) kvs2 ->
  (any_conv f k = Err er \/ (exists k', any_conv f k = Ok k') /\ any_conv f x = Err er) ->
  Permutation (kvs1 ++ (k, x) :: kvs2) kvs' ->
  any_conv (S f) (VMap t nl kvs') = any_conv (S f) (VMap t nl (kvs1 ++ (k, x) :: kvs2)).
Proof.
  intros f t nl kvs1 k x kvs2 kvs' er Hk H1 H2 Hx Hp.
  destruct (perm_split_entry _ (k, x) kvs1 kvs2 kvs' Hp H1 H2) as (m1 & m2 & -> & M1 & M2).
  destruct Hx as [He | [(k' & Hkk) He]].
  - rewrite (any_map_key_error f t nl m1 k x m2 er Hk M1 He).
    rewrite (any_map_key_error f t nl kvs1 k x kvs2 er Hk H1 He). reflexivity.
  - rewrite (any_map_value_error f t nl m1 k k' x m2 er Hk M1 Hkk He).
    rewrite (any_map_value_error f t nl kvs1 k k' x kvs2 er Hk H1 Hkk He). reflexivity.
Qed.
