(* Proofs/XTerm.v — termination of the struct-mapped operations of Schema/XOps.v on the class of
   NON-RECURSIVE schemas: the schema, unfolded through its references exactly the way the operations walk it
   (XRef -> resolved target in the target's environment, XScope -> root object in the entered scope), has
   finite height.  `xnr K n e s` = that height is < n, every object has distinct property names, and every
   declared default decodes to a value of depth <= K.  On this class every call of the five mutually
   recursive functions goes to a strictly lower node except the hops on the same node (serialize -> validate,
   compat -> unserialize / validate / oneof_find) and Any (bounded by the depth of the value); sub-object
   default propagation (xsub_defaults: the D52 loop) descends one node per call, and the values it merges
   have depth <= K + n.  No chain / inline-cycle argument is needed: D11, D50 and D52 are all recursive. *)
From Coq Require Import Lia.
From Verif Require Import Base.Prelude Base.Str Base.Float Base.GoVal Base.XReflect
  Schema.Regex Schema.Units Schema.Syntax Schema.Ops Schema.Wf Schema.Total Schema.XSyntax Schema.XOps Schema.XWf
  Proofs.MonoEq Proofs.C04Inv Proofs.OpsEq Proofs.C04NoPanic Proofs.C04Term Proofs.XOpsEq
  Proofs.XStruct Proofs.XTotal Proofs.XExamples.
Open Scope string_scope.

(* ---------- the class ---------- *)
Definition xdflt_depth_ok (K : nat) (o : oracles) (p : xproperty) : bool :=
  match p_default p with
  | Some txt => match xdecode_default o p txt with
                | Some d => Nat.leb (vdepth d) K
                | None => true
                end
  | None => true
  end.

Fixpoint xnr (K : nat) (n : nat) (e : xenv) (s : xschema) {struct n} : bool :=
  match n with
  | O => false
  | S m =>
    match s with
    | XList it _ _ => xnr K m e it
    | XMap k v _ _ => xnr K m e k && xnr K m e v
    | XObject _ _ props _ =>
        nodup_str (map fst props) &&
        forallb (fun np => xnr K m e (p_type (snd np)) && xdflt_depth_ok K (xe_or e) (snd np)) props
    | XOneOf types _ _ _ => forallb (fun ks => xnr K m e (snd ks)) types
    | XRef id ns _ => match xresolve e id ns with Some (o, e') => xnr K m e' o | None => true end
    | XScope objs root => match alookup root objs with Some o => xnr K m (xenv_enter e objs) o | None => true end
    | _ => true
    end
  end.

(* number of schema nodes: the bound within which the unfolding must close *)
Fixpoint xsize (s : xschema) : nat :=
  match s with
  | XList it _ _ => S (xsize it)
  | XMap k v _ _ => S (xsize k + xsize v)
  | XObject _ _ props _ => S (fold_right (fun np acc => xsize (p_type (snd np)) + acc)%nat O props)
  | XOneOf types _ _ _ => S (fold_right (fun ks acc => xsize (snd ks) + acc)%nat O types)
  | XScope objs _ => S (fold_right (fun io acc => xsize (snd io) + acc)%nat O objs)
  | _ => 1%nat
  end.
Definition xtab_size (t : xobjtab) : nat := fold_right (fun io acc => xsize (snd io) + acc)%nat O t.
Definition xnr_fuel (e : xenv) (s : xschema) : nat :=
  (2 + xsize s + xtab_size (xe_self e) + fold_right (fun nt acc => xtab_size (snd nt) + acc)%nat O (xe_ext e))%nat.

Definition xnonrec (K : nat) (e : xenv) (s : xschema) : bool := xnr K (xnr_fuel e s) e s.
Definition xterminating_nr (K : nat) (e : xenv) (s : xschema) : bool := xwf e s && xnonrec K e s.
Definition xfuel_bound_nr (K : nat) (e : xenv) (s : xschema) (v : gval) : nat :=
  (4 * xnr_fuel e s + Nat.max (vdepth v) (K + xnr_fuel e s) + 3)%nat.

(* ---------- generic pieces ---------- *)
Lemma fin_xcheck_rules {S} (props : list (string * property_ S)) set : fin (xcheck_rules props set).
Proof. unfold xcheck_rules. apply fin_forM. intros np0 _. unfold xcheck_prop_rules. fin_scalar. Qed.

Lemma fin_xto_struct e si r : fin (xto_struct e si r).
Proof. unfold xto_struct. cbv zeta. fin_scalar. Qed.

Ltac xfin_leaf := first [ fin_leaf | apply fin_xcheck_rules | apply fin_xto_struct ].

Ltac destr_in H :=
  repeat match type of H with
         | match ?d with _ => _ end = _ => destruct d eqn:?; try discriminate
         end.
Ltac inv_ok H := cbv beta iota in H; inversion H; subst.

(* Proofs/C04Term.v defines these inside its section *)
Lemma xis_sam_vmap t b l kvs : is_str_any_map (VMap t b l) = Some kvs -> kvs = l.
Proof. unfold is_str_any_map. destruct (gtype_eqb t t_str_map); [|discriminate]. intros H; now inversion H. Qed.
Lemma xclone_depth t b kvs (inld : bool) fld d :
  (vdepth (VMap t b kvs) <= d)%nat ->
  (vdepth (VMap t_str_map false (if inld then kvs else smap_del fld kvs)) <= d)%nat.
Proof.
  intros H. eapply Nat.le_trans; [apply (vdepth_map_sub t b kvs)|exact H].
  destruct inld; [auto | apply smap_del_sub].
Qed.
Ltac shape_hyps :=
  repeat match goal with
         | H : is_str_any_map (VMap _ _ ?l) = Some ?kvs |- _ => apply xis_sam_vmap in H; subst kvs
         | H : is_str_any_map ?v = Some ?kvs |- _ =>
             is_var v; let t0 := fresh "t" in let b0 := fresh "b" in
             apply is_str_any_map_some in H as (t0 & b0 & ->)
         end.
Ltac depth_tac :=
  shape_hyps; depth_hyps;
  repeat match goal with
         | Hin : In ?kv (raw_of_entries ?kvs), Hd : context [VMap ?t ?b ?kvs] |- _ =>
             lazymatch goal with
             | _ : (vdepth (snd kv) < vdepth (VMap t b kvs))%nat |- _ => fail
             | _ => pose proof (raw_entries_depth t b kvs kv Hin)
             end
         end;
  cbn [vdepth fst snd] in *; lia.

Lemma fold_bind_stuck {A B} (g : B -> A -> outcome B) l : forall acc,
  (forall a, acc <> Ok a) -> fold_left (fun acc x => a <- acc ;; g a x) l acc = acc.
Proof.
  induction l as [|x t IH]; intros acc Hn; cbn [fold_left]; [reflexivity|].
  destruct acc as [a| | |]; [exfalso; eapply Hn; reflexivity| | |]; cbn [bind]; apply IH; intros; discriminate.
Qed.

Lemma fold_bind_inv {A B} (P : B -> Prop) (g : B -> A -> outcome B) l : forall a0 r,
  P a0 -> (forall a x a', In x l -> P a -> g a x = Ok a' -> P a') ->
  fold_left (fun acc x => a <- acc ;; g a x) l (Ok a0) = Ok r -> P r.
Proof.
  induction l as [|x t IH]; intros a0 r H0 Hs H; cbn [fold_left] in H.
  - inversion H; subst; exact H0.
  - cbn [bind] in H. destruct (g a0 x) as [a1| | |] eqn:E.
    + eapply (IH a1); [eapply Hs; [now left | exact H0 | exact E] | intros; eapply Hs; eauto; now right | exact H].
    + rewrite fold_bind_stuck in H by (intros; discriminate). discriminate.
    + rewrite fold_bind_stuck in H by (intros; discriminate). discriminate.
    + rewrite fold_bind_stuck in H by (intros; discriminate). discriminate.
Qed.

(* the present-properties fold of Unserialize, for any property payload (Proofs/C04Term.v fin_props_fold) *)
Lemma xfin_props_fold {S} (G : string * property_ S -> gval -> outcome gval) :
  forall (rest : list (string * property_ S)) (a0 : raw) acc,
  nodup_str (map fst rest) = true ->
  fin acc ->
  (forall a, acc = Ok a -> forall np, In np rest -> alookup (fst np) a = alookup (fst np) a0) ->
  (forall np d0, In np rest -> alookup (fst np) a0 = Some d0 -> fin (G np d0)) ->
  fin (fold_left (fun acc np =>
                    a <- acc ;;
                    match alookup (fst np) a with
                    | Some d0 => x <- seg (fst np) (G np d0) ;; Ok (raw_set (fst np) x a)
                    | None => Ok a
                    end) rest acc).
Proof.
  induction rest as [|np t IH]; intros a0 acc Hnd Hacc Hlook HG; cbn [fold_left]; [exact Hacc|].
  cbn [map] in Hnd. apply nodup_str_in in Hnd as [Hnin Hnd].
  apply (IH a0); [exact Hnd| | |].
  - apply fin_bind; [exact Hacc|]. intros a Ha.
    destruct (alookup (fst np) a) as [d0|] eqn:El; [|exact I].
    apply fin_bind; [|intros; exact I]. apply fin_map_err. apply HG; [now left|].
    rewrite <- (Hlook a Ha np (or_introl eq_refl)). exact El.
  - intros a' Ha' np2 Hin2.
    destruct acc as [a| | |]; cbn [bind] in Ha'; try discriminate.
    assert (Hne : fst np <> fst np2).
    { intros Heq. rewrite Heq in Hnin. rewrite (str_in_In (fst np2) (map fst t)) in Hnin; [discriminate|].
      now apply in_map. }
    rewrite <- (Hlook a eq_refl np2 (or_intror Hin2)).
    destruct (alookup (fst np) a) as [d0|] eqn:El.
    + destruct (seg (fst np) (G np d0)) as [x| | |]; cbn [bind] in Ha'; try discriminate.
      inversion Ha'; subst a'. now apply alookup_raw_set_other.
    + inversion Ha'; subst a'. reflexivity.
  - intros np2 d0 Hin2. apply HG. now right.
Qed.

(* ---------- depth of the values held in a raw map ---------- *)
Definition raw_le (D : nat) (r : raw) : Prop := forall k d, In (k, d) r -> (vdepth d <= D)%nat.

Lemma raw_le_nil D : raw_le D [].
Proof. intros k d []. Qed.

Lemma raw_le_snoc D r k v : raw_le D r -> (vdepth v <= D)%nat -> raw_le D (r ++ [(k, v)])%list.
Proof.
  intros Hr Hv k0 d0 Hin. apply in_app_or in Hin as [Hin|[Heq|[]]]; [eapply Hr; eauto|].
  inversion Heq; subst; exact Hv.
Qed.

Lemma raw_le_set D k v r : raw_le D r -> (vdepth v <= D)%nat -> raw_le D (raw_set k v r).
Proof.
  intros Hr Hv. unfold raw_set. destruct (amem k r).
  - intros k0 d0 Hin. apply in_map_iff in Hin as [[k1 d1] [Heq Hin]]. cbn [fst] in Heq.
    destruct (String.eqb k1 k); inversion Heq; subst; [exact Hv | eapply Hr; eauto].
  - apply raw_le_snoc; assumption.
Qed.

Lemma raw_le_lookup D r k d : raw_le D r -> alookup k r = Some d -> (vdepth d <= D)%nat.
Proof. intros Hr Hl. apply alookup_in in Hl. eapply Hr; eauto. Qed.

Lemma vdepth_raw_to_val D r : (1 <= D)%nat -> raw_le D r -> (vdepth (raw_to_val r) <= S D)%nat.
Proof.
  intros HD Hr. unfold raw_to_val. cbn [vdepth]. apply le_n_S.
  apply (fold_max_le (fun kv => Nat.max (vdepth (fst kv)) (vdepth (snd kv)))).
  intros x Hin. apply in_map_iff in Hin as [[k d] [Heq Hin]]. subst x. cbn [fst snd vstr vdepth].
  pose proof (Hr k d Hin). cbn [vdepth]. lia.
Qed.

Lemma raw_entries_le D d kvs : is_str_any_map d = Some kvs -> (vdepth d <= S D)%nat -> raw_le D (raw_of_entries kvs).
Proof.
  intros Hs Hd. apply is_str_any_map_some in Hs as (t & b & ->).
  intros k0 d0 Hin. pose proof (raw_entries_depth t b kvs (k0, d0) Hin) as H. cbn [snd] in H. lia.
Qed.

Lemma r0_le D kvs {S} (props : list (string * property_ S)) : forall (acc0 : raw) r0,
  raw_le D acc0 -> (forall kv, In kv kvs -> (vdepth (snd kv) <= D)%nat) ->
  fold_left (fun acc kv =>
               a <- acc ;;
               match fst kv with
               | VStr TStr k => if amem k props then Ok (a ++ [(k, snd kv)])%list else Err (cerr EKey)
               | _ => Err (cerr EKey)
               end) kvs (Ok acc0) = Ok r0 ->
  raw_le D r0.
Proof.
  intros acc0 r0 H0 Hk H.
  refine (fold_bind_inv (raw_le D) _ _ _ _ H0 _ H).
  intros a kv a' Hin Ha Hst. cbv beta in Hst.
  destr_in Hst. inversion Hst; subst.
  apply raw_le_snoc; [exact Ha | apply Hk; exact Hin].
Qed.

Lemma get_path_depth : forall idx v first r, get_path v idx first = Some r -> (vdepth r <= vdepth v)%nat.
Proof.
  induction idx as [|i rest IH]; intros v first r H; cbn [get_path] in H.
  - inversion H; subst; lia.
  - assert (Hn : forall fs fv, nth_field fs i = Some fv ->
                   (vdepth fv <= fold_right (fun nv acc => Nat.max (vdepth (snd nv)) acc) O fs)%nat).
    { clear. induction i as [|j IHj]; intros fs fv Hn; destruct fs as [|[n0 v0] t]; cbn [nth_field] in Hn; try discriminate;
        cbn [fold_right snd].
      - inversion Hn; subst. lia.
      - specialize (IHj t fv Hn). lia. }
    assert (Hs : forall t fs, (match nth_field fs i with Some fv => get_path fv rest false | None => None end) = Some r ->
                   (vdepth r <= vdepth (VStruct t fs))%nat).
    { intros t fs Hm. destruct (nth_field fs i) as [fv|] eqn:En; [|discriminate].
      apply IH in Hm. apply Hn in En. cbn [vdepth]. lia. }
    destruct first; cbv beta iota in H.
    + destruct v; cbv beta iota in H; try discriminate. eapply Hs; exact H.
    + destruct v; cbv beta iota in H; try discriminate; try (eapply Hs; exact H).
      match type of H with match match ?o with _ => _ end with _ => _ end = _ => destruct o as [x|] end;
        cbv beta iota in H; [|discriminate].
      destruct x; cbv beta iota in H; try discriminate.
      pose proof (Hs TBool _ H). cbn [vdepth] in *. lia.
Qed.

Lemma xextract_depth b fr sv value vt : xextract b fr sv = Some (value, vt) -> (vdepth value <= vdepth sv)%nat.
Proof.
  unfold xextract. intros H. destruct (get_path sv (fr_nidx fr) true) as [val|] eqn:Eg; [|discriminate].
  apply get_path_depth in Eg.
  repeat match type of H with
         | match ?d with _ => _ end = _ => destruct d; try discriminate
         end;
  inversion H; subst; cbn [vdepth] in *; lia.
Qed.

Lemma xstruct_arg_depth si v sv : xstruct_arg si v = Some sv -> (vdepth sv <= vdepth v)%nat.
Proof.
  unfold xstruct_arg. intros H.
  repeat match type of H with
         | match ?d with _ => _ end = _ => destruct d; try discriminate
         end;
  inversion H; subst; cbn [vdepth] in *; lia.
Qed.

(* ---------- inversion of the class ---------- *)
Section XTerm.
Variable words : list (string * bool).
Variable pu : units -> string -> option fl.
Variable K : nat.

Notation xunser := (xunser words pu).
Notation xvalidate := (xvalidate words pu).
Notation xserialize := (xserialize words pu).
Notation xcompat := (xcompat words pu).
Notation xoneof_find := (xoneof_find words pu).

Lemma xnr_pos n e s : xnr K n e s = true -> (1 <= n)%nat.
Proof. destruct n; cbn [xnr]; intros H; [discriminate H | lia]. Qed.

Lemma xnr_S_obj n e id un props mp : xnr K (S n) e (XObject id un props mp) = true ->
  nodup_str (map fst props) = true /\
  forall np, In np props -> xnr K n e (p_type (snd np)) = true /\ xdflt_depth_ok K (xe_or e) (snd np) = true.
Proof.
  cbn [xnr]. intros H. apply andb_prop in H as [H1 H2]. split; [exact H1|].
  rewrite forallb_forall in H2. intros np Hin. apply andb_prop. apply H2, Hin.
Qed.

Lemma xnr_member n e types ik fld inl k mb : xnr K (S n) e (XOneOf types ik fld inl) = true ->
  In (k, mb) types -> xnr K n e mb = true.
Proof. cbn [xnr]. intros H Hin. rewrite forallb_forall in H. apply (H (k, mb) Hin). Qed.

Lemma xsub_object_nr n e t o e' : xnr K n e t = true -> xsub_object e t = Ok (Some (o, e')) ->
  exists n', (n' <= n)%nat /\ xnr K n' e' o = true.
Proof.
  intros Hnr H. destruct n as [|n]; [cbn [xnr] in Hnr; discriminate|].
  destruct t; cbn [xsub_object] in H; try discriminate.
  - inversion H; subst. exists (S n). split; [lia | exact Hnr].
  - cbn [xnr] in Hnr. destruct (xresolve e id ns) as [[o1 e1]|]; [|discriminate].
    inversion H; subst. exists n. split; [lia | exact Hnr].
Qed.

Lemma dflt_fold_le D (o : oracles) (props : list (string * property_ xschema)) : forall (r0 : raw),
  raw_le D r0 ->
  (forall np : string * property_ xschema, In np props -> xdflt_depth_ok K o (snd np) = true) -> (K <= D)%nat ->
  raw_le D (fold_left (fun a np =>
                         if amem (fst np) a then a
                         else match p_default (snd np) with
                              | Some txt => match xdecode_default o (snd np) txt with
                                            | Some d => (a ++ [(fst np, d)])%list
                                            | None => a
                                            end
                              | None => a
                              end) props r0).
Proof.
  induction props as [|np t IH]; intros r0 Hr Hd HK; cbn [fold_left]; [exact Hr|].
  apply IH; [| intros; apply Hd; now right | exact HK].
  pose proof (Hd np (or_introl eq_refl)) as Hnp. unfold xdflt_depth_ok in Hnp. cbv beta.
  match goal with |- context [if ?c then _ else _] => destruct c end; [exact Hr|].
  match type of Hnp with match ?c with _ => _ end = _ => destruct c as [txt|] end; [|exact Hr].
  match type of Hnp with match ?c with _ => _ end = _ => destruct c as [d|] end; [|exact Hr].
  apply Nat.leb_le in Hnp. apply raw_le_snoc; [exact Hr | lia].
Qed.

(* ---------- sub-object default propagation: terminates, and what it merges is shallow ---------- *)
Lemma fin_xsub_defaults : forall f n e pid p r,
  xnr K n e (p_type p) = true -> (n <= f)%nat -> fin (xsub_defaults f e pid p r).
Proof.
  induction f as [|f IH]; intros n e pid p r Hnr Hle.
  { apply xnr_pos in Hnr. lia. }
  cbn [xsub_defaults]. cbv beta iota zeta.
  assert (Hso : fin (xsub_object e (p_type p))) by (unfold xsub_object; fin_scalar).
  destruct (xsub_object e (p_type p)) as [so| | |] eqn:Eso; cbn [bind]; try exact I; [|exact Hso].
  destruct so as [[o e']|]; [|exact I]. destruct o; try exact I.
  destruct (xsub_object_nr _ _ _ _ _ Hnr Eso) as (n' & Hn' & Hnr').
  destruct n' as [|m']; [cbn [xnr] in Hnr'; discriminate|]. apply xnr_S_obj in Hnr' as [Hnd Hprops].
  cbv beta iota zeta.
  repeat fin_step ltac:(idtac;
    match goal with
    | |- fin (xsub_defaults _ _ _ _ _) => eapply (IH m'); [apply Hprops; assumption | lia]
    end).
Qed.

Lemma xsub_defaults_le : forall f n e pid p r r' D,
  xnr K n e (p_type p) = true -> (K + n < D)%nat ->
  raw_le D r -> xsub_defaults f e pid p r = Ok r' -> raw_le D r'.
Proof.
  induction f as [|f IH]; intros n e pid p r r' D Hnr HD Hr H; [discriminate|].
  cbn [xsub_defaults] in H. cbv beta iota zeta in H.
  destruct (xsub_object e (p_type p)) as [so| | |] eqn:Eso; cbn [bind] in H; try discriminate.
  destruct so as [[o e']|]; [|inv_ok H; exact Hr].
  destruct o as [ | | | | | | | | | | oid oun props mapped | | | ]; try (inv_ok H; exact Hr).
  destruct (xsub_object_nr _ _ _ _ _ Hnr Eso) as (n' & Hn' & Hnr').
  destruct n' as [|m']; [cbn [xnr] in Hnr'; discriminate|]. apply xnr_S_obj in Hnr' as [Hnd Hprops].
  assert (Hgen : forall data0, raw_le (D - 1) data0 ->
            (data2 <- fold_left (fun acc np => a <- acc ;; xsub_defaults f e' (fst np) (snd np) a) props
                        (Ok (fold_left (fun a np =>
                             if amem (fst np) a then a
                             else match p_default (snd np) with
                                  | Some txt => match xdecode_default (xe_or e') (snd np) txt with
                                                | Some d => (a ++ [(fst np, d)])%list
                                                | None => a
                                                end
                                  | None => a
                                  end) props data0)) ;;
             match data2 with
             | [] => Ok r
             | _ => Ok (raw_set pid (raw_to_val data2) r)
             end) = Ok r' -> raw_le D r').
  { intros data0 H0 HH.
    match type of HH with bind ?X _ = _ => destruct X as [data2| | |] eqn:Efold end; cbn [bind] in HH; try discriminate.
    assert (H2 : raw_le (D - 1) data2).
    { refine (fold_bind_inv (raw_le (D - 1)) _ _ _ _ _ _ Efold).
      - apply dflt_fold_le; [exact H0 | intros np Hin; apply Hprops; exact Hin | lia].
      - intros a np a' Hin Ha Hstep.
        eapply (IH m' e' (fst np) (snd np) a a' (D - 1)%nat); [apply Hprops; exact Hin | lia | exact Ha | exact Hstep]. }
    destruct data2 as [|p0 data2]; inv_ok HH; [exact Hr|].
    apply raw_le_set; [exact Hr|].
    pose proof (vdepth_raw_to_val (D - 1) (p0 :: data2) ltac:(lia) H2). lia. }
  cbv beta iota zeta in H.
  destruct (match mapped with Some si => si_ptr si | None => false end); [inv_ok H; exact Hr|].
  destruct (alookup pid r) as [d|] eqn:El.
  - destruct (is_str_any_map d) as [kvs|] eqn:Esam; [|inv_ok H; exact Hr].
    apply (Hgen (raw_of_entries kvs)); [|exact H].
    eapply raw_entries_le; [exact Esam|]. pose proof (raw_le_lookup _ _ _ _ Hr El). lia.
  - apply (Hgen []); [apply raw_le_nil | exact H].
Qed.

(* ---------- Any in data-mode compatibility: bounded by the depth of the value ---------- *)
Lemma fin_xcompat_any : forall f e v, (vdepth v + 1 < f)%nat -> fin (xcompat f e XAny v).
Proof.
  induction f as [|f IH]; intros e v Hd; [lia|].
  rewrite (xcompat_S words pu). cbv beta iota zeta.
  assert (HA : forall v0, (vdepth v0 <= vdepth v)%nat -> fin (any_conv f v0)).
  { intros v0 H0. apply fin_any_conv. lia. }
  destruct v; try (apply fin_bind; [apply HA; lia | intros; exact I]).
  - repeat fin_step ltac:(first [ apply HA; lia | apply IH; depth_hyps; cbn [fst snd] in *; lia ]).
  - repeat fin_step ltac:(first [ apply HA; lia | apply IH; depth_hyps; cbn [fst snd] in *; lia ]).
Qed.

(* ---------- what oneof_find returns ---------- *)
Lemma xoneof_find_ok f e types ik fld inl v key member data' :
  xoneof_find f e types ik fld inl v = Ok (key, member, data') ->
  (exists k, In (k, member) types) /\ (vdepth data' <= vdepth v)%nat.
Proof.
  destruct f as [|f]; [discriminate|]. rewrite (xoneof_find_S words pu). cbv beta iota zeta. intros H.
  destruct v; cbn [kind_of] in H; try discriminate;
  repeat match type of H with
         | match ?d with _ => _ end = _ => destruct d eqn:?; try discriminate
         | bind ?d _ = _ => destruct d eqn:?; cbn [bind] in H; try discriminate
         end;
  inversion H; subst;
  match goal with
  | E : find _ _ = Some _ |- _ =>
      apply find_some in E as [E _];
      split; [eexists; exact E | first [lia | shape_hyps; eapply xclone_depth; apply le_n]]
  end.
Qed.

(* ---------- the main induction: on the height bound n ---------- *)
Definition xneed (n d off : nat) : nat := (4 * n + d + off)%nat.

Definition xterm_at (n : nat) : Prop :=
  forall d, (K + n <= d)%nat ->
  (forall f e s v, xnr K n e s = true -> (vdepth v <= d)%nat -> (xneed n d 0 <= f)%nat -> fin (xunser f e s v)) /\
  (forall f e s v, xnr K n e s = true -> (vdepth v <= d)%nat -> (xneed n d 1 <= f)%nat -> fin (xvalidate f e s v)) /\
  (forall f e types ik fld inl v, xnr K n e (XOneOf types ik fld inl) = true -> (vdepth v <= d)%nat ->
       (xneed n d 0 <= f)%nat -> fin (xoneof_find f e types ik fld inl v)) /\
  (forall f e s v, xnr K n e s = true -> (vdepth v <= d)%nat -> (xneed n d 2 <= f)%nat -> fin (xserialize f e s v)) /\
  (forall f e s v, xnr K n e s = true -> (vdepth v <= d)%nat -> (xneed n d 2 <= f)%nat -> fin (xcompat f e s v)).

Ltac xnr_tac Hprops :=
  match goal with
  | H : xnr K ?m ?e ?s = true |- xnr K ?m ?e ?s = true => exact H
  | Hin : In ?np ?props |- xnr K _ _ (p_type (snd ?np)) = true => apply Hprops; exact Hin
  | L : alookup ?k ?props = Some ?p |- xnr K _ _ (p_type ?p) = true =>
      apply (Hprops (k, p)); apply alookup_in; exact L
  end.

Ltac xchild_tac Cu Cv Cs Cc Hprops :=
  first [ eapply Cu | eapply Cv | eapply Cs | eapply Cc ]; [ xnr_tac Hprops | depth_tac ].

Ltac xmember_tac C Hnr Hv :=
  match goal with
  | E : find _ ?ts = Some (?k, ?mb) |- fin (_ _ _ ?mb _) =>
      apply find_some in E as [E _];
      eapply C; [ eapply xnr_member; [exact Hnr | exact E] | shape_hyps; eapply xclone_depth; exact Hv ]
  end.

Lemma xterm_all : forall n, xterm_at n.
Proof.
  induction n as [|m IH].
  { intros d _. repeat split; intros; exfalso;
      match goal with H : xnr K 0 _ _ = true |- _ => cbn [xnr] in H; discriminate end. }
  intros d HKd.
  destruct (IH d ltac:(lia)) as (Iu & Iv & Io & Is & Ic).
  (* calls one node down: every offset fits *)
  assert (Hch : forall f off, (xneed (S m) d off <= S f)%nat ->
            (forall e s v, xnr K m e s = true -> (vdepth v <= d)%nat -> fin (xunser f e s v)) /\
            (forall e s v, xnr K m e s = true -> (vdepth v <= d)%nat -> fin (xvalidate f e s v)) /\
            (forall e s v, xnr K m e s = true -> (vdepth v <= d)%nat -> fin (xserialize f e s v)) /\
            (forall e s v, xnr K m e s = true -> (vdepth v <= d)%nat -> fin (xcompat f e s v))).
  { intros f off Hn. unfold xneed in Hn. repeat split; intros e s v Hnr Hv;
      [apply Iu | apply Iv | apply Is | apply Ic]; auto; unfold xneed; lia. }
  (* ---------- oneof_find ---------- *)
  assert (HO : forall f e types ik fld inl v, xnr K (S m) e (XOneOf types ik fld inl) = true -> (vdepth v <= d)%nat ->
             (xneed (S m) d 0 <= f)%nat -> fin (xoneof_find f e types ik fld inl v)).
  { intros f e types ik fld inl v Hnr Hv Hn.
    destruct f as [|f]; [unfold xneed in Hn; lia|].
    destruct (Hch f 0%nat Hn) as (Cu & Cv & Cs & Cc).
    destruct (is_str_any_map v) as [kvs|] eqn:Esam.
    - destruct (is_str_any_map_some _ _ Esam) as (t0 & b0 & ->).
      rewrite (xoneof_find_S words pu); cbv beta iota zeta. cbn [kind_of]. rewrite Esam.
      repeat fin_step ltac:(idtac; xmember_tac Cc Hnr Hv).
    - rewrite (xoneof_find_S words pu); cbv beta iota zeta.
      repeat fin_step ltac:(congruence). }
  (* ---------- unserialize ---------- *)
  assert (HU : forall f e s v, xnr K (S m) e s = true -> (vdepth v <= d)%nat ->
             (xneed (S m) d 0 <= f)%nat -> fin (xunser f e s v)).
  { intros f e s v Hnr Hv Hn.
    destruct f as [|f]; [unfold xneed in Hn; lia|].
    destruct (Hch f 0%nat Hn) as (Cu & Cv & Cs & Cc).
    destruct s; rewrite (xunser_S words pu); cbv beta iota zeta; try xfin_leaf.
    - (* any *) apply fin_any_conv. unfold xneed in Hn. lia.
    - (* list *) cbn [xnr] in Hnr. repeat fin_step ltac:(xchild_tac Cu Cv Cs Cc I).
    - (* map *) cbn [xnr] in Hnr. apply andb_prop in Hnr as [Hnk Hnv].
      repeat fin_step ltac:(xchild_tac Cu Cv Cs Cc I).
    - (* object *)
      apply xnr_S_obj in Hnr as [Hnd Hprops].
      destruct v;
        try (destruct props as [|[name p] [|]]; try exact I;
             apply fin_bind; [apply fin_map_err; destruct (p_disabled p); [exact I|];
                              apply Cu; [apply (Hprops (name, p)); now left | exact Hv]
                             | intros; apply fin_bind; [apply fin_xcheck_rules | intros; destruct mapped; [apply fin_xto_struct | exact I]]]).
      (* the input is a map *)
      apply fin_bind; [repeat fin_step idtac|]. intros r0 Hr0.
      assert (Hr0d : raw_le d r0).
      { eapply r0_le; [apply raw_le_nil | | exact Hr0].
        intros kv Hin.
        match goal with Hv0 : (vdepth (VMap ?t0 ?b0 ?l0) <= d)%nat |- _ => pose proof (vdepth_map_in t0 b0 l0 kv Hin) end. lia. }
      match goal with |- fin (bind ?X _) => assert (Hfin1 : fin X) end.
      { destruct mapped; [|exact I].
        apply fin_fold; [exact I|]. intros a np Hin Ha. apply fin_bind; [exact Ha|]. intros a1 _.
        destruct (amem (fst np) r0); [exact I|].
        eapply fin_xsub_defaults; [apply Hprops; exact Hin|]. unfold xneed in Hn. lia. }
      apply fin_bind; [exact Hfin1|]. intros r1' Hr1'.
      assert (Hr1d : raw_le d r1').
      { assert (Hr1 : raw_le d (fold_left (fun a np =>
                        if amem (fst np) a then a
                        else match p_default (snd np) with
                             | Some txt => match xdecode_default (xe_or e) (snd np) txt with
                                           | Some d => (a ++ [(fst np, d)])%list
                                           | None => a
                                           end
                             | None => a
                             end) props r0)).
        { apply dflt_fold_le; [exact Hr0d | intros np Hin; apply Hprops; exact Hin | lia]. }
        destruct mapped; [|inv_ok Hr1'; exact Hr1].
        refine (fold_bind_inv (raw_le d) _ _ _ _ Hr1 _ Hr1').
        intros a np a' Hin Ha Hst. destruct (amem (fst np) r0); [inv_ok Hst; exact Ha|].
        eapply (xsub_defaults_le f m e (fst np) (snd np) a a' d); [apply Hprops; exact Hin | lia | exact Ha | exact Hst]. }
      apply fin_bind; [|intros; apply fin_bind; [apply fin_xcheck_rules | intros; destruct mapped; [apply fin_xto_struct | exact I]]].
      eapply (xfin_props_fold (fun np d0 => if p_disabled (snd np) then Err (cerr EDisabled)
                                            else xunser f e (p_type (snd np)) d0));
        [exact Hnd | exact I | intros a Ha np Hin; inversion Ha; reflexivity |].
      intros np d0 Hin Hl. destruct (p_disabled (snd np)); [exact I|].
      apply Cu; [apply Hprops; exact Hin | exact (raw_le_lookup _ _ _ _ Hr1d Hl)].
    - (* one-of *)
      repeat fin_step ltac:(idtac; xmember_tac Cu Hnr Hv).
    - (* ref *)
      destruct (xresolve e id ns) as [[o e']|] eqn:R; [|exact I].
      apply Cu; [|exact Hv]. cbn [xnr] in Hnr. rewrite R in Hnr. exact Hnr.
    - (* scope *)
      destruct (alookup root objs) as [o|] eqn:R; [|exact I].
      apply Cu; [|exact Hv]. cbn [xnr] in Hnr. rewrite R in Hnr. exact Hnr. }
  (* ---------- validate ---------- *)
  assert (HV : forall f e s v, xnr K (S m) e s = true -> (vdepth v <= d)%nat ->
             (xneed (S m) d 1 <= f)%nat -> fin (xvalidate f e s v)).
  { intros f e s v Hnr Hv Hn.
    destruct f as [|f]; [unfold xneed in Hn; lia|].
    destruct (Hch f 1%nat Hn) as (Cu & Cv & Cs & Cc).
    destruct s; rewrite (xvalidate_S words pu); cbv beta iota zeta;
      try (apply fin_bind; [fin_leaf | intros; exact I]).
    - apply fin_bind; [apply fin_any_conv; unfold xneed in Hn; lia | intros; exact I].
    - cbn [xnr] in Hnr. repeat fin_step ltac:(xchild_tac Cu Cv Cs Cc I).
    - cbn [xnr] in Hnr. apply andb_prop in Hnr as [Hnk Hnv].
      repeat fin_step ltac:(xchild_tac Cu Cv Cs Cc I).
    - apply xnr_S_obj in Hnr as [Hnd Hprops].
      repeat fin_step ltac:(first [ xfin_leaf
        | idtac; match goal with
          | Ea : xstruct_arg _ _ = Some ?sv, Ex : xextract _ _ ?sv = Some (?value, _), Hin : In ?np _
            |- fin (XOps.xvalidate _ _ _ _ (p_type (snd ?np)) ?value) =>
              apply Cv; [apply Hprops; exact Hin
                        | apply xstruct_arg_depth in Ea; apply xextract_depth in Ex; lia]
          end
        | xchild_tac Cu Cv Cs Cc Hprops ]).
    - apply fin_bind; [apply HO; auto; unfold xneed in *; lia|].
      intros [[key member] data'] Hok.
      apply xoneof_find_ok in Hok as [[k Hin] Hdd].
      apply fin_map_err. apply Cv; [eapply xnr_member; eauto | lia].
    - destruct (xresolve e id ns) as [[o e']|] eqn:R; [|exact I].
      apply Cv; [|exact Hv]. cbn [xnr] in Hnr. rewrite R in Hnr. exact Hnr.
    - destruct (alookup root objs) as [o|] eqn:R; [|exact I].
      apply Cv; [|exact Hv]. cbn [xnr] in Hnr. rewrite R in Hnr. exact Hnr. }
  (* ---------- serialize ---------- *)
  assert (HS : forall f e s v, xnr K (S m) e s = true -> (vdepth v <= d)%nat ->
             (xneed (S m) d 2 <= f)%nat -> fin (xserialize f e s v)).
  { intros f e s v Hnr Hv Hn.
    destruct f as [|f]; [unfold xneed in Hn; lia|].
    destruct (Hch f 2%nat Hn) as (Cu & Cv & Cs & Cc).
    assert (Hsame : forall s0, s0 = s -> fin (xvalidate f e s0 v)).
    { intros s0 ->. apply HV; auto. unfold xneed in *; lia. }
    destruct s; rewrite (xserialize_S words pu); cbv beta iota zeta; try fin_leaf.
    - apply fin_any_conv. unfold xneed in Hn. lia.
    - apply fin_bind; [apply Hsame; reflexivity|]. intros _ _.
      cbn [xnr] in Hnr. repeat fin_step ltac:(xchild_tac Cu Cv Cs Cc I).
    - apply fin_bind; [apply Hsame; reflexivity|]. intros _ _.
      cbn [xnr] in Hnr. apply andb_prop in Hnr as [Hnk Hnv].
      repeat fin_step ltac:(xchild_tac Cu Cv Cs Cc I).
    - apply xnr_S_obj in Hnr as [Hnd Hprops].
      repeat fin_step ltac:(first [ xfin_leaf
        | idtac; match goal with
          | Ea : xstruct_arg _ _ = Some ?sv, Ex : xextract _ _ ?sv = Some (?value, _), Hin : In ?np _
            |- fin (XOps.xserialize _ _ _ _ (p_type (snd ?np)) ?value) =>
              apply Cs; [apply Hprops; exact Hin
                        | apply xstruct_arg_depth in Ea; apply xextract_depth in Ex; lia]
          end
        | xchild_tac Cu Cv Cs Cc Hprops ]).
    - apply fin_bind; [apply HO; auto; unfold xneed in *; lia|].
      intros [[key member] data'] Hok.
      apply xoneof_find_ok in Hok as [[k Hin] Hdd].
      apply fin_bind; [apply Cs; [eapply xnr_member; eauto | lia]|].
      intros x _. repeat fin_step idtac.
    - destruct (xresolve e id ns) as [[o e']|] eqn:R; [|exact I].
      apply Cs; [|exact Hv]. cbn [xnr] in Hnr. rewrite R in Hnr. exact Hnr.
    - destruct (alookup root objs) as [o|] eqn:R; [|exact I].
      apply Cs; [|exact Hv]. cbn [xnr] in Hnr. rewrite R in Hnr. exact Hnr. }
  (* ---------- data-mode compatibility ---------- *)
  assert (HC : forall f e s v, xnr K (S m) e s = true -> (vdepth v <= d)%nat ->
             (xneed (S m) d 2 <= f)%nat -> fin (xcompat f e s v)).
  { intros f e s v Hnr Hv Hn.
    destruct f as [|f]; [unfold xneed in Hn; lia|].
    destruct (Hch f 2%nat Hn) as (Cu & Cv & Cs & Cc).
    assert (HsameU : forall s0 v0, s0 = s -> v0 = v -> fin (xunser f e s0 v0)).
    { intros s0 v0 -> ->. apply HU; auto. unfold xneed in *; lia. }
    assert (HsameV : forall s0 v0, s0 = s -> v0 = v -> fin (xvalidate f e s0 v0)).
    { intros s0 v0 -> ->. apply HV; auto. unfold xneed in *; lia. }
    assert (HsameO : forall ty ik0 fl0 in0 v0, XOneOf ty ik0 fl0 in0 = s -> v0 = v -> fin (xoneof_find f e ty ik0 fl0 in0 v0)).
    { intros ty ik0 fl0 in0 v0 <- ->. apply HO; auto. unfold xneed in *; lia. }
    destruct s.
    6: { (* any *) apply fin_xcompat_any. unfold xneed in Hn. lia. }
    all: rewrite (xcompat_S words pu); cbv beta iota zeta.
    1-7: repeat fin_step ltac:(first [ apply HsameU; reflexivity | apply HsameV; reflexivity ]).
    - (* list *) cbn [xnr] in Hnr. repeat fin_step ltac:(xchild_tac Cu Cv Cs Cc I).
    - (* map *) cbn [xnr] in Hnr. apply andb_prop in Hnr as [Hnk Hnv].
      repeat fin_step ltac:(xchild_tac Cu Cv Cs Cc I).
    - (* object *)
      pose proof Hnr as Hnr0. apply xnr_S_obj in Hnr0 as [Hnd Hprops].
      repeat fin_step ltac:(first [ xfin_leaf | apply HsameU; reflexivity | xchild_tac Cu Cv Cs Cc Hprops ]).
    - (* one-of *)
      repeat fin_step ltac:(first [ apply HsameO; reflexivity | apply HsameV; reflexivity ]).
    - destruct (xresolve e id ns) as [[o e']|] eqn:R; [|exact I].
      apply Cc; [|exact Hv]. cbn [xnr] in Hnr. rewrite R in Hnr. exact Hnr.
    - destruct (alookup root objs) as [o|] eqn:R; [|exact I].
      apply Cc; [|exact Hv]. cbn [xnr] in Hnr. rewrite R in Hnr. exact Hnr. }
  repeat split; assumption.
Qed.

(* ---------- the theorem ---------- *)
Lemma fin_neq {A} (o : outcome A) : fin o -> o <> OutOfFuel.
Proof. intros H E. rewrite E in H. exact H. Qed.

Theorem x_struct_terminates_nr : forall (e : xenv) (s : xschema) (v : gval),
  xterminating_nr K e s = true ->
  forall f, (xfuel_bound_nr K e s v <= f)%nat ->
    xunser f e s v <> OutOfFuel /\ xvalidate f e s v <> OutOfFuel /\
    xserialize f e s v <> OutOfFuel /\ xcompat f e s v <> OutOfFuel.
Proof.
  intros e s v Ht f Hf. unfold xterminating_nr in Ht. apply andb_prop in Ht as [_ Hnr]. unfold xnonrec in Hnr.
  unfold xfuel_bound_nr in Hf.
  destruct (xterm_all (xnr_fuel e s) (Nat.max (vdepth v) (K + xnr_fuel e s)) ltac:(lia)) as (Hu & Hv & _ & Hs & Hc).
  repeat split; apply fin_neq; [apply Hu | apply Hv | apply Hs | apply Hc]; auto; unfold xneed; lia.
Qed.

(* with the panic half (Proofs/XTotal.v): a result or an error *)
Theorem x_struct_total_nr : forall (e : xenv) (s : xschema) (v : gval),
  xterminating_nr K e s = true ->
  forall f, (xfuel_bound_nr K e s v <= f)%nat ->
    ((forall w, xunser f e s v <> Panic w) /\ xunser f e s v <> OutOfFuel) /\
    ((forall w, xvalidate f e s v <> Panic w) /\ xvalidate f e s v <> OutOfFuel) /\
    ((forall w, xserialize f e s v <> Panic w) /\ xserialize f e s v <> OutOfFuel) /\
    ((forall w, xcompat f e s v <> Panic w) /\ xcompat f e s v <> OutOfFuel).
Proof.
  intros e s v Ht f Hf.
  destruct (x_struct_terminates_nr e s v Ht f Hf) as (Tu & Tv & Ts & Tc).
  unfold xterminating_nr in Ht. apply andb_prop in Ht as [Hwf _].
  pose proof (fun w => x_struct_never_panics words pu e s Hwf f v w) as Hp.
  repeat split; try assumption; intros w; destruct (Hp w) as (Pu & Pv & Ps & Pc); assumption.
Qed.

End XTerm.

(* ---------- non-vacuity: the harness descriptors are in the class; D52 / D11 / D50 are not ---------- *)
Definition xt_v_nested : gval := xs_m [("in", xs_m [("b", vstr "q")]); ("x", vi64 3)].

Example xt_descriptors_terminating :
  xterminating_nr 1 (xs_env []) (xs_scope "XNested") = true /\
  xterminating_nr 1 (xs_env []) (xs_scope "Choice") = true /\
  xterminating_nr 1 (xs_env []) (xs_scope "XPtrs") = true /\
  xterminating_nr 1 (xs_env []) (xs_scope "XEmbPtr") = true /\
  xterminating_nr 0 (xs_env []) (xs_scope "XNested") = false /\
  is_ok (xunser w_words w_pu (xfuel_bound_nr 1 (xs_env []) (xs_scope "XNested") xt_v_nested)
           (xs_env []) (xs_scope "XNested") xt_v_nested) = true /\
  is_err (xvalidate w_words w_pu (xfuel_bound_nr 1 (xs_env []) (xs_scope "XNested") (xs_inner_v 1 "q"))
           (xs_env []) (xs_scope "XNested") (xs_inner_v 1 "q")) = true /\
  is_ok (xserialize w_words w_pu
           (xfuel_bound_nr 1 (xs_env []) (xs_scope "Choice") (VMap t_str_map false [(vstr "o", xs_inner_v 5 "z")]))
           (xs_env []) (xs_scope "Choice") (VMap t_str_map false [(vstr "o", xs_inner_v 5 "z")])) = true.
Proof. vm_compute. repeat split; reflexivity. Qed.

(* D11 and D50 over xschema *)
Definition xt_d11 : xschema :=
  XScope [("A", XObject "A" false [("x", xs_prop (XRef "A" "" None) false None false)] None)] "A".
Definition xt_d50 : xschema :=
  XScope [("A", XObject "A" false [("x", xs_prop (XRef "A" "" None) false (Some "{}") false);
                                   ("n", xs_prop xs_int false None false)] None)] "A".

Example xt_excludes_cycles : forall K,
  xnonrec K (w_env []) w_rec = false /\ xterminating_nr K (w_env []) w_rec = false /\
  xnonrec K (xs_env []) xt_d11 = false /\ xnonrec K (xs_env []) xt_d50 = false.
Proof.
  intros K. repeat split; vm_compute; reflexivity.
Qed.
