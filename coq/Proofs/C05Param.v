(* Proofs/C05Param.v — the client model ATP/Client.v is PARAMETRIC in its payload type, as a theorem: for every function
   f : P -> Q between payload types, mapping f over every payload held anywhere in a client state (callers' inputs,
   stored and returned results, the two streams, the read-ahead buffer, the message being handled, the scripted peer)
   commutes with EVERY step of EVERY label:

       step (map_state f s) l = option_map (map_state f) (step s l)            (step_map)
       run  (map_state f s) ls = option_map (map_state f) (run s ls)           (run_map)

   The model never inspects, compares, creates or drops a payload other than by copying it.  This is what makes the
   payloads of the composition ATP/System.v NAMES: the executions of the client over real values (payload := gval) that
   start from the image of a token state are exactly the images, label for label, of the executions over tokens -
   ATP/SystemV.v / Proofs/C05Transparent.v interpret the token level on that basis. *)
From Coq Require Import List Bool Arith String.
From Verif Require Import Base.Prelude Base.Str ATP.Msg ATP.Client.
Import ListNotations.
Local Open Scope list_scope.

Section Param.
Variables P Q : Type.
Variable f : P -> Q.

Definition map_msg (m : msg P) : msg Q :=
  match m with
  | WorkStart r st d => WorkStart r st (f d)
  | WorkDone r st o d lg => WorkDone r st o (f d) lg
  | Signal r sg d => Signal r sg (f d)
  | ClientDone => ClientDone
  | ErrMsg r sf vf => ErrMsg r sf vf
  | Unknown id r => Unknown id r
  | BadPayload id r => BadPayload id r
  end.

Definition map_event (e : event P) : event Q :=
  match e with
  | EvMsg m => EvMsg (map_msg m)
  | EvHello h => EvHello h
  | EvGarbage => EvGarbage
  | EvPartialThenEOF => EvPartialThenEOF
  | EvEOF => EvEOF
  | EvReadErr => EvReadErr
  end.

Definition map_result (r : result P) : result Q := match r with ROk o d => ROk o (f d) | RErr e => RErr e end.
Definition map_cpc (p : cpc P) : cpc Q :=
  match p with CStart => CStart | CSend => CSend | CWait => CWait | CWaiting => CWaiting | CDone r => CDone (map_result r) end.
Definition map_caller (c : caller P) : caller Q :=
  mkCaller (c_run c) (c_after c) (c_hassig c) (c_sleft c) (c_sclose c) (c_sigfrom c) (f (c_input c)) (map_cpc (c_pc c))
           (c_spc c) (c_emitted c).
Definition map_lpc (p : lpc P) : lpc Q :=
  match p with LDecode => LDecode | LHandle m => LHandle (map_msg m) | LFatal => LFatal | LCheck => LCheck | LExited => LExited end.
Definition map_loop (l : loop P) : loop Q := mkLoop (map_lpc (l_pc l)) (map map_event (l_buf l)).
Definition map_entry (e : runid * option (result P)) : runid * option (result Q) := (fst e, option_map map_result (snd e)).
Definition map_script (p : runid * list (event P)) : runid * list (event Q) := (fst p, map map_event (snd p)).
Definition map_fault (p : nat * event P) : nat * event Q := (fst p, map_event (snd p)).

Definition map_state (s : state P) : state Q :=
  mkState (map map_entry (entries s)) (sigchans s) (running s) (cdone s) (cancelled s) (wg s) (map map_caller (callers s))
          (option_map map_loop (cur s)) (nloops s) (two_loops s) (closer s) (map map_msg (to_server s))
          (map map_event (from_server s)) (wr_left s) (p_acc s) (map map_script (p_plan s)) (option_map map_fault (p_fault s))
          (p_dead s) (p_done s) (map map_msg (decoded s)).
Notation ms := map_state.

(* ---- lists ---- *)
Lemma nth_error_map' {A B} (g : A -> B) : forall l i, nth_error (map g l) i = option_map g (nth_error l i).
Proof. induction l as [|a l IH]; intros [|i]; cbn; auto. Qed.

Lemma map_upd {A B} (g : A -> B) : forall l i v, map g (upd l i v) = upd (map g l) i (g v).
Proof. induction l as [|a l IH]; intros [|i] v; cbn; auto. f_equal. apply IH. Qed.

Lemma alookup_entry : forall (es : list (runid * option (result P))) r,
  alookup r (map map_entry es) = option_map (option_map map_result) (alookup r es).
Proof. induction es as [|[k v] es IH]; intros r; cbn; auto. destruct (String.eqb r k); auto. Qed.

Lemma amem_entry : forall (es : list (runid * option (result P))) r, amem r (map map_entry es) = amem r es.
Proof. intros. unfold amem. rewrite alookup_entry. destruct (alookup r es); reflexivity. Qed.

Lemma map_adel : forall (es : list (runid * option (result P))) r, map map_entry (adel r es) = adel r (map map_entry es).
Proof. induction es as [|[k v] es IH]; intros r; cbn; auto. destruct (String.eqb r k); cbn; auto. f_equal. apply IH. Qed.

Lemma map_aset : forall (es : list (runid * option (result P))) r x,
  map map_entry (aset r x es) = aset r (option_map map_result x) (map map_entry es).
Proof. induction es as [|[k v] es IH]; intros r x; cbn; auto. destruct (String.eqb r k); cbn; auto. f_equal. apply IH. Qed.

Lemma has_pending_entry : forall es : list (runid * option (result P)), has_pending (map map_entry es) = has_pending es.
Proof. unfold has_pending. induction es as [|[k [v|]] es IH]; cbn; auto. Qed.

Lemma map_fan : forall (es : list (runid * option (result P))) v,
  map map_entry (map (fun e => (fst e, Some v)) es) = map (fun e => (fst e, Some (map_result v))) (map map_entry es).
Proof. intros. rewrite !map_map. reflexivity. Qed.

Lemma filter_amem : forall (es : list (runid * option (result P))) (l : list runid) (b : bool),
  filter (fun r => if b then amem r (map map_entry es) else negb (amem r (map map_entry es))) l =
  filter (fun r => if b then amem r es else negb (amem r es)) l.
Proof. intros. apply filter_ext. intros r. rewrite amem_entry. reflexivity. Qed.

Lemma alookup_script : forall (p : list (runid * list (event P))) r,
  alookup r (map map_script p) = option_map (map map_event) (alookup r p).
Proof. induction p as [|[k v] p IH]; intros r; cbn; auto. destruct (String.eqb r k); auto. Qed.

Lemma map_aset_script : forall (p : list (runid * list (event P))) r x,
  map map_script (aset r x p) = aset r (map map_event x) (map map_script p).
Proof. induction p as [|[k v] p IH]; intros r x; cbn; auto. destruct (String.eqb r k); cbn; auto. f_equal. apply IH. Qed.

Lemma is_fault_map : forall e : event P, is_fault (map_event e) = is_fault e.
Proof. destruct e; reflexivity. Qed.

Lemma all_msgs_map : forall l : list (event P), all_msgs (map map_event l) = all_msgs l.
Proof. unfold all_msgs. induction l as [|e l IH]; cbn; auto. rewrite is_fault_map, IH. reflexivity. Qed.

Lemma needs_handling_map : forall m : msg P, needs_handling (map_msg m) = needs_handling m.
Proof. destruct m; reflexivity. Qed.

(* ---- callers ---- *)
Lemma caller_done_map : forall d : caller P, caller_done (map_caller d) = caller_done d.
Proof. intros d. unfold caller_done. cbn. destruct (c_pc d); reflexivity. Qed.

Lemma caller_sent_map : forall d : caller P, caller_sent (map_caller d) = caller_sent d.
Proof. intros d. unfold caller_sent. cbn. destruct (c_pc d); reflexivity. Qed.

Lemma forallb_sent_map : forall cs : list (caller P), forallb (@caller_sent Q) (map map_caller cs) = forallb (@caller_sent P) cs.
Proof. induction cs as [|a cs IH]; cbn [map forallb]; auto. rewrite IH, caller_sent_map. reflexivity. Qed.

Lemma map_deliver : forall (cs : list (caller P)) r, map map_caller (deliver cs r) = deliver (map map_caller cs) r.
Proof.
  induction cs as [|a cs IH]; intros r; cbn [map deliver]; auto.
  change (c_run (map_caller a)) with (c_run a). change (c_sigfrom (map_caller a)) with (c_sigfrom a).
  destruct (String.eqb (c_run a) r && c_sigfrom a); cbn [map]; [reflexivity|]. f_equal. apply IH.
Qed.

Lemma pred_done_map : forall (s : state P) (c : caller P), pred_done (ms s) (map_caller c) = pred_done s c.
Proof.
  intros s c. unfold pred_done. change (c_after (map_caller c)) with (c_after c). destruct (c_after c) as [j|]; [|reflexivity].
  change (callers (ms s)) with (map map_caller (callers s)). rewrite nth_error_map'.
  destruct (nth_error (callers s) j) as [d|]; cbn [option_map]; [apply caller_done_map|reflexivity].
Qed.

Lemma loop_live_map : forall o : option (loop P), loop_live (option_map map_loop o) = loop_live o.
Proof. intros [lo|]; [|reflexivity]. unfold loop_live. cbn. destruct (l_pc lo); reflexivity. Qed.

Lemma filter_namem : forall (es : list (runid * option (result P))) (l : list runid),
  filter (fun r => negb (amem r (map map_entry es))) l = filter (fun r => negb (amem r es)) l.
Proof. intros. apply filter_ext. intros r. rewrite amem_entry. reflexivity. Qed.

(* ---- flat computation: the state taken apart, every record update / projection / map_state computed ---- *)
Ltac flatC :=
  cbv beta iota zeta delta
      [map_state set_caller set_entries set_sigchans set_running set_cdone set_cancelled set_wg set_callers set_cur
       set_nloops set_two_loops set_closer set_to_server set_from_server set_wr_left set_p_acc set_p_plan set_p_fault
       set_p_dead set_p_done set_decoded
       entries sigchans running cdone cancelled wg callers cur nloops two_loops closer to_server from_server wr_left
       p_acc p_plan p_fault p_dead p_done decoded];
  cbn [map_caller map_loop option_map
       c_run c_after c_hassig c_sleft c_sclose c_sigfrom c_input c_pc c_spc c_emitted set_pc set_spc set_sleft set_emitted
       l_pc l_buf map_cpc map_lpc fst snd].

Ltac desC s :=
  destruct s as [entries0 sigchans0 running0 cdone0 cancelled0 wg0 callers0 cur0 nloops0 two_loops0 closer0 to_server0
                 from_server0 wr_left0 p_acc0 p_plan0 p_fault0 p_dead0 p_done0 decoded0].

Ltac listsC :=
  rewrite ?map_upd, ?map_app, ?map_adel, ?map_aset, ?map_deliver, ?map_fan, ?filter_namem, ?map_aset_script,
          ?firstn_map, ?skipn_map.

(* the two sides are flat records: compare them field by field, so that the list lemmas are applied to small goals (small
   proof terms) *)
Lemma mkState_eq : forall (e e' : list (runid * option (result Q))) (sc sc' : list runid) (r r' cd cd' ca ca' : bool)
    (w w' : nat) (cs cs' : list (caller Q)) (cu cu' : option (loop Q)) (nl nl' : nat) (tl tl' : bool) (k k' : kpc)
    (ts ts' : list (msg Q)) (fs fs' : list (event Q)) (wr wr' : option nat) (pa pa' : list runid)
    (pp pp' : list (runid * list (event Q))) (pf pf' : option (nat * event Q)) (pd pd' pn pn' : bool) (dc dc' : list (msg Q)),
  e = e' -> sc = sc' -> r = r' -> cd = cd' -> ca = ca' -> w = w' -> cs = cs' -> cu = cu' -> nl = nl' -> tl = tl' -> k = k' ->
  ts = ts' -> fs = fs' -> wr = wr' -> pa = pa' -> pp = pp' -> pf = pf' -> pd = pd' -> pn = pn' -> dc = dc' ->
  mkState e sc r cd ca w cs cu nl tl k ts fs wr pa pp pf pd pn dc = mkState e' sc' r' cd' ca' w' cs' cu' nl' tl' k' ts' fs' wr' pa' pp' pf' pd' pn' dc'.
Proof. intros; subst; reflexivity. Qed.

Ltac finC :=
  flatC; try (apply (f_equal (@Some _)));
  first [apply mkState_eq; listsC; reflexivity | reflexivity].

(* ---- one client write ---- *)
Lemma cwrite_map : forall (s : state P) (m : msg P), cwrite (ms s) (map_msg m) = option_map ms (cwrite s m).
Proof. intros s m. desC s. unfold cwrite. flatC. destruct wr_left0 as [[|n]|]; finC. Qed.

(* ---- the read loop's handlers ---- *)
Lemma send_result_map : forall (s : state P) r v, ms (send_result s r v) = send_result (ms s) r (map_result v).
Proof. intros s r v. desC s. unfold send_result. finC. Qed.

Lemma fan_out_map : forall (s : state P) v, ms (fan_out s v) = fan_out (ms s) (map_result v).
Proof. intros s v. desC s. unfold fan_out. finC. Qed.

Lemma loop_exit_map : forall (s : state P) l, ms (loop_exit s l) = loop_exit (ms s) (map_loop l).
Proof. intros s l. desC s. unfold loop_exit. finC. Qed.

Lemma handle_map : forall (s : state P) l m, ms (handle s l m) = handle (ms s) (map_loop l) (map_msg m).
Proof.
  intros s l m. desC s. unfold handle, send_result, fan_out, loop_exit.
  destruct m; cbn [map_msg]; flatC;
    repeat match goal with |- context [if ?b then _ else _] => destruct b end; finC.
Qed.

(* ---- the steps ---- *)
Ltac flatK :=
  cbn [map_caller c_run c_after c_hassig c_sleft c_sclose c_sigfrom c_input c_pc c_spc c_emitted map_cpc
       map_loop l_pc l_buf map_lpc option_map].

Lemma step_caller_map : forall (s : state P) i, step_caller (ms s) i = option_map ms (step_caller s i).
Proof.
  intros s i. unfold step_caller. change (callers (ms s)) with (map map_caller (callers s)). rewrite nth_error_map'.
  destruct (nth_error (callers s) i) as [c|]; cbn [option_map]; [|reflexivity].
  change (c_pc (map_caller c)) with (map_cpc (c_pc c)).
  destruct (c_pc c) as [| | | |r0]; cbn [map_cpc].
  - rewrite pred_done_map. destruct (negb (pred_done s c)); [reflexivity|].
    desC s. flatK.
    destruct (c_hassig c); flatC; rewrite ?amem_entry; (destruct (amem (c_run c) entries0); [finC|]);
      destruct (c_sigfrom c); flatC; destruct running0; flatC; rewrite ?loop_live_map; finC.
  - flatK. change (WorkStart (c_run c) "s"%string (f (c_input c))) with (map_msg (WorkStart (c_run c) "s"%string (c_input c))).
    rewrite cwrite_map. destruct (cwrite s (WorkStart (c_run c) "s"%string (c_input c))) as [s1|]; cbn [option_map];
      [desC s1|desC s]; finC.
  - flatK. change (entries (ms s)) with (map map_entry (entries s)). rewrite alookup_entry.
    destruct (alookup (c_run c) (entries s)) as [[v|]|]; cbn [option_map]; desC s; finC.
  - flatK. change (entries (ms s)) with (map map_entry (entries s)). rewrite alookup_entry.
    destruct (alookup (c_run c) (entries s)) as [[v|]|]; cbn [option_map]; try reflexivity; desC s; finC.
  - reflexivity.
Qed.

Lemma step_sig_map : forall (s : state P) i, step_sig (ms s) i = option_map ms (step_sig s i).
Proof.
  intros s i. unfold step_sig. change (callers (ms s)) with (map map_caller (callers s)). rewrite nth_error_map'.
  destruct (nth_error (callers s) i) as [c|]; cbn [option_map]; [|reflexivity].
  flatK. destruct (c_spc c); try reflexivity.
  - change (cdone (ms s)) with (cdone s). destruct (cdone s); desC s; finC.
  - change (cancelled (ms s)) with (cancelled s). destruct (cancelled s); [desC s; finC|].
    destruct (c_sleft c) as [|n].
    + destruct (c_sclose c); [desC s; finC|reflexivity].
    + change (Signal (c_run c) "sg"%string (f (c_input c))) with (map_msg (Signal (c_run c) "sg"%string (c_input c))).
      rewrite cwrite_map. destruct (cwrite s (Signal (c_run c) "sg"%string (c_input c))) as [s1|]; cbn [option_map];
        [desC s1|desC s]; finC.
Qed.

Lemma step_loop_map : forall (s : state P) k, step_loop (ms s) k = option_map ms (step_loop s k).
Proof.
  intros s k. unfold step_loop. change (cur (ms s)) with (option_map map_loop (cur s)).
  destruct (cur s) as [lo|]; cbn [option_map]; [|reflexivity].
  flatK. destruct (l_pc lo) as [|m| | |]; cbn [map_lpc].
  - destruct (l_buf lo) as [|ev rest]; cbn [map].
    + change (from_server (ms s)) with (map map_event (from_server s)).
      destruct (from_server s) as [|ev q]; cbn [map]; [reflexivity|]. rewrite is_fault_map. destruct (is_fault ev).
      * destruct (Nat.eqb k 0); [|reflexivity].
        destruct ev as [m| | | | |]; cbn [map_event]; rewrite ?needs_handling_map;
          try (destruct (needs_handling m)); desC s; finC.
      * rewrite map_length, firstn_map, all_msgs_map.
        destruct (Nat.leb k (List.length q) && all_msgs (firstn k q)); [|reflexivity].
        destruct ev as [m| | | | |]; cbn [map_event]; rewrite ?needs_handling_map;
          try (destruct (needs_handling m)); desC s; finC.
    + destruct (Nat.eqb k 0); [|reflexivity].
      destruct ev as [m| | | | |]; cbn [map_event]; rewrite ?needs_handling_map;
        try (destruct (needs_handling m)); desC s; finC.
  - destruct (Nat.eqb k 0); [|reflexivity]. cbn [option_map]. rewrite handle_map. reflexivity.
  - destruct (Nat.eqb k 0); [|reflexivity]. cbn [option_map]. rewrite loop_exit_map, fan_out_map. reflexivity.
  - destruct (negb (Nat.eqb k 0)); [reflexivity|]. change (entries (ms s)) with (map map_entry (entries s)).
    rewrite has_pending_entry. destruct (has_pending (entries s)); cbn [option_map]; [desC s; finC|].
    rewrite loop_exit_map. reflexivity.
  - reflexivity.
Qed.

Lemma step_closer_map : forall s : state P, step_closer (ms s) = option_map ms (step_closer s).
Proof.
  intros s. unfold step_closer. change (closer (ms s)) with (closer s). destruct (closer s); try reflexivity.
  - change (callers (ms s)) with (map map_caller (callers s)). rewrite forallb_sent_map.
    destruct (forallb (@caller_sent P) (callers s)); [desC s; finC|reflexivity].
  - change (cdone (ms s)) with (cdone s). destruct (cdone s); desC s; finC.
  - change (@ClientDone Q) with (map_msg (@ClientDone P)). rewrite cwrite_map.
    destruct (cwrite s ClientDone) as [s1|]; cbn [option_map]; [desC s1|desC s]; finC.
  - change (wg (ms s)) with (wg s). destruct (Nat.eqb (wg s) 0); [desC s; finC|reflexivity].
  - change (wg (ms s)) with (wg s). destruct (Nat.eqb (wg s) 0); [desC s; finC|reflexivity].
Qed.

Lemma step_timeout_map : forall s : state P, step_timeout (ms s) = option_map ms (step_timeout s).
Proof.
  intros s. unfold step_timeout. change (closer (ms s)) with (closer s). destruct (closer s); try reflexivity.
  change (wg (ms s)) with (wg s). destruct (Nat.eqb (wg s) 0); [reflexivity|desC s; finC].
Qed.

Lemma step_accept_map : forall s : state P, step_accept (ms s) = option_map ms (step_accept s).
Proof.
  intros s. unfold step_accept. change (to_server (ms s)) with (map map_msg (to_server s)).
  destruct (to_server s) as [|m q]; cbn [map]; [reflexivity|]. destruct m; cbn [map_msg]; desC s; finC.
Qed.

Lemma step_send_map : forall (s : state P) r, step_send (ms s) r = option_map ms (step_send s r).
Proof.
  intros s r. unfold step_send. change (p_dead (ms s)) with (p_dead s). change (p_acc (ms s)) with (p_acc s).
  destruct (p_dead s || negb (str_in r (p_acc s))); [reflexivity|].
  change (p_plan (ms s)) with (map map_script (p_plan s)). rewrite alookup_script.
  destruct (alookup r (p_plan s)) as [[|ev rest]|]; cbn [option_map map]; try reflexivity.
  change (p_fault (ms s)) with (option_map map_fault (p_fault s)).
  destruct (p_fault s) as [[[|n] fe]|]; cbn [option_map map_fault fst snd]; desC s; finC.
Qed.

(* THE FREE THEOREM *)
Theorem step_map : forall (s : state P) l, step (ms s) l = option_map ms (step s l).
Proof.
  intros s l. destruct l; cbn [step].
  - apply step_caller_map.
  - apply step_sig_map.
  - apply step_loop_map.
  - apply step_closer_map.
  - apply step_timeout_map.
  - apply step_accept_map.
  - apply step_send_map.
Qed.

Theorem run_map : forall ls (s : state P), run (ms s) ls = option_map ms (run s ls).
Proof.
  induction ls as [|l t IH]; intros s; cbn [run]; [reflexivity|].
  rewrite step_map. destruct (step s l) as [s1|]; cbn [option_map]; [apply IH|reflexivity].
Qed.

(* sessions *)
Definition map_callspec (x : callspec P) : callspec Q :=
  mkCall (cs_run x) (cs_after x) (cs_sig x) (cs_sigfrom x) (f (cs_input x)).

Lemma init_map : forall (calls : list (callspec P)) close wf,
  init (mkSession (map map_callspec calls) close [] None wf) = ms (init (mkSession calls close [] None wf)).
Proof.
  intros calls close wf. unfold init, map_state. cbn. f_equal. rewrite !map_map. apply map_ext. intros x. reflexivity.
Qed.

(* what a caller has returned commutes as well *)
Lemma result_map : forall (s : state P) i c,
  nth_error (callers s) i = Some c -> nth_error (callers (ms s)) i = Some (map_caller c).
Proof. intros s i c H. change (callers (ms s)) with (map map_caller (callers s)). rewrite nth_error_map', H. reflexivity. Qed.

End Param.
