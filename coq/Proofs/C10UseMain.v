(* Proofs/C10UseMain.v — C04's totality theorems with `wf_use` in place of `wf_schema`: the assembly of
   Proofs/C04Main.v over the two halves proved in C10UseNoPanic.v (no Panic for any fuel) and C10UseTerm.v (no
   OutOfFuel from fuel_bound on).  Depends on the C04 model and proof files only (no Schema/Describe.v). *)
From Coq Require Import Lia.
From Verif Require Import Base.Prelude Base.Str Base.Float Base.GoVal
  Schema.Regex Schema.Units Schema.Syntax Schema.Ops Schema.Wf Schema.Total
  Proofs.MonoEq Proofs.C04Inv Proofs.OpsEq Proofs.C04NoPanic Proofs.C04Term Proofs.C04Main
  Proofs.C10UseNoPanic Proofs.C10UseTerm.

Section UseMain.
Variable words : list (string * bool).
Variable pu : units -> string -> option fl.

Lemma hyps_inv_use K e s :
  wf_use e s = true -> no_inline_cycle e s = true -> defaults_total words pu K e s = true ->
  Inv (P3u words pu K (nic_fuel e s)) e s.
Proof.
  intros H1 H2 H3. unfold P3u.
  apply (inv_and use_local (fun e0 s0 => nic_local (nic_fuel e s) e0 s0 && dflt_local words pu K e0 s0)).
  split; [now apply use_inv|].
  apply (inv_and (nic_local (nic_fuel e s)) (dflt_local words pu K)). split.
  - unfold no_inline_cycle, no_inline_cycle_n in H2. unfold Inv. apply andb_prop in H2. exact H2.
  - unfold defaults_total in H3. unfold Inv. apply andb_prop in H3. exact H3.
Qed.

Section Ops.
Variables (K : nat) (e : env) (s : schema) (v : gval).
Hypothesis Hwf : wf_use e s = true.
Hypothesis Hnic : no_inline_cycle e s = true.
Hypothesis Hdef : defaults_total words pu K e s = true.

Lemma use_unser f : (fuel_bound K e s v <= f)%nat -> total_outcome (unser words pu f e s v).
Proof.
  intros Hf. apply total_of.
  - apply (np_use_all words pu f). now apply use_inv.
  - pose proof (hyps_inv_use K e s Hwf Hnic Hdef) as Hinv.
    destruct (i3u_nic words pu K _ e s (is_vmap v) Hinv) as (c & Hc & Hle).
    destruct (term_use_all words pu K (nic_fuel e s) (vdepth v) c) as (Iu & _).
    apply Iu; auto. { exists c. split; [exact Hc | lia]. } apply bound_enough; auto.
Qed.

Lemma use_validate f : (fuel_bound K e s v <= f)%nat -> total_outcome (validate words pu f e s v).
Proof.
  intros Hf. apply total_of.
  - apply (np_use_all words pu f). now apply use_inv.
  - pose proof (hyps_inv_use K e s Hwf Hnic Hdef) as Hinv.
    destruct (i3u_nic words pu K _ e s (is_vmap v) Hinv) as (c & Hc & Hle).
    destruct (term_use_all words pu K (nic_fuel e s) (vdepth v) c) as (_ & Iv & _).
    apply Iv; auto. { exists c. split; [exact Hc | lia]. } apply bound_enough; auto.
Qed.

Lemma use_serialize f : (fuel_bound K e s v <= f)%nat -> total_outcome (serialize words pu f e s v).
Proof.
  intros Hf. apply total_of.
  - apply (np_use_all words pu f). now apply use_inv.
  - pose proof (hyps_inv_use K e s Hwf Hnic Hdef) as Hinv.
    destruct (i3u_nic words pu K _ e s (is_vmap v) Hinv) as (c & Hc & Hle).
    destruct (term_use_all words pu K (nic_fuel e s) (vdepth v) c) as (_ & _ & _ & Is & _).
    apply Is; auto. { exists c. split; [exact Hc | lia]. } apply bound_enough; auto.
Qed.

Lemma use_compat f : (fuel_bound K e s v <= f)%nat -> total_outcome (compat words pu f e s v).
Proof.
  intros Hf. apply total_of.
  - apply (np_use_all words pu f). now apply use_inv.
  - pose proof (hyps_inv_use K e s Hwf Hnic Hdef) as Hinv.
    destruct (i3u_nic words pu K _ e s (is_vmap v) Hinv) as (c & Hc & Hle).
    destruct (term_use_all words pu K (nic_fuel e s) (vdepth v) c) as (_ & _ & _ & _ & Ic).
    apply Ic; auto. { exists c. split; [exact Hc | lia]. } apply bound_enough; auto.
Qed.
End Ops.

Lemma use_never_panics e s : wf_use e s = true -> forall f v w,
  unser words pu f e s v <> Panic w /\ validate words pu f e s v <> Panic w /\
  serialize words pu f e s v <> Panic w /\ compat words pu f e s v <> Panic w.
Proof.
  intros Hwf f v w. apply use_inv in Hwf.
  destruct (np_use_all words pu f) as (Hu & Hv & _ & Hs & Hc).
  specialize (Hu e s v Hwf). specialize (Hv e s v Hwf). specialize (Hs e s v Hwf). specialize (Hc e s v Hwf).
  repeat split; intros E; [rewrite E in Hu | rewrite E in Hv | rewrite E in Hs | rewrite E in Hc]; assumption.
Qed.

(* all four operations at once *)
Definition all_total (f : nat) (e : env) (s : schema) (v : gval) : Prop :=
  total_outcome (unser words pu f e s v) /\ total_outcome (validate words pu f e s v) /\
  total_outcome (serialize words pu f e s v) /\ total_outcome (compat words pu f e s v).

Lemma use_all_total K e s v f :
  wf_use e s = true -> no_inline_cycle e s = true -> defaults_total words pu K e s = true ->
  (fuel_bound K e s v <= f)%nat -> all_total f e s v.
Proof.
  intros H1 H2 H3 Hf. repeat split;
    first [ eapply use_unser | eapply use_validate | eapply use_serialize | eapply use_compat ]; eauto.
Qed.

Lemma all_total_no_fuel_out f e s v : all_total f e s v ->
  unser words pu f e s v <> OutOfFuel /\ validate words pu f e s v <> OutOfFuel /\
  serialize words pu f e s v <> OutOfFuel /\ compat words pu f e s v <> OutOfFuel.
Proof. intros ((_ & H1) & (_ & H2) & (_ & H3) & (_ & H4)). tauto. Qed.
End UseMain.

(* C04's four totality theorems with wf_use in place of wf_schema, in one statement *)
Theorem c04_total_use words pu : forall (K : nat) (e : env) (s : schema) (v : gval),
  wf_use e s = true -> no_inline_cycle e s = true -> defaults_total words pu K e s = true ->
  forall f, (fuel_bound K e s v <= f)%nat ->
    ((forall w, unser words pu f e s v <> Panic w) /\ unser words pu f e s v <> OutOfFuel) /\
    ((forall w, validate words pu f e s v <> Panic w) /\ validate words pu f e s v <> OutOfFuel) /\
    ((forall w, serialize words pu f e s v <> Panic w) /\ serialize words pu f e s v <> OutOfFuel) /\
    ((forall w, compat words pu f e s v <> Panic w) /\ compat words pu f e s v <> OutOfFuel).
Proof. intros K e s v H1 H2 H3 f Hf. exact (use_all_total words pu K e s v f H1 H2 H3 Hf). Qed.
