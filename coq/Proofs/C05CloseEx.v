(* Proofs/C05CloseEx.v — non-vacuity of C05_refines_with_close: the session of Proofs/C05Examples.v (three
   overlapping calls: a slow success, b success, c input rejected) in which the harness calls Close WHILE the three
   calls are in flight: Close cancels, marks the client done and writes client-done behind the three work-starts; the
   server's read loop consumes the three work-starts, then client-done (deferred close), the answers come back in the
   order b, c, a, the read loop exits, the server's run() goroutine closes workDone, the closure handler returns, and
   Close returns nil.  No label is enabled in the last state. *)
From Coq Require Import Lia.
From Verif Require Import Base.Prelude Base.Str ATP.Msg ATP.System.
From Verif Require Proofs.Server Proofs.ATPClientInv.
From Verif Require Import Proofs.C05Examples.
Local Open Scope string_scope.
Local Open Scope list_scope.
Local Open Scope nat_scope.

Fixpoint run_diag (g : scfg) (s : sstate) (ys : list slabel) (n : nat) : nat + sstate :=
  match ys with
  | [] => inr s
  | y :: t => match sys_step g s y with Some s' => run_diag g s' t (S n) | None => inl n end
  end.

Definition exc_sched : list slabel :=
  [ YClient (C.LCaller 0); YClient (C.LCaller 1); YClient (C.LCaller 2);       (* prepare a, b, c; a starts the read loop *)
    YClient (C.LCaller 0); YClient (C.LCaller 1); YClient (C.LCaller 2);       (* the three work-starts are written *)
    YClient C.LCloser; YClient C.LCloser; YClient C.LCloser;                   (* Close: cancel, mark done, write client-done *)
    YPipe; YPipe; YPipe; YPipe;
    YServer S.LRead; YServer S.LRead; YServer S.LRead;                         (* three step goroutines *)
    YServer S.LRead;                                                           (* client-done: stdin closed, deferred part *)
    YServer (S.LWorker 1); YServer (S.LWorker 1);                              (* b finishes first: work-done(b) *)
    YServer (S.LWorker 2); YServer (S.LWorker 2);                              (* c: input rejected, reported *)
    YServer (S.LHandler true); YServer (S.LHandler true);                      (* ... forwarded: error message of run c *)
    YClient (C.LCaller 0); YClient (C.LCaller 1); YClient (C.LCaller 2);       (* all three wait *)
    YClient (C.LLoop 1); YClient (C.LLoop 0); YClient (C.LLoop 0);             (* decode work-done(b) + read ahead; handle *)
    YClient (C.LLoop 0); YClient (C.LLoop 0); YClient (C.LLoop 0);             (* the error of c from the read-ahead buffer *)
    YClient (C.LCaller 1); YClient (C.LCaller 2);                              (* b and c return *)
    YRelease 1%Z; YServer (S.LWorker 0); YServer (S.LWorker 0); YServer (S.LWorker 0);   (* a's slow handler *)
    YServer (S.LWorker 1); YServer (S.LWorker 2);
    YServer S.LRead;                                                           (* all goroutines gone: close(workDone) *)
    YServer (S.LHandler true); YServer (S.LHandler true);                      (* the closure handler returns *)
    YClient (C.LLoop 0); YClient (C.LLoop 0); YClient (C.LLoop 0);             (* work-done(a); nothing pending: loop exits *)
    YClient (C.LCaller 0);                                                     (* a returns *)
    YClient C.LCloser ].                                                       (* wait group 0: Close returns nil *)

Definition exc_final : option sstate := sys_run ex_g (sys_init ex_calls true) exc_sched.

Lemma exc_run_ok :
  match exc_final with
  | Some s => sys_quietb ex_g s = true /\
              sys_result s 0 = Some (C.ROk "success" 10%Z) /\
              sys_result s 1 = Some (C.ROk "other" 30%Z) /\
              sys_result s 2 = Some (C.RErr C.ErrStep) /\
              C.closer (cl s) = C.KDone C.CloseOk /\ C.wg (cl s) = 0 /\
              S.hp (sv s) = S.HReturned /\ S.rl (sv s) = S.RGone
  | None => False
  end.
Proof. vm_compute. repeat split; reflexivity. Qed.

Lemma exc_refines :
  exists s, exc_final = Some s /\ sys_final ex_g s /\
            sys_result s 0 = Some (C.ROk "success" 10%Z) /\
            sys_result s 1 = Some (C.ROk "other" 30%Z) /\
            sys_result s 2 = Some (C.RErr C.ErrStep) /\
            C.closer (cl s) = C.KDone C.CloseOk /\ C.wg (cl s) = 0 /\
            S.hp (sv s) = S.HReturned /\ S.rl (sv s) = S.RGone.
Proof.
  pose proof exc_run_ok as H. destruct exc_final as [s|] eqn:E; [|contradiction].
  destruct H as (Q & R). exists s. split; [reflexivity|split; [apply sys_quietb_final; exact Q|exact R]].
Qed.

Lemma exc_hyps :
  (forall x, In x ex_calls -> C.cs_run x <> "") /\
  Verif.Proofs.ATPClientInv.wf_session (sys_session ex_calls true).
Proof. exact ex_hyps. Qed.
