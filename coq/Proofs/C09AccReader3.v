(* Proofs/C09AccReader3.v — table => reader for the integer and float kinds: whatever value the GENERATED Int /
   Float meta object accepts (generic Unserialize of Schema/Ops.v, references resolved in the table), the
   hand-written readers `mp_int` / `mp_float` of Schema/Describe.v accept too - ARBITRARY values, at any fuel.
   Goes through the nested Units and Unit objects and the multipliers map, each with the converse of its
   acceptance lemma (`obj_inv`: what an accepted object value must look like). *)
From Coq Require Import Lia.
From Verif Require Import Base.Prelude Base.Str Base.Float Base.GoVal
  Schema.Regex Schema.Units Schema.Syntax Schema.Ops Schema.SpecObj Schema.Describe Schema.MetaTable
  Proofs.OpsLemmas Proofs.OpsEq Proofs.C03Obj Proofs.C09Fixpoint Proofs.C09AccBase Proofs.C09AccTable
  Proofs.C09AccReader2.
Open Scope string_scope.

Section Inv.
Variable words : list (string * bool).
Variable pu : units -> string -> option fl.
Variable e : env.
Notation unser := (unser words pu).

(* an object with other than exactly one property accepts only maps; what the map then looks like *)
Lemma obj_inv f id un props d x :
  NoDup (map fst props) ->
  match props with [_] => False | _ => True end ->
  unser (S f) e (SObject id un props) d = Ok x ->
  exists t nl kvs es,
    d = VMap t nl kvs /\ Forall2 kv_entry kvs es /\ Forall (fun en => amem (fst en) props = true) es
    /\ (forall k p dd, alookup k props = Some p -> alookup k es = Some dd ->
          exists x0, unser f e (p_type p) dd = Ok x0)
    /\ (forall k p, alookup k props = Some p -> p_required p = true -> p_default p = None ->
          exists dd, alookup k es = Some dd).
Proof.
  intros Hnd Hns H. rewrite unser_object_eq in H. unfold obj_unser in H.
  destruct d as [| | | | | |t nl kvs| | | |];
    try (destruct props as [|[n1 p1] [|np2 rest]]; [discriminate H | contradiction | discriminate H]).
  apply bind_ok in H. destruct H as (r0 & Hk & H). cbv zeta in H.
  apply bind_ok in H. destruct H as (r2 & Hu & H).
  apply bind_ok in H. destruct H as (uu & Hr & _). destruct uu.
  apply (kfold_ok props kvs [] r0) in Hk. destruct Hk as (es & HF2 & Hdecl & ->). cbn [app] in Hu.
  destruct (ufold_sound (unser f e) props Hnd _ r2 Hu) as (Hkeys & Hl).
  exists t, nl, kvs, es. repeat split; try assumption.
  - intros k p dd Hp Hdd. specialize (Hl k). rewrite r1_lookup in Hl by exact Hnd. rewrite Hdd in Hl. unfold property in *. rewrite Hp in Hl.
    destruct Hl as (x0 & (_ & Hx) & _). eauto.
  - intros k p Hp Hreq Hdf.
    apply check_rules_ok with (name := k) (p := p) in Hr; [|apply alookup_In; exact Hp].
    unfold rule_holds in Hr. cbv beta in Hr.
    destruct (amem k r2) eqn:Es.
    + rewrite (amem_same_keys k r2 _ Hkeys) in Es. apply amem_alookup in Es. destruct Es as (dd & Hdd).
      rewrite r1_lookup in Hdd by exact Hnd. destruct (alookup k es) as [d0|]; [eauto|].
      unfold property in *. rewrite Hp in Hdd. unfold default_value in Hdd. rewrite Hdf in Hdd. discriminate.
    + destruct Hr as (Hr & _). congruence.
Qed.

Lemma string_read f dd x : unser f e (SString None None None) dd = Ok x -> exists s, rd_any_str dd = Ok s.
Proof.
  destruct f as [|f]; [discriminate|]. rewrite (unser_S words pu). cbv beta iota.
  unfold string_unser, rd_any_str, rd_str. destruct (string_mapper dd) as [s|]; [|discriminate]. intros _.
  eexists; reflexivity.
Qed.

Lemma float_read f dd x : unser f e (SFloat None None None) dd = Ok x -> exists z, rd_float pu dd = Ok z.
Proof.
  destruct f as [|f]; [discriminate|]. rewrite (unser_S words pu). cbv beta iota. unfold float_unser, rd_float.
  destruct (float_mapper pu None dd) as [z|]; [|discriminate]. eauto.
Qed.

Lemma int_read' f mn mx u dd x : unser f e (SInt mn mx u) dd = Ok x -> exists z, rd_int mn mx u dd = Ok z.
Proof. destruct f as [|f]; [discriminate|]. apply (int_read words pu e). Qed.

(* MapSchema.Unserialize without bounds: if every key and value the table's types accept is read by rk / rv *)
Lemma map_read {K V} f ks vs dm x (rk : gval -> outcome K) (rv : gval -> outcome V) keq :
  unser f e (SMap ks vs None None) dm = Ok x ->
  (forall k k', unser (pred f) e ks k = Ok k' -> exists a, rk k = Ok a) ->
  (forall v v', unser (pred f) e vs v = Ok v' -> exists b, rv v = Ok b) ->
  exists r, rd_map rk rv keq None dm = Ok r.
Proof.
  destruct f as [|f]; [discriminate|]. cbn [pred]. rewrite (unser_S words pu). cbv beta iota. intros H Hk Hv.
  destruct dm as [| | | | | |t nl kvs| | | |]; try discriminate H. cbn [rd_map].
  change (size_ok None None (zlen kvs)) with true in H. change (size_ok None None (zlen kvs)) with true.
  cbv beta iota in H |- *.
  apply bind_ok in H. destruct H as (r & H & _).
  assert (G : forall a r0, fold_left (fun acc kv =>
                     a <- acc ;;
                     k' <- seg (mkey_seg (fst kv)) (unser f e ks (fst kv)) ;;
                     v' <- seg (mval_seg (fst kv)) (unser f e vs (snd kv)) ;;
                     Ok (map_set k' v' a)) kvs (Ok a) = Ok r0 ->
              forall a', exists r', fold_left (fun acc kv => a <- acc ;; k <- rk (fst kv) ;; x <- rv (snd kv) ;; Ok (aset keq k x a))
                                      kvs (Ok a') = Ok r').
  { clear H. induction kvs as [|kv tl IH]; intros a r0 H a'; [exists a'; reflexivity|].
    apply fold_bind_cons in H. destruct H as (a1 & Hs & Hf).
    apply bind_ok in Hs. destruct Hs as (k' & Hk' & Hs). apply seg_ok in Hk'.
    apply bind_ok in Hs. destruct Hs as (v' & Hv' & _). apply seg_ok in Hv'.
    destruct (Hk _ _ Hk') as (ka & Hka). destruct (Hv _ _ Hv') as (vb & Hvb).
    cbn [fold_left bind]. rewrite Hka. cbn [bind]. rewrite Hvb. cbn [bind]. exact (IH _ _ Hf _). }
  exact (G [] r H []).
Qed.
End Inv.

(* ---------- the Unit, Units, Int and Float objects of the table ---------- *)
Ltac table_obj id H :=
  let i := fresh "i" in let u := fresh "u" in let E := fresh "E" in let Hs := fresh "Hshape" in
  assert (Hs : (match alookup id meta_objs with Some (SObject _ _ _) => true | _ => false end) = true)
    by (vm_compute; reflexivity);
  destruct (mobj_obj id Hs) as (i & u & E); clear Hs; rewrite E in H; clear E;
  let ps := eval vm_compute in (meta_props id) in change (meta_props id) with ps in H.

Section Kinds.
Variable words : list (string * bool).
Variable pu : units -> string -> option fl.
Variable tab : objtab.
Hypothesis Htab : forall id o, alookup id meta_objs = Some o -> alookup id tab = Some o.
Variable jor : oracles.
Notation tenv := (tenv tab jor).
Notation unser := (unser words pu).

Lemma ref_inv f id d v x : amem id meta_objs = true ->
  unser f tenv (SRef id "" d) v = Ok x -> unser (pred f) tenv (mobj id) v = Ok x.
Proof.
  intros Hm. destruct f as [|f]; [discriminate|]. cbn [pred]. rewrite (unser_S words pu). cbv beta iota.
  unfold resolve. cbn [String.eqb]. cbv beta iota. unfold C09AccTable.tenv. cbn [e_self].
  assert (Hl : alookup id tab = Some (mobj id)).
  { apply Htab. unfold mobj. unfold amem in Hm. destruct (alookup id meta_objs); [reflexivity | discriminate]. }
  rewrite Hl. intros H. exact H.
Qed.

Lemma unit_read f dsp dd x : unser f tenv (SRef "Unit" "" dsp) dd = Ok x -> exists ud, rd_unit dd = Ok ud.
Proof.
  intros H. apply ref_inv in H; [|vm_compute; reflexivity].
  destruct (pred f) as [|f1]; [discriminate|]. table_obj "Unit" H.
  apply obj_inv in H; [| apply nodup_str_NoDup; vm_compute; reflexivity | exact I].
  destruct H as (t & nl & kvs & es & -> & HF2 & Hdecl & Hacc & Hreq).
  unfold rd_unit.
  rewrite (conv_fields_entries ["name_long_plural"; "name_long_singular"; "name_short_plural"; "name_short_singular"] t nl kvs es HF2).
  2:{ eapply Forall_impl; [|exact Hdecl]. intros a. unfold amem. cbn [alookup str_in].
      destruct (String.eqb (fst a) "name_long_plural"), (String.eqb (fst a) "name_long_singular"),
               (String.eqb (fst a) "name_short_plural"), (String.eqb (fst a) "name_short_singular"); cbn; congruence. }
  cbn [bind]. unfold req_field.
  destruct (Hreq "name_long_plural" _ eq_refl eq_refl eq_refl) as (d1 & E1). rewrite E1.
  destruct (Hacc "name_long_plural" _ d1 eq_refl E1) as (x1 & Hx1). cbn [p_type] in Hx1.
  destruct (string_read _ _ _ _ _ _ Hx1) as (s1 & Hs1). rewrite Hs1. cbn [bind].
  destruct (Hreq "name_long_singular" _ eq_refl eq_refl eq_refl) as (d2 & E2). rewrite E2.
  destruct (Hacc "name_long_singular" _ d2 eq_refl E2) as (x2 & Hx2). cbn [p_type] in Hx2.
  destruct (string_read _ _ _ _ _ _ Hx2) as (s2 & Hs2). rewrite Hs2. cbn [bind].
  destruct (Hreq "name_short_plural" _ eq_refl eq_refl eq_refl) as (d3 & E3). rewrite E3.
  destruct (Hacc "name_short_plural" _ d3 eq_refl E3) as (x3 & Hx3). cbn [p_type] in Hx3.
  destruct (string_read _ _ _ _ _ _ Hx3) as (s3 & Hs3). rewrite Hs3. cbn [bind].
  destruct (Hreq "name_short_singular" _ eq_refl eq_refl eq_refl) as (d4 & E4). rewrite E4.
  destruct (Hacc "name_short_singular" _ d4 eq_refl E4) as (x4 & Hx4). cbn [p_type] in Hx4.
  destruct (string_read _ _ _ _ _ _ Hx4) as (s4 & Hs4). rewrite Hs4. cbn [bind].
  eexists; reflexivity.
Qed.

Lemma units_read f dsp dd x : unser f tenv (SRef "Units" "" dsp) dd = Ok x -> exists us, rd_units dd = Ok us.
Proof.
  intros H. apply ref_inv in H; [|vm_compute; reflexivity].
  destruct (pred f) as [|f1]; [discriminate|]. table_obj "Units" H.
  apply obj_inv in H; [| apply nodup_str_NoDup; vm_compute; reflexivity | exact I].
  destruct H as (t & nl & kvs & es & -> & HF2 & Hdecl & Hacc & Hreq).
  unfold rd_units.
  rewrite (conv_fields_entries ["base_unit"; "multipliers"] t nl kvs es HF2).
  2:{ eapply Forall_impl; [|exact Hdecl]. intros a. unfold amem. cbn [alookup str_in].
      destruct (String.eqb (fst a) "base_unit"), (String.eqb (fst a) "multipliers"); cbn; congruence. }
  cbn [bind]. unfold req_field, opt_field.
  destruct (Hreq "base_unit" _ eq_refl eq_refl eq_refl) as (d1 & E1). rewrite E1.
  destruct (Hacc "base_unit" _ d1 eq_refl E1) as (x1 & Hx1). cbn [p_type] in Hx1.
  destruct (unit_read _ _ _ _ Hx1) as (ud & Hud). rewrite Hud. cbn [bind].
  destruct (alookup "multipliers" es) as [dm|] eqn:Em.
  - destruct (Hacc "multipliers" _ dm eq_refl Em) as (x2 & Hx2). cbn [p_type] in Hx2.
    destruct (map_read words pu tenv f1 _ _ dm x2 (rd_int (Some 2%Z) None None) rd_unit Z.eqb Hx2) as (r & Hr).
    + intros k k' Hk. exact (int_read' words pu tenv _ _ _ _ _ _ Hk).
    + intros v v' Hv. exact (unit_read _ _ _ _ Hv).
    + rewrite Hr. cbn [bind]. eexists; reflexivity.
  - cbn [bind]. eexists; reflexivity.
Qed.

Theorem table_int_implies_reader f d x :
  unser f tenv (mobj "Int") d = Ok x -> exists s', mp_int d = Ok s'.
Proof.
  intros H. destruct f as [|f1]; [discriminate|]. table_obj "Int" H.
  apply obj_inv in H; [| apply nodup_str_NoDup; vm_compute; reflexivity | exact I].
  destruct H as (t & nl & kvs & es & -> & HF2 & Hdecl & Hacc & _).
  unfold mp_int.
  rewrite (conv_fields_entries ["min"; "max"; "units"] t nl kvs es HF2).
  2:{ eapply Forall_impl; [|exact Hdecl]. intros a. unfold amem. cbn [alookup str_in].
      destruct (String.eqb (fst a) "max"), (String.eqb (fst a) "min"), (String.eqb (fst a) "units"); cbn; congruence. }
  cbn [bind]. unfold opt_field.
  assert (Hmin : exists r, match alookup "min" es with
                           | Some v => x0 <- rd_int None None None v ;; Ok (Some x0) | None => Ok None end = Ok r).
  { destruct (alookup "min" es) as [dd|] eqn:E; [|eexists; reflexivity].
    destruct (Hacc "min" _ dd eq_refl E) as (x0 & Hx). cbn [p_type] in Hx.
    destruct (int_read' words pu tenv _ _ _ _ _ _ Hx) as (z & Hz). rewrite Hz. eexists; reflexivity. }
  assert (Hmax : exists r, match alookup "max" es with
                           | Some v => x0 <- rd_int None None None v ;; Ok (Some x0) | None => Ok None end = Ok r).
  { destruct (alookup "max" es) as [dd|] eqn:E; [|eexists; reflexivity].
    destruct (Hacc "max" _ dd eq_refl E) as (x0 & Hx). cbn [p_type] in Hx.
    destruct (int_read' words pu tenv _ _ _ _ _ _ Hx) as (z & Hz). rewrite Hz. eexists; reflexivity. }
  assert (Hun : exists r, match alookup "units" es with
                          | Some v => x0 <- rd_units v ;; Ok (Some x0) | None => Ok None end = Ok r).
  { destruct (alookup "units" es) as [dd|] eqn:E; [|eexists; reflexivity].
    destruct (Hacc "units" _ dd eq_refl E) as (x0 & Hx). cbn [p_type] in Hx.
    destruct (units_read _ _ _ _ Hx) as (us & Hus). rewrite Hus. eexists; reflexivity. }
  destruct Hmin as (r1 & ->). cbn [bind]. destruct Hmax as (r2 & ->). cbn [bind]. destruct Hun as (r3 & ->). cbn [bind].
  eexists; reflexivity.
Qed.

Theorem table_float_implies_reader f d x :
  unser f tenv (mobj "Float") d = Ok x -> exists s', mp_float pu d = Ok s'.
Proof.
  intros H. destruct f as [|f1]; [discriminate|]. table_obj "Float" H.
  apply obj_inv in H; [| apply nodup_str_NoDup; vm_compute; reflexivity | exact I].
  destruct H as (t & nl & kvs & es & -> & HF2 & Hdecl & Hacc & _).
  unfold mp_float.
  rewrite (conv_fields_entries ["min"; "max"; "units"] t nl kvs es HF2).
  2:{ eapply Forall_impl; [|exact Hdecl]. intros a. unfold amem. cbn [alookup str_in].
      destruct (String.eqb (fst a) "max"), (String.eqb (fst a) "min"), (String.eqb (fst a) "units"); cbn; congruence. }
  cbn [bind]. unfold opt_field.
  assert (Hmin : exists r, match alookup "min" es with
                           | Some v => x0 <- rd_float pu v ;; Ok (Some x0) | None => Ok None end = Ok r).
  { destruct (alookup "min" es) as [dd|] eqn:E; [|eexists; reflexivity].
    destruct (Hacc "min" _ dd eq_refl E) as (x0 & Hx). cbn [p_type] in Hx.
    destruct (float_read words pu tenv _ _ _ Hx) as (z & Hz). rewrite Hz. eexists; reflexivity. }
  assert (Hmax : exists r, match alookup "max" es with
                           | Some v => x0 <- rd_float pu v ;; Ok (Some x0) | None => Ok None end = Ok r).
  { destruct (alookup "max" es) as [dd|] eqn:E; [|eexists; reflexivity].
    destruct (Hacc "max" _ dd eq_refl E) as (x0 & Hx). cbn [p_type] in Hx.
    destruct (float_read words pu tenv _ _ _ Hx) as (z & Hz). rewrite Hz. eexists; reflexivity. }
  assert (Hun : exists r, match alookup "units" es with
                          | Some v => x0 <- rd_units v ;; Ok (Some x0) | None => Ok None end = Ok r).
  { destruct (alookup "units" es) as [dd|] eqn:E; [|eexists; reflexivity].
    destruct (Hacc "units" _ dd eq_refl E) as (x0 & Hx). cbn [p_type] in Hx.
    destruct (units_read _ _ _ _ Hx) as (us & Hus). rewrite Hus. eexists; reflexivity. }
  destruct Hmin as (r1 & ->). cbn [bind]. destruct Hmax as (r2 & ->). cbn [bind]. destruct Hun as (r3 & ->). cbn [bind].
  eexists; reflexivity.
Qed.
End Kinds.
