(* Proofs/XInline.v — struct-mapped parents: the sub-object default propagation (schema/object.go
   applySubObjectDefaultValues, Schema/XOps.v xsub_defaults) does not tell a member held BY REFERENCE from the
   same member held BY VALUE.  This is the part of C14 ("replacing references by the objects they denote never
   changes ... what they unserialize to") that the struct-mapped path adds to the map-based one: only a
   struct-mapped parent fills in the defaults of an absent member itself. *)
From Coq Require Import List String ZArith.
From Verif Require Import Base.Prelude Base.Str Base.Float Base.GoVal Base.XReflect
  Schema.Regex Schema.Units Schema.Syntax Schema.Ops Schema.XSyntax Schema.XOps.
Import ListNotations.
Open Scope string_scope.

Definition x_is_object (o : xschema) : Prop := match o with XObject _ _ _ _ => True | _ => False end.

(* the same property with another type *)
Definition xwith_type (p : xproperty) (t : xschema) : xproperty := map_prop (fun _ => t) p.

Lemma xsub_object_ref_self : forall e id d o,
  alookup id (xe_self e) = Some o -> x_is_object o ->
  xsub_object e (XRef id "" d) = xsub_object e o.
Proof.
  intros e id d o Hl Ho. unfold xsub_object, xresolve. cbn. rewrite Hl.
  destruct o; try contradiction. reflexivity.
Qed.

(* one property: through the reference = through the object *)
Theorem xsub_defaults_ref_inline : forall fuel e pid p r id d o,
  p_type p = XRef id "" d ->
  alookup id (xe_self e) = Some o -> x_is_object o ->
  xsub_defaults fuel e pid p r = xsub_defaults fuel e pid (xwith_type p o) r.
Proof.
  intros fuel e pid p r id d o Ht Hl Ho.
  destruct fuel as [|f]; [reflexivity|].
  cbn [xsub_defaults]. unfold xwith_type, map_prop. cbn [p_type].
  rewrite Ht. rewrite (xsub_object_ref_self e id d o Hl Ho). reflexivity.
Qed.

(* a property and the same property with its self-namespace reference replaced by the object it denotes *)
Inductive xprop_inl (e : xenv) : xproperty -> xproperty -> Prop :=
| xpi_same : forall p, xprop_inl e p p
| xpi_ref : forall p id d o, p_type p = XRef id "" d -> alookup id (xe_self e) = Some o -> x_is_object o ->
    xprop_inl e p (xwith_type p o).

Lemma xsub_defaults_prop_inl : forall fuel e pid p p' r,
  xprop_inl e p p' -> xsub_defaults fuel e pid p r = xsub_defaults fuel e pid p' r.
Proof.
  intros fuel e pid p p' r H. destruct H as [p | p id d o Ht Hl Ho]; [reflexivity|].
  eapply xsub_defaults_ref_inline; eauto.
Qed.

(* the whole propagation pass of a struct-mapped parent (the fold of xunser over its property list): replacing any
   number of the parent's member references by their objects leaves the defaulted raw map as it is *)
Theorem xsub_defaults_pass_inline : forall fuel e (r0 : raw) props props' acc,
  Forall2 (fun np np' => fst np = fst np' /\ xprop_inl e (snd np) (snd np')) props props' ->
  fold_left (fun acc0 (np : string * xproperty) =>
               a <- acc0 ;; if amem (fst np) r0 then Ok a else xsub_defaults fuel e (fst np) (snd np) a) props acc
  = fold_left (fun acc0 (np : string * xproperty) =>
               a <- acc0 ;; if amem (fst np) r0 then Ok a else xsub_defaults fuel e (fst np) (snd np) a) props' acc.
Proof.
  intros fuel e r0 props props' acc H. revert acc.
  induction H as [|x y l l' Hxy _ IH]; intro acc; [reflexivity|].
  cbn [fold_left]. rewrite <- IH. f_equal.
  destruct x as [n p], y as [n' p']. cbn [fst snd] in *. destruct Hxy as [Hn Hp]. subst n'.
  destruct acc as [a| | |]; cbn; try reflexivity.
  destruct (amem n r0); [reflexivity|].
  apply xsub_defaults_prop_inl; assumption.
Qed.

(* the hypotheses are satisfiable, and the conclusion is not vacuous: a struct-mapped parent XNested{in: ref XI} whose
   member XI has a default fills the absent member in, by reference and by value alike *)
Definition xi_obj : xschema :=
  XObject "XI" false
    [("a", mkProp (XInt None None None) None false [] [] [] (Some "5") [] false false None)]
    (Some (mkStructInfo "XInner" false [("a", mkFieldRef "A" [0%nat] [0%nat] (TInt I64))])).
Definition xi_env : xenv :=
  mkXEnv [("XI", xi_obj)] [] (mkOracles (fun t => if String.eqb t "5" then Some (VInt (TInt I64) 5%Z) else None) (fun _ => true)) [].
Definition xi_prop : xproperty := mkProp (XRef "XI" "" None) None false [] [] [] None [] false false None.

Example xsub_defaults_ref_inline_example :
  xprop_inl xi_env xi_prop (xwith_type xi_prop xi_obj) /\
  xsub_defaults 5 xi_env "in" xi_prop [] = Ok [("in", raw_to_val [("a", VInt (TInt I64) 5%Z)])] /\
  xsub_defaults 5 xi_env "in" (xwith_type xi_prop xi_obj) [] = Ok [("in", raw_to_val [("a", VInt (TInt I64) 5%Z)])].
Proof.
  split; [|split].
  - eapply xpi_ref; [reflexivity|reflexivity|exact I].
  - vm_compute. reflexivity.
  - vm_compute. reflexivity.
Qed.
