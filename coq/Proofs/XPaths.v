(* Proofs/XPaths.v — C03 (paths agree) for struct-mapped objects: validateStruct and serializeStruct
   enforce ONE AND THE SAME predicate on a Go value,

     xstruct_native_ok child_ok e props si v :=
       v is exactly a T (reflect.TypeOf(v) == ReflectedType(); a non-nil pointer when T = *S)
       /\ the presence rules (required / required_if / required_if_not / conflicts) hold on the set of
          properties PRESENT in the struct
       /\ every present property's field value is accepted by the property type (child_ok),

   where "present" is decided by the field extraction alone (`xfield_value`): the field FieldByName finds,
   absent when it lies behind a nil embedded pointer, is a nil pointer, holds a nil interface, or — for a
   property marked treat-empty-as-default — DeepEquals the zero value of the property's reflected type;
   a pointer field is dereferenced unless the property's own reflected type is a pointer.
   Mirror of C03_paths_agree_object (Proofs/C03Obj.v: validate_object_iff / serialize_object_iff). *)
From Coq Require Import Lia.
From Verif Require Import Base.Prelude Base.Str Base.Float Base.GoVal Base.XReflect
  Schema.Regex Schema.Units Schema.Syntax Schema.Ops Schema.XSyntax Schema.XOps Schema.XWf
  Proofs.OpsLemmas Proofs.XOpsEq.
Open Scope string_scope.

(* ---------- presence rules over any payload type (SpecObj.rule_holds, C03Obj.check_rules_ok) ---------- *)
Definition xrule_holds {S} (set : string -> bool) (name : string) (p : property_ S) : Prop :=
  if set name
  then forall c, In c (p_conflicts p) -> set c = false
  else p_required p = false
       /\ (forall r, In r (p_required_if p) -> set r = false)
       /\ (p_required_if_not p <> [] -> exists r, In r (p_required_if_not p) /\ set r = true).

Lemma x_existsb_false {A} (g : A -> bool) l : existsb g l = false <-> forall x, In x l -> g x = false.
Proof.
  induction l as [|y t IH]; cbn; [split; [intros _ ? [] | reflexivity]|].
  rewrite Bool.orb_false_iff, IH. split.
  - intros [H1 H2] x [E | Hx]; [subst; exact H1 | apply H2; exact Hx].
  - intros H. split; [apply H; left; reflexivity | intros; apply H; right; assumption].
Qed.

Lemma xcheck_prop_rules_ok {S} set name (p : property_ S) :
  xcheck_prop_rules set name p = Ok tt <-> xrule_holds set name p.
Proof.
  unfold xcheck_prop_rules, xrule_holds. destruct (set name).
  - destruct (existsb set (p_conflicts p)) eqn:E.
    + split; [discriminate|]. intros H. apply existsb_exists in E. destruct E as (c & Hc & Hs).
      rewrite (H c Hc) in Hs. discriminate.
    + split; [intros _; apply x_existsb_false; exact E | reflexivity].
  - destruct (p_required p).
    { split; [discriminate | intros (H & _); discriminate]. }
    destruct (existsb set (p_required_if p)) eqn:E.
    { split; [discriminate|]. intros (_ & H & _). apply existsb_exists in E. destruct E as (c & Hc & Hs).
      rewrite (H c Hc) in Hs. discriminate. }
    assert (Hrif : forall r, In r (p_required_if p) -> set r = false) by (apply x_existsb_false; exact E).
    destruct (p_required_if_not p) as [|r0 rs] eqn:En.
    { split; [intros _; repeat split; [exact Hrif | intros C; contradiction] | reflexivity]. }
    destruct (existsb set (r0 :: rs)) eqn:E2.
    + split; [|reflexivity]. intros _. repeat split; [exact Hrif|]. intros _.
      apply existsb_exists in E2. exact E2.
    + split; [discriminate|]. intros (_ & _ & H). destruct H as (r & Hr & Hs); [discriminate|].
      assert (Hf : set r = false) by (apply (proj1 (x_existsb_false set (r0 :: rs)) E2); exact Hr). congruence.
Qed.

Lemma xcheck_rules_ok {S} (props : list (string * property_ S)) set :
  xcheck_rules props set = Ok tt <-> forall name p, In (name, p) props -> xrule_holds set name p.
Proof.
  unfold xcheck_rules. rewrite forM_ok. split.
  - intros H name p Hin. apply xcheck_prop_rules_ok. apply (H (name, p) Hin).
  - intros H [name p] Hin. apply xcheck_prop_rules_ok. apply H; exact Hin.
Qed.

Lemma xrule_holds_ext {S} set set' name (p : property_ S) :
  (forall k, set k = set' k) -> xrule_holds set name p -> xrule_holds set' name p.
Proof.
  intros E. unfold xrule_holds. rewrite <- (E name). destruct (set name).
  - intros H c Hc. rewrite <- E. apply H; exact Hc.
  - intros (H1 & H2 & H3). repeat split; [exact H1 | intros r Hr; rewrite <- E; apply H2; exact Hr|].
    intros Hn. destruct (H3 Hn) as (r & Hr & Hs). exists r; split; [exact Hr | rewrite <- E; exact Hs].
Qed.

Lemma x_amem_keys {A B} (l1 : list (string * A)) (l2 : list (string * B)) k :
  map fst l1 = map fst l2 -> amem k l1 = amem k l2.
Proof.
  unfold amem. revert l2. induction l1 as [|[k1 v1] t1 IH]; intros [|[k2 v2] t2] H; cbn in *; try discriminate; [reflexivity|].
  inversion H; subst. destruct (String.eqb k k2); [reflexivity | apply IH; assumption].
Qed.

(* ---------- the declarative field extraction ---------- *)

(* the value a property has in the struct sv; None = the property is absent *)
Definition xfield_value (e : xenv) (si : structinfo) (sv : gval) (np : string * xproperty) : option gval :=
  match alookup (fst np) (si_fields si) with
  | None => None
  | Some fr =>
      let prt := xrtype e (p_type (snd np)) in
      match xextract (is_ptr_type prt) fr sv with
      | None => None
      | Some (value, vt) =>
          if p_empty_is_default (snd np) && xis_empty (xe_structs e) prt vt value then None else Some value
      end
  end.

(* the properties present in the struct, in property order: the rawData map of validateStruct *)
Definition xpresent (e : xenv) (si : structinfo) (sv : gval) (props : list (string * xproperty)) : raw :=
  flat_map (fun np => match xfield_value e si sv np with Some x => [(fst np, x)] | None => [] end) props.

Definition xstruct_native_ok (child_ok : xschema -> gval -> Prop) (e : xenv)
    (props : list (string * xproperty)) (si : structinfo) (v : gval) : Prop :=
  exists sv, xstruct_arg si v = Some sv
    /\ (forall name p, In (name, p) props -> xrule_holds (fun k => amem k (xpresent e si sv props)) name p)
    /\ (forall np x, In np props -> xfield_value e si sv np = Some x -> child_ok (p_type (snd np)) x).

Section XPaths.
Variable words : list (string * bool).
Variable pu : units -> string -> option fl.
Notation xvalidate := (xvalidate words pu).
Notation xserialize := (xserialize words pu).

Definition has_fields (si : structinfo) (l : list (string * xproperty)) : Prop :=
  forall np, In np l -> alookup (fst np) (si_fields si) <> None.

(* ---------- validateStruct: the extraction fold ---------- *)
Definition xvbody (f : nat) (e : xenv) (si : structinfo) (sv : gval) (a : raw) (np : string * xproperty) : outcome raw :=
  match alookup (fst np) (si_fields si) with
  | None => Panic "property without a struct field"
  | Some fr =>
      let prt := xrtype e (p_type (snd np)) in
      match xextract (is_ptr_type prt) fr sv with
      | None => Ok a
      | Some (value, vt) =>
          if p_empty_is_default (snd np) && xis_empty (xe_structs e) prt vt value then Ok a
          else _ <- seg (fst np) (xvalidate f e (p_type (snd np)) value) ;;
               Ok (a ++ [(fst np, value)])%list
      end
  end.

Lemma xvbody_ok f e si sv a np a' :
  alookup (fst np) (si_fields si) <> None ->
  (xvbody f e si sv a np = Ok a' <->
   match xfield_value e si sv np with
   | None => a' = a
   | Some x => xvalidate f e (p_type (snd np)) x = Ok tt /\ a' = (a ++ [(fst np, x)])%list
   end).
Proof.
  intros Hf. unfold xvbody, xfield_value.
  destruct (alookup (fst np) (si_fields si)) as [fr|]; [|congruence]. cbv zeta.
  destruct (xextract _ fr sv) as [[value vt]|].
  - destruct (p_empty_is_default (snd np) && xis_empty _ _ vt value).
    + split; intros H; [inversion H; reflexivity | subst; reflexivity].
    + rewrite bind_ok. split.
      * intros (u & Hu & H). apply seg_ok in Hu. destruct u. inversion H; subst. auto.
      * intros (Hu & ->). exists tt. split; [apply seg_ok; exact Hu | reflexivity].
  - split; intros H; [inversion H; reflexivity | subst; reflexivity].
Qed.

Lemma xvfold_ok f e si sv l : has_fields si l -> forall a r,
  fold_left (fun acc np => a <- acc ;; xvbody f e si sv a np) l (Ok a) = Ok r <->
  (forall np x, In np l -> xfield_value e si sv np = Some x -> xvalidate f e (p_type (snd np)) x = Ok tt)
  /\ r = (a ++ xpresent e si sv l)%list.
Proof.
  induction l as [|np t IH]; intros Hf a r.
  - cbn. rewrite app_nil_r. split; [intros H; inversion H; split; [intros ? ? [] | reflexivity] | intros [_ ->]; reflexivity].
  - rewrite fold_bind_cons.
    assert (Hf0 : alookup (fst np) (si_fields si) <> None) by (apply Hf; now left).
    assert (Hft : has_fields si t) by (intros x Hx; apply Hf; now right).
    split.
    + intros (a' & Hb & Hfold). apply (xvbody_ok _ _ _ _ _ _ _ Hf0) in Hb.
      apply (IH Hft) in Hfold as [Hall ->].
      unfold xpresent at 2. cbn [flat_map]. fold (xpresent e si sv t).
      destruct (xfield_value e si sv np) as [x|] eqn:Ex.
      * destruct Hb as [Hv ->]. split; [|rewrite <- app_assoc; reflexivity].
        intros np' x' [<- | Hin] Hx'; [rewrite Ex in Hx'; inversion Hx'; subst; exact Hv | eapply Hall; eauto].
      * subst a'. split; [|reflexivity].
        intros np' x' [<- | Hin] Hx'; [congruence | eapply Hall; eauto].
    + intros [Hall ->].
      unfold xpresent. cbn [flat_map]. fold (xpresent e si sv t).
      destruct (xfield_value e si sv np) as [x|] eqn:Ex.
      * exists (a ++ [(fst np, x)])%list. split.
        -- apply (xvbody_ok _ _ _ _ _ _ _ Hf0). rewrite Ex. split; [apply (Hall np x); [now left | exact Ex] | reflexivity].
        -- apply (IH Hft). split; [intros; eapply Hall; eauto; now right | rewrite <- app_assoc; reflexivity].
      * exists a. split.
        -- apply (xvbody_ok _ _ _ _ _ _ _ Hf0). rewrite Ex. reflexivity.
        -- apply (IH Hft). split; [intros; eapply Hall; eauto; now right | reflexivity].
Qed.

Lemma xvalidate_struct_iff f e id u props si v : has_fields si props ->
  (xvalidate (S f) e (XObject id u props (Some si)) v = Ok tt <->
   xstruct_native_ok (fun s x => xvalidate f e s x = Ok tt) e props si v).
Proof.
  intros Hf. rewrite (xvalidate_S words pu). cbv beta iota zeta. unfold xstruct_native_ok.
  destruct (xstruct_arg si v) as [sv|].
  2: { split; [discriminate | intros (sv & H & _); discriminate]. }
  change (fold_left _ props (Ok [])) with (fold_left (fun acc np => a <- acc ;; xvbody f e si sv a np) props (Ok [])).
  rewrite bind_ok. split.
  - intros (r & Hr & Hrules). apply (xvfold_ok _ _ _ _ _ Hf) in Hr as [Hall ->]. cbn [app] in Hrules.
    exists sv. split; [reflexivity|]. split; [apply xcheck_rules_ok; exact Hrules | exact Hall].
  - intros (sv' & E & Hrules & Hall). inversion E; subst sv'.
    exists (xpresent e si sv props). split; [apply (xvfold_ok _ _ _ _ _ Hf); split; [exact Hall | reflexivity]|].
    apply xcheck_rules_ok. exact Hrules.
Qed.

(* ---------- serializeStruct: the same fold, the serialized values collected ---------- *)
Definition xsbody (f : nat) (e : xenv) (si : structinfo) (sv : gval) (a : raw) (np : string * xproperty) : outcome raw :=
  match alookup (fst np) (si_fields si) with
  | None => Panic "property without a struct field"
  | Some fr =>
      let prt := xrtype e (p_type (snd np)) in
      match xextract (is_ptr_type prt) fr sv with
      | None => Ok a
      | Some (value, vt) =>
          if p_empty_is_default (snd np) && xis_empty (xe_structs e) prt vt value then Ok a
          else x <- seg (fst np) (xserialize f e (p_type (snd np)) value) ;;
               Ok (a ++ [(fst np, x)])%list
      end
  end.

Lemma xsbody_ok f e si sv a np a' :
  alookup (fst np) (si_fields si) <> None ->
  (xsbody f e si sv a np = Ok a' <->
   match xfield_value e si sv np with
   | None => a' = a
   | Some x => exists y, xserialize f e (p_type (snd np)) x = Ok y /\ a' = (a ++ [(fst np, y)])%list
   end).
Proof.
  intros Hf. unfold xsbody, xfield_value.
  destruct (alookup (fst np) (si_fields si)) as [fr|]; [|congruence]. cbv zeta.
  destruct (xextract _ fr sv) as [[value vt]|].
  - destruct (p_empty_is_default (snd np) && xis_empty _ _ vt value).
    + split; intros H; [inversion H; reflexivity | subst; reflexivity].
    + rewrite bind_ok. split.
      * intros (y & Hy & H). apply seg_ok in Hy. inversion H; subst. eauto.
      * intros (y & Hy & ->). exists y. split; [apply seg_ok; exact Hy | reflexivity].
  - split; intros H; [inversion H; reflexivity | subst; reflexivity].
Qed.

(* the serialized entries of the present properties: key by key the serialization of the field value *)
Definition xser_entries (f : nat) (e : xenv) (si : structinfo) (sv : gval) (l : list (string * xproperty)) (ys : raw) : Prop :=
  Forall2 (fun npx ky => fst ky = fst (fst npx) /\ xserialize f e (p_type (snd (fst npx))) (snd npx) = Ok (snd ky))
    (flat_map (fun np => match xfield_value e si sv np with Some x => [(np, x)] | None => [] end) l) ys.

Lemma xser_entries_keys f e si sv l ys : xser_entries f e si sv l ys -> map fst ys = map fst (xpresent e si sv l).
Proof.
  unfold xser_entries, xpresent. revert ys. induction l as [|np t IH]; intros ys H; cbn [flat_map] in *.
  - inversion H; reflexivity.
  - destruct (xfield_value e si sv np) as [x|]; cbn [app] in *.
    + inversion H as [|? ky ? ys' [Hk _] Hrest]; subst. cbn. rewrite Hk. f_equal. apply IH. exact Hrest.
    + apply IH. exact H.
Qed.

Lemma xsfold_ok f e si sv l : has_fields si l -> forall a r,
  fold_left (fun acc np => a <- acc ;; xsbody f e si sv a np) l (Ok a) = Ok r <->
  exists ys, xser_entries f e si sv l ys /\ r = (a ++ ys)%list.
Proof.
  induction l as [|np t IH]; intros Hf a r.
  - cbn. split.
    + intros H; inversion H. exists []. split; [constructor | rewrite app_nil_r; reflexivity].
    + intros (ys & Hys & ->). inversion Hys. rewrite app_nil_r. reflexivity.
  - rewrite fold_bind_cons.
    assert (Hf0 : alookup (fst np) (si_fields si) <> None) by (apply Hf; now left).
    assert (Hft : has_fields si t) by (intros x Hx; apply Hf; now right).
    unfold xser_entries. cbn [flat_map].
    split.
    + intros (a' & Hb & Hfold). apply (xsbody_ok _ _ _ _ _ _ _ Hf0) in Hb.
      apply (IH Hft) in Hfold as (ys & Hys & ->).
      destruct (xfield_value e si sv np) as [x|] eqn:Ex.
      * destruct Hb as (y & Hy & ->). exists ((fst np, y) :: ys). split.
        -- cbn [app]. constructor; [split; [reflexivity | exact Hy] | exact Hys].
        -- rewrite <- app_assoc. reflexivity.
      * subst a'. exists ys. split; [exact Hys | reflexivity].
    + intros (ys & Hys & ->).
      destruct (xfield_value e si sv np) as [x|] eqn:Ex.
      * cbn [app] in Hys. inversion Hys as [|? ky ? ys' [Hk Hy] Hrest]; subst. cbn [fst snd] in *.
        exists (a ++ [(fst np, snd ky)])%list. split.
        -- apply (xsbody_ok _ _ _ _ _ _ _ Hf0). rewrite Ex. exists (snd ky). split; [exact Hy | reflexivity].
        -- apply (IH Hft). exists ys'. split; [exact Hrest|]. rewrite <- app_assoc. cbn [app].
           destruct ky as [k y]. cbn [fst snd] in *. subst k. reflexivity.
      * exists a. split.
        -- apply (xsbody_ok _ _ _ _ _ _ _ Hf0). rewrite Ex. reflexivity.
        -- apply (IH Hft). exists ys. split; [exact Hys | reflexivity].
Qed.

Lemma xser_entries_exist f e si sv l :
  (exists ys, xser_entries f e si sv l ys) <->
  (forall np x, In np l -> xfield_value e si sv np = Some x -> exists y, xserialize f e (p_type (snd np)) x = Ok y).
Proof.
  unfold xser_entries. induction l as [|np t IH]; cbn [flat_map].
  - split; [intros _ ? ? [] | intros _; exists []; constructor].
  - destruct (xfield_value e si sv np) as [x|] eqn:Ex; cbn [app].
    + split.
      * intros (ys & Hys). inversion Hys as [|? ky ? ys' [Hk Hy] Hrest]; subst. cbn [fst snd] in *.
        intros np' x' [<- | Hin] Hx'.
        -- rewrite Ex in Hx'. inversion Hx'; subst. eauto.
        -- apply (proj1 IH (ex_intro _ ys' Hrest) np' x' Hin Hx').
      * intros H. destruct (H np x (or_introl eq_refl) Ex) as (y & Hy).
        destruct (proj2 IH) as (ys & Hys); [intros; eapply H; eauto; now right|].
        exists ((fst np, y) :: ys). constructor; [split; [reflexivity | exact Hy] | exact Hys].
    + split.
      * intros Hys np' x' [<- | Hin] Hx'; [congruence | apply (proj1 IH Hys np' x' Hin Hx')].
      * intros H. apply IH. intros; eapply H; eauto; now right.
Qed.

Lemma xserialize_struct_iff f e id u props si v : has_fields si props ->
  ((exists w, xserialize (S f) e (XObject id u props (Some si)) v = Ok w) <->
   xstruct_native_ok (fun s x => exists y, xserialize f e s x = Ok y) e props si v).
Proof.
  intros Hf. rewrite (xserialize_S words pu). cbv beta iota zeta. unfold xstruct_native_ok.
  destruct (xstruct_arg si v) as [sv|].
  2: { split; [intros (w & H); discriminate | intros (sv & H & _); discriminate]. }
  change (fold_left _ props (Ok [])) with (fold_left (fun acc np => a <- acc ;; xsbody f e si sv a np) props (Ok [])).
  split.
  - intros (w & H). apply bind_ok in H as (out & Hout & H). apply bind_ok in H as (u0 & Hrules & _).
    apply (xsfold_ok _ _ _ _ _ Hf) in Hout as (ys & Hys & ->). cbn [app] in Hrules.
    exists sv. split; [reflexivity|]. split.
    + destruct u0. intros name p Hin. apply (proj1 (xcheck_rules_ok _ _) Hrules) in Hin.
      eapply xrule_holds_ext; [|exact Hin]. intros k. apply x_amem_keys. eapply xser_entries_keys; eauto.
    + apply xser_entries_exist. eauto.
  - intros (sv' & E & Hrules & Hall). inversion E; subst sv'.
    apply xser_entries_exist in Hall as (ys & Hys).
    exists (raw_to_val ys). apply bind_ok. exists ys. split.
    + apply (xsfold_ok _ _ _ _ _ Hf). exists ys. split; [exact Hys | reflexivity].
    + apply bind_ok. exists tt. split; [|reflexivity]. apply xcheck_rules_ok.
      intros name p Hin. eapply xrule_holds_ext; [|exact (Hrules name p Hin)].
      intros k. symmetry. apply x_amem_keys. eapply xser_entries_keys; eauto.
Qed.

(* the serialized value: the present properties, key by key the serialization of the field value *)
Lemma xserialize_struct_value f e id u props si v w : has_fields si props ->
  xserialize (S f) e (XObject id u props (Some si)) v = Ok w ->
  exists sv ys, xstruct_arg si v = Some sv /\ xser_entries f e si sv props ys /\ w = raw_to_val ys.
Proof.
  intros Hf. rewrite (xserialize_S words pu). cbv beta iota zeta.
  destruct (xstruct_arg si v) as [sv|]; [|discriminate].
  change (fold_left _ props (Ok [])) with (fold_left (fun acc np => a <- acc ;; xsbody f e si sv a np) props (Ok [])).
  intros H. apply bind_ok in H as (out & Hout & H). apply bind_ok in H as (u0 & _ & H). inversion H; subst.
  apply (xsfold_ok _ _ _ _ _ Hf) in Hout as (ys & Hys & ->). eauto.
Qed.

Lemma xfields_has_fields props si : xfields_ok props (Some si) = true -> has_fields si props.
Proof.
  unfold xfields_ok, has_fields. intros H np Hin.
  assert (H1 := proj1 (forallb_forall _ _) H _ Hin). cbv beta in H1. unfold amem in H1.
  intros E. rewrite E in H1. discriminate H1.
Qed.

(* C03 paths agree, struct-mapped objects: Validate and Serialize enforce one and the same type / presence
   predicate on a Go value, each with its own acceptance of the field values *)
Theorem x_struct_paths_agree : forall f e id u props si v,
  xfields_ok props (Some si) = true ->
  (xvalidate (S f) e (XObject id u props (Some si)) v = Ok tt <->
     xstruct_native_ok (fun s x => xvalidate f e s x = Ok tt) e props si v) /\
  ((exists w, xserialize (S f) e (XObject id u props (Some si)) v = Ok w) <->
     xstruct_native_ok (fun s x => exists y, xserialize f e s x = Ok y) e props si v).
Proof.
  intros f e id u props si v Hf. apply xfields_has_fields in Hf.
  split; [apply xvalidate_struct_iff | apply xserialize_struct_iff]; exact Hf.
Qed.

(* hence: when the property types accept the same field values on both paths, so does the object *)
Theorem x_struct_paths_agree_verdict : forall f e id u props si v,
  xfields_ok props (Some si) = true ->
  (forall np x, In np props ->
     (xvalidate f e (p_type (snd np)) x = Ok tt <-> exists y, xserialize f e (p_type (snd np)) x = Ok y)) ->
  (xvalidate (S f) e (XObject id u props (Some si)) v = Ok tt <->
   exists w, xserialize (S f) e (XObject id u props (Some si)) v = Ok w).
Proof.
  intros f e id u props si v Hf Hch.
  destruct (x_struct_paths_agree f e id u props si v Hf) as [Hv Hs].
  rewrite Hv, Hs. unfold xstruct_native_ok.
  split; intros (sv & Ha & Hr & Hc); exists sv; (split; [exact Ha|]); (split; [exact Hr|]);
    intros np x Hin Hx; apply (Hch np x Hin); eapply Hc; eauto.
Qed.

End XPaths.

Print Assumptions x_struct_paths_agree.
Print Assumptions x_struct_paths_agree_verdict.
