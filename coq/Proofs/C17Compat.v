(* Proofs/C17Compat.v — the data-mode compatibility check (ValidateCompatibility on data), which a
   one-of's Validate and Serialize run on the selected member BEFORE the member's own Validate:
   after the fix for D67 it reports a single fault with the path of the offending element too.
   The traversal has its own conventions (scalars are read as Unserialize reads them, lists are not
   size-checked, objects check only `required` and reject disabled properties, a value that is not
   a map[string]any is handed to the object's Unserialize), so it gets its own position relation. *)
From Coq Require Import Lia.
From Verif Require Import Base.Prelude Base.Str Base.Float Base.GoVal
  Schema.Regex Schema.Units Schema.Syntax Schema.Ops
  Proofs.C02Containers Proofs.C17 Proofs.C17Object Proofs.C17ObjectU.
Open Scope Z_scope.
Open Scope list_scope.

Ltac destruct_matches :=
  repeat match goal with |- context [match ?x with _ => _ end] => destruct x end.

(* the selection part of findUnderlyingType / validateMap: discriminator, member, data handed on *)
Definition oneof_sel (types : list (okey * schema)) (ik : bool) (field : string) (inlined : bool) (v : gval)
  : outcome (okey * schema * gval) :=
  match v with
  | VNil => Err (cerr ERepr)
  | _ =>
    match kind_of v with
    | KMap =>
        match is_str_any_map v with
        | None => Err (cerr ERepr)
        | Some kvs =>
            match smap_get field kvs with
            | None | Some VNil => Err (cerr EKey)
            | Some d =>
                match (if ik then match d with VInt (TInt I64) z => Some (KI z) | _ => None end
                       else match d with VStr TStr s0 => Some (KS s0) | _ => None end) with
                | None => Err (cerr ERepr)
                | Some key =>
                    match find (fun ks => okey_eqb (fst ks) key) types with
                    | None => Err (cerr EKey)
                    | Some (_, member) =>
                        Ok (key, member, VMap t_str_map false (if inlined then kvs else smap_del field kvs))
                    end
                end
            end
        end
    | KStruct => Err (cerr ERepr)
    | KPtr => Err (cerr ERepr)
    | _ => Err (cerr ERepr)
    end
  end.

Section WithTables.
Variable words : list (string * bool).
Variable pu : units -> string -> option fl.
Notation unser := (unser words pu).
Notation validate := (validate words pu).
Notation compat := (compat words pu).
Notation oneof_find := (oneof_find words pu).

Ltac oneof_cases v :=
  destruct v as [| t b | t z | t x | t s | t nl l | t nl l | t o | t fs | src | k d];
    cbn [kind_of];
    try (destruct (kind_of_type t));
    try (destruct k).

Lemma oneof_find_unfold f e types ik field inlined v :
  oneof_find (S f) e types ik field inlined v =
  match v with
  | VNil => Err (cerr ERepr)
  | _ =>
    match kind_of v with
    | KMap =>
        match is_str_any_map v with
        | None => Err (cerr ERepr)
        | Some kvs =>
            match smap_get field kvs with
            | None | Some VNil => Err (cerr EKey)
            | Some d =>
                match (if ik then match d with VInt (TInt I64) z => Some (KI z) | _ => None end
                       else match d with VStr TStr s0 => Some (KS s0) | _ => None end) with
                | None => Err (cerr ERepr)
                | Some key =>
                    match find (fun ks => okey_eqb (fst ks) key) types with
                    | None => Err (cerr EKey)
                    | Some (_, member) =>
                        let clone := VMap t_str_map false (if inlined then kvs else smap_del field kvs) in
                        _ <- rewrap_path (compat f e member clone) ;;
                        Ok (key, member, clone)
                    end
                end
            end
        end
    | KStruct => Err (cerr ERepr)
    | KPtr => Err (cerr ERepr)
    | _ => Err (cerr ERepr)
    end
  end.
Proof. reflexivity. Qed.

Lemma oneof_find_eq f e types ik field inlined v :
  oneof_find (S f) e types ik field inlined v =
  (k <- oneof_sel types ik field inlined v ;;
   let '(key, member, clone) := k in
   _ <- rewrap_path (compat f e member clone) ;; Ok (key, member, clone)).
Proof.
  rewrite oneof_find_unfold. unfold oneof_sel.
  oneof_cases v; try reflexivity.
  all: match goal with |- context [is_str_any_map ?w] => destruct (is_str_any_map w) as [kvs|] end; try reflexivity.
  all: destruct (smap_get field kvs) as [d|]; try reflexivity.
  all: destruct d as [| t1 b1 | t1 z1 | t1 x1 | t1 s1 | t1 nl1 l1 | t1 nl1 l1 | t1 o1 | t1 fs1 | src1 | k1 d1]; try reflexivity.
  all: match goal with |- context [match (if ?c then ?a else ?b) with _ => _ end] => destruct (if c then a else b) as [key|] end;
    try reflexivity.
  all: destruct (find (fun ks => okey_eqb (fst ks) key) types) as [[k0 member]|]; reflexivity.
Qed.

Lemma oneof_sel_outcome types ik field inlined v :
  (exists x, oneof_sel types ik field inlined v = Ok x) \/ (exists c, oneof_sel types ik field inlined v = Err (cerr c)).
Proof.
  unfold oneof_sel.
  oneof_cases v; try (right; eexists; reflexivity).
  all: match goal with |- context [is_str_any_map ?w] => destruct (is_str_any_map w) as [kvs|] end;
    try (right; eexists; reflexivity).
  all: destruct (smap_get field kvs) as [d|]; try (right; eexists; reflexivity).
  all: destruct d as [| t1 b1 | t1 z1 | t1 x1 | t1 s1 | t1 nl1 l1 | t1 nl1 l1 | t1 o1 | t1 fs1 | src1 | k1 d1];
    try (right; eexists; reflexivity).
  all: match goal with |- context [match (if ?c then ?a else ?b) with _ => _ end] => destruct (if c then a else b) as [key|] end;
    try (right; eexists; reflexivity).
  all: destruct (find (fun ks => okey_eqb (fst ks) key) types) as [[k0 member]|];
    [left; eexists; reflexivity | right; eexists; reflexivity].
Qed.

Lemma oneof_sel_err types ik field inlined v er :
  oneof_sel types ik field inlined v = Err er -> exists c, er = cerr c.
Proof.
  intro H. destruct (oneof_sel_outcome types ik field inlined v) as [(x & E) | (c & E)]; rewrite E in H.
  - discriminate H.
  - inversion H. exists c. reflexivity.
Qed.

(* ---------- one-step unfoldings of compat (by conversion) ---------- *)
Lemma compat_list_eq f e it mn mx v :
  compat (S f) e (SList it mn mx) v =
  match v with
  | VSlice _ _ l => _ <- mapMi (fun i x => seg (idx_seg i) (compat f e it x)) 0 l ;; Ok tt
  | VPtr t (Some (VSlice _ _ l)) =>
      (* D49 (repaired): a pointer to a slice is read through the pointer *)
      match underlying t with
      | TPtr te => match kind_of_type te with
                   | KSlice => _ <- mapMi (fun i x => seg (idx_seg i) (compat f e it x)) 0 l ;; Ok tt
                   | _ => Err (cerr ERepr)
                   end
      | _ => Err (cerr ERepr)
      end
  | _ => Err (cerr ERepr)
  end.
Proof. reflexivity. Qed.

Lemma compat_map_eq f e ks vs mn mx v :
  compat (S f) e (SMap ks vs mn mx) v =
  match v with
  | VMap _ _ kvs =>
      if size_ok mn mx (zlen kvs) then
        forM_ (fun kv => _ <- seg (mkey_seg (fst kv)) (compat f e ks (fst kv)) ;;
                         seg (mval_seg (fst kv)) (compat f e vs (snd kv))) kvs
      else Err (cerr EBound)
  | _ => Err (cerr ERepr)
  end.
Proof. reflexivity. Qed.

Lemma compat_object_eq f e id un props v :
  compat (S f) e (SObject id un props) v =
  match is_str_any_map v with
  | Some kvs =>
      let r := raw_of_entries kvs in
      _ <- forM_ (fun kv => match alookup (fst kv) props with
                            | Some p =>
                                seg (fst kv)
                                  (_ <- rewrap_path (compat f e (p_type p) (snd kv)) ;;
                                   if p_disabled p then Err (cerr EDisabled) else Ok tt)
                            | None => Err (cerr EKey)
                            end) r ;;
      forM_ (fun np => if p_required (snd np)
                       then match alookup (fst np) r with
                            | None | Some VNil => Err (cerr_at [fst np] EPresence)
                            | Some _ => Ok tt
                            end
                       else Ok tt) props
  | None => _ <- rewrap_path (unser f e (SObject id un props) v) ;; Ok tt
  end.
Proof. reflexivity. Qed.

Lemma compat_oneof_map_eq f e types ik field inlined v kvs : is_str_any_map v = Some kvs ->
  compat (S f) e (SOneOf types ik field inlined) v = (_ <- oneof_find f e types ik field inlined v ;; Ok tt).
Proof.
  intro Hm.
  assert (E : compat (S f) e (SOneOf types ik field inlined) v =
              match is_str_any_map v with
              | Some _ => _ <- oneof_find f e types ik field inlined v ;; Ok tt
              | None =>
                  match kind_of v with
                  | KStruct => Err (cerr ERepr)
                  | KPtr => match v with
                            | VPtr _ (Some (VStruct _ _)) | VOpaque OPtr _ => Err (cerr ERepr)
                            | VPtr _ None => Err (cerr ERepr)
                            | _ => validate f e (SOneOf types ik field inlined) v
                            end
                  | _ => validate f e (SOneOf types ik field inlined) v
                  end
              end) by reflexivity.
  rewrite E, Hm. reflexivity.
Qed.

Lemma compat_ref_eq f e id ns d v :
  compat (S f) e (SRef id ns d) v =
  match resolve e id ns with Some (o, e') => compat f e' o v | None => Panic "unlinked reference" end.
Proof. reflexivity. Qed.

Lemma compat_scope_eq f e objs root v :
  compat (S f) e (SScope objs root) v =
  match alookup root objs with Some o => compat f (env_enter e objs) o v | None => Panic "root object not found" end.
Proof. reflexivity. Qed.

(* ---------- leaves ---------- *)
Lemma compat_scalar_eq f e s v :
  match s with SInt _ _ _ | SFloat _ _ _ | SBool => True | _ => False end ->
  compat (S f) e s v = (_ <- unser f e s v ;; Ok tt).
Proof. destruct s; intro H; try contradiction; reflexivity. Qed.

Lemma compat_string_eq f e mn mx pat v :
  compat (S f) e (SString mn mx pat) v =
  match v with VStr TStr _ => _ <- unser f e (SString mn mx pat) v ;; Ok tt | _ => Err (cerr ERepr) end.
Proof. reflexivity. Qed.

Lemma compat_enum_eq f e s v :
  match s with SEnumInt _ _ | SEnumStr _ _ | SPattern => True | _ => False end ->
  compat (S f) e s v = validate f e s v.
Proof. destruct s; intro H; try contradiction; reflexivity. Qed.

Lemma compat_object_nonmap_eq f e id un props v : is_str_any_map v = None ->
  compat (S f) e (SObject id un props) v = (_ <- rewrap_path (unser f e (SObject id un props) v) ;; Ok tt).
Proof. intro Hm. rewrite compat_object_eq, Hm. reflexivity. Qed.

Lemma leaf_compat_outcome s : is_leaf s -> forall f e v,
  compat (S (S f)) e s v = Ok tt \/ (exists c, compat (S (S f)) e s v = Err (cerr c)).
Proof.
  intros Hl f e v.
  pose proof (leaf_unser_outcome words pu s Hl f e v) as HU.
  pose proof (leaf_validate_outcome words pu s Hl f e v) as HV.
  destruct s; cbn [is_leaf] in Hl; try contradiction.
  - rewrite compat_scalar_eq by exact I.
    destruct HU as [(n & H) | (c & H)]; rewrite H; [left | right; exists c]; reflexivity.
  - rewrite compat_scalar_eq by exact I.
    destruct HU as [(n & H) | (c & H)]; rewrite H; [left | right; exists c]; reflexivity.
  - rewrite compat_string_eq.
    destruct v as [| t b | t z | t x | t s | t nl l | t nl l | t o | t fs | src | k d];
      try (right; exists ERepr; reflexivity).
    destruct t; try (right; exists ERepr; reflexivity).
    destruct HU as [(n & H) | (c & H)]; rewrite H; [left | right; exists c]; reflexivity.
  - rewrite compat_scalar_eq by exact I.
    destruct HU as [(n & H) | (c & H)]; rewrite H; [left | right; exists c]; reflexivity.
  - rewrite compat_enum_eq by exact I. exact HV.
  - rewrite compat_enum_eq by exact I. exact HV.
  - rewrite compat_enum_eq by exact I. exact HV.
Qed.

(* ---------- containers ---------- *)
Lemma compat_list_item_error f e it mn mx t nl l1 x l2 er :
  Forall (fun y => compat f e it y = Ok tt) l1 -> compat f e it x = Err er ->
  compat (S f) e (SList it mn mx) (VSlice t nl (l1 ++ x :: l2)) = Err (add_seg (idx_seg (zlen l1)) er).
Proof.
  intros Hok Hx. rewrite compat_list_eq. cbv beta iota.
  assert (Hok' : Forall (fun y => exists n, compat f e it y = Ok n) l1).
  { eapply Forall_impl; [|exact Hok]. cbn. intros a Ha. exists tt. exact Ha. }
  rewrite (mapMi_first_err (compat f e it) idx_seg x er l2 l1 0 Hok' Hx). reflexivity.
Qed.

Definition centry_ok f e ks vs (kv : gval * gval) : Prop :=
  compat f e ks (fst kv) = Ok tt /\ compat f e vs (snd kv) = Ok tt.

Lemma compat_entry_ok f e ks vs kv : centry_ok f e ks vs kv ->
  (_ <- seg (mkey_seg (fst kv)) (compat f e ks (fst kv)) ;; seg (mval_seg (fst kv)) (compat f e vs (snd kv))) = Ok tt.
Proof. intros [H1 H2]. rewrite H1, H2. reflexivity. Qed.

Lemma compat_map_key_error f e ks vs mn mx t nl kvs1 k x kvs2 er :
  size_ok mn mx (zlen (kvs1 ++ (k, x) :: kvs2)) = true ->
  Forall (centry_ok f e ks vs) kvs1 -> compat f e ks k = Err er ->
  compat (S f) e (SMap ks vs mn mx) (VMap t nl (kvs1 ++ (k, x) :: kvs2)) = Err (add_seg (mkey_seg k) er).
Proof.
  intros Hs Hok Hk. rewrite compat_map_eq. cbv beta iota. rewrite Hs. apply forM_first_err.
  - eapply Forall_impl; [|exact Hok]. intros kv H. apply compat_entry_ok. exact H.
  - cbn [fst snd]. rewrite Hk. reflexivity.
Qed.

Lemma compat_map_value_error f e ks vs mn mx t nl kvs1 k x kvs2 er :
  size_ok mn mx (zlen (kvs1 ++ (k, x) :: kvs2)) = true ->
  Forall (centry_ok f e ks vs) kvs1 -> compat f e ks k = Ok tt -> compat f e vs x = Err er ->
  compat (S f) e (SMap ks vs mn mx) (VMap t nl (kvs1 ++ (k, x) :: kvs2)) = Err (add_seg (mval_seg k) er).
Proof.
  intros Hs Hok Hk Hv. rewrite compat_map_eq. cbv beta iota. rewrite Hs. apply forM_first_err.
  - eapply Forall_impl; [|exact Hok]. intros kv H. apply compat_entry_ok. exact H.
  - cbn [fst snd]. rewrite Hk, Hv. reflexivity.
Qed.

(* ---------- objects given as map[string]any ---------- *)
Definition cprop_step f e (props : list (string * property_ schema)) (kv : string * gval) : outcome unit :=
  match alookup (fst kv) props with
  | Some p => seg (fst kv) (_ <- rewrap_path (compat f e (p_type p) (snd kv)) ;;
                            if p_disabled p then Err (cerr EDisabled) else Ok tt)
  | None => Err (cerr EKey)
  end.

Definition creq_step (r : list (string * gval)) (np : string * property_ schema) : outcome unit :=
  if p_required (snd np)
  then match alookup (fst np) r with
       | None | Some VNil => Err (cerr_at [fst np] EPresence)
       | Some _ => Ok tt
       end
  else Ok tt.

Lemma compat_object_unfold f e id un props r :
  compat (S f) e (SObject id un props) (raw_to_val r) =
  (_ <- forM_ (cprop_step f e props) r ;; forM_ (creq_step r) props).
Proof. rewrite compat_object_eq, raw_to_val_entries. cbv beta iota zeta. rewrite raw_of_entries_map. reflexivity. Qed.

Definition cprop_ok f e (props : list (string * property_ schema)) (kv : string * gval) : Prop :=
  cprop_step f e props kv = Ok tt.

Lemma compat_object_entry_error f e id un props r1 name x r2 er :
  Forall (cprop_ok f e props) r1 -> cprop_step f e props (name, x) = Err er ->
  compat (S f) e (SObject id un props) (raw_to_val (r1 ++ (name, x) :: r2)) = Err er.
Proof.
  intros Hok Hx. rewrite compat_object_unfold.
  rewrite (forM_first_err (cprop_step f e props) (name, x) er r2 r1 Hok Hx). reflexivity.
Qed.

Lemma cprop_step_prop_error f e (props : list (string * property_ schema)) name x p path c :
  alookup name props = Some p -> compat f e (p_type p) x = Err (mkErr true path c) ->
  cprop_step f e props (name, x) = Err (mkErr true (name :: path) c).
Proof. intros Hp Hx. unfold cprop_step. cbn [fst snd]. rewrite Hp, Hx. reflexivity. Qed.

Lemma cprop_step_extra_key f e (props : list (string * property_ schema)) name x :
  alookup name props = None -> cprop_step f e props (name, x) = Err (cerr EKey).
Proof. intros Hp. unfold cprop_step. cbn [fst snd]. rewrite Hp. reflexivity. Qed.

Lemma cprop_step_disabled f e (props : list (string * property_ schema)) name x p :
  alookup name props = Some p -> compat f e (p_type p) x = Ok tt -> p_disabled p = true ->
  cprop_step f e props (name, x) = Err (mkErr true [name] EDisabled).
Proof. intros Hp Hx Hd. unfold cprop_step. cbn [fst snd]. rewrite Hp, Hx, Hd. reflexivity. Qed.

Lemma compat_object_required f e id un ps1 name p ps2 r :
  Forall (cprop_ok f e (ps1 ++ (name, p) :: ps2)) r ->
  Forall (fun np => creq_step r np = Ok tt) ps1 ->
  p_required p = true -> (alookup name r = None \/ alookup name r = Some VNil) ->
  compat (S f) e (SObject id un (ps1 ++ (name, p) :: ps2)) (raw_to_val r) = Err (cerr_at [name] EPresence).
Proof.
  intros Hall Hok Hreq Habs. rewrite compat_object_unfold.
  assert (E : forM_ (cprop_step f e (ps1 ++ (name, p) :: ps2)) r = Ok tt) by (apply forM_ok; exact Hall).
  rewrite E. cbn [bind]. apply forM_first_err; [exact Hok|].
  unfold creq_step. cbn [fst snd]. rewrite Hreq. destruct Habs as [H | H]; rewrite H; reflexivity.
Qed.

(* ---------- a single fault as the compatibility check sees it ---------- *)
Inductive fault_c : env -> nat -> schema -> gval -> list string -> Prop :=
| CC_leaf : forall e f s v, is_leaf s -> compat (S (S f)) e s v <> Ok tt -> fault_c e (S (S f)) s v []
| CC_list_type : forall e f it mn mx v,
    (forall t nl l, v <> VSlice t nl l) -> (forall t t' nl l, v <> VPtr t (Some (VSlice t' nl l))) ->
    fault_c e (S f) (SList it mn mx) v []
| CC_item : forall e f it mn mx t nl l1 x l2 p,
    Forall (fun y => compat f e it y = Ok tt) l1 -> fault_c e f it x p ->
    fault_c e (S f) (SList it mn mx) (VSlice t nl (l1 ++ x :: l2)) (idx_seg (zlen l1) :: p)
| CC_map_type : forall e f ks vs mn mx v, (forall t nl l, v <> VMap t nl l) -> fault_c e (S f) (SMap ks vs mn mx) v []
| CC_map_size : forall e f ks vs mn mx t nl l, size_ok mn mx (zlen l) = false -> fault_c e (S f) (SMap ks vs mn mx) (VMap t nl l) []
| CC_key : forall e f ks vs mn mx t nl kvs1 k x kvs2 p,
    size_ok mn mx (zlen (kvs1 ++ (k, x) :: kvs2)) = true ->
    Forall (centry_ok f e ks vs) kvs1 -> Forall (centry_ok f e ks vs) kvs2 ->
    fault_c e f ks k p ->
    fault_c e (S f) (SMap ks vs mn mx) (VMap t nl (kvs1 ++ (k, x) :: kvs2)) (mkey_seg k :: p)
| CC_value : forall e f ks vs mn mx t nl kvs1 k x kvs2 p,
    size_ok mn mx (zlen (kvs1 ++ (k, x) :: kvs2)) = true ->
    Forall (centry_ok f e ks vs) kvs1 -> Forall (centry_ok f e ks vs) kvs2 ->
    compat f e ks k = Ok tt -> fault_c e f vs x p ->
    fault_c e (S f) (SMap ks vs mn mx) (VMap t nl (kvs1 ++ (k, x) :: kvs2)) (mval_seg k :: p)
| CC_object_as_unser : forall e f id un props v p,
    is_str_any_map v = None -> fault_uo words pu e f (SObject id un props) v p ->
    fault_c e (S f) (SObject id un props) v p
| CC_extra_key : forall e f id un props r1 name x r2,
    Forall (cprop_ok f e props) r1 -> Forall (cprop_ok f e props) r2 -> alookup name props = None ->
    fault_c e (S f) (SObject id un props) (raw_to_val (r1 ++ (name, x) :: r2)) []
| CC_disabled : forall e f id un props r1 name x r2 p,
    Forall (cprop_ok f e props) r1 -> Forall (cprop_ok f e props) r2 ->
    alookup name props = Some p -> compat f e (p_type p) x = Ok tt -> p_disabled p = true ->
    fault_c e (S f) (SObject id un props) (raw_to_val (r1 ++ (name, x) :: r2)) [name]
| CC_prop : forall e f id un props r1 name x r2 p path,
    Forall (cprop_ok f e props) r1 -> Forall (cprop_ok f e props) r2 ->
    alookup name props = Some p -> fault_c e f (p_type p) x path ->
    fault_c e (S f) (SObject id un props) (raw_to_val (r1 ++ (name, x) :: r2)) (name :: path)
| CC_required : forall e f id un ps1 name p ps2 r,
    Forall (cprop_ok f e (ps1 ++ (name, p) :: ps2)) r ->
    Forall (fun np => creq_step r np = Ok tt) ps1 -> Forall (fun np => creq_step r np = Ok tt) ps2 ->
    p_required p = true -> (alookup name r = None \/ alookup name r = Some VNil) ->
    fault_c e (S f) (SObject id un (ps1 ++ (name, p) :: ps2)) (raw_to_val r) [name]
| CC_oneof_sel : forall e f types ik field inlined v kvs er,
    is_str_any_map v = Some kvs -> oneof_sel types ik field inlined v = Err er ->
    fault_c e (S (S f)) (SOneOf types ik field inlined) v []
| CC_oneof_member : forall e f types ik field inlined v kvs key member clone p,
    is_str_any_map v = Some kvs -> oneof_sel types ik field inlined v = Ok (key, member, clone) ->
    fault_c e f member clone p ->
    fault_c e (S (S f)) (SOneOf types ik field inlined) v p
| CC_ref : forall e f id ns d o e' v p,
    resolve e id ns = Some (o, e') -> fault_c e' f o v p -> fault_c e (S f) (SRef id ns d) v p
| CC_scope : forall e f objs root o v p,
    alookup root objs = Some o -> fault_c (env_enter e objs) f o v p -> fault_c e (S f) (SScope objs root) v p.

Lemma compat_oneof_unfold f e types ik field inlined v kvs :
  is_str_any_map v = Some kvs ->
  compat (S (S f)) e (SOneOf types ik field inlined) v =
  (k <- oneof_sel types ik field inlined v ;;
   let '(key, member, clone) := k in _ <- rewrap_path (compat f e member clone) ;; Ok tt).
Proof.
  intro Hm.
  assert (E : compat (S (S f)) e (SOneOf types ik field inlined) v =
              (_ <- oneof_find (S f) e types ik field inlined v ;; Ok tt)).
  { apply (compat_oneof_map_eq (S f) e types ik field inlined v kvs Hm). }
  rewrite E, oneof_find_eq.
  destruct (oneof_sel types ik field inlined v) as [[[key member] clone]| | |]; cbn [bind]; try reflexivity.
  destruct (rewrap_path (compat f e member clone)); reflexivity.
Qed.

Theorem single_fault_path_compat : forall e f s v p, fault_c e f s v p ->
  exists c, compat f e s v = Err (mkErr true p c).
Proof.
  intros e f s v p H. induction H as
    [e f s v Hl Hno | e f it mn mx v Hno Hnp
     | e f it mn mx t nl l1 x l2 p Hok Hx IH
     | e f ks vs mn mx v Hno | e f ks vs mn mx t nl l Hs
     | e f ks vs mn mx t nl kvs1 k x kvs2 p Hs Hok1 Hok2 Hx IH
     | e f ks vs mn mx t nl kvs1 k x kvs2 p Hs Hok1 Hok2 Hk Hx IH
     | e f id un props v p Hm Hu
     | e f id un props r1 name x r2 Hok1 Hok2 Hp
     | e f id un props r1 name x r2 p Hok1 Hok2 Hp Hc Hd
     | e f id un props r1 name x r2 p path Hok1 Hok2 Hp Hx IH
     | e f id un ps1 name p ps2 r Hall Hok1 Hok2 Hreq Habs
     | e f types ik field inlined v kvs er Hm Hsel
     | e f types ik field inlined v kvs key member clone p Hm Hsel Hx IH
     | e f id ns d o e' v p Hres Hx IH
     | e f objs root o v p Hroot Hx IH].
  - destruct (leaf_compat_outcome s Hl f e v) as [Hn | (c & Hc)]; [exfalso; exact (Hno Hn) | exists c; exact Hc].
  - exists ERepr. rewrite compat_list_eq.
    destruct v as [| t b | t z | t x | t s | t nl l | t nl l | t o | t fs | src | k d]; try reflexivity.
    + exfalso. exact (Hno t nl l eq_refl).
    + destruct o as [w|]; [|reflexivity].
      destruct w as [| t1 b | t1 z | t1 x | t1 s | t1 nl l | t1 nl l | t1 o | t1 fs | src | k d]; try reflexivity.
      exfalso. exact (Hnp t t1 nl l eq_refl).
  - destruct IH as (c & IH). exists c.
    rewrite (compat_list_item_error f e it mn mx t nl l1 x l2 _ Hok IH). reflexivity.
  - exists ERepr. rewrite compat_map_eq.
    destruct v as [| t b | t z | t x | t s | t nl l | t nl l | t o | t fs | src | k d]; try reflexivity.
    exfalso. exact (Hno t nl l eq_refl).
  - exists EBound. rewrite compat_map_eq. cbv beta iota. rewrite Hs. reflexivity.
  - destruct IH as (c & IH). exists c.
    rewrite (compat_map_key_error f e ks vs mn mx t nl kvs1 k x kvs2 _ Hs Hok1 IH). reflexivity.
  - destruct IH as (c & IH). exists c.
    rewrite (compat_map_value_error f e ks vs mn mx t nl kvs1 k x kvs2 _ Hs Hok1 Hk IH). reflexivity.
  - destruct (single_fault_path_unser_all words pu e f _ v p Hu) as (c & Hc). exists c.
    rewrite (compat_object_nonmap_eq f e id un props v Hm), Hc. reflexivity.
  - exists EKey. rewrite (compat_object_entry_error f e id un props r1 name x r2 _ Hok1 (cprop_step_extra_key f e props name x Hp)).
    reflexivity.
  - exists EDisabled.
    rewrite (compat_object_entry_error f e id un props r1 name x r2 _ Hok1 (cprop_step_disabled f e props name x p Hp Hc Hd)).
    reflexivity.
  - destruct IH as (c & IH). exists c.
    rewrite (compat_object_entry_error f e id un props r1 name x r2 _ Hok1 (cprop_step_prop_error f e props name x p path c Hp IH)).
    reflexivity.
  - exists EPresence. rewrite (compat_object_required f e id un ps1 name p ps2 r Hall Hok1 Hreq Habs). reflexivity.
  - destruct (oneof_sel_err types ik field inlined v er Hsel) as (c & ->). exists c.
    rewrite (compat_oneof_unfold f e types ik field inlined v kvs Hm), Hsel. reflexivity.
  - destruct IH as (c & IH). exists c.
    rewrite (compat_oneof_unfold f e types ik field inlined v kvs Hm), Hsel. cbn [bind]. rewrite IH. reflexivity.
  - destruct IH as (c & IH). exists c. rewrite compat_ref_eq, Hres. exact IH.
  - destruct IH as (c & IH). exists c. rewrite compat_scope_eq, Hroot. exact IH.
Qed.

End WithTables.
