(* Proofs/TrimSpaceU.v — facts about the UTF-8 aware model of strings.TrimSpace (Base/Str.v: strip_sp, head_sp,
   trim_space).  Generic in the two- and three-byte tests, so every fact holds both for the left scan
   (usp2 / usp3) and for the right scan (the same function on the reversed text with usp2r / usp3r).
     strip_sp_stop    nothing is removed from a text that does not start with a white-space character
     strip_sp_head    what is left does not start with a white-space character
     strip_sp_decomp  what was removed is a sequence of encoded white-space characters
     strip_sp_concat  a sequence of encoded white-space characters in front is removed entirely
     trim_space_blank_iff   TrimSpace leaves nothing  <->  the text is a sequence of encoded white-space characters
     trim_space_id          a text that starts with a digit and does not END with a white-space character is unchanged
     head_spr_digit         ... and whether a text ends with one is decided by its last name alone when a digit precedes it *)
From Coq Require Import Lia ZArith List Bool Ascii String ZifyBool.
From Verif Require Import Base.Prelude Base.Str.
Import ListNotations.
Open Scope Z_scope.
Open Scope list_scope.

Lemma tsu_chars_unchars : forall l, chars (unchars l) = l.
Proof. intro l. unfold chars, unchars. apply list_ascii_of_string_of_list_ascii. Qed.

(* induction for functions that consume one, two or three bytes at a time *)
Lemma tsu_ind3 : forall (P : list ascii -> Prop), P [] ->
  (forall c t, P t -> (forall d t1, t = d :: t1 -> P t1) -> (forall d e t2, t = d :: e :: t2 -> P t2) -> P (c :: t)) ->
  forall l, P l.
Proof.
  intros P H0 HS.
  assert (A : forall n l, (List.length l <= n)%nat -> P l).
  { induction n as [|n IH]; intros l L.
    - destruct l; [exact H0 | cbn in L; lia].
    - destruct l as [|c t]; [exact H0|]. cbn [List.length] in L. apply HS.
      + apply IH. lia.
      + intros d t1 E. subst t. cbn [List.length] in L. apply IH. lia.
      + intros d e t2 E. subst t. cbn [List.length] in L. apply IH. lia. }
  intro l. apply (A (List.length l)). lia.
Qed.

Section Generic.
Variable q2 : ascii -> ascii -> bool.
Variable q3 : ascii -> ascii -> ascii -> bool.

Lemma strip_sp_stop : forall l, head_sp q2 q3 l = false -> strip_sp q2 q3 l = l.
Proof.
  intros l H. destruct l as [|c t]; [reflexivity|]. cbn [head_sp] in H. cbn [strip_sp].
  destruct (is_trim_space c); [discriminate|]. destruct t as [|d t1]; [reflexivity|].
  destruct (q2 c d); [discriminate|]. destruct t1 as [|e t2]; [reflexivity|].
  destruct (q3 c d e); [discriminate | reflexivity].
Qed.

Lemma strip_sp_head : forall l, head_sp q2 q3 (strip_sp q2 q3 l) = false.
Proof.
  apply tsu_ind3; [reflexivity|]. intros c t IH1 IH2 IH3. cbn [strip_sp].
  destruct (is_trim_space c) eqn:E1; [exact IH1|].
  destruct t as [|d t1]; [cbn [head_sp]; rewrite E1; reflexivity|].
  destruct (q2 c d) eqn:E2; [exact (IH2 d t1 eq_refl)|].
  destruct t1 as [|e t2]; [cbn [head_sp]; rewrite E1, E2; reflexivity|].
  destruct (q3 c d e) eqn:E3; [exact (IH3 d e t2 eq_refl)|].
  cbn [head_sp]. rewrite E1, E2, E3. reflexivity.
Qed.

Definition sp_encs (rs : list (list ascii)) : Prop := Forall (fun r => is_sp_enc q2 q3 r = true) rs.

Lemma strip_sp_decomp : forall l, exists rs, sp_encs rs /\ l = List.concat rs ++ strip_sp q2 q3 l.
Proof.
  apply tsu_ind3; [exists []; split; [constructor | reflexivity]|]. intros c t IH1 IH2 IH3. cbn [strip_sp].
  destruct (is_trim_space c) eqn:E1.
  { destruct IH1 as (rs & F & E). exists ([c] :: rs). split; [constructor; [exact E1 | exact F]|].
    cbn [List.concat app]. f_equal. exact E. }
  destruct t as [|d t1]; [exists []; split; [constructor | reflexivity]|].
  destruct (q2 c d) eqn:E2.
  { destruct (IH2 d t1 eq_refl) as (rs & F & E). exists ([c; d] :: rs). split; [constructor; [exact E2 | exact F]|].
    cbn [List.concat app]. do 2 f_equal. exact E. }
  destruct t1 as [|e t2]; [exists []; split; [constructor | reflexivity]|].
  destruct (q3 c d e) eqn:E3.
  { destruct (IH3 d e t2 eq_refl) as (rs & F & E). exists ([c; d; e] :: rs). split; [constructor; [exact E3 | exact F]|].
    cbn [List.concat app]. do 3 f_equal. exact E. }
  exists []. split; [constructor | reflexivity].
Qed.

Lemma sp_enc_shape : forall r, is_sp_enc q2 q3 r = true ->
  (exists c, r = [c] /\ is_trim_space c = true) \/ (exists c d, r = [c; d] /\ q2 c d = true)
  \/ (exists c d e, r = [c; d; e] /\ q3 c d e = true).
Proof.
  intros [|c [|d [|e [|f t]]]] H; cbn [is_sp_enc] in H; try discriminate.
  - left. eauto. - right. left. eauto. - right. right. eauto.
Qed.

Lemma head_sp_enc : forall r y, is_sp_enc q2 q3 r = true -> head_sp q2 q3 (r ++ y) = true.
Proof.
  intros r y H. destruct (sp_enc_shape r H) as [(c & -> & E)|[(c & d & -> & E)|(c & d & e & -> & E)]]; cbn [app head_sp].
  - rewrite E. reflexivity.
  - destruct (is_trim_space c); [reflexivity|]. rewrite E. reflexivity.
  - destruct (is_trim_space c); [reflexivity|]. destruct (q2 c d); [reflexivity | exact E].
Qed.

(* the encodings do not overlap: a longer one does not start with a shorter one *)
Hypothesis X2 : forall c d, q2 c d = true -> is_trim_space c = false.
Hypothesis X3 : forall c d e, q3 c d e = true -> is_trim_space c = false /\ q2 c d = false.

Lemma strip_sp_enc : forall r y, is_sp_enc q2 q3 r = true -> strip_sp q2 q3 (r ++ y) = strip_sp q2 q3 y.
Proof.
  intros r y H. destruct (sp_enc_shape r H) as [(c & -> & E)|[(c & d & -> & E)|(c & d & e & -> & E)]]; cbn [app strip_sp].
  - rewrite E. reflexivity.
  - rewrite (X2 c d E), E. reflexivity.
  - destruct (X3 c d e E) as [A B]. rewrite A, B, E. reflexivity.
Qed.

Lemma strip_sp_concat : forall rs y, sp_encs rs -> strip_sp q2 q3 (List.concat rs ++ y) = strip_sp q2 q3 y.
Proof.
  intros rs y F. induction F as [|r rs Hr F IH]; [reflexivity|].
  cbn [List.concat]. rewrite <- app_assoc, (strip_sp_enc r _ Hr). exact IH.
Qed.

End Generic.

(* ================= the two instances ================= *)

Lemma usp_X2 : forall c d, usp2 c d = true -> is_trim_space c = false.
Proof. intros c d. unfold usp2, is_trim_space. lia. Qed.
Lemma usp_X3 : forall c d e, usp3 c d e = true -> is_trim_space c = false /\ usp2 c d = false.
Proof. intros c d e. unfold usp3, usp2, is_trim_space. cbv zeta. lia. Qed.
Lemma uspr_X2 : forall c d, usp2r c d = true -> is_trim_space c = false.
Proof. intros c d. unfold usp2r, usp2, is_trim_space. lia. Qed.
Lemma uspr_X3 : forall c d e, usp3r c d e = true -> is_trim_space c = false /\ usp2r c d = false.
Proof. intros c d e. unfold usp3r, usp2r, usp3, usp2, is_trim_space. cbv zeta. lia. Qed.

(* an encoding read backwards is an encoding of the reversed tests, and conversely *)
Lemma enc_rev_r : forall r, is_sp_enc usp2r usp3r r = true -> is_uspace_enc (rev r) = true.
Proof.
  intros r H. destruct (sp_enc_shape _ _ r H) as [(c & -> & E)|[(c & d & -> & E)|(c & d & e & -> & E)]]; exact E.
Qed.
Lemma enc_rev_l : forall r, is_uspace_enc r = true -> is_sp_enc usp2r usp3r (rev r) = true.
Proof.
  intros r H. destruct (sp_enc_shape _ _ r H) as [(c & -> & E)|[(c & d & -> & E)|(c & d & e & -> & E)]]; exact E.
Qed.

Lemma rev_nil_inv : forall (l : list ascii), rev l = [] -> l = [].
Proof. intros l H. rewrite <- (rev_involutive l), H. reflexivity. Qed.

(* ================= blank texts ================= *)

Definition uspaces (rs : list (list ascii)) : Prop := Forall (fun r => is_uspace_enc r = true) rs.

Theorem trim_space_blank_iff : forall s,
  chars (trim_space s) = [] <-> exists rs, uspaces rs /\ chars s = List.concat rs.
Proof.
  intro s. unfold trim_space. rewrite tsu_chars_unchars. set (l := chars s). split.
  - intro H. apply rev_nil_inv in H.
    destruct (strip_sp_decomp usp2 usp3 l) as (rs0 & F0 & E0). fold is_uspace_enc in F0.
    set (x := strip_sp usp2 usp3 l) in *.
    assert (Ex : x = []).
    { destruct (strip_sp_decomp usp2r usp3r (rev x)) as (rs & F & E). rewrite H, app_nil_r in E.
      destruct rs as [|r0 rs1].
      - cbn [List.concat] in E. apply rev_nil_inv. exact E.
      - exfalso. destruct (@exists_last _ (r0 :: rs1) ltac:(discriminate)) as (rs' & r & Er). rewrite Er in *. clear Er r0 rs1. unfold sp_encs in F. rewrite Forall_app in F. destruct F as [_ Fr]. inversion Fr as [|? ? Hr _]; subst.
        rewrite concat_app in E. cbn [List.concat] in E. rewrite app_nil_r in E.
        assert (E' : x = rev r ++ rev (List.concat rs')) by (rewrite <- rev_app_distr, <- E, rev_involutive; reflexivity).
        pose proof (strip_sp_head usp2 usp3 l) as Hh. fold x in Hh.
        rewrite E', (head_sp_enc usp2 usp3 (rev r) _ (enc_rev_r r Hr)) in Hh. discriminate. }
    exists rs0. split; [exact F0|]. rewrite E0, Ex, app_nil_r. reflexivity.
  - intros (rs & F & E). rewrite E, <- (app_nil_r (List.concat rs)).
    rewrite (strip_sp_concat usp2 usp3 usp_X2 usp_X3 rs [] F). reflexivity.
Qed.

(* ================= texts TrimSpace leaves alone ================= *)

Lemma digit_head_not_sp : forall c t, is_digit c = true -> head_sp usp2 usp3 (c :: t) = false.
Proof.
  intros c t H. assert (A : is_trim_space c = false) by (revert H; unfold is_digit, is_trim_space; cbv zeta; lia).
  assert (B : forall d, usp2 c d = false) by (intro d; revert H; unfold is_digit, usp2; cbv zeta; lia).
  assert (C : forall d e, usp3 c d e = false) by (intros d e; revert H; unfold is_digit, usp3; cbv zeta; lia).
  cbn [head_sp]. rewrite A. destruct t as [|d [|e t2]]; [reflexivity | rewrite B; reflexivity | rewrite B; apply C].
Qed.

Theorem trim_space_id : forall s c t, chars s = c :: t -> is_digit c = true ->
  head_sp usp2r usp3r (rev (chars s)) = false -> chars (trim_space s) = chars s.
Proof.
  intros s c t E Hc Hl. unfold trim_space. rewrite tsu_chars_unchars.
  rewrite (strip_sp_stop usp2 usp3 (chars s)) by (rewrite E; apply digit_head_not_sp; exact Hc).
  rewrite (strip_sp_stop usp2r usp3r _ Hl). apply rev_involutive.
Qed.

(* a digit is no part of a multi-byte white-space character: whether  ... dg x  ENDS with a white-space
   character is decided by x alone *)
Lemma head_spr_digit : forall x dg rest, x <> [] -> is_digit dg = true ->
  head_sp usp2r usp3r (x ++ dg :: rest) = head_sp usp2r usp3r x.
Proof.
  intros x dg rest N H.
  assert (B : forall a, usp2r a dg = false) by (intro a; revert H; unfold is_digit, usp2r, usp2; cbv zeta; lia).
  assert (C : forall a e, usp3r a dg e = false) by (intros a e; revert H; unfold is_digit, usp3r, usp3; cbv zeta; lia).
  assert (D : forall a b, usp3r a b dg = false) by (intros a b; revert H; unfold is_digit, usp3r, usp3; cbv zeta; lia).
  destruct x as [|a [|b [|c x']]]; [congruence | | |]; cbn [app head_sp].
  - rewrite B. destruct rest; [reflexivity | rewrite C; reflexivity].
  - rewrite D. reflexivity.
  - reflexivity.
Qed.

(* a text given by its bytes (for examples with non-ASCII bytes) *)
Definition bytes_str (l : list Z) : string := unchars (map chrz l).
