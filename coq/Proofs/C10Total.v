(* Proofs/C10Total.v — loading a description is total: for every value, `rebuild` and
   `rebuild_plugin` return an error or a schema that satisfies wf_in; never Panic, never OutOfFuel.

   1. link_ok (the check the link step performs against the object table it passes down) is wf_in
      (the same conditions stated over the lexical resolution environment of Ops.v).
   2. every reader of the meta-schema is `safe`; the only fuelled function, parse_type, is safe as
      soon as the fuel is at least the size of the value, because every recursive call is on a value
      strictly inside the one being read. *)
From Coq Require Import Lia.
From Verif Require Import Base.Prelude Base.Str Base.Float Base.GoVal
  Schema.Regex Schema.Units Schema.Syntax Schema.Ops Schema.Describe Proofs.DescribeBase.
Open Scope string_scope.

(* ---------- 1. link_ok = wf_in ---------- *)
Lemma resolve_self jor objs id :
  resolve (mkEnv objs [] jor) id "" =
  match alookup id objs with Some o => Some (o, mkEnv objs [] jor) | None => None end.
Proof. reflexivity. Qed.

Lemma resolve_foreign jor objs id ns :
  String.eqb ns "" = false -> resolve (mkEnv objs [] jor) id ns = None.
Proof. intros H. unfold resolve. rewrite H. reflexivity. Qed.

Lemma member_props_wf jor objs m : member_props objs m = wf_member_props (mkEnv objs [] jor) m.
Proof.
  destruct m; try reflexivity. cbn [member_props wf_member_props].
  destruct (String.eqb ns "") eqn:E.
  - apply String.eqb_eq in E. subst ns. rewrite resolve_self.
    destruct (alookup id objs) as [o|]; [destruct o|]; reflexivity.
  - rewrite resolve_foreign by exact E. reflexivity.
Qed.

Lemma member_ok_wf jor objs ik field inl m :
  member_ok objs ik field inl m = wf_member (mkEnv objs [] jor) ik field inl m.
Proof.
  unfold member_ok, wf_member. rewrite (member_props_wf jor). f_equal.
  destruct m; try reflexivity. cbn [member_pending member_pending_in].
  destruct (String.eqb ns "") eqn:E; [reflexivity|]. rewrite resolve_foreign by exact E. reflexivity.
Qed.

Lemma link_ok_wf jor : forall s objs, link_ok jor objs s = wf_in (mkEnv objs [] jor) s.
Proof.
  apply (schema_ind' (fun s => forall objs, link_ok jor objs s = wf_in (mkEnv objs [] jor) s));
    intros; cbn [link_ok wf_in]; try reflexivity.
  - (* list *) apply H.
  - (* map *) rewrite H, H0. reflexivity.
  - (* object *)
    f_equal. induction H as [|[n p] tl Hp _ IH]; [reflexivity|].
    destruct p. cbn in Hp |- *. rewrite Hp, IH. reflexivity.
  - (* one-of *)
    f_equal.
    + induction H as [|[k m] tl Hm _ IH]; [reflexivity|]. cbn in Hm |- *. rewrite Hm, IH. reflexivity.
    + clear H. induction types as [|[k m] tl IH]; [reflexivity|]. cbn. rewrite (member_ok_wf jor), IH. reflexivity.
  - (* ref *)
    destruct (String.eqb ns "") eqn:E; [|reflexivity].
    apply String.eqb_eq in E. subst ns. rewrite resolve_self. destruct (alookup id objs); reflexivity.
  - (* scope *)
    f_equal. cbn [env_enter e_ext e_or].
    assert (G : forall X l,
              Forall (fun io : string * schema =>
                        forall objs, link_ok jor objs (snd io) = wf_in (mkEnv objs [] jor) (snd io)) l ->
              forallb (fun io : string * schema => let (_, o) := io in link_ok jor X o) l =
              forallb (fun io : string * schema => let (_, o) := io in wf_in (mkEnv X [] jor) o) l).
    { intros X l HF. induction HF as [|[i o] tl Ho _ IH]; [reflexivity|].
      cbn in Ho |- *. rewrite Ho, IH. reflexivity. }
    apply G. exact H.
Qed.

(* ---------- 2. sizes ---------- *)
Lemma gsize_pos v : (1 <= gsize v)%nat.
Proof. destruct v; cbn; try lia. destruct o; lia. Qed.

Definition entries_size (kvs : list (gval * gval)) : nat :=
  fold_right (fun kv n => (gsize (fst kv) + gsize (snd kv) + n)%nat) O kvs.

Lemma gsize_map t n kvs : gsize (VMap t n kvs) = S (entries_size kvs).
Proof. reflexivity. Qed.

Lemma entry_lt kvs kv : In kv kvs -> (gsize (snd kv) <= entries_size kvs)%nat.
Proof.
  induction kvs as [|x tl IH]; cbn; [contradiction|]. intros [E | Hin].
  - subst. lia.
  - specialize (IH Hin). unfold entries_size in IH. lia.
Qed.

Lemma item_lt (l : list gval) x :
  In x l -> (gsize x <= fold_right (fun y n => (gsize y + n)%nat) O l)%nat.
Proof.
  induction l as [|y tl IH]; cbn; [contradiction|]. intros [E | Hin]; [subst; lia|]. specialize (IH Hin). lia.
Qed.

Lemma smap_get_lt k kvs x : smap_get k kvs = Some x -> (gsize x <= entries_size kvs)%nat.
Proof.
  induction kvs as [|[a b] tl IH]; cbn; [discriminate|].
  destruct a; try (intros H; specialize (IH H); unfold entries_size in IH; lia).
  destruct (String.eqb k s); intros H.
  - inversion H; subst. lia.
  - specialize (IH H). unfold entries_size in IH. lia.
Qed.

Lemma smap_del_le k kvs : (entries_size (smap_del k kvs) <= entries_size kvs)%nat.
Proof.
  induction kvs as [|[a b] tl IH]; cbn; [lia|].
  destruct a; cbn; try (unfold entries_size in *; lia).
  destruct (String.eqb k s); cbn; unfold entries_size in *; lia.
Qed.

Lemma alookup_app {A} k (a b : list (string * A)) :
  alookup k (a ++ b) = match alookup k a with Some x => Some x | None => alookup k b end.
Proof.
  induction a as [|[k' v] tl IH]; cbn; [reflexivity|]. destruct (String.eqb k k'); [reflexivity | exact IH].
Qed.

(* every field value of an accepted meta object is strictly inside the value *)
Lemma conv_fields_size allowed v fs :
  conv_fields allowed v = Ok fs -> forall k x, alookup k fs = Some x -> (gsize x < gsize v)%nat.
Proof.
  destruct v; cbn [conv_fields]; try discriminate.
  rewrite gsize_map.
  assert (G : forall kvs acc fs,
            (forall k x, alookup k acc = Some x -> (gsize x <= entries_size l)%nat) ->
            (forall kv, In kv kvs -> In kv l) ->
            fold_left (fun acc kv =>
                         a <- acc ;;
                         match fst kv with
                         | VStr TStr k => if str_in k allowed then Ok (a ++ [(k, snd kv)])%list else Err (cerr EKey)
                         | _ => Err (cerr EKey)
                         end) kvs (Ok acc) = Ok fs ->
            forall k x, alookup k fs = Some x -> (gsize x <= entries_size l)%nat).
  { induction kvs as [|kv tl IH]; cbn; intros acc fs0 Hacc Hsub Hfold.
    - inversion Hfold; subst. exact Hacc.
    - destruct (fst kv) eqn:Ek; cbn in Hfold;
        try (exfalso; clear - Hfold; induction tl; cbn in Hfold; [discriminate | auto]).
      destruct t0; cbn in Hfold;
        try (exfalso; clear - Hfold; induction tl; cbn in Hfold; [discriminate | auto]).
      destruct (str_in s allowed); cbn in Hfold;
        [| exfalso; clear - Hfold; induction tl; cbn in Hfold; [discriminate | auto]].
      eapply IH; [| | exact Hfold].
      + intros k x. rewrite alookup_app. destruct (alookup k acc) eqn:Ea.
        * intros H; inversion H; subst. eapply Hacc; eauto.
        * cbn. destruct (String.eqb k s); [|discriminate]. intros H; inversion H; subst.
          apply entry_lt. apply Hsub. left; reflexivity.
      + intros kv' Hin. apply Hsub. right; exact Hin. }
  intros Hf k x Hx.
  assert (gsize x <= entries_size l)%nat; [|lia].
  eapply (G l [] fs); eauto. cbn; discriminate.
Qed.

Lemma oneof_split_size v tid rest : oneof_split v = Ok (tid, rest) -> (gsize rest <= gsize v)%nat.
Proof.
  destruct v; cbn [oneof_split]; try discriminate.
  destruct (forallb _ l); [|discriminate].
  destruct (smap_get "type_id" l); [|discriminate].
  destruct (string_mapper g); [|discriminate].
  intros H; inversion H; subst. rewrite !gsize_map. pose proof (smap_del_le "type_id" l). lia.
Qed.

(* ---------- 3. safety of the readers ---------- *)
Ltac safe_leaf :=
  repeat match goal with
  | |- safe (Ok _) => exact I
  | |- safe (Err _) => exact I
  | |- safe (match ?x with _ => _ end) => destruct x
  | |- safe (if ?b then _ else _) => destruct b
  end.

Lemma safe_conv_fields allowed v : safe (conv_fields allowed v).
Proof.
  destruct v; cbn [conv_fields]; try exact I.
  apply safe_fold; [|exact I]. intros acc x _ Ha.
  apply safe_bind; [exact Ha|]. intros a _. safe_leaf.
Qed.

Lemma safe_opt_field {A} fs k (rd : gval -> outcome A) :
  (forall x, alookup k fs = Some x -> safe (rd x)) -> safe (opt_field fs k rd).
Proof.
  intros H. unfold opt_field. destruct (alookup k fs) eqn:E; [|exact I].
  apply safe_bind; [apply H; reflexivity|]. intros; exact I.
Qed.
Lemma safe_req_field {A} fs k (rd : gval -> outcome A) :
  (forall x, alookup k fs = Some x -> safe (rd x)) -> safe (req_field fs k rd).
Proof. intros H. unfold req_field. destruct (alookup k fs) eqn:E; [apply H; reflexivity | exact I]. Qed.

Lemma safe_rd_map {K V} (rk : gval -> outcome K) (rv : gval -> outcome V) keq mn v :
  (forall x, safe (rk x)) -> (forall x, (gsize x < gsize v)%nat -> safe (rv x)) -> safe (rd_map rk rv keq mn v).
Proof.
  intros Hk Hv. destruct v; cbn [rd_map]; try exact I.
  destruct (size_ok mn None (zlen l)); [|exact I].
  apply safe_fold; [|exact I]. intros acc kv Hin Ha.
  apply safe_bind; [exact Ha|]. intros a _.
  apply safe_bind; [apply Hk|]. intros k _.
  apply safe_bind; [|intros; exact I].
  apply Hv. rewrite gsize_map. pose proof (entry_lt l kv Hin). lia.
Qed.

Lemma safe_rd_int mn mx u v : safe (rd_int mn mx u v).
Proof. unfold rd_int. safe_leaf. Qed.
Lemma safe_rd_float pu v : safe (rd_float pu v).
Proof. unfold rd_float. safe_leaf. Qed.
Lemma safe_rd_str mn mx pat v : safe (rd_str mn mx pat v).
Proof. unfold rd_str. safe_leaf. Qed.
Lemma safe_rd_bool words v : safe (rd_bool words v).
Proof. unfold rd_bool. safe_leaf. Qed.
Lemma safe_rd_pattern rp v : safe (rd_pattern rp v).
Proof. unfold rd_pattern. safe_leaf. Qed.
Lemma safe_rd_strs v : safe (rd_strs v).
Proof. unfold rd_strs. destruct v; try exact I. apply safe_mapM. intros; apply safe_rd_str. Qed.

Ltac safe_fields :=
  repeat match goal with
  | |- safe (Ok _) => exact I
  | |- safe (Err _) => exact I
  | |- safe (bind _ _) => apply safe_bind; [| intros ? ?]
  | |- safe (conv_fields _ _) => apply safe_conv_fields
  | |- safe (opt_field _ _ _) => apply safe_opt_field; intros ? ?
  | |- safe (req_field _ _ _) => apply safe_req_field; intros ? ?
  | |- safe (rd_int _ _ _ _) => apply safe_rd_int
  | |- safe (rd_float _ _) => apply safe_rd_float
  | |- safe (rd_str _ _ _ _) => apply safe_rd_str
  | |- safe (rd_any_str _) => apply safe_rd_str
  | |- safe (rd_id _) => apply safe_rd_str
  | |- safe (rd_bool _ _) => apply safe_rd_bool
  | |- safe (rd_pattern _ _) => apply safe_rd_pattern
  | |- safe (rd_strs _) => apply safe_rd_strs
  end.

Lemma safe_rd_display v : safe (rd_display v).
Proof. unfold rd_display. safe_fields. Qed.
Lemma safe_rd_unit v : safe (rd_unit v).
Proof. unfold rd_unit. safe_fields. Qed.
Lemma safe_rd_units v : safe (rd_units v).
Proof.
  unfold rd_units. safe_fields;
    first [ apply safe_rd_unit | apply safe_rd_map; intros; [apply safe_rd_int | apply safe_rd_unit] ].
Qed.

Ltac safe_more :=
  repeat first
    [ progress safe_fields
    | apply safe_rd_display | apply safe_rd_units
    | match goal with
      | |- safe (rd_map _ _ _ _ _) => apply safe_rd_map; [intros ? | intros ? ?]
      end ].

Lemma safe_mp_int v : safe (mp_int v).
Proof. unfold mp_int. safe_more. Qed.
Lemma safe_mp_float pu v : safe (mp_float pu v).
Proof. unfold mp_float. safe_more. Qed.
Lemma safe_mp_string cu rp v : safe (mp_string cu rp v).
Proof. unfold mp_string. safe_more. Qed.
Lemma safe_parse_empty s v : safe (parse_empty s v).
Proof. unfold parse_empty. safe_more. Qed.
Lemma safe_parse_enum_int v : safe (parse_enum_int v).
Proof. unfold parse_enum_int. safe_more. Qed.
Lemma safe_parse_enum_str v : safe (parse_enum_str v).
Proof. unfold parse_enum_str. safe_more. Qed.
Lemma safe_parse_ref v : safe (parse_ref v).
Proof. unfold parse_ref. safe_more. Qed.

Lemma safe_oneof_split v : safe (oneof_split v).
Proof. unfold oneof_split. safe_leaf. Qed.

Lemma safe_parse_key cu rp v : safe (parse_key cu rp v).
Proof.
  unfold parse_key. apply safe_bind; [apply safe_oneof_split|]. intros tv _.
  destruct (String.eqb (fst tv) "integer"); [apply safe_mp_int|].
  destruct (String.eqb (fst tv) "string"); [apply safe_mp_string | exact I].
Qed.

Section WithRec.
Variable words : list (string * bool).
Variable cu : units.
Variable rp : string -> option re.
Variable rec : gval -> outcome schema.
Variable n : nat.
Hypothesis Hrec : forall x, (gsize x < n)%nat -> safe (rec x).

Lemma safe_parse_property v : (gsize v <= n)%nat -> safe (parse_property words rec v).
Proof.
  intros Hv. unfold parse_property.
  apply safe_bind; [apply safe_conv_fields|]. intros fs Hfs.
  pose proof (conv_fields_size _ _ _ Hfs) as Hsz.
  apply safe_bind.
  { apply safe_req_field. intros x Hx. apply Hrec. specialize (Hsz _ _ Hx). lia. }
  intros t _. safe_more.
Qed.

Lemma safe_parse_object v : (gsize v <= n)%nat -> safe (parse_object words rec v).
Proof.
  intros Hv. unfold parse_object.
  apply safe_bind; [apply safe_conv_fields|]. intros fs Hfs.
  pose proof (conv_fields_size _ _ _ Hfs) as Hsz.
  apply safe_bind; [safe_more|]. intros id _.
  apply safe_bind.
  { apply safe_req_field. intros x Hx. specialize (Hsz _ _ Hx).
    apply safe_rd_map; [intros; apply safe_rd_str|]. intros y Hy. apply safe_parse_property. lia. }
  intros props _. safe_more.
Qed.

Lemma safe_parse_scope v : (gsize v <= n)%nat -> safe (parse_scope words rec v).
Proof.
  intros Hv. unfold parse_scope.
  apply safe_bind; [apply safe_conv_fields|]. intros fs Hfs.
  pose proof (conv_fields_size _ _ _ Hfs) as Hsz.
  apply safe_bind.
  { apply safe_req_field. intros x Hx. specialize (Hsz _ _ Hx).
    apply safe_rd_map; [intros; apply safe_rd_str|]. intros y Hy. apply safe_parse_object. lia. }
  intros objs _. safe_more.
Qed.

Lemma safe_parse_member v : (gsize v <= n)%nat -> safe (parse_member words rec v).
Proof.
  intros Hv. unfold parse_member.
  apply safe_bind; [apply safe_oneof_split|]. intros [tid rest] Hs.
  pose proof (oneof_split_size _ _ _ Hs) as Hle. cbn [fst snd].
  destruct (String.eqb tid "ref"); [apply safe_parse_ref|].
  destruct (String.eqb tid "scope"); [apply safe_parse_scope; lia|].
  destruct (String.eqb tid "object"); [apply safe_parse_object; lia | exact I].
Qed.

Lemma safe_parse_oneof ik v : (gsize v <= n)%nat -> safe (parse_oneof words rec ik v).
Proof.
  intros Hv. unfold parse_oneof.
  apply safe_bind; [apply safe_conv_fields|]. intros fs Hfs.
  pose proof (conv_fields_size _ _ _ Hfs) as Hsz.
  apply safe_bind; [safe_more|]. intros inl _.
  apply safe_bind; [safe_more|]. intros field _.
  apply safe_bind; [|intros; exact I].
  apply safe_opt_field. intros x Hx. specialize (Hsz _ _ Hx).
  apply safe_rd_map.
  - intros k. destruct ik; safe_more.
  - intros y Hy. apply safe_parse_member. lia.
Qed.

Lemma safe_parse_list v : (gsize v <= n)%nat -> safe (parse_list rec v).
Proof.
  intros Hv. unfold parse_list.
  apply safe_bind; [apply safe_conv_fields|]. intros fs Hfs.
  pose proof (conv_fields_size _ _ _ Hfs) as Hsz.
  apply safe_bind.
  { apply safe_req_field. intros x Hx. apply Hrec. specialize (Hsz _ _ Hx). lia. }
  intros it _. safe_more.
Qed.

Lemma safe_parse_map v : (gsize v <= n)%nat -> safe (parse_map cu rp rec v).
Proof.
  intros Hv. unfold parse_map.
  apply safe_bind; [apply safe_conv_fields|]. intros fs Hfs.
  pose proof (conv_fields_size _ _ _ Hfs) as Hsz.
  apply safe_bind; [apply safe_req_field; intros; apply safe_parse_key|]. intros k _.
  apply safe_bind.
  { apply safe_req_field. intros x Hx. apply Hrec. specialize (Hsz _ _ Hx). lia. }
  intros x _. safe_more.
Qed.

Lemma safe_parse_signal v : (gsize v <= n)%nat -> safe (parse_signal words rec v).
Proof.
  intros Hv. unfold parse_signal.
  apply safe_bind; [apply safe_conv_fields|]. intros fs Hfs.
  pose proof (conv_fields_size _ _ _ Hfs) as Hsz.
  apply safe_bind; [safe_more|]. intros id _.
  apply safe_bind.
  { apply safe_req_field. intros x Hx. specialize (Hsz _ _ Hx). apply safe_parse_scope. lia. }
  intros data _. safe_more.
Qed.

Lemma safe_parse_output v : (gsize v <= n)%nat -> safe (parse_output words rec v).
Proof.
  intros Hv. unfold parse_output.
  apply safe_bind; [apply safe_conv_fields|]. intros fs Hfs.
  pose proof (conv_fields_size _ _ _ Hfs) as Hsz.
  apply safe_bind.
  { apply safe_req_field. intros x Hx. specialize (Hsz _ _ Hx). apply safe_parse_scope. lia. }
  intros s _. safe_more.
Qed.

Lemma safe_parse_step v : (gsize v <= n)%nat -> safe (parse_step words rec v).
Proof.
  intros Hv. unfold parse_step.
  apply safe_bind; [apply safe_conv_fields|]. intros fs Hfs.
  pose proof (conv_fields_size _ _ _ Hfs) as Hsz.
  apply safe_bind; [safe_more|]. intros id _.
  apply safe_bind.
  { apply safe_req_field. intros x Hx. specialize (Hsz _ _ Hx). apply safe_parse_scope. lia. }
  intros input _.
  apply safe_bind.
  { apply safe_req_field. intros x Hx. specialize (Hsz _ _ Hx).
    apply safe_rd_map; [intros; apply safe_rd_str|]. intros y Hy. apply safe_parse_output. lia. }
  intros outs _.
  apply safe_bind.
  { apply safe_opt_field. intros x Hx. specialize (Hsz _ _ Hx).
    apply safe_rd_map; [intros; apply safe_rd_str|]. intros y Hy. apply safe_parse_signal. lia. }
  intros sh _.
  apply safe_bind.
  { apply safe_opt_field. intros x Hx. specialize (Hsz _ _ Hx).
    apply safe_rd_map; [intros; apply safe_rd_str|]. intros y Hy. apply safe_parse_signal. lia. }
  intros se _. safe_more.
Qed.
End WithRec.

Section Total.
Variable words : list (string * bool).
Variable pu : units -> string -> option fl.
Variable cu : units.
Variable rp : string -> option re.
Variable jor : oracles.

Lemma safe_parse_type : forall f v, (gsize v <= f)%nat -> safe (parse_type words pu cu rp f v).
Proof.
  induction f as [|f IH]; intros v Hv.
  - pose proof (gsize_pos v). lia.
  - cbn [parse_type].
    apply safe_bind; [apply safe_oneof_split|]. intros [tid rest] Hs.
    pose proof (oneof_split_size _ _ _ Hs) as Hle. cbn [fst snd].
    assert (Hrec : forall x, (gsize x < S f)%nat -> safe (parse_type words pu cu rp f x)).
    { intros x Hx. apply IH. lia. }
    assert (Hrest : (gsize rest <= S f)%nat) by lia.
    repeat match goal with
    | |- safe (if ?b then _ else _) => destruct b
    end;
    first [ exact I
          | apply safe_parse_empty | apply safe_mp_int | apply safe_mp_float | apply safe_mp_string
          | apply safe_parse_enum_int | apply safe_parse_enum_str | apply safe_parse_ref
          | eapply safe_parse_list; eassumption
          | eapply safe_parse_map; eassumption
          | eapply safe_parse_object; eassumption
          | eapply safe_parse_oneof; eassumption
          | eapply safe_parse_scope; eassumption ].
Qed.

Lemma safe_rebuild d : safe (rebuild words pu cu rp jor d).
Proof.
  unfold rebuild. apply safe_bind.
  - eapply safe_parse_scope with (n := gsize d); [|lia]. intros x Hx. apply safe_parse_type. lia.
  - intros s _. destruct (link_ok jor [] s); exact I.
Qed.

Lemma safe_rebuild_plugin d : safe (rebuild_plugin words pu cu rp jor d).
Proof.
  unfold rebuild_plugin.
  apply safe_bind; [apply safe_conv_fields|]. intros fs Hfs.
  pose proof (conv_fields_size _ _ _ Hfs) as Hsz.
  apply safe_bind.
  - apply safe_req_field. intros x Hx. specialize (Hsz _ _ Hx).
    apply safe_rd_map; [intros; apply safe_rd_str|]. intros y Hy.
    eapply safe_parse_step with (n := gsize d); [|lia]. intros z Hz. apply safe_parse_type. lia.
  - intros p _. destruct (forallb _ _); [destruct (existsb _ _)|]; exact I.
Qed.

Theorem rebuild_total : forall d,
  match rebuild words pu cu rp jor d with
  | Panic _ | OutOfFuel => False
  | Err _ => True
  | Ok s => c10_wf jor s = true
  end.
Proof.
  intros d. pose proof (safe_rebuild d) as Hs.
  destruct (rebuild words pu cu rp jor d) as [s| | |] eqn:E; try exact I; try contradiction.
  unfold rebuild in E.
  destruct (parse_scope words (parse_type words pu cu rp (gsize d)) d) as [s0| | |]; cbn in E; try discriminate.
  destruct (link_ok jor [] s0) eqn:L; inversion E; subst.
  unfold c10_wf. rewrite <- link_ok_wf. exact L.
Qed.

Theorem rebuild_plugin_total : forall d,
  match rebuild_plugin words pu cu rp jor d with
  | Panic _ | OutOfFuel => False
  | Err _ => True
  | Ok p => forallb (c10_wf jor) (plugin_scopes p) = true /\ existsb foreign_refs (plugin_scopes p) = false
  end.
Proof.
  intros d. pose proof (safe_rebuild_plugin d) as Hs.
  destruct (rebuild_plugin words pu cu rp jor d) as [p| | |] eqn:E; try exact I; try contradiction.
  unfold rebuild_plugin in E.
  destruct (conv_fields ["steps"] d) as [fs| | |]; cbn in E; try discriminate.
  destruct (req_field fs "steps" _) as [p0| | |]; cbn in E; try discriminate.
  destruct (forallb (link_ok jor []) (plugin_scopes p0)) eqn:L; [|discriminate].
  destruct (existsb foreign_refs (plugin_scopes p0)) eqn:F; inversion E; subst.
  split; [|exact F].
  rewrite <- L. clear. induction (plugin_scopes p) as [|s tl IH]; [reflexivity|]. cbn. unfold c10_wf at 1. rewrite <- link_ok_wf, IH. reflexivity.
Qed.
End Total.
