(* Proofs/C12ResultSer.v — the RESULT half of C12 for Serialize: same hypotheses as Proofs/C12ResultUnser.v
   (no units enter: Serialize converts map keys with reflect's int64 / string conversions), same conclusion:
   the two results are equal up to the order of map entries. *)
From Coq Require Import Permutation Lia Bool.
From Verif Require Import Base.Prelude Base.Str Base.Float Base.GoVal
  Schema.Regex Schema.Units Schema.Syntax Schema.Ops Schema.Wf Schema.Perm
  Proofs.C04Term Proofs.OpsLemmas Proofs.OpsEq Proofs.C04Inv Proofs.C12Order Proofs.C12Lookup Proofs.C12History
  Proofs.C12Schema Proofs.C12Value Proofs.C17Compat Proofs.C12ResultBase Proofs.C12ResultUnser.
Open Scope string_scope.

Notation Q0 := (fun a b : gval * gval => perm_val (fst a) (fst b) /\ perm_val (snd a) (snd b)).

(* ---------- value-only facts ---------- *)
Lemma map_f2_leaf {B} (g : gval -> B) l l' :
  Forall2 perm_val l l' -> (forall x y, perm_val x y -> g x = g y) -> map g l = map g l'.
Proof. induction 1 as [|x y l l' Hxy _ IH]; intros Hg; cbn [map]; [reflexivity|]. now rewrite (Hg x y Hxy), IH. Qed.

Lemma flat_map_f2_leaf {B} (g : gval -> list B) l l' :
  Forall2 perm_val l l' -> (forall x y, perm_val x y -> g x = g y) -> flat_map g l = flat_map g l'.
Proof. induction 1 as [|x y l l' Hxy _ IH]; intros Hg; cbn [flat_map]; [reflexivity|]. now rewrite (Hg x y Hxy), IH. Qed.

Lemma conv_string_pv v v' : perm_val v v' -> conv_string v = conv_string v'.
Proof.
  intros H. destruct H as [v | t b l l' HF | t b kvs kvs1 kvs' HF HP | t x x' Hx | t fs fs' HF]; try reflexivity.
  cbn [conv_string]. destruct (elem_is t U8).
  - f_equal. f_equal. apply (map_f2_leaf _ l l' HF). apply pv_leaf; reflexivity.
  - destruct (elem_is t I32); [|reflexivity]. f_equal. f_equal.
    apply (flat_map_f2_leaf _ l l' HF). apply pv_leaf; reflexivity.
Qed.

Lemma raw_of_entries_by kvs : raw_of_entries kvs = raw_by sel_str kvs.
Proof.
  unfold raw_of_entries, raw_by. apply flat_map_ext. intros kv. destruct (fst kv); reflexivity.
Qed.

Lemma gtype_eqb_true a : forall b, gtype_eqb a b = true -> a = b.
Proof.
  induction a; intros b H; destruct b; cbn in H; try discriminate; try reflexivity.
  - destruct k, k0; try discriminate; reflexivity.
  - apply andb_prop in H. destruct H as [H1 H2]. apply String.eqb_eq in H1. apply IHa in H2. subst. reflexivity.
  - apply IHa in H. subst. reflexivity.
  - apply andb_prop in H. destruct H as [H1 H2]. apply IHa1 in H1. apply IHa2 in H2. subst. reflexivity.
  - apply IHa in H. subst. reflexivity.
  - apply String.eqb_eq in H. subst. reflexivity.
  - apply String.eqb_eq in H. subst. reflexivity.
Qed.

Lemma smap_get_exists k l :
  (match smap_get k l with Some _ => true | None => false end) = existsb (fun x => key_eqb (vstr k) (fst x)) l.
Proof.
  induction l as [|[k0 v0] t IH]; [reflexivity|].
  destruct k0; cbn [smap_get existsb fst key_eqb vstr orb]; try exact IH.
  destruct (String.eqb k s); [reflexivity | exact IH].
Qed.

Lemma existsb_key_f2 k l l1 : Forall2 Q0 l l1 ->
  existsb (fun x => key_eqb k (fst x)) l = existsb (fun x => key_eqb k (fst x)) l1.
Proof.
  induction 1 as [|[ka va] [kb vb] l l1 [Hk _] _ IH]; [reflexivity|]. cbn [existsb fst] in *.
  now rewrite <- (key_eqb_pv k k ka kb (pv_refl k) Hk), IH.
Qed.

(* the object loop of Serialize *)
Lemma ser_obj_char (ps : list (string * property)) (F : property -> gval -> outcome gval) (r : raw) out :
  Forall2 (fun kv y => match alookup (fst kv) ps with
                       | Some p => x <- seg (fst kv) (F p (snd kv)) ;; Ok (fst kv, x)
                       | None => Err (cerr EKey)
                       end = Ok y) r out ->
  map fst out = map fst r /\
  forall k, match alookup k r, alookup k out with
            | None, None => True
            | Some d, Some x => exists p, alookup k ps = Some p /\ F p d = Ok x
            | _, _ => False
            end.
Proof.
  induction 1 as [|[k0 d0] y r out Hg _ IH]; [split; [reflexivity | intros k; exact I]|].
  cbn [fst snd] in Hg. destruct (alookup k0 ps) as [p|] eqn:Ep; [|discriminate Hg].
  apply bind_ok in Hg. destruct Hg as (x0 & Hx0 & Hy). inversion Hy; subst y. apply seg_ok in Hx0.
  destruct IH as [I1 I2]. split; [cbn [map fst]; now rewrite I1|].
  intros k. cbn [alookup]. destruct (String.eqb k k0) eqn:E; cbv beta iota; [|exact (I2 k)].
  apply String.eqb_eq in E. subst k. exists p. split; assumption.
Qed.

(* the discriminator lookup shared by Validate and Serialize, as a function of the value alone *)
Lemma oneof_sel_ok ts ik fld inl v key m d : oneof_sel ts ik fld inl v = Ok (key, m, d) ->
  exists b kvs d0 k1, v = VMap t_str_map b kvs /\ smap_get fld kvs = Some d0 /\
    (if ik then match d0 with VInt (TInt I64) z => Some (KI z) | _ => None end
     else match d0 with VStr TStr s0 => Some (KS s0) | _ => None end) = Some key /\
    find (fun ks => okey_eqb (fst ks) key) ts = Some (k1, m) /\
    d = VMap t_str_map false (if inl then kvs else smap_del fld kvs).
Proof.
  unfold oneof_sel. intros H.
  destruct v as [|t b|t z|t x|t s|t b l|t b kvs|t o|t fs|src|k dd]; cbn [kind_of is_str_any_map] in H;
    try discriminate H; try (destruct (kind_of_type t); discriminate H); try (destruct k; discriminate H).
  destruct (gtype_eqb t t_str_map) eqn:Et; [|destruct (kind_of_type t); discriminate H].
  apply gtype_eqb_true in Et. subst t. cbn [kind_of_type underlying t_str_map] in H.
  destruct (smap_get fld kvs) as [d0|] eqn:Eg; [|discriminate H].
  assert (Hd0 : match (if ik then match d0 with VInt (TInt I64) z => Some (KI z) | _ => None end
                      else match d0 with VStr TStr s0 => Some (KS s0) | _ => None end) with
                | None => Err (cerr ERepr)
                | Some key0 =>
                    match find (fun ks => okey_eqb (fst ks) key0) ts with
                    | None => Err (cerr EKey)
                    | Some (_, member) => Ok (key0, member, VMap t_str_map false (if inl then kvs else smap_del fld kvs))
                    end
                end = Ok (key, m, d)).
  { destruct d0; try exact H. discriminate H. }
  clear H.
  destruct (if ik then match d0 with VInt (TInt I64) z => Some (KI z) | _ => None end
            else match d0 with VStr TStr s0 => Some (KS s0) | _ => None end) as [key0|] eqn:Ek; [|discriminate Hd0].
  destruct (find (fun ks => okey_eqb (fst ks) key0) ts) as [[k1 m0]|] eqn:Ef; [|discriminate Hd0].
  inversion Hd0; subst. exists b, kvs, d0, k1. repeat split; assumption.
Qed.

Section SerResult.
Variable words : list (string * bool).
Variable pu : units -> string -> option fl.
Variable Ub : option units -> bool.
Notation serialize := (serialize words pu).
Notation oneof_find := (oneof_find words pu).
Notation WF := (Inv wf_local).
Notation kc := (@kc Ub).
Notation knc := (@knc Ub).
Notation kfree := (@kfree Ub).
Notation Qk := (@Qk Ub).
Notation raw_by_nodup_k := (@raw_by_nodup_k Ub).
Notation raw_by_nodup_side := (@raw_by_nodup_side Ub).
Notation raw_by_lookup_k := (@raw_by_lookup_k Ub).
Notation sel_str_kc := (@sel_str_kc Ub).
Notation kfree_map := (@kfree_map Ub).
Notation kfree_slice := (@kfree_slice Ub).
Notation kfree_filter := (@kfree_filter Ub).
Notation any_conv_result := (@any_conv_result Ub).
Notation map_result_rel := (@map_result_rel Ub).
Notation kf_map := (@kf_map Ub).
Notation kc_sym := (@kc_sym Ub).

(* ---------- key conversion ---------- *)
Lemma ser_key_inj f e ks k1 k2 r1 r2 : key_kind_ok ks = true ->
  serialize f e ks k1 = Ok r1 -> serialize f e ks k2 = Ok r2 -> key_eqb r1 r2 = true -> kc k1 k2.
Proof.
  intros Hkk H1 H2 E.
  destruct f as [|f]; [discriminate H1|]. rewrite (serialize_S words pu) in H1, H2.
  destruct ks; try discriminate Hkk; cbv beta iota in H1, H2.
  - unfold int_ser, int_bounds in H1, H2.
    destruct (conv_int64 k1) as [z1|] eqn:E1; [|discriminate H1]. destruct (conv_int64 k2) as [z2|] eqn:E2; [|discriminate H2].
    destruct (size_ok mn mx z1); [|discriminate H1]. destruct (size_ok mn mx z2); [|discriminate H2].
    inversion H1; inversion H2; subst. cbn in E. apply Z.eqb_eq in E. subst z2. right; right; left. eauto.
  - unfold string_ser, string_check in H1, H2.
    destruct (conv_string k1) as [s1|] eqn:E1; [|discriminate H1]. destruct (conv_string k2) as [s2|] eqn:E2; [|discriminate H2].
    destruct (size_ok mn mx (slen s1)); [|discriminate H1]. destruct (size_ok mn mx (slen s2)); [|discriminate H2].
    assert (R1 : r1 = vstr s1) by (destruct pat as [[src re]|]; [destruct (re_match_string re s1); [|discriminate H1]|]; inversion H1; reflexivity).
    assert (R2 : r2 = vstr s2) by (destruct pat as [[src re]|]; [destruct (re_match_string re s2); [|discriminate H2]|]; inversion H2; reflexivity).
    subst. cbn in E. apply String.eqb_eq in E. subst s2. right; right; right; left. eauto.
  - unfold enum_int_ser in H1, H2.
    destruct (conv_int64 k1) as [z1|] eqn:E1; [|discriminate H1]. destruct (conv_int64 k2) as [z2|] eqn:E2; [|discriminate H2].
    destruct (enum_int_mem vals z1); [|discriminate H1]. destruct (enum_int_mem vals z2); [|discriminate H2].
    inversion H1; inversion H2; subst. cbn in E. apply Z.eqb_eq in E. subst z2. right; right; left. eauto.
  - unfold enum_str_ser in H1, H2.
    destruct (conv_string k1) as [s1|] eqn:E1; [|discriminate H1]. destruct (conv_string k2) as [s2|] eqn:E2; [|discriminate H2].
    destruct (enum_str_mem vals s1); [|discriminate H1]. destruct (enum_str_mem vals s2); [|discriminate H2].
    inversion H1; inversion H2; subst. cbn in E. apply String.eqb_eq in E. subst s2. right; right; right; left. eauto.
Qed.

Lemma ser_key_kd f e ks k1 k2 r1 r2 : key_kind_ok ks = true ->
  serialize f e ks k1 = Ok r1 -> serialize f e ks k2 = Ok r2 -> ~ kc k1 k2 ->
  key_eqb r1 r2 = false /\ key_eqb r2 r1 = false.
Proof.
  intros Hkk H1 H2 Hn. split.
  - destruct (key_eqb r1 r2) eqn:E; [|reflexivity]. exfalso. apply Hn. exact (ser_key_inj f e ks k1 k2 r1 r2 Hkk H1 H2 E).
  - destruct (key_eqb r2 r1) eqn:E; [|reflexivity]. exfalso. apply Hn. apply kc_sym.
    exact (ser_key_inj f e ks k2 k1 r2 r1 Hkk H2 H1 E).
Qed.

(* the serialized form of an object-like schema is a string-keyed map with unique keys *)
Lemma ser_objlike_shape : forall f e s v r, WF e s -> objlike s = true -> kfree v ->
  serialize f e s v = Ok r -> exists rr, r = raw_to_val rr /\ nodup_str (map fst rr) = true.
Proof.
  induction f as [|f IH]; intros e s v r Hwf Hobj Hk H; [discriminate H|].
  rewrite (serialize_S words pu) in H.
  destruct s; try discriminate Hobj; cbv beta iota zeta in H.
  - unfold property in *.
    destruct (is_str_any_map v) as [kvs|] eqn:Esm; [|discriminate H].
    destruct (is_str_any_map_some _ _ Esm) as (t & b & ->).
    apply bind_ok in H. destruct H as (u0 & _ & H). apply bind_ok in H. destruct H as (out & Ho & H).
    inversion H; subst r. exists out. split; [reflexivity|].
    apply mapM_ok in Ho. destruct (ser_obj_char props (fun p d => serialize f e (p_type p) d) _ _ Ho) as [K _].
    rewrite K, raw_of_entries_by. destruct (kfree_map _ _ _ Hk) as [Hpw _].
    apply raw_by_nodup_k; [exact sel_str_kc | exact Hpw].
  - destruct (resolve e id ns) as [[o e2]|] eqn:R1; [|discriminate H].
    pose proof (inv_here _ _ _ Hwf) as Hl. cbn [wf_local] in Hl. rewrite R1 in Hl.
    apply (IH e2 o v r); [exact (inv_ref _ _ _ _ _ _ _ Hwf R1) | destruct o; try discriminate Hl; reflexivity | exact Hk | exact H].
  - destruct (alookup root objs) as [o|] eqn:R1; [|discriminate H].
    pose proof (inv_here _ _ _ Hwf) as Hl. cbn [wf_local] in Hl.
    apply andb_prop in Hl as [Hl _]. apply andb_prop in Hl as [_ Hl]. rewrite forallb_forall in Hl.
    specialize (Hl _ (alookup_in _ _ _ R1)). cbn [fst snd] in Hl.
    apply (IH (env_enter e objs) o v r); [exact (inv_scope _ _ _ _ _ Hwf R1) | destruct o; try discriminate Hl; reflexivity | exact Hk | exact H].
Qed.

(* the one-of lookup on both sides *)
Lemma oneof_sel_rel ts ts1 ts' ik fld inl v v' key m d key' m' d' :
  nodup_by okey_eqb (map fst ts) = true ->
  Forall2 (fun a b => fst a = fst b /\ rel_schema (snd a) (snd b)) ts ts1 -> Permutation ts1 ts' ->
  perm_val v v' -> kfree v ->
  oneof_sel ts ik fld inl v = Ok (key, m, d) -> oneof_sel ts' ik fld inl v' = Ok (key', m', d') ->
  key' = key /\ rel_schema m m' /\ perm_val d d' /\ kfree d /\ exists k1, In (k1, m) ts.
Proof.
  intros Hnts HFt HPt Hv Hk H1 H2.
  apply oneof_sel_ok in H1. destruct H1 as (b & kvs & d0 & k1 & -> & Eg & Ek & Ef & ->).
  apply oneof_sel_ok in H2. destruct H2 as (b' & kvs' & d0' & k1' & -> & Eg' & Ek' & Ef' & ->).
  destruct (pv_map_view _ _ _ _ Hv) as (kvs1 & kvs'' & Ev & HF & HP). inversion Ev; subst b' kvs''. clear Ev.
  destruct (kfree_map _ _ _ Hk) as [Hpw Hall].
  rewrite smap_get_raw in Eg, Eg'.
  pose proof (raw_by_lookup_k sel_str sel_str_kc sel_str_leaf kvs kvs1 kvs' fld Hpw Hall HF HP) as HL.
  rewrite Eg, Eg' in HL. cbv beta iota in HL. destruct HL as [Hd _].
  assert (Ekk : (if ik then match d0' with VInt (TInt I64) z => Some (KI z) | _ => None end
                 else match d0' with VStr TStr s0 => Some (KS s0) | _ => None end)
                = (if ik then match d0 with VInt (TInt I64) z => Some (KI z) | _ => None end
                   else match d0 with VStr TStr s0 => Some (KS s0) | _ => None end)).
  { symmetry. revert Hd. generalize d0, d0'. apply pv_leaf; reflexivity. }
  rewrite Ekk, Ek in Ek'. inversion Ek'; subst key'. clear Ek'.
  pose proof (rel_find key _ _ _ Hnts HFt HPt) as Hf. rewrite Ef, Ef' in Hf. cbv beta iota in Hf.
  split; [reflexivity|]. split; [exact Hf|].
  split; [|split; [|exists k1; apply find_some in Ef; tauto]].
  - destruct inl; [exact (pv_map _ _ _ _ _ HF HP)|].
    rewrite !smap_del_filter. apply (pv_map _ _ _ (filter (keep_key fld) kvs1)).
    + apply f2_filter; [exact HF|]. intros a b0 [Hka _]. unfold keep_key. now rewrite (sel_str_leaf _ _ Hka).
    + now apply perm_filter.
  - destruct inl; [apply kf_map; assumption|]. rewrite smap_del_filter. exact (kfree_filter _ _ _ _ _ _ Hk).
Qed.

(* ---------- the main induction ---------- *)
Lemma ser_result : forall f e e' s s' v v',
  perm_env e e' -> nodup_env e = true -> perm_schema s s' -> perm_val v v' -> WF e s ->
  kfree v -> res_rel (serialize f e s v) (serialize f e' s' v').
Proof.
  induction f as [|f IH]; intros e e' s s' v v' He Hnd Hs Hv Hwf Hk; [intros r r' H; discriminate H|].
  rewrite !(serialize_S words pu).
  destruct Hs as [mn mx u|mn mx u|mn mx p| | | |vals vals' u HPv|n vals vals' HPv|sa sb mn mx Hs1
                 |ks ks' vs vs' mn mx Hsk Hsv|id u ps ps1 ps' HFp HPp|ts ts1 ts' ik fld inl HFt HPt|id ns d
                 |os os1 os' root HFo HPo]; cbv beta iota zeta.
  - apply res_rel_eq. destruct Hv; reflexivity.
  - apply res_rel_eq. destruct Hv; reflexivity.
  - apply res_rel_eq. unfold string_ser. now rewrite (conv_string_pv _ _ Hv).
  - apply res_rel_eq. destruct Hv; reflexivity.
  - apply res_rel_eq. destruct Hv; reflexivity.
  - exact (any_conv_result f v v' Hv Hk).
  - apply res_rel_eq. unfold enum_int_ser.
    replace (conv_int64 v') with (conv_int64 v) by (destruct Hv; reflexivity).
    destruct (conv_int64 v) as [z|]; [|reflexivity]. now rewrite (enum_int_mem_perm _ _ z HPv).
  - apply res_rel_eq. unfold enum_str_ser. rewrite <- (conv_string_pv _ _ Hv).
    destruct (conv_string v) as [s|]; [|reflexivity]. now rewrite (enum_str_mem_perm _ _ s HPv).
  - (* list *)
    apply res_rel_bind. intros u0 u0' _ _.
    destruct (is_vslice v) eqn:Em.
    2: { apply res_rel_notok_l. destruct v; try reflexivity; discriminate Em. }
    destruct v as [| | | | |t b l| | | | |]; try discriminate Em.
    destruct (pv_slice_view _ _ _ _ Hv) as (l' & -> & HF). cbv beta iota.
    apply res_rel_bind. intros ys ys' H1 H2 r r' Hr Hr'. inversion Hr; inversion Hr'; subst.
    apply pv_slice. apply kfree_slice in Hk. rewrite Forall_forall in Hk.
    apply (mapMi_f2_rel perm_val perm_val (fun i x => seg (idx_seg i) (serialize f e sa x))
             (fun i x => seg (idx_seg i) (serialize f e' sb x)) l l' HF) with (i := 0%Z) (ys := ys) (ys' := ys');
      [|exact H1 | exact H2].
    intros j x x' y y' Hin Hx Hy Hy'. apply seg_ok in Hy. apply seg_ok in Hy'.
    exact (IH e e' sa sb x x' He Hnd Hs1 Hx (inv_list _ _ _ _ _ Hwf) (Hk x Hin) y y' Hy Hy').
  - (* map *)
    apply res_rel_bind. intros u0 u0' _ _.
    destruct (is_vmap v) eqn:Em.
    2: { apply res_rel_notok_l. destruct v; try reflexivity; discriminate Em. }
    destruct v as [| | | | | |t b kvs| | | |]; try discriminate Em.
    destruct (pv_map_view _ _ _ _ Hv) as (kvs1 & kvs' & -> & HF & HP). cbv beta iota.
    apply res_rel_bind. intros rs rs' H1 H2 r r' Hr Hr'. inversion Hr; inversion Hr'; subst.
    apply (fold_set2 (fun kv => seg (mkey_seg (fst kv)) (serialize f e ks (fst kv)))
                     (fun kv _ => seg (mval_seg (fst kv)) (serialize f e vs (snd kv)))) in H1.
    apply (fold_set2 (fun kv => seg (mkey_seg (fst kv)) (serialize f e' ks' (fst kv)))
                     (fun kv _ => seg (mval_seg (fst kv)) (serialize f e' vs' (snd kv)))) in H2.
    destruct H1 as (cs & HF1 & ->). destruct H2 as (cs' & HF2 & ->).
    apply kfree_map in Hk. destruct Hk as [Hpw Hall]. rewrite Forall_forall in Hall.
    pose proof (wf_map_key _ _ _ _ _ Hwf) as Hkk.
    eapply (map_result_rel _ _ kvs kvs1 kvs' cs cs'); [exact HF | exact HP | exact Hpw | exact HF1 | exact HF2 | |].
    + intros x x' c c' Hin [Hxk Hxv] [Hg1 Hg2] [Hg1' Hg2']. cbv beta in *.
      apply seg_ok in Hg1. apply seg_ok in Hg2. apply seg_ok in Hg1'. apply seg_ok in Hg2'.
      destruct (Hall x Hin) as [Hfk Hfv]. split.
      * exact (IH e e' ks ks' _ _ He Hnd Hsk Hxk (inv_map_k _ _ _ _ _ _ Hwf) Hfk _ _ Hg1 Hg1').
      * exact (IH e e' vs vs' _ _ He Hnd Hsv Hxv (inv_map_v _ _ _ _ _ _ Hwf) Hfv _ _ Hg2 Hg2').
    + intros x y c q [Hg1 _] [Hg2 _] Hn. cbv beta in *. apply seg_ok in Hg1. apply seg_ok in Hg2.
      exact (ser_key_kd f e ks _ _ _ _ Hkk Hg1 Hg2 Hn).
  - (* object *)
    unfold property in *.
    pose proof (wf_object_nodup _ _ _ _ Hwf) as Hnps.
    destruct (is_vmap v) eqn:Em.
    2: { apply res_rel_notok_l. destruct v; try reflexivity; discriminate Em. }
    destruct v as [| | | | | |t b kvs| | | |]; try discriminate Em.
    destruct (pv_map_view _ _ _ _ Hv) as (kvs1 & kvs' & -> & HF & HP).
    cbn [is_str_any_map]. destruct (gtype_eqb t t_str_map); [|apply res_rel_notok_l; reflexivity].
    cbv beta iota zeta.
    destruct (kfree_map _ _ _ Hk) as [Hpw Hall].
    apply res_rel_bind. intros u0 u0' _ _.
    apply res_rel_bind. intros out out' Ho Ho' r r' Hr Hr'. inversion Hr; inversion Hr'; subst. clear Hr Hr'.
    apply mapM_ok in Ho. apply mapM_ok in Ho'.
    destruct (ser_obj_char ps (fun p d => serialize f e (p_type p) d) _ _ Ho) as [K L].
    destruct (ser_obj_char ps' (fun p d => serialize f e' (p_type p) d) _ _ Ho') as [K' L'].
    rewrite raw_of_entries_by in K, K', L, L'.
    assert (Hn0 : nodup_str (map fst (raw_by sel_str kvs)) = true) by (apply raw_by_nodup_k; [exact sel_str_kc | exact Hpw]).
    assert (Hn0' : nodup_str (map fst (raw_by sel_str kvs')) = true)
      by (apply (raw_by_nodup_side sel_str sel_str_kc sel_str_leaf kvs kvs1 kvs'); assumption).
    apply raw_to_val_rp; [now rewrite K | now rewrite K' |].
    intros k. specialize (L k). specialize (L' k).
    pose proof (raw_by_lookup_k sel_str sel_str_kc sel_str_leaf kvs kvs1 kvs' k Hpw Hall HF HP) as HL.
    pose proof (rel_alookup rel_prop k ps ps1 ps' Hnps HFp HPp) as HPk. unfold property in *.
    destruct (alookup k (raw_by sel_str kvs)) as [d0|], (alookup k (raw_by sel_str kvs')) as [d0'|];
      cbv beta iota in HL, L, L' |- *; try contradiction.
    + destruct (alookup k out) as [x|]; cbv beta iota in L |- *; [|contradiction].
      destruct (alookup k out') as [x'|]; cbv beta iota in L' |- *; [|contradiction].
      destruct L as (p & Ep & Lx). destruct L' as (p' & Ep' & Lx'). rewrite Ep, Ep' in HPk. cbv beta iota in HPk.
      inversion HPk as [t0 t0' dd0 rq0 ri0 rin0 c0 df0 ex0 em0 dis0 reason0 Hst]; subst p p'.
      cbn [p_type] in Lx, Lx'. destruct HL as [Hp Hfr].
      refine (IH e e' t0 t0' d0 d0' He Hnd Hst Hp _ Hfr x x' Lx Lx').
      exact (inv_prop _ _ _ _ _ (k, _) Hwf (alookup_in _ _ _ Ep)).
    + destruct (alookup k out); cbv beta iota in L |- *; [contradiction|].
      destruct (alookup k out'); cbv beta iota in L' |- *; [contradiction | exact I].
  - (* one-of *)
    pose proof (wf_oneof_nodup _ _ _ _ _ Hwf) as Hnts.
    apply res_rel_bind. intros [[key m] dd] [[key' m'] dd'] Hf Hf'. cbv beta iota.
    destruct f as [|f0]; [discriminate Hf|].
    rewrite (oneof_find_eq words pu) in Hf, Hf'.
    apply bind_ok in Hf. destruct Hf as ([[ka ma] da] & Hsel & Hf). cbv beta iota in Hf.
    apply bind_ok in Hf. destruct Hf as (u0 & _ & Hf).
    inversion Hf; subst ka ma da. clear Hf.
    apply bind_ok in Hf'. destruct Hf' as ([[ka ma] da] & Hsel' & Hf'). cbv beta iota in Hf'.
    apply bind_ok in Hf'. destruct Hf' as (u0' & _ & Hf').
    inversion Hf'; subst ka ma da. clear Hf'.
    destruct (oneof_sel_rel ts ts1 ts' ik fld inl v v' key m dd key' m' dd' Hnts HFt HPt Hv Hk Hsel Hsel')
      as (-> & Hm & Hdd & Hkd & (k1 & Hin)).
    assert (Hwm : WF e m) by exact (inv_member _ _ _ _ _ _ (k1, m) Hwf Hin).
    assert (Hobj : objlike m = true).
    { pose proof (inv_here _ _ _ Hwf) as Hl. cbn [wf_local] in Hl. apply andb_prop in Hl as [_ Hl].
      rewrite forallb_forall in Hl. specialize (Hl _ Hin). unfold wf_member in Hl. cbn [fst snd] in Hl.
      apply andb_prop in Hl as [Hl _]. apply andb_prop in Hl as [_ Hl]. exact Hl. }
    apply res_rel_bind. intros x x' Hx Hx'.
    pose proof (IH e e' m m' _ _ He Hnd Hm Hdd Hwm Hkd x x' Hx Hx') as Hxx.
    destruct (ser_objlike_shape (S f0) e m _ x Hwm Hobj Hkd Hx) as (rr & -> & Hnr).
    pose proof Hxx as Hxx0. unfold raw_to_val in Hxx.
    destruct (pv_map_view _ _ _ _ Hxx) as (xs1 & xs' & -> & HFx & HPx).
    change (is_str_any_map (raw_to_val rr)) with (Some (inj_raw rr)).
    change (is_str_any_map (VMap t_str_map false xs')) with (Some xs').
    cbv beta iota.
    assert (Hex : (match smap_get fld (inj_raw rr) with Some _ => true | None => false end)
                  = (match smap_get fld xs' with Some _ => true | None => false end)).
    { rewrite !smap_get_exists, (existsb_key_f2 _ _ _ HFx). now apply existsb_perm. }
    destruct (smap_get fld (inj_raw rr)) as [g1|], (smap_get fld xs') as [g2|]; try discriminate Hex.
    + intros r r' Hr Hr'. inversion Hr; inversion Hr'; subst. exact Hxx0.
    + intros r r' Hr Hr'. inversion Hr; inversion Hr'; subst.
      destruct (map_set_rp (vstr fld) (match key with KI z => vi64 z | KS s0 => vstr s0 end)
                  (match key with KI z => vi64 z | KS s0 => vstr s0 end) (inj_raw rr) xs1 xs'
                  (pv_refl _) (kcnt_raw fld rr Hnr) HFx HPx) as (m1 & Hm1 & Hm2).
      exact (pv_map _ _ _ m1 _ Hm1 Hm2).
  - (* reference *)
    pose proof (rel_resolve e e' id ns He Hnd) as Hr.
    destruct (resolve e id ns) as [[o e2]|] eqn:R1, (resolve e' id ns) as [[o' e2']|]; cbv beta iota in Hr |- *; try contradiction;
      [|apply res_rel_notok_l; reflexivity].
    destruct Hr as (Ho & He2 & Hn2).
    exact (IH e2 e2' o o' v v' He2 Hn2 Ho Hv (inv_ref _ _ _ _ _ _ _ Hwf R1) Hk).
  - (* scope *)
    pose proof (wf_scope_nodup _ _ _ Hwf) as Hnos.
    pose proof (rel_alookup rel_schema root os os1 os' Hnos HFo HPo) as Hl.
    destruct (alookup root os) as [o|] eqn:R1, (alookup root os') as [o'|]; cbv beta iota in Hl |- *; try contradiction;
      [|apply res_rel_notok_l; reflexivity].
    apply (IH (env_enter e os) (env_enter e' os') o o' v v').
    + now apply (rel_env_enter e e' os os1 os').
    + unfold nodup_env in *. cbn [env_enter e_self e_ext]. apply andb_prop in Hnd as [_ Hx]. now rewrite Hnos, Hx.
    + exact Hl.
    + exact Hv.
    + exact (inv_scope _ _ _ _ _ Hwf R1).
    + exact Hk.
Qed.

End SerResult.
