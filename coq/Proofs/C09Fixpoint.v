(* Proofs/C09Fixpoint.v — rebuilding a schema from its own description gives the schema back (up to
   `erase`), for every describable schema: the readers of the meta-schema invert `describe` field by
   field.  Induction on the fuel of parse_type, with the nesting depth of types as the measure. *)
From Coq Require Import Lia.
From Verif Require Import Base.Prelude Base.Str Base.Float Base.GoVal
  Schema.Regex Schema.Units Schema.Syntax Schema.Ops Schema.Describe
  Proofs.DescribeBase Proofs.C10Total Proofs.C09Describe.
Open Scope string_scope.

(* ---------- booleans ---------- *)
Ltac split_andb :=
  repeat match goal with
  | H : (_ && _)%bool = true |- _ => apply andb_true_iff in H; destruct H
  end.

(* ---------- uniqueness of keys ---------- *)
Fixpoint nodup_by {K} (keq : K -> K -> bool) (l : list K) : bool :=
  match l with [] => true | k :: t => negb (existsb (keq k) t) && nodup_by keq t end.

Lemma nodup_str_by l : nodup_str l = nodup_by String.eqb l.
Proof.
  induction l as [|x t IH]; [reflexivity|]. cbn. rewrite IH. f_equal. f_equal.
  clear. induction t as [|y t IH]; [reflexivity|]. cbn. rewrite IH. reflexivity.
Qed.
Lemma nodup_z_by l : nodup_z l = nodup_by Z.eqb l.
Proof.
  induction l as [|x t IH]; [reflexivity|]. cbn. rewrite IH. f_equal. f_equal.
  clear. induction t as [|y t IH]; [reflexivity|]. cbn. rewrite IH. reflexivity.
Qed.
Lemma nodup_okey_by l : nodup_okey l = nodup_by okey_eqb l.
Proof. induction l as [|x t IH]; [reflexivity|]. cbn. rewrite IH. reflexivity. Qed.

Lemma okey_eqb_sym a b : okey_eqb a b = okey_eqb b a.
Proof. destruct a, b; cbn; try reflexivity; [apply Z.eqb_sym | apply String.eqb_sym]. Qed.

Lemma aset_fresh {K V} (keq : K -> K -> bool) k (v : V) l :
  existsb (fun kv => keq k (fst kv)) l = false -> aset keq k v l = (l ++ [(k, v)])%list.
Proof.
  induction l as [|[k' v'] t IH]; cbn; [reflexivity|]. intros H.
  apply orb_false_iff in H. destruct H as [H1 H2]. rewrite H1, IH by exact H2. reflexivity.
Qed.

(* MapSchema.Unserialize on a described map: every entry reads back, keys stay distinct *)
Lemma rd_map_F {A K V} (F : A -> gval * gval) (G : A -> K * V)
      (rk : gval -> outcome K) (rv : gval -> outcome V) keq mn t n l :
  size_ok mn None (zlen l) = true ->
  (forall a b, keq a b = keq b a) ->
  nodup_by keq (map (fun x => fst (G x)) l) = true ->
  Forall (fun x => rk (fst (F x)) = Ok (fst (G x)) /\ rv (snd (F x)) = Ok (snd (G x))) l ->
  rd_map rk rv keq mn (VMap t n (map F l)) = Ok (map G l).
Proof.
  intros Hsz Hsym Hnd HF. cbn [rd_map].
  replace (zlen (map F l)) with (zlen l) by (unfold zlen; rewrite map_length; reflexivity).
  rewrite Hsz. clear Hsz.
  assert (Gen : forall done,
            existsb (fun x => existsb (fun kv => keq (fst (G x)) (fst kv)) done) l = false ->
            fold_left (fun acc kv => a <- acc ;; k <- rk (fst kv) ;; x <- rv (snd kv) ;; Ok (aset keq k x a))
                      (map F l) (Ok done) = Ok (done ++ map G l)%list).
  { induction HF as [|x tl [Hk Hv] _ IH]; intros done Hfresh; cbn.
    - rewrite app_nil_r. reflexivity.
    - cbn in Hfresh. apply orb_false_iff in Hfresh. destruct Hfresh as [Hx Htl].
      rewrite Hk, Hv. cbn. rewrite aset_fresh by exact Hx.
      cbn in Hnd. apply andb_true_iff in Hnd. destruct Hnd as [Hnx Hnd'].
      rewrite IH; [rewrite <- app_assoc; cbn; destruct (G x); reflexivity | exact Hnd' |].
      (* the keys still to come are fresh for done ++ [x] *)
      apply negb_true_iff in Hnx.
      clear - Htl Hnx Hsym.
      induction tl as [|y tl IH]; [reflexivity|]. cbn in *.
      apply orb_false_iff in Htl. destruct Htl as [Hy Htl].
      apply orb_false_iff in Hnx. destruct Hnx as [Hxy Hnx].
      rewrite existsb_app, Hy. cbn. rewrite Hsym, Hxy. cbn. apply IH; assumption. }
  rewrite (Gen []); [reflexivity|].
  clear. induction l; [reflexivity|]. cbn. assumption.
Qed.

(* ---------- reading described scalars back ---------- *)
Lemma rd_int_vi64 mn mx u z : in_i64 z = true -> size_ok mn mx z = true -> rd_int mn mx u (vi64 z) = Ok z.
Proof.
  intros Hi Hs. unfold rd_int, vi64, int_mapper.
  unfold in_i64 in Hi. apply andb_true_iff in Hi. destruct Hi as [_ Hmax]. rewrite Hmax, Hs. reflexivity.
Qed.
Lemma rd_float_vf64 pu x : rd_float pu (vf64 x) = Ok x.
Proof. reflexivity. Qed.
Lemma rd_bool_vbool words b : rd_bool words (vbool b) = Ok b.
Proof. reflexivity. Qed.
Lemma rd_str_vstr mn mx s : size_ok mn mx (slen s) = true -> rd_str mn mx None (vstr s) = Ok s.
Proof. intros H. unfold rd_str, vstr, string_mapper. rewrite H. reflexivity. Qed.
Lemma rd_any_str_vstr s : rd_any_str (vstr s) = Ok s.
Proof. reflexivity. Qed.
Lemma rd_id_vstr s : id_ok s = true -> rd_id (vstr s) = Ok s.
Proof.
  intros H. unfold id_ok in H. split_andb.
  unfold rd_id, rd_str, vstr, string_mapper, size_ok, ole, oge, id_pat.
  rewrite H, H1. cbn [andb]. rewrite H0. reflexivity.
Qed.
Lemma rd_nonempty_vstr s : nonempty s = true -> rd_str (Some 1) None None (vstr s) = Ok s.
Proof. intros H. apply rd_str_vstr. unfold size_ok, ole, oge. unfold nonempty in H. rewrite H. reflexivity. Qed.
Lemma rd_strs_dstrs l : rd_strs (dstrs l) = Ok l.
Proof.
  unfold rd_strs, dstrs, dlist. induction l as [|x t IH]; [reflexivity|].
  cbn [map mapM]. rewrite rd_any_str_vstr. cbn [bind]. rewrite IH. reflexivity.
Qed.

(* ---------- objects of the meta-schema ---------- *)
Lemma conv_fields_dobj allowed fs :
  forallb (fun kv => str_in (fst kv) allowed) fs = true -> conv_fields allowed (dobj fs) = Ok fs.
Proof.
  intros H. unfold dobj. cbn [conv_fields].
  assert (Gen : forall acc,
            fold_left (fun acc kv => a <- acc ;;
                         match fst kv with
                         | VStr TStr k => if str_in k allowed then Ok (a ++ [(k, snd kv)])%list else Err (cerr EKey)
                         | _ => Err (cerr EKey)
                         end) (map (fun kv : string * gval => (vstr (fst kv), snd kv)) fs) (Ok acc)
            = Ok (acc ++ fs)%list).
  { induction fs as [|[k v] t IH]; intros acc; cbn.
    - rewrite app_nil_r. reflexivity.
    - cbn in H. apply andb_true_iff in H. destruct H as [Hk Ht]. rewrite Hk.
      rewrite IH by exact Ht. rewrite <- app_assoc. reflexivity. }
  apply (Gen []).
Qed.

Ltac read_obj := rewrite conv_fields_dobj by reflexivity; cbn [bind].

Lemma rd_display_d d : display_ok d = true -> rd_display (d_display d) = Ok d.
Proof.
  destruct d as [n de i]. unfold display_ok, d_display. cbn [d_name d_desc d_icon]. intros H. split_andb.
  unfold rd_display.
  destruct n as [n|], de as [de|], i as [i|]; cbn [ofield app ostr_ok] in *; read_obj;
    unfold opt_field; cbn [alookup String.eqb Ascii.eqb Bool.eqb];
    rewrite ?rd_nonempty_vstr by assumption; reflexivity.
Qed.

Lemma rd_unit_d u : rd_unit (d_unit u) = Ok u.
Proof. destruct u. unfold rd_unit, d_unit. read_obj. reflexivity. Qed.

Lemma existsb_z_in x l : existsb (Z.eqb x) l = z_in x l.
Proof. induction l; [reflexivity|]. cbn. rewrite IHl. reflexivity. Qed.

Lemma rd_units_d u : units_ok u = true -> rd_units (d_units u) = Ok u.
Proof.
  destruct u as [b ms]. unfold units_ok. cbn [u_mults u_base]. intros H. split_andb.
  unfold rd_units, d_units. cbn [u_base u_mults]. read_obj.
  unfold req_field, opt_field. cbn [alookup String.eqb Ascii.eqb Bool.eqb]. rewrite rd_unit_d. cbn [bind].
  unfold dmap.
  rewrite (rd_map_F (fun mu : Z * unit_def => (vi64 (fst mu), d_unit (snd mu))) (fun mu => mu)).
  - cbn [bind odflt]. rewrite map_id. reflexivity.
  - reflexivity.
  - apply Z.eqb_sym.
  - rewrite <- nodup_z_by. exact H0.
  - apply Forall_forall. intros [m ud] Hin. cbn [fst snd].
    rewrite forallb_forall in H. specialize (H _ Hin). cbn [fst] in H. split_andb. split.
    + apply rd_int_vi64; [assumption|]. unfold size_ok, ole, oge. rewrite H. reflexivity.
    + apply rd_unit_d.
Qed.


(* ---------- the discriminator ---------- *)
Lemma keys_are_strings (fs : list (string * gval)) :
  forallb (fun kv : gval * gval => match fst kv with VStr TStr _ => true | _ => false end)
          (map (fun kv : string * gval => (vstr (fst kv), snd kv)) fs) = true.
Proof. induction fs as [|[k v] t IH]; [reflexivity|]. cbn. exact IH. Qed.

Lemma smap_del_absent k (fs : list (string * gval)) :
  forallb (fun kv => negb (String.eqb k (fst kv))) fs = true ->
  smap_del k (map (fun kv : string * gval => (vstr (fst kv), snd kv)) fs)
  = map (fun kv : string * gval => (vstr (fst kv), snd kv)) fs.
Proof.
  induction fs as [|[k' v] t IH]; [reflexivity|]. cbn. intros H. apply andb_true_iff in H. destruct H as [H1 H2].
  apply negb_true_iff in H1. rewrite H1, IH by exact H2. reflexivity.
Qed.

Lemma no_tid_fields s : forallb (fun kv => negb (String.eqb "type_id" (fst kv))) (d_fields s) = true.
Proof.
  destruct s; cbn [d_fields];
    repeat match goal with
    | |- context [ofield _ _ ?o] => destruct o; cbn [ofield app]
    end; reflexivity.
Qed.

Lemma oneof_split_d_type s : oneof_split (d_type s) = Ok (tid_of s, dobj (d_fields s)).
Proof.
  unfold d_type, dobj, oneof_split. cbn [map fst snd].
  assert (K : forallb (fun kv : gval * gval => match fst kv with VStr TStr _ => true | _ => false end)
                ((vstr "type_id", vstr (tid_of s))
                 :: map (fun kv : string * gval => (vstr (fst kv), snd kv)) (d_fields s)) = true).
  { cbn. apply keys_are_strings. }
  rewrite K. cbn [smap_get vstr]. rewrite ?String.eqb_refl. cbn [string_mapper smap_del]. rewrite ?String.eqb_refl.
  rewrite smap_del_absent by apply no_tid_fields. reflexivity.
Qed.

(* ---------- nesting depth of types: the fuel parse_type needs ---------- *)
Fixpoint tdepth (s : schema) : nat :=
  match s with
  | SList it _ _ => S (tdepth it)
  | SMap k v _ _ => S (Nat.max (tdepth k) (tdepth v))
  | SObject _ _ props =>
      S (fold_right (fun np n => match np with (_, mkProp t _ _ _ _ _ _ _ _ _ _) => Nat.max (tdepth t) n end) O props)
  | SOneOf types _ _ _ =>
      S (fold_right (fun km n => match km with (_, m) => Nat.max (tdepth m) n end) O types)
  | SScope os _ =>
      S (fold_right (fun io n => match io with (_, o) => Nat.max (tdepth o) n end) O os)
  | _ => 1%nat
  end.

Lemma tdepth_prop id un props n p : In (n, p) props -> (tdepth (p_type p) < tdepth (SObject id un props))%nat.
Proof.
  cbn [tdepth]. induction props as [|[n' p'] tl IH]; cbn; [contradiction|]. intros [E | Hin].
  - inversion E; subst. destruct p; cbn. lia.
  - specialize (IH Hin). destruct p'. lia.
Qed.
Lemma tdepth_member types ik f i k m : In (k, m) types -> (tdepth m < tdepth (SOneOf types ik f i))%nat.
Proof.
  cbn [tdepth]. induction types as [|[k' m'] tl IH]; cbn; [contradiction|]. intros [E | Hin].
  - inversion E; subst. lia.
  - specialize (IH Hin). lia.
Qed.
Lemma tdepth_obj os root i o : In (i, o) os -> (tdepth o < tdepth (SScope os root))%nat.
Proof.
  cbn [tdepth]. induction os as [|[i' o'] tl IH]; cbn; [contradiction|]. intros [E | Hin].
  - inversion E; subst. lia.
  - specialize (IH Hin). lia.
Qed.

(* ---------- the scalar kinds ---------- *)
Ltac fields := unfold opt_field, req_field; cbn [alookup String.eqb Ascii.eqb Bool.eqb andb].

Open Scope Z_scope.

Lemma size_any z : size_ok None None z = true.
Proof. reflexivity. Qed.
Lemma size_len z : (0 <=? z) = true -> size_ok (Some 0) None z = true.
Proof. intros H. unfold size_ok, ole, oge. rewrite H. reflexivity. Qed.

Lemma mp_int_d mn mx u :
  describable (SInt mn mx u) = true -> mp_int (dobj (d_fields (SInt mn mx u))) = Ok (SInt mn mx u).
Proof.
  cbn [describable]. intros H. split_andb. unfold mp_int.
  destruct mn as [mn|], mx as [mx|], u as [u|]; cbn [d_fields ofield app oz_ok ounits_ok] in *; read_obj; fields;
    repeat first [ rewrite rd_int_vi64 by (assumption || apply size_any)
                 | rewrite rd_units_d by assumption
                 | progress cbn [bind] ]; reflexivity.
Qed.

Lemma mp_float_d pu mn mx u :
  describable (SFloat mn mx u) = true -> mp_float pu (dobj (d_fields (SFloat mn mx u))) = Ok (SFloat mn mx u).
Proof.
  cbn [describable]. intros H. unfold mp_float.
  destruct mn as [mn|], mx as [mx|], u as [u|]; cbn [d_fields ofield app ounits_ok] in *; read_obj; fields;
    repeat first [ rewrite rd_float_vf64
                 | rewrite rd_units_d by assumption
                 | progress cbn [bind] ]; reflexivity.
Qed.

Lemma olen_parts z : olen_ok (Some z) = true -> in_i64 z = true /\ size_ok (Some 0) None z = true.
Proof. cbn. intros H. apply andb_true_iff in H. destruct H. split; [assumption | apply size_len; assumption]. Qed.

Lemma mp_string_d cu rp mn mx pat :
  describable (SString mn mx pat) = true ->
  (forall p, pat = Some p -> rp (fst p) = Some (snd p)) ->
  mp_string cu rp (dobj (d_fields (SString mn mx pat))) = Ok (SString mn mx pat).
Proof.
  cbn [describable]. intros H Hp. split_andb. unfold mp_string.
  destruct mn as [mn|], mx as [mx|], pat as [[src r]|]; cbn [d_fields ofield app fst] in *; read_obj; fields;
    repeat match goal with
    | H : olen_ok (Some _) = true |- _ => apply olen_parts in H; destruct H
    end;
    repeat first [ rewrite rd_int_vi64 by assumption
                 | progress cbn [bind] ];
    try (pose proof (Hp (src, r) eq_refl) as Hr; cbn [fst snd] in Hr;
         unfold rd_pattern; cbn [string_mapper vstr]; rewrite Hr; cbn [bind]); reflexivity.
Qed.

Lemma parse_empty_d s : d_fields s = [] -> parse_empty s (dobj (d_fields s)) = Ok s.
Proof. intros H. rewrite H. reflexivity. Qed.

Definition disp_or_empty (o : option display) : display :=
  match o with Some d => d | None => mkDisplay None None None end.

Lemma somes_back {K} (vals : list (K * option display)) :
  forallb (fun kd => match snd kd with Some _ => true | None => false end) vals = true ->
  map (fun zd : K * display => (fst zd, Some (snd zd))) (map (fun kd => (fst kd, disp_or_empty (snd kd))) vals) = vals.
Proof.
  induction vals as [|[k [d|]] t IH]; cbn; intros H; [reflexivity | | discriminate].
  rewrite IH by exact H. reflexivity.
Qed.

Lemma nonempty_size {A} (l : list A) : negb (match l with [] => true | _ => false end) = true ->
  size_ok (Some 1) None (zlen l) = true.
Proof.
  destruct l; [discriminate|]. intros _. unfold size_ok, ole, oge, zlen. cbn [List.length andb].
  rewrite andb_true_r. apply Z.leb_le. lia.
Qed.

Lemma parse_enum_int_d vals u :
  describable (SEnumInt vals u) = true ->
  parse_enum_int (dobj (d_fields (SEnumInt vals u))) = Ok (SEnumInt vals u).
Proof.
  cbn [describable]. intros H. split_andb. unfold parse_enum_int.
  assert (Hmap : rd_map (rd_int None None None) rd_display Z.eqb (Some 1)
                   (dmap (map (fun zd : Z * option display => (vi64 (fst zd), d_odisp (snd zd))) vals))
                 = Ok (map (fun kd => (fst kd, disp_or_empty (snd kd))) vals)).
  { unfold dmap. apply rd_map_F.
    - apply nonempty_size. assumption.
    - apply Z.eqb_sym.
    - match goal with |- nodup_by _ (map ?f _) = true => rewrite (map_ext f fst) by (intros; reflexivity) end.
      rewrite <- nodup_z_by. assumption.
    - apply Forall_forall. intros [z od] Hin. cbn [fst snd].
      rewrite forallb_forall in H2. specialize (H2 _ Hin). cbn [fst snd] in H2. split_andb.
      destruct od as [d|]; [|discriminate]. split.
      + apply rd_int_vi64; [assumption | apply size_any].
      + cbn [d_odisp disp_or_empty]. apply rd_display_d. assumption. }
  assert (Hback : map (fun zd : Z * display => (fst zd, Some (snd zd)))
                      (map (fun kd : Z * option display => (fst kd, disp_or_empty (snd kd))) vals) = vals).
  { apply somes_back. rewrite forallb_forall in H2 |- *. intros x Hx. specialize (H2 _ Hx). split_andb.
    destruct (snd x); [reflexivity | discriminate]. }
  destruct u as [u|]; cbn [d_fields ofield app ounits_ok] in *; read_obj; fields;
    rewrite Hmap; cbn [bind]; rewrite ?rd_units_d by assumption; cbn [bind]; rewrite Hback; reflexivity.
Qed.

Lemma parse_enum_str_d named vals :
  describable (SEnumStr named vals) = true ->
  parse_enum_str (dobj (d_fields (SEnumStr named vals))) = Ok (SEnumStr named vals).
Proof.
  cbn [describable]. intros H. split_andb. destruct named; [discriminate|]. unfold parse_enum_str.
  assert (Hmap : rd_map rd_any_str rd_display String.eqb (Some 1)
                   (dmap (map (fun sd : string * option display => (vstr (fst sd), d_odisp (snd sd))) vals))
                 = Ok (map (fun kd => (fst kd, disp_or_empty (snd kd))) vals)).
  { unfold dmap. apply rd_map_F.
    - apply nonempty_size. assumption.
    - apply String.eqb_sym.
    - match goal with |- nodup_by _ (map ?f _) = true => rewrite (map_ext f fst) by (intros; reflexivity) end.
      rewrite <- nodup_str_by. assumption.
    - apply Forall_forall. intros [z od] Hin. cbn [fst snd].
      rewrite forallb_forall in H1. specialize (H1 _ Hin). cbn [fst snd] in H1.
      destruct od as [d|]; [|discriminate]. split; [reflexivity|].
      cbn [d_odisp disp_or_empty]. apply rd_display_d. assumption. }
  assert (Hback : map (fun zd : string * display => (fst zd, Some (snd zd)))
                      (map (fun kd : string * option display => (fst kd, disp_or_empty (snd kd))) vals) = vals).
  { apply somes_back. rewrite forallb_forall in H1 |- *. intros x Hx. specialize (H1 _ Hx).
    destruct (snd x); [reflexivity | discriminate]. }
  cbn [d_fields]. read_obj. fields. rewrite Hmap. cbn [bind]. rewrite Hback. reflexivity.
Qed.

Lemma parse_ref_d id ns d :
  describable (SRef id ns d) = true -> parse_ref (dobj (d_fields (SRef id ns d))) = Ok (SRef id ns d).
Proof.
  cbn [describable]. intros H. split_andb. unfold parse_ref.
  destruct d as [d|]; cbn [d_fields ofield app odisplay_ok] in *; read_obj; fields;
    rewrite rd_id_vstr by assumption; cbn [bind]; rewrite rd_any_str_vstr; cbn [bind];
    rewrite ?rd_display_d by assumption; reflexivity.
Qed.

Lemma parse_key_d cu rp k :
  key_ok k = true -> (forall p, In p (pats_of k) -> rp (fst p) = Some (snd p)) ->
  parse_key cu rp (d_type k) = Ok k.
Proof.
  intros Hk Hp. unfold parse_key. rewrite oneof_split_d_type. cbn [bind fst snd].
  destruct k; try discriminate; cbn [tid_of].
  - cbn. apply mp_int_d. exact Hk.
  - cbn. apply mp_string_d.
    + exact Hk.
    + intros p E. subst pat. apply Hp. cbn. left; reflexivity.
Qed.

(* ---------- what the theorem assumes of a schema ---------- *)
Section Fix.
Variable words : list (string * bool).
Variable pu : units -> string -> option fl.
Variable cu : units.
Variable rp : string -> option re.

(* describable, and regexp.Compile gives every pattern source its parsed form *)
Definition good (s : schema) : Prop :=
  describable s = true /\ forall p, In p (pats_of s) -> rp (fst p) = Some (snd p).

Lemma good_prop id un props n p : good (SObject id un props) -> In (n, p) props ->
  nonempty n = true /\ odisplay_ok (p_display p) = true /\ good (p_type p).
Proof.
  intros [Hd Hp] Hin. cbn [describable] in Hd. split_andb.
  rewrite forallb_forall in H0. specialize (H0 _ Hin).
  destruct p as [t d rq ri rin cf df ex em di rs]. cbn [Syntax.p_type Syntax.p_display] in *. split_andb.
  repeat split; try assumption.
  intros q Hq. apply Hp. cbn [pats_of]. apply in_flat_map. exists (n, mkProp t d rq ri rin cf df ex em di rs).
  split; [exact Hin | exact Hq].
Qed.
Lemma good_member types ik f i k m : good (SOneOf types ik f i) -> In (k, m) types ->
  okey_ok ik k = true /\ (match m with SObject _ _ _ | SRef _ _ _ | SScope _ _ => true | _ => false end) = true /\ good m.
Proof.
  intros [Hd Hp] Hin. cbn [describable] in Hd. split_andb.
  rewrite forallb_forall in H0. specialize (H0 _ Hin). cbn in H0. split_andb.
  repeat split; try assumption.
  intros q Hq. apply Hp. cbn [pats_of]. apply in_flat_map. exists (k, m). split; [exact Hin | exact Hq].
Qed.
Lemma good_obj os root i o : good (SScope os root) -> In (i, o) os ->
  id_ok i = true /\ (match o with SObject _ _ _ => true | _ => false end) = true /\ good o.
Proof.
  intros [Hd Hp] Hin. cbn [describable] in Hd. split_andb.
  rewrite forallb_forall in H0. specialize (H0 _ Hin). cbn in H0. split_andb.
  repeat split; try assumption.
  intros q Hq. apply Hp. cbn [pats_of]. apply in_flat_map. exists (i, o). split; [exact Hin | exact Hq].
Qed.

Section WithRec.
Variable rec : gval -> outcome schema.
Variable n : nat.
Hypothesis Hrec : forall t, (tdepth t <= n)%nat -> good t -> rec (d_type t) = Ok (erase t).

Lemma parse_property_d t d req rif rifn confl dflt ex dis reason :
  rec (d_type t) = Ok (erase t) -> odisplay_ok d = true ->
  parse_property words rec
    (dobj ([("conflicts", dstrs confl)] ++ ofield "default" vstr dflt ++ [("disabled", vbool dis)]
           ++ ofield "disabled_reason" vstr reason ++ ofield "display" d_display d
           ++ [("examples", dstrs ex); ("required", vbool req); ("required_if", dstrs rif);
               ("required_if_not", dstrs rifn);
               ("type", dobj (("type_id", vstr (tid_of t)) :: d_fields t))]))
  = Ok (mkProp (erase t) d req rif rifn confl dflt ex false dis reason).
Proof.
  intros Ht Hd. unfold d_type in Ht. unfold parse_property.
  destruct dflt as [df|], reason as [rs|], d as [d|]; cbn [ofield app odisplay_ok] in *; read_obj; fields;
    rewrite Ht; cbn [bind];
    rewrite ?rd_display_d by assumption; cbn [bind];
    rewrite ?rd_bool_vbool, ?rd_strs_dstrs, ?rd_any_str_vstr; cbn [bind odflt];
    rewrite ?rd_strs_dstrs; cbn [bind odflt];
    repeat (rewrite ?rd_bool_vbool, ?rd_strs_dstrs, ?rd_any_str_vstr; cbn [bind odflt]); reflexivity.
Qed.

Lemma parse_object_d id un props :
  (tdepth (SObject id un props) <= S n)%nat -> good (SObject id un props) ->
  parse_object words rec (dobj (d_fields (SObject id un props))) = Ok (erase (SObject id un props)).
Proof.
  intros Hdep Hg. pose proof Hg as [Hd _]. cbn [describable] in Hd. split_andb.
  unfold parse_object. cbn [d_fields erase]. read_obj. fields.
  rewrite rd_id_vstr by assumption. cbn [bind]. unfold dmap.
  rewrite (rd_map_F _ (fun np : string * property =>
             match np with
             | (name, mkProp t d req rif rifn confl dflt ex _ dis reason) =>
                 (name, mkProp (erase t) d req rif rifn confl dflt ex false dis reason)
             end)).
  - cbn [bind]. rewrite rd_bool_vbool. reflexivity.
  - reflexivity.
  - apply String.eqb_sym.
  - match goal with |- nodup_by _ (map ?f _) = true => rewrite (map_ext f fst) end.
    + rewrite <- nodup_str_by. assumption.
    + intros [nm p]. destruct p. reflexivity.
  - apply Forall_forall. intros [nm p] Hin.
    destruct (good_prop _ _ _ _ _ Hg Hin) as (Hn & Hdp & Hgp).
    pose proof (tdepth_prop id un props nm p Hin) as Hlt.
    destruct p as [t d rq ri rin cf df ex em di rs]. cbn [fst snd Syntax.p_type Syntax.p_display] in *. split.
    + apply rd_nonempty_vstr. assumption.
    + apply parse_property_d; [|assumption]. apply Hrec; [lia | assumption].
Qed.

Lemma parse_scope_d os root :
  (tdepth (SScope os root) <= S (S n))%nat -> good (SScope os root) ->
  parse_scope words rec (dobj (d_fields (SScope os root))) = Ok (erase (SScope os root)).
Proof.
  intros Hdep Hg. pose proof Hg as [Hd _]. cbn [describable] in Hd. split_andb.
  unfold parse_scope. cbn [d_fields erase]. read_obj. fields. unfold dmap.
  rewrite (rd_map_F _ (fun io : string * schema => match io with (i, o) => (i, erase o) end)).
  - cbn [bind]. rewrite rd_id_vstr by assumption. reflexivity.
  - reflexivity.
  - apply String.eqb_sym.
  - match goal with |- nodup_by _ (map ?f _) = true => rewrite (map_ext f fst) end.
    + rewrite <- nodup_str_by. assumption.
    + intros [i o]. reflexivity.
  - apply Forall_forall. intros [i o] Hin.
    destruct (good_obj _ _ _ _ Hg Hin) as (Hi & Ho & Hgo).
    pose proof (tdepth_obj os root i o Hin) as Hlt.
    cbn [fst snd]. split; [apply rd_id_vstr; assumption|].
    destruct o; try discriminate. apply parse_object_d; [lia | assumption].
Qed.

Lemma parse_member_d m :
  (tdepth m <= S n)%nat -> good m ->
  (match m with SObject _ _ _ | SRef _ _ _ | SScope _ _ => true | _ => false end) = true ->
  parse_member words rec (d_type m) = Ok (erase m).
Proof.
  intros Hdep Hg Hk. unfold parse_member. rewrite oneof_split_d_type. cbn [bind fst snd].
  destruct m; try discriminate; cbn [tid_of].
  - cbn. apply parse_object_d; assumption.
  - cbn. apply parse_ref_d. apply Hg.
  - cbn. apply parse_scope_d; [lia | assumption].
Qed.

Lemma parse_oneof_d types ik field inl :
  (tdepth (SOneOf types ik field inl) <= S (S n))%nat -> good (SOneOf types ik field inl) ->
  parse_oneof words rec ik (dobj (d_fields (SOneOf types ik field inl))) = Ok (erase (SOneOf types ik field inl)).
Proof.
  intros Hdep Hg. pose proof Hg as [Hd _]. cbn [describable] in Hd. split_andb.
  unfold parse_oneof. cbn [d_fields erase]. read_obj. fields.
  rewrite rd_bool_vbool. cbn [bind]. rewrite rd_any_str_vstr. cbn [bind]. unfold dmap.
  rewrite (rd_map_F _ (fun km : okey * schema => match km with (k, m) => (k, erase m) end)).
  - reflexivity.
  - reflexivity.
  - apply okey_eqb_sym.
  - match goal with |- nodup_by _ (map ?f _) = true => rewrite (map_ext f fst) end.
    + rewrite <- nodup_okey_by. assumption.
    + intros [k m]. reflexivity.
  - apply Forall_forall. intros [k m] Hin.
    destruct (good_member _ _ _ _ _ _ Hg Hin) as (Hkk & Hm & Hgm).
    pose proof (tdepth_member types ik field inl k m Hin) as Hlt.
    cbn [fst snd]. split.
    + destruct k as [z|s0]; destruct ik; cbn in Hkk; try discriminate; cbn [key_val].
      * rewrite rd_int_vi64 by (assumption || apply size_any). reflexivity.
      * reflexivity.
    + apply parse_member_d; [lia | assumption | assumption].
Qed.
End WithRec.
End Fix.

(* ---------- the main induction ---------- *)
Lemma tdepth_pos s : (1 <= tdepth s)%nat.
Proof. destruct s; cbn; lia. Qed.

Lemma erase_key k : key_ok k = true -> erase k = k.
Proof. destruct k; cbn; intros; try discriminate; reflexivity. Qed.

Section Main.
Variable words : list (string * bool).
Variable pu : units -> string -> option fl.
Variable cu : units.
Variable rp : string -> option re.

Lemma good_list it mn mx : good rp (SList it mn mx) -> good rp it /\ olen_ok mn = true /\ olen_ok mx = true.
Proof. intros [Hd Hp]. cbn [describable] in Hd. split_andb. repeat split; try assumption; intros p Hin; apply Hp; exact Hin. Qed.

Lemma good_map k v mn mx : good rp (SMap k v mn mx) ->
  key_ok k = true /\ (forall p, In p (pats_of k) -> rp (fst p) = Some (snd p)) /\ good rp v
  /\ olen_ok mn = true /\ olen_ok mx = true.
Proof.
  intros [Hd Hp]. cbn [describable] in Hd. split_andb. repeat split; try assumption.
  - intros p Hin. apply Hp. cbn [pats_of]. apply in_or_app. left; exact Hin.
  - intros p Hin. apply Hp. cbn [pats_of]. apply in_or_app. right; exact Hin.
Qed.

Ltac tid_chain := cbn [String.eqb Ascii.eqb Bool.eqb andb].

Lemma parse_type_describe : forall f s,
  (tdepth s <= f)%nat -> good rp s -> parse_type words pu cu rp f (d_type s) = Ok (erase s).
Proof.
  induction f as [|f IH]; intros s Hd Hg.
  - pose proof (tdepth_pos s). lia.
  - cbn [parse_type]. rewrite oneof_split_d_type. cbn [bind fst snd].
    destruct s; cbn [tid_of].
    + tid_chain. apply mp_int_d. apply Hg.
    + tid_chain. apply mp_float_d. apply Hg.
    + tid_chain. apply mp_string_d; [apply Hg|]. intros p E. subst pat. apply Hg. cbn. left; reflexivity.
    + tid_chain. reflexivity.
    + tid_chain. reflexivity.
    + tid_chain. reflexivity.
    + tid_chain. apply parse_enum_int_d. apply Hg.
    + tid_chain. apply parse_enum_str_d. apply Hg.
    + (* list *)
      tid_chain. destruct (good_list _ _ _ Hg) as (Hgi & Hmn & Hmx).
      cbn [tdepth] in Hd. assert (Hit : parse_type words pu cu rp f (d_type s) = Ok (erase s)) by (apply IH; [lia | assumption]).
      unfold d_type in Hit. unfold parse_list. cbn [erase].
      destruct mn as [mn|], mx as [mx|]; cbn [d_fields ofield app] in *; read_obj; fields; rewrite Hit; cbn [bind];
        repeat match goal with
        | H : olen_ok (Some _) = true |- _ => apply olen_parts in H; destruct H
        end;
        repeat first [ rewrite rd_int_vi64 by assumption | progress cbn [bind] ]; reflexivity.
    + (* map *)
      tid_chain. destruct (good_map _ _ _ _ Hg) as (Hk & Hkp & Hgv & Hmn & Hmx).
      cbn [tdepth] in Hd.
      assert (Hv : parse_type words pu cu rp f (d_type s2) = Ok (erase s2)) by (apply IH; [lia | assumption]).
      pose proof (parse_key_d cu rp s1 Hk Hkp) as Hkey.
      unfold d_type in Hv, Hkey. unfold parse_map. cbn [erase]. rewrite (erase_key s1 Hk).
      destruct mn as [mn|], mx as [mx|]; cbn [d_fields ofield app] in *; read_obj; fields; rewrite Hkey; cbn [bind];
        rewrite Hv; cbn [bind];
        repeat match goal with
        | H : olen_ok (Some _) = true |- _ => apply olen_parts in H; destruct H
        end;
        repeat first [ rewrite rd_int_vi64 by assumption | progress cbn [bind] ]; reflexivity.
    + (* object *)
      tid_chain. apply (parse_object_d words rp (parse_type words pu cu rp f) f IH); assumption.
    + (* one-of *)
      match goal with |- context [if ?b then "one_of_int" else _] => destruct b end; tid_chain;
        apply (parse_oneof_d words rp (parse_type words pu cu rp f) f IH); [lia | assumption | lia | assumption].
    + tid_chain. apply parse_ref_d. apply Hg.
    + tid_chain. apply (parse_scope_d words rp (parse_type words pu cu rp f) f IH); [lia | assumption].
Qed.
End Main.

(* ---------- a description is large enough to pay for its own parsing ---------- *)
Lemma gsize_dobj_cons k v fs : gsize (dobj ((k, v) :: fs)) = (1 + gsize v + gsize (dobj fs))%nat.
Proof. unfold dobj. cbn [map fst snd]. rewrite !gsize_map. unfold entries_size. cbn [fold_right fst snd vstr gsize]. lia. Qed.

Lemma field_lt k v fs : In (k, v) fs -> (gsize v < gsize (dobj fs))%nat.
Proof.
  intros H. unfold dobj. rewrite gsize_map.
  apply (in_map (fun kv : string * gval => (vstr (fst kv), snd kv))) in H.
  apply entry_lt in H. cbn [snd] in H. lia.
Qed.
Lemma entry_val_lt kvs k v : In (k, v) kvs -> (gsize v < gsize (dmap kvs))%nat.
Proof. intros H. unfold dmap. rewrite gsize_map. apply entry_lt in H. cbn [snd] in H. lia. Qed.

Lemma fold_max_lt {A} (g : A -> nat) (h : A -> nat -> nat) l G :
  (forall x m, h x m = Nat.max (g x) m) -> (forall x, In x l -> (g x < G)%nat) -> (0 < G)%nat ->
  (fold_right h O l < G)%nat.
Proof.
  intros Hh Hg HG. induction l as [|x t IH]; cbn; [exact HG|].
  rewrite Hh. apply Nat.max_lub_lt; [apply Hg; left; reflexivity | apply IH; intros; apply Hg; right; assumption].
Qed.

Lemma tdepth_gsize : forall s, (tdepth s <= gsize (d_type s))%nat.
Proof.
  apply (schema_ind' (fun s => (tdepth s <= gsize (d_type s))%nat)); intros;
    try (cbn [tdepth]; apply gsize_pos).
  - (* list *)
    cbn [tdepth].
    assert (gsize (d_type it) < gsize (d_type (SList it mn mx)))%nat; [|lia].
    apply field_lt with (k := "items"). right. cbn [d_fields app]. left. reflexivity.
  - (* map *)
    cbn [tdepth].
    assert (gsize (d_type k) < gsize (d_type (SMap k v mn mx)))%nat.
    { apply field_lt with (k := "keys"). right. cbn [d_fields app]. left. reflexivity. }
    assert (gsize (d_type v) < gsize (d_type (SMap k v mn mx)))%nat.
    { apply field_lt with (k := "values"). right. cbn [d_fields].
      apply in_or_app; right. apply in_or_app; right. apply in_or_app; right. left. reflexivity. }
    lia.
  - (* object *)
    cbn [tdepth]. apply Nat.le_succ_l.
    apply (fold_max_lt (fun np : string * property => tdepth (p_type (snd np)))).
    + intros [nm p] m. destruct p. reflexivity.
    + intros [nm p] Hin. rewrite Forall_forall in H. pose proof (H _ Hin) as Ht.
      destruct p as [t d rq ri rin cf df ex em di rs]. cbn [snd Syntax.p_type] in *.
      eapply Nat.le_lt_trans; [exact Ht|].
      eapply Nat.lt_trans; [| eapply field_lt with (k := "properties"); right; cbn [d_fields]; right; right; left; reflexivity].
      eapply Nat.lt_trans; [| eapply entry_val_lt;
        apply (in_map (fun np : string * property_ schema =>
          match np with
          | (name, mkProp t d req rif rifn confl dflt ex _ dis reason) =>
              (vstr name,
               dobj ([("conflicts", dstrs confl)] ++ ofield "default" vstr dflt ++ [("disabled", vbool dis)]
                     ++ ofield "disabled_reason" vstr reason ++ ofield "display" d_display d
                     ++ [("examples", dstrs ex); ("required", vbool req); ("required_if", dstrs rif);
                         ("required_if_not", dstrs rifn);
                         ("type", dobj (("type_id", vstr (tid_of t)) :: d_fields t))]))
          end) _ _ Hin)].
      apply field_lt with (k := "type").
      do 5 (apply in_or_app; right). right. right. right. right. left. reflexivity.
    + apply Nat.lt_le_trans with 1%nat; [lia | apply gsize_pos].
  - (* one-of *)
    cbn [tdepth]. apply Nat.le_succ_l.
    apply (fold_max_lt (fun km : okey * schema => tdepth (snd km))).
    + intros [k m] x. reflexivity.
    + intros [k m] Hin. rewrite Forall_forall in H. pose proof (H _ Hin) as Ht. cbn [snd] in *.
      eapply Nat.le_lt_trans; [exact Ht|].
      eapply Nat.lt_trans; [| eapply field_lt with (k := "types"); right; cbn [d_fields]; right; right; left; reflexivity].
      eapply entry_val_lt.
      apply (in_map (fun km : okey * schema =>
               match km with (k, m) => (key_val k, dobj (("type_id", vstr (tid_of m)) :: d_fields m)) end) _ _ Hin).
    + apply Nat.lt_le_trans with 1%nat; [lia | apply gsize_pos].
  - (* scope *)
    cbn [tdepth]. apply Nat.le_succ_l.
    apply (fold_max_lt (fun io : string * schema => tdepth (snd io))).
    + intros [i o] x. reflexivity.
    + intros [i o] Hin. rewrite Forall_forall in H. pose proof (H _ Hin) as Ht. cbn [snd] in *.
      eapply Nat.le_lt_trans; [exact Ht|].
      unfold d_type at 1. rewrite gsize_dobj_cons. cbn [gsize vstr].
      assert (gsize (dobj (d_fields o)) < gsize (dmap (map (fun io : string * schema =>
                 match io with (i, o) => (vstr i, dobj (d_fields o)) end) os)))%nat.
      { eapply entry_val_lt.
        apply (in_map (fun io : string * schema => match io with (i, o) => (vstr i, dobj (d_fields o)) end) _ _ Hin). }
      assert (gsize (dmap (map (fun io : string * schema =>
                 match io with (i, o) => (vstr i, dobj (d_fields o)) end) os)) + 5
              <= gsize (d_type (SScope os root)))%nat; [|lia].
      unfold d_type. cbn [d_fields]. rewrite !gsize_dobj_cons. cbn [gsize vstr]. lia.
    + apply Nat.lt_le_trans with 1%nat; [lia | apply gsize_pos].
Qed.

(* ---------- UnserializeScope (SelfSerialize s) ---------- *)
Theorem rebuild_describe words pu cu rp jor os root :
  good rp (SScope os root) ->
  link_ok jor [] (erase (SScope os root)) = true ->
  rebuild words pu cu rp jor (describe (SScope os root)) = Ok (erase (SScope os root)).
Proof.
  intros Hg Hl. unfold rebuild, describe.
  rewrite (parse_scope_d words rp (parse_type words pu cu rp (gsize (dobj (d_fields (SScope os root)))))
             (gsize (dobj (d_fields (SScope os root))))).
  - cbn [bind]. rewrite Hl. reflexivity.
  - intros t Ht Hgt. apply parse_type_describe; assumption.
  - pose proof (tdepth_gsize (SScope os root)) as H. unfold d_type in H. rewrite gsize_dobj_cons in H.
    cbn [gsize vstr] in H. lia.
  - exact Hg.
Qed.
