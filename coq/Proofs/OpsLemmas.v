(* Proofs/OpsLemmas.v — small inversion / characterisation lemmas about the outcome monad, the
   association lists and the folds used by Schema/Ops.v.  Shared by the C03 and C01 proofs. *)
From Coq Require Import Lia Permutation.
From Verif Require Import Base.Prelude Base.Str Base.Float Base.GoVal
  Schema.Regex Schema.Units Schema.Syntax Schema.Ops.

(* ---------- outcomes ---------- *)
Lemma bind_ok {A B} (o : outcome A) (k : A -> outcome B) b :
  bind o k = Ok b <-> exists a, o = Ok a /\ k a = Ok b.
Proof.
  destruct o as [a | e | w |]; cbn; split; intros H.
  - exists a; split; [reflexivity | exact H].
  - destruct H as (a' & E & H). inversion E; subst; exact H.
  - discriminate.
  - destruct H as (? & E & _); discriminate.
  - discriminate.
  - destruct H as (? & E & _); discriminate.
  - discriminate.
  - destruct H as (? & E & _); discriminate.
Qed.

Lemma map_err_ok {A} g (o : outcome A) a : map_err g o = Ok a <-> o = Ok a.
Proof. destruct o; cbn; split; intros H; try discriminate; exact H. Qed.
Lemma seg_ok {A} s (o : outcome A) a : seg s o = Ok a <-> o = Ok a.
Proof. apply map_err_ok. Qed.
Lemma rewrap_ok {A} c (o : outcome A) a : rewrap c o = Ok a <-> o = Ok a.
Proof. apply map_err_ok. Qed.
Lemma rewrap_path_ok {A} (o : outcome A) a : rewrap_path o = Ok a <-> o = Ok a.
Proof. apply map_err_ok. Qed.

Lemma unit_ok (o : outcome unit) u : o = Ok u <-> o = Ok tt.
Proof. destruct u; tauto. Qed.

(* ---------- mapM / forM_ / folds ---------- *)
Lemma mapM_ok {A B} (g : A -> outcome B) l out :
  mapM g l = Ok out <-> Forall2 (fun x y => g x = Ok y) l out.
Proof.
  revert out. induction l as [|x t IH]; intros out; cbn.
  - split; intros H; [inversion H; constructor | inversion H; reflexivity].
  - rewrite bind_ok. split.
    + intros (y & Hy & H). apply bind_ok in H. destruct H as (ys & Hys & H). inversion H; subst.
      constructor; [exact Hy | apply IH; exact Hys].
    + intros H. inversion H as [| ? y ? ys Hy Hys]; subst. exists y; split; [exact Hy|].
      apply bind_ok. exists ys; split; [apply IH; exact Hys | reflexivity].
Qed.

Lemma mapMi_ok {A B} (g : Z -> A -> outcome B) l : forall i out,
  mapMi g i l = Ok out <-> Forall2 (fun x y => exists j, g j x = Ok y) l out /\ mapMi g i l = Ok out.
Proof. intros; split; [|tauto]. intros H; split; [|exact H].
  revert i out H. induction l as [|x t IH]; intros i out H; cbn in H.
  - inversion H; constructor.
  - apply bind_ok in H. destruct H as (y & Hy & H). apply bind_ok in H. destruct H as (ys & Hys & H).
    inversion H; subst. constructor; [exists i; exact Hy | eapply IH; exact Hys].
Qed.

Lemma forM_ok {A} (g : A -> outcome unit) l :
  forM_ g l = Ok tt <-> (forall x, In x l -> g x = Ok tt).
Proof.
  induction l as [|x t IH]; cbn.
  - split; [intros _ ? [] | reflexivity].
  - rewrite bind_ok. split.
    + intros (u & Hu & H) y [E | Hy]; [subst; destruct u; exact Hu | apply IH; assumption].
    + intros H. exists tt; split; [apply H; left; reflexivity | apply IH; intros; apply H; right; assumption].
Qed.

(* a fold whose step starts by binding the accumulator can only end in Ok from Ok *)
Lemma fold_bind_from_ok {A B} (g : B -> A -> outcome B) l : forall o r,
  fold_left (fun acc x => a <- acc ;; g a x) l o = Ok r -> exists a, o = Ok a.
Proof.
  induction l as [|x t IH]; intros o r H; cbn in H.
  - exists r; exact H.
  - apply IH in H. destruct H as (a & H). apply bind_ok in H. destruct H as (a0 & E & _). exists a0; exact E.
Qed.

Lemma fold_bind_cons {A B} (g : B -> A -> outcome B) x l a r :
  fold_left (fun acc x => a <- acc ;; g a x) (x :: l) (Ok a) = Ok r <->
  exists a', g a x = Ok a' /\ fold_left (fun acc x => a <- acc ;; g a x) l (Ok a') = Ok r.
Proof.
  cbn. split.
  - intros H. destruct (fold_bind_from_ok g l _ _ H) as (a' & E). exists a'; split; [exact E | rewrite <- E; exact H].
  - intros (a' & E & H). rewrite E. exact H.
Qed.

(* ---------- association lists ---------- *)
Lemma amem_alookup {A} k (l : list (string * A)) : amem k l = true <-> exists v, alookup k l = Some v.
Proof. unfold amem. destruct (alookup k l); split; intros H; try discriminate; eauto. destruct H; discriminate. Qed.
Lemma amem_false {A} k (l : list (string * A)) : amem k l = false <-> alookup k l = None.
Proof. unfold amem. destruct (alookup k l); split; intros H; try discriminate; reflexivity. Qed.

Lemma alookup_In {A} k (l : list (string * A)) v : alookup k l = Some v -> In (k, v) l.
Proof.
  induction l as [|[k' v'] t IH]; cbn; [discriminate|].
  destruct (String.eqb k k') eqn:E; intros H.
  - apply String.eqb_eq in E. inversion H; subst. left; reflexivity.
  - right; apply IH; exact H.
Qed.
Lemma alookup_None_notin {A} k (l : list (string * A)) : alookup k l = None <-> ~ In k (map fst l).
Proof.
  induction l as [|[k' v'] t IH]; cbn; [tauto|].
  destruct (String.eqb k k') eqn:E.
  - apply String.eqb_eq in E. subst. split; [discriminate | intros H; exfalso; apply H; left; reflexivity].
  - apply String.eqb_neq in E. rewrite IH. split; [intros H [C | C]; [congruence | tauto] | tauto].
Qed.
Lemma In_alookup_nodup {A} k v (l : list (string * A)) : NoDup (map fst l) -> In (k, v) l -> alookup k l = Some v.
Proof.
  induction l as [|[k' v'] t IH]; cbn; intros Hnd Hin; [contradiction|].
  inversion Hnd as [| ? ? Hni Hnd']; subst.
  destruct Hin as [E | Hin].
  - inversion E; subst. rewrite String.eqb_refl. reflexivity.
  - destruct (String.eqb k k') eqn:E.
    + apply String.eqb_eq in E; subst. exfalso; apply Hni. apply (in_map fst) in Hin. exact Hin.
    + apply IH; assumption.
Qed.

Lemma str_in_In s l : str_in s l = true <-> In s l.
Proof.
  induction l as [|x t IH]; cbn; [split; [discriminate | tauto]|].
  rewrite Bool.orb_true_iff, IH, String.eqb_eq. split; intros [H | H]; auto.
Qed.
Lemma nodup_str_NoDup l : nodup_str l = true <-> NoDup l.
Proof.
  induction l as [|x t IH]; cbn; [split; [constructor | reflexivity]|].
  rewrite Bool.andb_true_iff, Bool.negb_true_iff, IH. split.
  - intros [H1 H2]. constructor; [|exact H2]. intros C. apply str_in_In in C. congruence.
  - intros H. inversion H as [| ? ? Hni Hnd]; subst. split; [|exact Hnd].
    destruct (str_in x t) eqn:E; [apply str_in_In in E; contradiction | reflexivity].
Qed.

Lemma alookup_app {A} k (l1 l2 : list (string * A)) :
  alookup k (l1 ++ l2) = match alookup k l1 with Some v => Some v | None => alookup k l2 end.
Proof.
  induction l1 as [|[k' v'] t IH]; cbn; [reflexivity|]. destruct (String.eqb k k'); [reflexivity | exact IH].
Qed.

(* lookups in association lists with unique keys are invariant under permutation *)
Lemma alookup_perm {A} (l l' : list (string * A)) : Permutation l l' -> NoDup (map fst l) ->
  forall k, alookup k l = alookup k l'.
Proof.
  intros HP Hnd k.
  assert (Hnd' : NoDup (map fst l')) by (eapply Permutation_NoDup; [apply Permutation_map; exact HP | exact Hnd]).
  destruct (alookup k l) eqn:E.
  - symmetry. apply In_alookup_nodup; [exact Hnd'|]. eapply Permutation_in; [exact HP | apply alookup_In; exact E].
  - symmetry. apply alookup_None_notin. apply alookup_None_notin in E. intros C. apply E.
    eapply Permutation_in; [apply Permutation_sym; apply Permutation_map; exact HP | exact C].
Qed.

(* ---------- raw_set ---------- *)
Definition raw_repl (k : string) (v : gval) (kv : string * gval) : string * gval :=
  if String.eqb (fst kv) k then (k, v) else kv.

Lemma raw_repl_fst k v r : map fst (map (raw_repl k v) r) = map fst r.
Proof.
  induction r as [|[k0 v0] t IH]; cbn; [reflexivity|]. rewrite IH. unfold raw_repl; cbn.
  destruct (String.eqb k0 k) eqn:E; [apply String.eqb_eq in E; subst|]; reflexivity.
Qed.

Lemma raw_repl_lookup_same k v r :
  alookup k (map (raw_repl k v) r) = match alookup k r with Some _ => Some v | None => None end.
Proof.
  induction r as [|[k0 v0] t IH]; [reflexivity|].
  cbn [map alookup]. unfold raw_repl at 1. cbn [fst].
  destruct (String.eqb k0 k) eqn:E0.
  - apply String.eqb_eq in E0; subst k0. rewrite String.eqb_refl. reflexivity.
  - rewrite String.eqb_sym in E0. rewrite E0. exact IH.
Qed.

Lemma raw_repl_lookup_other k v r k' : String.eqb k' k = false ->
  alookup k' (map (raw_repl k v) r) = alookup k' r.
Proof.
  intros H. induction r as [|[k0 v0] t IH]; [reflexivity|].
  cbn [map alookup]. unfold raw_repl at 1. cbn [fst].
  destruct (String.eqb k0 k) eqn:E0.
  - apply String.eqb_eq in E0; subst k0. rewrite H. exact IH.
  - rewrite IH. reflexivity.
Qed.

Lemma raw_repl_lookup k v r k' :
  alookup k' (map (raw_repl k v) r) =
  if String.eqb k' k then match alookup k r with Some _ => Some v | None => None end else alookup k' r.
Proof.
  destruct (String.eqb k' k) eqn:E.
  - apply String.eqb_eq in E; subst k'. apply raw_repl_lookup_same.
  - apply raw_repl_lookup_other; exact E.
Qed.

Lemma raw_set_present k v (r : raw) : amem k r = true ->
  map fst (raw_set k v r) = map fst r /\
  forall k', alookup k' (raw_set k v r) = if String.eqb k' k then Some v else alookup k' r.
Proof.
  intros Hm. unfold raw_set. rewrite Hm. split.
  - apply (raw_repl_fst k v r).
  - intros k'. change (alookup k' (map (raw_repl k v) r) = if String.eqb k' k then Some v else alookup k' r).
    rewrite raw_repl_lookup. apply amem_alookup in Hm. destruct Hm as (x & Hx). rewrite Hx. reflexivity.
Qed.

Lemma forall2_in_l {A B} (R : A -> B -> Prop) l l' x :
  Forall2 R l l' -> In x l -> exists y, In y l' /\ R x y.
Proof.
  induction 1 as [| a b t t' Hab _ IH]; intros Hin; [contradiction|].
  destruct Hin as [E | Hin].
  - subst. exists b. split; [left; reflexivity | exact Hab].
  - destruct (IH Hin) as (y & Hy & Hr). exists y. split; [right; exact Hy | exact Hr].
Qed.
