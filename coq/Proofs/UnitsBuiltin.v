(* Proofs/UnitsBuiltin.v — the built-in unit sets, as dumped from the live SDK into
   Generated/Tables.v, round-trip on [0, 2000] (every build) — see Thorough/ for [0, 200000]. *)
From Coq Require Import Lia ZArith List.
From Verif Require Import Base.Prelude Base.Str Schema.Regex Schema.Units Generated.Tables Proofs.UnitsSweep.
Import ListNotations.
Open Scope Z_scope.

Lemma builtin_wf : forallb wf_units builtin_units = true.
Proof. vm_compute. reflexivity. Qed.

Lemma builtin_sweep_2000 : forallb (fun u => sweep u 0 (Z.to_nat 2001)) builtin_units = true.
Proof. vm_compute. reflexivity. Qed.

Lemma builtin_roundtrip_2000 : forall u n, In u builtin_units -> 0 <= n <= 2000 ->
  parse_units_int u (format_short_int u n) = Some n /\ parse_units_int u (format_long_int u n) = Some n.
Proof.
  intros u n Hu Hn. eapply (sweep_all_sound builtin_units 0 (Z.to_nat 2001) builtin_sweep_2000); eauto.
  rewrite Z2Nat.id; lia.
Qed.
