(* Proofs/XStruct.v — theorems about struct-mapped objects (Schema/XOps.v).
   Not a property file: C01 / C03 / C04 import these at integration.  Each statement is followed by
   Print Assumptions so that the file can also serve as the theory of the builder's temporary
   pseudo-properties XC01 / XC03 / XC04. *)
From Coq Require Import Lia.
From Verif Require Import Base.Prelude Base.Str Base.Float Base.GoVal Base.XReflect
  Schema.Regex Schema.Units Schema.Syntax Schema.Ops Schema.XSyntax Schema.XOps.
Open Scope string_scope.
Open Scope Z_scope.

(* ---------- a small concrete world for the witnesses ---------- *)

Definition w_words : list (string * bool) := [("true", true); ("false", false)].
Definition w_pu : units -> string -> option fl := fun _ _ => None.

Definition w_structs : stab :=
  [ ("XInner", [("A", TInt I64); ("B", TStr)]);
    ("XTwo", [("A", TInt I64); ("B", TInt I64)]);
    ("XNested", [("In", TStruct "XInner"); ("P", TPtr (TStruct "XInner")); ("X", TInt I64)]);
    ("XRec", [("M", t_str_map); ("K", TInt I64)]) ].

Definition w_json (txt : string) : option gval :=
  if String.eqb txt "1" then Some (vf64 (fl_of_Z b64 1))
  else if String.eqb txt "4" then Some (vf64 (fl_of_Z b64 4))
  else None.

Definition w_env (self : xobjtab) : xenv := mkXEnv self [] (mkOracles w_json (fun _ => true)) w_structs.

Definition w_prop (t : xschema) (req : bool) (confl : list string) (dflt : option string) : xproperty :=
  mkProp t None req [] [] confl dflt [] false false None.

Definition w_inner : xschema :=
  XObject "XInner" false
    [("a", w_prop (XInt None None None) false [] (Some "1")); ("b", w_prop (XString None None None) false [] None)]
    (Some (mkStructInfo "XInner" false
             [("a", mkFieldRef "A" [0%nat] [0%nat] (TInt I64)); ("b", mkFieldRef "B" [1%nat] [1%nat] TStr)])).

(* D41: a struct-mapped parent with a REQUIRED struct-typed member whose object has a default *)
Definition w_d41 : xschema :=
  XObject "Root" false
    [("in", w_prop w_inner true [] None); ("x", w_prop (XInt None None None) false [] None)]
    (Some (mkStructInfo "XNested" false
             [("in", mkFieldRef "In" [0%nat] [0%nat] (TStruct "XInner")); ("x", mkFieldRef "X" [2%nat] [2%nat] (TInt I64))])).

(* D44: T{A,B int64}, a optional and conflicts b *)
Definition w_d44 : xschema :=
  XObject "Root" false
    [("a", w_prop (XInt None None None) false ["b"] None); ("b", w_prop (XInt None None None) false [] None)]
    (Some (mkStructInfo "XTwo" false
             [("a", mkFieldRef "A" [0%nat] [0%nat] (TInt I64)); ("b", mkFieldRef "B" [1%nat] [1%nat] (TInt I64))])).

Definition w_empty_map : gval := VMap t_any_map false [].
Definition w_b1 : gval := VMap t_any_map false [(vstr "b", vi64 1)].

(* ---------- D41: the struct-mapped object accepts what the same schema rebuilt map-based rejects ---------- *)

Theorem x_struct_d41_refuted :
  exists (e : xenv) (s : xschema) (v : gval),
    is_ok (xunser w_words w_pu 50 e s v) = true /\
    is_err (unser w_words w_pu 50 (erase_env e) (erase s) v) = true.
Proof. exists (w_env []), w_d41, w_empty_map. split; vm_compute; reflexivity. Qed.
Print Assumptions x_struct_d41_refuted.

(* what it accepts: the member materialised from its own default *)
Example x_struct_d41_value :
  xunser w_words w_pu 50 (w_env []) w_d41 w_empty_map
  = Ok (VStruct (TStruct "XNested")
          [("In", VStruct (TStruct "XInner") [("A", vi64 1); ("B", vstr "")]);
           ("P", VPtr (TPtr (TStruct "XInner")) None); ("X", vi64 0)]).
Proof. vm_compute. reflexivity. Qed.

(* ---------- D44: the value Unserialize returns fails Validate and Serialize ---------- *)

Theorem x_struct_d44_refuted :
  exists (e : xenv) (s : xschema) (v n : gval),
    xunser w_words w_pu 50 e s v = Ok n /\
    is_err (xvalidate w_words w_pu 50 e s n) = true /\
    is_err (xserialize w_words w_pu 50 e s n) = true.
Proof.
  exists (w_env []), w_d44, w_b1, (VStruct (TStruct "XTwo") [("A", vi64 0); ("B", vi64 1)]).
  repeat split; vm_compute; reflexivity.
Qed.
Print Assumptions x_struct_d44_refuted.

(* ---------- D52: sub-object default propagation over a cyclic member graph has no sufficient fuel ---------- *)

Definition w_A : xschema :=
  XObject "A" false
    [("x", w_prop (XRef "A" "" None) false [] None); ("v", w_prop (XInt None None None) false [] (Some "4"))] None.
Definition w_rec_root : xschema :=
  XObject "Root" false
    [("m", w_prop (XRef "A" "" None) false [] None); ("k", w_prop (XInt None None None) false [] None)]
    (Some (mkStructInfo "XRec" false
             [("m", mkFieldRef "M" [0%nat] [0%nat] t_str_map); ("k", mkFieldRef "K" [1%nat] [1%nat] (TInt I64))])).
Definition w_rec_tab : xobjtab := [("Root", w_rec_root); ("A", w_A)].
Definition w_rec : xschema := XScope w_rec_tab "Root".

(* entry condition: the property is absent (that is when convertData calls applySubObjectDefaultValues) *)
Lemma w_sub_defaults_diverges_absent : forall f pid r,
  alookup pid r = None ->
  xsub_defaults f (w_env w_rec_tab) pid (w_prop (XRef "A" "" None) false [] None) r = OutOfFuel.
Proof.
  induction f as [|f IH]; intros pid r Hr; [reflexivity|].
  cbn [xsub_defaults].
  cbn - [xsub_defaults fl_of_Z].
  rewrite Hr.
  cbn - [xsub_defaults fl_of_Z].
  match goal with
  | |- context [xsub_defaults f ?e ?p ?q ?r'] =>
      replace (xsub_defaults f e p q r') with (@OutOfFuel raw) by (symmetry; apply IH; reflexivity)
  end.
  reflexivity.
Qed.

Theorem x_struct_subdefault_cycle_refuted :
  exists (e : xenv) (s : xschema) (v : gval), forall fuel, xunser w_words w_pu fuel e s v = OutOfFuel.
Proof.
  exists (w_env []), w_rec, w_empty_map. intros fuel.
  destruct fuel as [|[|f]]; [reflexivity | reflexivity |].
  cbn - [xsub_defaults fl_of_Z].
  match goal with
  | |- context [xsub_defaults f ?e ?p ?q ?r'] =>
      replace (xsub_defaults f e p q r') with (@OutOfFuel raw)
        by (symmetry; apply w_sub_defaults_diverges_absent; reflexivity)
  end.
  reflexivity.
Qed.
Print Assumptions x_struct_subdefault_cycle_refuted.
