(* Proofs/ATPClientWitness.v — concrete sessions and schedules: the D20 window in the pre-fix read loop
   (ATP/ClientPreFix.v) and the same session on the repaired client (non-vacuity examples for C06). *)
From Coq Require Import Lia.
From Verif Require Import Base.Prelude Base.Str ATP.Msg ATP.Client ATP.ClientPreFix Proofs.ATPClient.
Open Scope string_scope.

Definition wd (r : string) : event unit := EvMsg (WorkDone r "s" "ok" tt "").

(* two Execute calls one after the other on the same goroutine, a healthy peer *)
Definition serial2 : session unit :=
  mkSession [mkCall "a" None None false tt; mkCall "b" (Some 0%nat) None false tt] false
            [("a", [wd "a"]); ("b", [wd "b"])] None None.

(* loop:Check(false) ; callerB:Start ; loop:deferred clear ; callerB:Send ... peer:WorkDone(b) *)
Definition window_schedule : list label :=
  [LCaller 0; LCaller 0; LCaller 0; LPeerAccept; LPeerSend "a"; LLoop 0; LLoop 0; LCaller 0;
   LLoop 0;            (* hasEntriesRemaining() = false: the loop leaves its for-loop, flag still set *)
   LCaller 1;          (* Execute(b): registers its entry, sees readLoopRunning, starts no loop *)
   LLoop 0;            (* the deferred function clears the flag *)
   LCaller 1; LCaller 1; LPeerAccept; LPeerSend "b"].

Definition window_final : option (pstate unit) := Eval vm_compute in pre_run (init serial2, false) window_schedule.

Lemma alookup_In : forall (A : Type) (l : list (string * A)) r v, alookup r l = Some v -> exists k, In (k, v) l.
Proof.
  induction l as [|[k w] t IH]; intros r v H; cbn in *; try discriminate.
  destruct (String.eqb r k).
  - injection H as ->. exists k. now left.
  - destruct (IH _ _ H) as [k' Hk]. exists k'. now right.
Qed.

Lemma send_none_if_plan_empty : forall (s : state unit) r,
  (forall k q, In (k, q) (p_plan s) -> q = []) -> step_send s r = None.
Proof.
  intros s r H. unfold step_send. destruct (p_dead s || negb (str_in r (p_acc s))); auto.
  destruct (alookup r (p_plan s)) as [[|ev rest]|] eqn:E; auto.
  destruct (alookup_In _ _ _ _ E) as [k Hk]. apply H in Hk. discriminate.
Qed.

Lemma window_stuck :
  exists ls ps, pre_run (init serial2, false) ls = Some ps /\
    (forall l, pre_step ps l = None) /\
    (exists c, nth_error (callers (fst ps)) 1 = Some c /\ c_pc c = CWaiting) /\
    from_server (fst ps) = [wd "b"] /\ has_pending (entries (fst ps)) = true /\ loop_live (cur (fst ps)) = false.
Proof.
  exists window_schedule.
  destruct window_final as [ps|] eqn:E; [|vm_compute in E; discriminate].
  exists ps. vm_compute in E. injection E as <-.
  split; [vm_compute; reflexivity|].
  split.
  - intros l. destruct l as [i|i|k| | | |r].
    + destruct i as [|[|[|i]]]; reflexivity.
    + destruct i as [|[|[|i]]]; reflexivity.
    + reflexivity.
    + reflexivity.
    + reflexivity.
    + reflexivity.
    + cbn [pre_step step]. rewrite send_none_if_plan_empty; [reflexivity|].
      cbn. intros k q [H|[H|[]]]; injection H as _ <-; reflexivity.
  - split; [eexists; split; reflexivity|]. repeat split; reflexivity.
Qed.

(* the same session on the repaired client: the exit check clears the flag, Execute(b) starts a new loop *)
Definition repaired_schedule : list label :=
  [LCaller 0; LCaller 0; LCaller 0; LPeerAccept; LPeerSend "a"; LLoop 0; LLoop 0; LCaller 0;
   LLoop 0; LCaller 1; LCaller 1; LCaller 1; LPeerAccept; LPeerSend "b"; LLoop 0; LLoop 0; LCaller 1; LLoop 0].

Definition repaired_final : option (state unit) := Eval vm_compute in run (init serial2) repaired_schedule.

Lemma repaired_ok :
  exists s, run (init serial2) repaired_schedule = Some s /\ flight_ok s = true /\
            forallb (@caller_done unit) (callers s) = true /\ nloops s = 2%nat /\ wg s = 0%nat.
Proof.
  destruct repaired_final as [s|] eqn:E; [|vm_compute in E; discriminate].
  exists s. vm_compute in E. injection E as <-. repeat split; vm_compute; reflexivity.
Qed.

(* a reachable state of the repaired client in the middle of the session: caller b is waiting, its answer in flight *)
Lemma repaired_midway :
  exists s c, run (init serial2) (firstn 14 repaired_schedule) = Some s /\ flight_ok s = true /\
              nth_error (callers s) 1 = Some c /\ caller_done c = false.
Proof.
  destruct (run (init serial2) (firstn 14 repaired_schedule)) as [s|] eqn:E; [|vm_compute in E; discriminate].
  vm_compute in E. injection E as <-. eexists. eexists. repeat split; vm_compute; reflexivity.
Qed.
