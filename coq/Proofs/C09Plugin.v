(* Proofs/C09Plugin.v — the fixed point for whole plugin schemas (the schema of the ATP hello message):
   UnserializeSchema (SelfSerialize p) = p up to `erase`, including the data schemas of signal handlers
   and emitters. *)
From Coq Require Import Lia.
From Verif Require Import Base.Prelude Base.Str Base.Float Base.GoVal
  Schema.Regex Schema.Units Schema.Syntax Schema.Ops Schema.Describe
  Proofs.DescribeBase Proofs.C10Total Proofs.C09Describe Proofs.C09Fixpoint.
Open Scope string_scope.

Definition erase_signal (g : dsignal) : dsignal := mkSignal (sg_id g) (erase (sg_data g)) (sg_display g).
Definition erase_output (o : doutput) : doutput := mkOutput (erase (so_schema o)) (so_display o) (so_error o).
Definition erase_step (st : dstep) : dstep :=
  mkStep (st_id st) (erase (st_input st))
         (map (fun ko => (fst ko, erase_output (snd ko))) (st_outputs st))
         (map (fun kg => (fst kg, erase_signal (snd kg))) (st_handlers st))
         (map (fun kg => (fst kg, erase_signal (snd kg))) (st_emitters st))
         (st_display st).
Definition erase_plugin (p : dplugin) : dplugin := map (fun ks => (fst ks, erase_step (snd ks))) p.

Definition is_scope (s : schema) : bool := match s with SScope _ _ => true | _ => false end.

Section Plugin.
Variable words : list (string * bool).
Variable pu : units -> string -> option fl.
Variable cu : units.
Variable rp : string -> option re.

(* a data schema of a plugin: a scope that C09_fixpoint applies to *)
Definition good_scope (s : schema) : Prop := is_scope s = true /\ good rp s.

Definition good_signal (kg : string * dsignal) : Prop :=
  id_ok (fst kg) = true /\ id_ok (sg_id (snd kg)) = true /\ odisplay_ok (sg_display (snd kg)) = true
  /\ good_scope (sg_data (snd kg)).
Definition good_output (ko : string * doutput) : Prop :=
  id_ok (fst ko) = true /\ odisplay_ok (so_display (snd ko)) = true /\ good_scope (so_schema (snd ko)).
Definition good_step (ks : string * dstep) : Prop :=
  let st := snd ks in
  id_ok (fst ks) = true /\ id_ok (st_id st) = true /\ odisplay_ok (st_display st) = true
  /\ good_scope (st_input st)
  /\ nodup_str (map fst (st_outputs st)) = true /\ Forall good_output (st_outputs st)
  /\ nodup_str (map fst (st_handlers st)) = true /\ Forall good_signal (st_handlers st)
  /\ nodup_str (map fst (st_emitters st)) = true /\ Forall good_signal (st_emitters st).
Definition good_plugin (p : dplugin) : Prop := nodup_str (map fst p) = true /\ Forall good_step p.

Section WithRec.
Variable rec : gval -> outcome schema.
Variable n : nat.
Hypothesis Hrec : forall t, (tdepth t <= n)%nat -> good rp t -> rec (d_type t) = Ok (erase t).

Lemma parse_data_scope s :
  good_scope s -> (gsize (describe s) <= n)%nat -> parse_scope words rec (describe s) = Ok (erase s).
Proof.
  intros [Hs Hg] Hsz. destruct s; try discriminate. unfold describe.
  apply (parse_scope_d words rp rec n Hrec); [|exact Hg].
  pose proof (tdepth_gsize (SScope objs root)) as H. unfold d_type in H. rewrite gsize_dobj_cons in H.
  cbn [gsize vstr] in H. unfold describe in Hsz. lia.
Qed.

Lemma parse_signal_d k g :
  good_signal (k, g) -> (gsize (d_signal g) <= n)%nat -> parse_signal words rec (d_signal g) = Ok (erase_signal g).
Proof.
  intros (_ & Hid & Hd & Hs) Hsz. destruct g as [id data disp]. cbn [fst snd sg_id sg_data sg_display] in *.
  unfold parse_signal, d_signal, erase_signal. cbn [sg_id sg_data sg_display].
  assert (Hdata : parse_scope words rec (describe data) = Ok (erase data)).
  { apply parse_data_scope; [exact Hs|].
    assert (gsize (describe data) < gsize (d_signal (mkSignal id data disp)))%nat; [|lia].
    apply field_lt with (k := "data_schema"). unfold d_signal. cbn [sg_data app]. left. reflexivity. }
  destruct disp as [d|]; cbn [ofield app odisplay_ok] in *; read_obj; fields;
    rewrite rd_id_vstr by assumption; cbn [bind]; rewrite Hdata; cbn [bind];
    rewrite ?rd_display_d by assumption; reflexivity.
Qed.

Lemma parse_output_d k o :
  good_output (k, o) -> (gsize (d_output o) <= n)%nat -> parse_output words rec (d_output o) = Ok (erase_output o).
Proof.
  intros (_ & Hd & Hs) Hsz. destruct o as [s disp er]. cbn [fst snd so_schema so_display so_error] in *.
  unfold parse_output, d_output, erase_output. cbn [so_schema so_display so_error].
  assert (Hdata : parse_scope words rec (describe s) = Ok (erase s)).
  { apply parse_data_scope; [exact Hs|].
    assert (gsize (describe s) < gsize (d_output (mkOutput s disp er)))%nat; [|lia].
    apply field_lt with (k := "schema"). unfold d_output. cbn [so_schema so_display so_error].
    apply in_or_app; right. right. left. reflexivity. }
  destruct disp as [d|]; cbn [ofield app odisplay_ok] in *; read_obj; fields;
    rewrite Hdata; cbn [bind]; rewrite rd_bool_vbool; cbn [bind];
    rewrite ?rd_display_d by assumption; reflexivity.
Qed.

Lemma signals_d (l : list (string * dsignal)) :
  nodup_str (map fst l) = true -> Forall good_signal l -> (gsize (d_signals l) <= n)%nat ->
  rd_map rd_id (parse_signal words rec) String.eqb None (d_signals l)
  = Ok (map (fun kg => (fst kg, erase_signal (snd kg))) l).
Proof.
  intros Hnd HF Hsz. unfold d_signals, dmap. apply rd_map_F.
  - reflexivity.
  - apply String.eqb_sym.
  - match goal with |- nodup_by _ (map ?f _) = true => rewrite (map_ext f fst) by (intros; reflexivity) end.
    rewrite <- nodup_str_by. exact Hnd.
  - rewrite Forall_forall in HF |- *. intros [k g] Hin. cbn [fst snd]. pose proof (HF _ Hin) as Hg. split.
    + apply rd_id_vstr. apply Hg.
    + apply (parse_signal_d k g Hg).
      assert (gsize (d_signal g) < gsize (d_signals l))%nat; [|lia].
      unfold d_signals. eapply entry_val_lt.
      apply (in_map (fun kg : string * dsignal => (vstr (fst kg), d_signal (snd kg))) _ _ Hin).
Qed.

Lemma outputs_d (l : list (string * doutput)) :
  nodup_str (map fst l) = true -> Forall good_output l ->
  (gsize (dmap (map (fun ko : string * doutput => (vstr (fst ko), d_output (snd ko))) l)) <= n)%nat ->
  rd_map rd_id (parse_output words rec) String.eqb None
         (dmap (map (fun ko : string * doutput => (vstr (fst ko), d_output (snd ko))) l))
  = Ok (map (fun ko => (fst ko, erase_output (snd ko))) l).
Proof.
  intros Hnd HF Hsz. unfold dmap. apply rd_map_F.
  - reflexivity.
  - apply String.eqb_sym.
  - match goal with |- nodup_by _ (map ?f _) = true => rewrite (map_ext f fst) by (intros; reflexivity) end.
    rewrite <- nodup_str_by. exact Hnd.
  - rewrite Forall_forall in HF |- *. intros [k o] Hin. cbn [fst snd]. pose proof (HF _ Hin) as Hg. split.
    + apply rd_id_vstr. apply Hg.
    + apply (parse_output_d k o Hg).
      assert (gsize (d_output o) < gsize (dmap (map (fun ko : string * doutput => (vstr (fst ko), d_output (snd ko))) l)))%nat; [|lia].
      eapply entry_val_lt.
      apply (in_map (fun ko : string * doutput => (vstr (fst ko), d_output (snd ko))) _ _ Hin).
Qed.

Lemma parse_step_d k st :
  good_step (k, st) -> (gsize (d_step st) <= n)%nat -> parse_step words rec (d_step st) = Ok (erase_step st).
Proof.
  intros (_ & Hid & Hd & Hin & Hno & Ho & Hnh & Hh & Hne & He) Hsz.
  destruct st as [id input outs ha em disp].
  cbn [fst snd st_id st_input st_outputs st_handlers st_emitters st_display] in *.
  unfold parse_step, erase_step. cbn [st_id st_input st_outputs st_handlers st_emitters st_display].
  assert (Hfield : forall key v, In (key, v) [("id", vstr id); ("input", describe input);
              ("outputs", dmap (map (fun ko : string * doutput => (vstr (fst ko), d_output (snd ko))) outs));
              ("signal_emitters", d_signals em); ("signal_handlers", d_signals ha)] -> (gsize v < n)%nat).
  { intros key v Hv.
    assert (gsize v < gsize (d_step (mkStep id input outs ha em disp)))%nat; [|lia].
    apply field_lt with (k := key). unfold d_step.
    cbn [st_id st_input st_outputs st_handlers st_emitters st_display]. apply in_or_app. right. exact Hv. }
  assert (Hinput : parse_scope words rec (describe input) = Ok (erase input)).
  { apply parse_data_scope; [exact Hin|]. apply Nat.lt_le_incl. apply (Hfield "input"). cbn; tauto. }
  pose proof (outputs_d outs Hno Ho) as Houts.
  pose proof (signals_d ha Hnh Hh) as Hha. pose proof (signals_d em Hne He) as Hem.
  assert (Houts' := Houts (Nat.lt_le_incl _ _ (Hfield "outputs" _ ltac:(cbn; tauto)))).
  assert (Hha' := Hha (Nat.lt_le_incl _ _ (Hfield "signal_handlers" _ ltac:(cbn; tauto)))).
  assert (Hem' := Hem (Nat.lt_le_incl _ _ (Hfield "signal_emitters" _ ltac:(cbn; tauto)))).
  unfold d_step. cbn [st_id st_input st_outputs st_handlers st_emitters st_display].
  destruct disp as [d|]; cbn [ofield app odisplay_ok] in *; read_obj; fields;
    rewrite rd_id_vstr by assumption; cbn [bind]; rewrite Hinput; cbn [bind];
    rewrite Houts'; cbn [bind]; rewrite Hha'; cbn [bind]; rewrite Hem'; cbn [bind odflt];
    rewrite ?rd_display_d by assumption; reflexivity.
Qed.
End WithRec.

Theorem rebuild_plugin_describe jor p :
  good_plugin p ->
  forallb (link_ok jor []) (plugin_scopes (erase_plugin p)) = true ->
  existsb foreign_refs (plugin_scopes (erase_plugin p)) = false ->
  rebuild_plugin words pu cu rp jor (describe_plugin p) = Ok (erase_plugin p).
Proof.
  intros [Hnd HF] Hl Hf. unfold rebuild_plugin.
  set (N := gsize (describe_plugin p)).
  assert (Hrec : forall t, (tdepth t <= N)%nat -> good rp t ->
                 parse_type words pu cu rp N (d_type t) = Ok (erase t)).
  { intros. apply parse_type_describe; assumption. }
  unfold describe_plugin at 1. read_obj. fields. unfold dmap.
  rewrite (rd_map_F _ (fun ks : string * dstep => (fst ks, erase_step (snd ks)))).
  - cbn [bind]. fold (erase_plugin p). rewrite Hl, Hf. reflexivity.
  - reflexivity.
  - apply String.eqb_sym.
  - match goal with |- nodup_by _ (map ?f _) = true => rewrite (map_ext f fst) by (intros; reflexivity) end.
    rewrite <- nodup_str_by. exact Hnd.
  - rewrite Forall_forall in HF |- *. intros [k st] Hin. cbn [fst snd]. pose proof (HF _ Hin) as Hg. split.
    + apply rd_id_vstr. apply Hg.
    + apply (parse_step_d (parse_type words pu cu rp N) N Hrec k st Hg).
      assert (gsize (d_step st) < N)%nat; [|lia].
      unfold N, describe_plugin.
      eapply Nat.lt_trans; [| eapply field_lt with (k := "steps"); left; reflexivity].
      eapply entry_val_lt.
      apply (in_map (fun ks : string * dstep => (vstr (fst ks), d_step (snd ks))) _ _ Hin).
Qed.
End Plugin.

(* ---------- describing a plugin does not see what `erase` removes ---------- *)
Lemma d_signal_erase g : d_signal (erase_signal g) = d_signal g.
Proof. unfold d_signal, erase_signal. cbn [sg_data sg_display sg_id]. rewrite describe_erase. reflexivity. Qed.
Lemma d_output_erase o : d_output (erase_output o) = d_output o.
Proof. unfold d_output, erase_output. cbn [so_schema so_display so_error]. rewrite describe_erase. reflexivity. Qed.
Lemma d_signals_erase l : d_signals (map (fun kg => (fst kg, erase_signal (snd kg))) l) = d_signals l.
Proof.
  unfold d_signals. rewrite map_map. f_equal. apply map_ext. intros [k g]. cbn [fst snd].
  rewrite d_signal_erase. reflexivity.
Qed.
Lemma d_outputs_erase l :
  map (fun ko : string * doutput => (vstr (fst ko), d_output (snd ko))) (map (fun ko => (fst ko, erase_output (snd ko))) l)
  = map (fun ko => (vstr (fst ko), d_output (snd ko))) l.
Proof. rewrite map_map. apply map_ext. intros [k o]. cbn [fst snd]. rewrite d_output_erase. reflexivity. Qed.
Lemma d_step_erase st : d_step (erase_step st) = d_step st.
Proof.
  unfold d_step, erase_step. cbn [st_id st_input st_outputs st_handlers st_emitters st_display].
  rewrite describe_erase, !d_signals_erase, d_outputs_erase. reflexivity.
Qed.
Lemma describe_plugin_erase p : describe_plugin (erase_plugin p) = describe_plugin p.
Proof.
  unfold describe_plugin, erase_plugin. rewrite map_map.
  rewrite (map_ext _ (fun ks : string * dstep => (vstr (fst ks), d_step (snd ks)))); [reflexivity|].
  intros [k st]. cbn [fst snd]. rewrite d_step_erase. reflexivity.
Qed.
