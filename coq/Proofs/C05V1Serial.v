(* Proofs/C05V1Serial.v — the POSITIVE statement for the legacy version-1 framing (ATP/System.v v1_step: no run id on
   the wire, every Execute decodes "the next" work-done from the shared stream itself): under SERIAL use - an Execute
   is started only while no other call is in flight - every Execute returns CallStep of its own input.  (Overlapping
   use is the known finding D26: Proofs/C05Examples.v v1_refuted.)

     v1_serial_step   v1_step restricted by the discipline: the first step of an Execute (writing its work-start) is
                      enabled only if no caller sits between its write and its read (v1_idle)
     v1_serial_safe   every reachable state of a serial execution: what Execute i has returned is spec_callstep of input i
     v1_serial_done   if every input's step execution succeeds (a failing step ends a v1 plugin: ATP/System.v), a
                      serial execution that can take no further step has every Execute returned, with that result *)
From Coq Require Import Lia.
From Verif Require Import Base.Prelude Base.Str ATP.Msg ATP.System.
From Verif Require Proofs.ATPClientInv.
Local Open Scope string_scope.
Local Open Scope list_scope.
Local Open Scope nat_scope.

Module CI := Verif.Proofs.ATPClientInv.

Definition v1_reading (c : v1caller) : bool := match v1_pc c with V1Read => true | _ => false end.
(* no call is in flight *)
Definition v1_idle (s : v1state) : bool := negb (existsb v1_reading (v1_callers s)).

Definition v1_serial_step (g : scfg) (s : v1state) (l : v1label) : option v1state :=
  match l with
  | V1Caller i =>
      match nth_error (v1_callers s) i with
      | Some c => match v1_pc c with
                  | V1Send => if v1_idle s then v1_step g s l else None
                  | _ => v1_step g s l
                  end
      | None => None
      end
  | V1Server => v1_step g s l
  end.

Fixpoint v1_serial_run (g : scfg) (s : v1state) (ls : list v1label) : option v1state :=
  match ls with
  | [] => Some s
  | l :: t => match v1_serial_step g s l with Some s' => v1_serial_run g s' t | None => None end
  end.

Definition v1_serial_final (g : scfg) (s : v1state) : Prop := forall l, v1_serial_step g s l = None.

(* a serial execution is an execution of the version-1 model *)
Lemma v1_serial_is_step : forall g s l s', v1_serial_step g s l = Some s' -> v1_step g s l = Some s'.
Proof.
  intros g s l s' H. destruct l as [i|]; [|exact H]. unfold v1_serial_step in H.
  destruct (nth_error (v1_callers s) i) as [c|] eqn:Hc; [|discriminate].
  destruct (v1_pc c); try exact H. destruct (v1_idle s); [exact H|discriminate].
Qed.

Lemma v1_serial_is_run : forall g ls s s', v1_serial_run g s ls = Some s' -> v1_run g s ls = Some s'.
Proof.
  intros g ls. induction ls as [|l t IH]; intros s s' H; cbn in *; [exact H|].
  destruct (v1_serial_step g s l) as [s1|] eqn:Hs; [|discriminate].
  rewrite (v1_serial_is_step _ _ _ _ Hs). apply IH. exact H.
Qed.

Section V1Serial.
Variable g : scfg.

Definition nobody_reads (s : v1state) : Prop :=
  forall k c, nth_error (v1_callers s) k = Some c -> v1_pc c <> V1Read.

Record V1Inv (s : v1state) : Prop := mkV1Inv {
  v_done : forall i c r, nth_error (v1_callers s) i = Some c -> v1_pc c = V1Done r -> r = spec_callstep g (v1_input c);
  v_flight :
    (nobody_reads s /\ v1_c2s s = [] /\ v1_s2c s = []) \/
    (exists j c, nth_error (v1_callers s) j = Some c /\ v1_pc c = V1Read /\
       (forall k c', nth_error (v1_callers s) k = Some c' -> v1_pc c' = V1Read -> k = j) /\
       ((v1_c2s s = [("s", v1_input c)] /\ v1_s2c s = []) \/
        (v1_c2s s = [] /\ exists o, v1_s2c s = [(o, sc_data g (v1_input c))] /\
                                    S.step_outcome (sc_srv g) "s" (v1_input c) = S.BSuccess o))) }.

Lemma idle_nobody : forall s, v1_idle s = true -> nobody_reads s.
Proof.
  intros s H k c Hc E. unfold v1_idle in H. apply negb_true_iff in H.
  assert (existsb v1_reading (v1_callers s) = true) as X.
  { apply existsb_exists. exists c. split; [eapply nth_error_In; eauto|]. unfold v1_reading. rewrite E. reflexivity. }
  congruence.
Qed.

Lemma busy_somebody : forall s, v1_idle s = false -> exists j c, nth_error (v1_callers s) j = Some c /\ v1_pc c = V1Read.
Proof.
  intros s H. unfold v1_idle in H. apply negb_false_iff in H. apply existsb_exists in H. destruct H as (c & Hin & Hr).
  apply In_nth_error in Hin. destruct Hin as [j Hj]. exists j, c. split; auto.
  unfold v1_reading in Hr. destruct (v1_pc c); try discriminate. reflexivity.
Qed.

Lemma v1inv_init : forall inputs, V1Inv (v1_init inputs).
Proof.
  intros inputs. assert (forall k c, nth_error (v1_callers (v1_init inputs)) k = Some c -> v1_pc c = V1Send) as K.
  { intros k c H. cbn in H. apply nth_error_In in H. apply in_map_iff in H. destruct H as (t & <- & _). reflexivity. }
  constructor.
  - intros i c r Hc Hp. rewrite (K _ _ Hc) in Hp. discriminate.
  - left. split; [|split; reflexivity]. intros k c Hc E. rewrite (K _ _ Hc) in E. discriminate.
Qed.

Lemma nth_upd_cases : forall (l : list v1caller) i v k c', nth_error (C.upd l i v) k = Some c' ->
  (k = i /\ c' = v) \/ (k <> i /\ nth_error l k = Some c').
Proof.
  intros l i v k c' H. destruct (Nat.eq_dec k i) as [->|Hne].
  - left. split; auto.
    destruct (nth_error l i) as [x|] eqn:Hx.
    + rewrite (CI.nth_error_upd_same _ _ _ _ _ Hx) in H. congruence.
    + exfalso. assert (nth_error (C.upd l i v) i = None) as X.
      { clear H. revert i Hx. induction l as [|a l IH]; intros [|i] Hx; cbn in *; auto; discriminate. }
      congruence.
  - right. split; auto. rewrite CI.nth_error_upd_other in H; auto.
Qed.

Theorem v1inv_step : forall s l s', V1Inv s -> v1_serial_step g s l = Some s' -> V1Inv s'.
Proof.
  intros s l s' [ID IFl] H. destruct l as [i|].
  - unfold v1_serial_step in H. destruct (nth_error (v1_callers s) i) as [c|] eqn:Hc; [|discriminate].
    destruct (v1_pc c) eqn:Hp.
    + (* the work-start is written: nobody else is in flight *)
      destruct (v1_idle s) eqn:Hi; [|discriminate]. pose proof (idle_nobody _ Hi) as Hn.
      cbn [v1_step] in H. rewrite Hc, Hp in H. injection H as <-.
      destruct IFl as [(_ & E1 & E2)|(j & cj & Hj & Hpj & _)]; [|exfalso; exact (Hn _ _ Hj Hpj)].
      constructor; cbn [v1_callers v1_c2s v1_s2c].
      * intros k c' r Hk Hd. destruct (nth_upd_cases _ _ _ _ _ Hk) as [[-> ->]|[Hne Hk']]; [discriminate Hd|exact (ID _ _ _ Hk' Hd)].
      * right. exists i, (mkV1C (v1_input c) V1Read). split; [eapply CI.nth_error_upd_same; eauto|]. split; [reflexivity|].
        split.
        -- intros k c' Hk Hr. destruct (nth_upd_cases _ _ _ _ _ Hk) as [[-> _]|[Hne Hk']]; [reflexivity|].
           exfalso. exact (Hn _ _ Hk' Hr).
        -- left. rewrite E1, E2. split; reflexivity.
    + (* the next work-done is decoded *)
      cbn [v1_step] in H. rewrite Hc, Hp in H. destruct (v1_s2c s) as [|[o d] q] eqn:Es; [discriminate|]. injection H as <-.
      destruct IFl as [(_ & _ & E2)|(j & cj & Hj & Hpj & Hu & Hw)]; [discriminate|].
      assert (i = j) as -> by exact (Hu _ _ Hc Hp). rewrite Hc in Hj. injection Hj as <-.
      destruct Hw as [[_ E2]|(E1 & o' & E2 & Ho)]; [discriminate|]. injection E2 as -> -> ->.
      constructor; cbn [v1_callers v1_c2s v1_s2c].
      * intros k c' r Hk Hd. destruct (nth_upd_cases _ _ _ _ _ Hk) as [[-> ->]|[Hne Hk']]; [|exact (ID _ _ _ Hk' Hd)].
        cbn in Hd. injection Hd as <-. cbn [v1_input]. unfold spec_callstep. rewrite Ho. reflexivity.
      * left. split; [|split; [exact E1|reflexivity]].
        intros k c' Hk Hr. destruct (nth_upd_cases _ _ _ _ _ Hk) as [[-> ->]|[Hne Hk']]; [discriminate Hr|].
        apply Hne. exact (Hu _ _ Hk' Hr).
    + cbn [v1_step] in H. rewrite Hc, Hp in H. discriminate.
  - (* the server answers the oldest work-start *)
    cbn [v1_serial_step v1_step] in H. destruct (v1_c2s s) as [|[st tok] q] eqn:Ec; [discriminate|].
    destruct (S.step_outcome (sc_srv g) st tok) as [o| | | |] eqn:Ho; try discriminate. injection H as <-.
    destruct IFl as [(_ & E1 & _)|(j & cj & Hj & Hpj & Hu & Hw)]; [discriminate|].
    destruct Hw as [[E1 E2]|(E1 & _)]; [|discriminate]. injection E1 as -> -> ->.
    constructor; cbn [v1_callers v1_c2s v1_s2c].
    + exact ID.
    + right. exists j, cj. split; [exact Hj|split; [exact Hpj|split; [exact Hu|]]].
      right. split; [reflexivity|]. exists o. rewrite E2. split; [reflexivity|exact Ho].
Qed.

Theorem v1inv_run : forall ls s s', V1Inv s -> v1_serial_run g s ls = Some s' -> V1Inv s'.
Proof.
  induction ls as [|l t IH]; intros s s' I H; cbn in H.
  - now injection H as <-.
  - destruct (v1_serial_step g s l) as [s1|] eqn:Hs; [|discriminate]. eapply IH; [|exact H]. eapply v1inv_step; eauto.
Qed.

Lemma v1_step_inputs : forall s l s', v1_step g s l = Some s' -> map v1_input (v1_callers s') = map v1_input (v1_callers s).
Proof.
  intros s l s' H. destruct l as [i|]; cbn [v1_step] in H.
  - destruct (nth_error (v1_callers s) i) as [c|] eqn:Hc; [|discriminate]. destruct (v1_pc c).
    + injection H as <-. cbn. eapply CI.map_upd_same; eauto.
    + destruct (v1_s2c s) as [|[o d] q]; [discriminate|]. injection H as <-. cbn. eapply CI.map_upd_same; eauto.
    + discriminate.
  - destruct (v1_c2s s) as [|[st tok] q]; [discriminate|]. destruct (S.step_outcome _ _ _); try discriminate.
    injection H as <-. reflexivity.
Qed.

Lemma v1_run_inputs : forall ls s s', v1_serial_run g s ls = Some s' -> map v1_input (v1_callers s') = map v1_input (v1_callers s).
Proof.
  induction ls as [|l t IH]; intros s s' H; cbn in H.
  - now injection H as <-.
  - destruct (v1_serial_step g s l) as [s1|] eqn:Hs; [|discriminate]. rewrite (IH _ _ H).
    eapply v1_step_inputs. eapply v1_serial_is_step; eauto.
Qed.

Lemma init_inputs : forall inputs, map v1_input (v1_callers (v1_init inputs)) = inputs.
Proof. intros inputs. cbn. rewrite map_map. cbn. apply map_id. Qed.

(* SAFETY of serial use *)
Theorem v1_serial_safe : forall inputs sched s i t v,
  v1_serial_run g (v1_init inputs) sched = Some s -> nth_error inputs i = Some t -> v1_result s i = Some v ->
  v = spec_callstep g t.
Proof.
  intros inputs sched s i t v H Ht Hr. pose proof (v1inv_run _ _ _ (v1inv_init inputs) H) as [ID _].
  unfold v1_result in Hr. destruct (nth_error (v1_callers s) i) as [c|] eqn:Hc; [|discriminate].
  destruct (v1_pc c) eqn:Hp; try discriminate. injection Hr as ->.
  assert (v1_input c = t) as <-.
  { pose proof (map_nth_error v1_input _ _ Hc) as E. rewrite (v1_run_inputs _ _ _ H), init_inputs, Ht in E. congruence. }
  exact (ID _ _ _ Hc Hp).
Qed.

(* PROGRESS of serial use, when no step execution fails *)
Theorem v1_serial_done : forall inputs sched s,
  (forall t, In t inputs -> exists o, S.step_outcome (sc_srv g) "s" t = S.BSuccess o) ->
  v1_serial_run g (v1_init inputs) sched = Some s -> v1_serial_final g s ->
  forall i t, nth_error inputs i = Some t -> v1_result s i = Some (spec_callstep g t).
Proof.
  intros inputs sched s Hok H F i t Ht. pose proof (v1inv_run _ _ _ (v1inv_init inputs) H) as [ID IFl].
  pose proof (v1_run_inputs _ _ _ H) as Ein. rewrite init_inputs in Ein.
  assert (nobody_reads s) as Hn.
  { intros k c Hc Hp. destruct IFl as [(Hn & _)|(j & cj & Hj & Hpj & Hu & Hw)]; [exact (Hn _ _ Hc Hp)|].
    destruct Hw as [[E1 E2]|(E1 & o & E2 & Ho)].
    - pose proof (F V1Server) as Fs. cbn [v1_serial_step v1_step] in Fs. rewrite E1 in Fs.
      assert (In (v1_input cj) inputs) as Hin.
      { rewrite <- Ein. apply in_map. eapply nth_error_In; eauto. }
      destruct (Hok _ Hin) as [o Ho]. rewrite Ho in Fs. discriminate.
    - pose proof (F (V1Caller j)) as Fc. unfold v1_serial_step in Fc. rewrite Hj, Hpj in Fc.
      cbn [v1_step] in Fc. rewrite Hj, Hpj, E2 in Fc. discriminate. }
  assert (v1_idle s = true) as Hi.
  { destruct (v1_idle s) eqn:E; auto. exfalso. destruct (busy_somebody _ E) as (j & c & Hj & Hp). exact (Hn _ _ Hj Hp). }
  assert (exists c, nth_error (v1_callers s) i = Some c /\ v1_input c = t) as (c & Hc & Hct).
  { assert (nth_error (map v1_input (v1_callers s)) i = Some t) as X by (rewrite Ein; exact Ht).
    destruct (nth_error (v1_callers s) i) as [c|] eqn:Hc.
    - rewrite (map_nth_error _ _ _ Hc) in X. injection X as X. eauto.
    - exfalso. apply nth_error_None in Hc. assert (nth_error (map v1_input (v1_callers s)) i = None) as Y
        by (apply nth_error_None; rewrite map_length; exact Hc). congruence. }
  destruct (v1_pc c) eqn:Hp.
  - exfalso. pose proof (F (V1Caller i)) as Fc. unfold v1_serial_step in Fc. rewrite Hc, Hp, Hi in Fc.
    cbn [v1_step] in Fc. rewrite Hc, Hp in Fc. discriminate.
  - exfalso. exact (Hn _ _ Hc Hp).
  - unfold v1_result. rewrite Hc, Hp. f_equal. rewrite <- Hct. exact (ID _ _ _ Hc Hp).
Qed.

Theorem v1_serial : forall inputs sched s,
  v1_serial_run g (v1_init inputs) sched = Some s ->
  (forall i t v, nth_error inputs i = Some t -> v1_result s i = Some v -> v = spec_callstep g t) /\
  ((forall t, In t inputs -> exists o, S.step_outcome (sc_srv g) "s" t = S.BSuccess o) ->
   v1_serial_final g s ->
   forall i t, nth_error inputs i = Some t -> v1_result s i = Some (spec_callstep g t)).
Proof.
  intros inputs sched s H. split.
  - intros i t v Ht Hr. eapply v1_serial_safe; eassumption.
  - intros Hok F. eapply v1_serial_done; eassumption.
Qed.

End V1Serial.

(* ---- non-vacuity: the two calls of the D26 witness, used serially ---- *)
Definition v1s_g : scfg :=
  mkSCfg (S.mkCfg (fun t => S.BSuccess (if Z.eqb t 1 then "out-A" else "out-B")) (fun _ => false)
                  (fun st => String.eqb st "s") (fun _ => false))
         (fun t => (t * 10)%Z).
Definition v1s_sched : list v1label := [V1Caller 0; V1Server; V1Caller 0; V1Caller 1; V1Server; V1Caller 1].

Lemma v1s_example :
  exists s, v1_serial_run v1s_g (v1_init [1%Z; 2%Z]) v1s_sched = Some s /\ v1_serial_final v1s_g s /\
            v1_result s 0 = Some (C.ROk "out-A" 10%Z) /\ v1_result s 1 = Some (C.ROk "out-B" 20%Z).
Proof.
  eexists. split; [vm_compute; reflexivity|]. split; [|split; reflexivity].
  intros l. destruct l as [i|]; [|reflexivity].
  destruct i as [|[|i]]; cbn; try reflexivity. destruct i; reflexivity.
Qed.

(* the overlapping schedule of the D26 witness is NOT a serial execution: its second label starts Execute 1 while
   Execute 0 is in flight *)
Lemma v1s_overlap_excluded :
  v1_serial_run v1s_g (v1_init [1%Z; 2%Z]) [V1Caller 0; V1Caller 1; V1Server; V1Server; V1Caller 1; V1Caller 0] = None.
Proof. reflexivity. Qed.
