(* Proofs/C12ResultWf.v — well-formedness is a property of the schema up to the order of its association lists:
   perm_schema / perm_env preserve wf_schema, so the C12 theorems need the hypothesis on one description only. *)
From Coq Require Import Permutation Lia Bool.
From Verif Require Import Base.Prelude Base.Str Base.Float Base.GoVal
  Schema.Regex Schema.Units Schema.Syntax Schema.Ops Schema.Wf Schema.Perm
  Proofs.C04Term Proofs.OpsLemmas Proofs.C04Inv Proofs.C12Order Proofs.C12Lookup Proofs.C12History Proofs.C12Schema.
Open Scope string_scope.

Lemma nodup_by_perm {A} (eqb : A -> A -> bool) l l' :
  (forall a b, eqb a b = eqb b a) -> Permutation l l' -> nodup_by eqb l = nodup_by eqb l'.
Proof.
  intros Hs HP. induction HP as [|x m m' HP0 IH0|x y m|m m' m'' H1 IH1 H2 IH2]; cbn [nodup_by existsb]; try congruence.
  - now rewrite IH0, (existsb_perm (eqb x) m m' HP0).
  - rewrite (Hs y x). destruct (eqb x y), (existsb (eqb x) m), (existsb (eqb y) m), (nodup_by eqb m); reflexivity.
Qed.

Lemma okey_eqb_sym a b : okey_eqb a b = okey_eqb b a.
Proof. destruct a as [x|x], b as [y|y]; cbn; auto using Z.eqb_sym, String.eqb_sym. Qed.

Lemma forallb_f2_imp {A B} (R : A -> B -> Prop) (p : A -> bool) (p' : B -> bool) l l1 :
  Forall2 R l l1 -> (forall a b, In a l -> R a b -> p a = true -> p' b = true) ->
  forallb p l = true -> forallb p' l1 = true.
Proof.
  induction 1 as [|a b l l1 Hr _ IH]; intros H Hp; [reflexivity|]. cbn [forallb] in *.
  apply andb_prop in Hp as [H1 H2]. apply andb_true_intro. split.
  - exact (H a b (or_introl eq_refl) Hr H1).
  - apply IH; [|exact H2]. intros a0 b0 Hin. apply H. now right.
Qed.

Lemma rel_head_objlike m m' : rel_schema m m' -> objlike m' = objlike m.
Proof. destruct 1; reflexivity. Qed.
Lemma rel_head_is_obj m m' : rel_schema m m' -> is_obj m' = is_obj m.
Proof. destruct 1; reflexivity. Qed.
Lemma rel_head_key_kind m m' : rel_schema m m' -> key_kind_ok m' = key_kind_ok m.
Proof. destruct 1; reflexivity. Qed.
Lemma rel_head_disc ik m m' : rel_schema m m' -> disc_type_ok ik m' = disc_type_ok ik m.
Proof. destruct 1; reflexivity. Qed.
Lemma rel_head_has_id id m m' : rel_schema m m' -> obj_has_id id m' = obj_has_id id m.
Proof. destruct 1; reflexivity. Qed.

Lemma rel_default_ok o p p' : rel_prop p p' -> default_ok o p' = default_ok o p.
Proof.
  intros H. inversion H as [t t' d r ri rin c df ex em dis reason Hst]; subst.
  unfold default_ok, decode_default. cbn [p_default p_type]. destruct df as [txt|]; [|reflexivity].
  now rewrite (rel_type_id _ _ Hst).
Qed.

Lemma rel_prop_type p p' : rel_prop p p' -> rel_schema (p_type p) (p_type p').
Proof. destruct 1. assumption. Qed.

Lemma rel_list_inv it mn mx s' : rel_schema (SList it mn mx) s' -> exists it', s' = SList it' mn mx /\ rel_schema it it'.
Proof. intros H. inversion H; subst. eauto. Qed.
Lemma rel_map_inv k v mn mx s' : rel_schema (SMap k v mn mx) s' ->
  exists k' v', s' = SMap k' v' mn mx /\ rel_schema k k' /\ rel_schema v v'.
Proof. intros H. inversion H; subst. eauto. Qed.
Lemma rel_obj_inv id u ps s' : rel_schema (SObject id u ps) s' ->
  exists ps1 ps', s' = SObject id u ps' /\
    Forall2 (fun a b => fst a = fst b /\ rel_prop (snd a) (snd b)) ps ps1 /\ Permutation ps1 ps'.
Proof. intros H. inversion H; subst. eauto. Qed.
Lemma rel_oneof_inv ts ik f i s' : rel_schema (SOneOf ts ik f i) s' ->
  exists ts1 ts', s' = SOneOf ts' ik f i /\
    Forall2 (fun a b => fst a = fst b /\ rel_schema (snd a) (snd b)) ts ts1 /\ Permutation ts1 ts'.
Proof. intros H. inversion H; subst. eauto. Qed.
Lemma rel_scope_inv os root s' : rel_schema (SScope os root) s' ->
  exists os1 os', s' = SScope os' root /\
    Forall2 (fun a b => fst a = fst b /\ rel_schema (snd a) (snd b)) os os1 /\ Permutation os1 os'.
Proof. intros H. inversion H; subst. eauto. Qed.

Notation WFL := (all_nodes wf_local).

(* the property list of a one-of member, on both sides *)
Lemma member_props_rel e e' m m' :
  rel_env e e' -> nodup_env e = true -> rel_schema m m' -> all_env wf_local e = true -> WFL e m = true ->
  match member_props e m, member_props e' m' with
  | Some ps, Some ps' =>
      nodup_str (map fst ps) = true /\
      exists ps1, Forall2 (fun a b => fst a = fst b /\ rel_prop (snd a) (snd b)) ps ps1 /\ Permutation ps1 ps'
  | None, None => True
  | _, _ => False
  end.
Proof.
  intros He Hnd Hm Hae Han.
  destruct Hm as [mn mx u|mn mx u|mn mx p| | | |vals vals' u HPv|n vals vals' HPv|sa sb mn mx Hs1
                 |ks ks' vs vs' mn mx Hsk Hsv|id u ps ps1 ps' HFp HPp|ts ts1 ts' ik fld inl HFt HPt|id ns d
                 |os os1 os' root HFo HPo]; cbn [member_props]; try exact I.
  - (* object *)
    cbv beta iota. split; [|exists ps1; split; assumption].
    apply all_nodes_here in Han. cbn [wf_local] in Han. apply andb_prop in Han. tauto.
  - (* reference *)
    pose proof (rel_resolve e e' id ns He Hnd) as Hr.
    destruct (resolve e id ns) as [[o e2]|] eqn:R1, (resolve e' id ns) as [[o' e2']|]; cbv beta iota in Hr |- *; try contradiction; [|exact I].
    destruct Hr as (Ho & _ & _).
    pose proof (inv_resolve wf_local e id ns o e2 Hae R1) as [_ Hno].
    destruct Ho; try exact I.
    cbv beta iota. split; [|eexists; split; eassumption].
    apply all_nodes_here in Hno. cbn [wf_local] in Hno. apply andb_prop in Hno. tauto.
  - (* scope *)
    pose proof (all_nodes_here _ _ _ Han) as Hl. cbn [wf_local] in Hl.
    apply andb_prop in Hl as [Hl _]. apply andb_prop in Hl as [Hnos _].
    pose proof (rel_alookup rel_schema root os os1 os' Hnos HFo HPo) as Hlk.
    destruct (alookup root os) as [o|] eqn:R1, (alookup root os') as [o'|]; cbv beta iota in Hlk |- *; try contradiction; [|exact I].
    cbn [all_nodes] in Han. apply andb_prop in Han as [_ Hch]. rewrite forallb_forall in Hch.
    specialize (Hch _ (alookup_in _ _ _ R1)). cbn [snd] in Hch.
    destruct Hlk; try exact I.
    cbv beta iota. split; [|eexists; split; eassumption].
    apply all_nodes_here in Hch. cbn [wf_local] in Hch. apply andb_prop in Hch. tauto.
Qed.

Lemma wf_member_rel e e' ik fld inl k m m' :
  rel_env e e' -> nodup_env e = true -> rel_schema m m' -> all_env wf_local e = true -> WFL e m = true ->
  wf_member e ik fld inl (k, m) = true -> wf_member e' ik fld inl (k, m') = true.
Proof.
  intros He Hnd Hm Hae Han H. unfold wf_member in *. cbn [fst snd] in *.
  apply andb_prop in H as [H H3]. apply andb_prop in H as [H1 H2].
  rewrite H1, (rel_head_objlike _ _ Hm), H2. cbn [andb].
  pose proof (member_props_rel e e' m m' He Hnd Hm Hae Han) as Hmp.
  destruct (member_props e m) as [ps|], (member_props e' m') as [ps'|]; cbv beta iota in Hmp |- *; try contradiction;
    [|discriminate H3].
  destruct Hmp as (Hnps & ps1 & HF & HP).
  pose proof (rel_alookup rel_prop fld ps ps1 ps' Hnps HF HP) as Hlk.
  destruct (alookup fld ps) as [p|], (alookup fld ps') as [p'|]; cbv beta iota in Hlk |- *; try contradiction; [|exact H3].
  inversion Hlk as [t t' d r ri rin c df ex em dis reason Hst]; subst. cbn [p_type] in *.
  now rewrite (rel_head_disc ik _ _ Hst).
Qed.

Lemma wf_local_rel e e' s s' :
  rel_env e e' -> nodup_env e = true -> rel_schema s s' -> all_env wf_local e = true -> WFL e s = true ->
  wf_local e' s' = true.
Proof.
  intros He Hnd Hs Hae Han. pose proof (all_nodes_here _ _ _ Han) as Hl.
  destruct Hs as [mn mx u|mn mx u|mn mx p| | | |vals vals' u HPv|n vals vals' HPv|sa sb mn mx Hs1
                 |ks ks' vs vs' mn mx Hsk Hsv|id u ps ps1 ps' HFp HPp|ts ts1 ts' ik fld inl HFt HPt|id ns d
                 |os os1 os' root HFo HPo]; cbn [wf_local] in Hl |- *; try exact Hl.
  - rewrite <- (nodup_by_perm Z.eqb (map fst vals) (map fst vals') Z.eqb_sym (Permutation_map fst HPv)). exact Hl.
  - rewrite <- (nodup_str_perm (map fst vals) (map fst vals') (Permutation_map fst HPv)). exact Hl.
  - now rewrite (rel_head_key_kind _ _ Hsk).
  - (* object *)
    unfold property in *. apply andb_prop in Hl as [H1 H2]. apply andb_true_intro. split.
    + exact (eq_trans (rel_nodup rel_prop ps ps1 ps' HFp HPp) H1).
    + rewrite <- (forallb_perm _ ps1 ps' HPp).
      refine (forallb_f2_imp _ _ _ _ _ HFp _ H2).
      intros a b _ [_ Hr] Hd. destruct He as (_ & _ & Hor). rewrite <- Hor. now rewrite (rel_default_ok _ _ _ Hr).
  - (* one-of *)
    apply andb_prop in Hl as [H1 H2]. apply andb_true_intro. split.
    + rewrite <- (nodup_by_perm okey_eqb (map fst ts1) (map fst ts') okey_eqb_sym (Permutation_map fst HPt)).
      now rewrite <- (f2_okeys ts ts1 HFt).
    + rewrite <- (forallb_perm _ ts1 ts' HPt).
      cbn [all_nodes] in Han. apply andb_prop in Han as [_ Hch]. rewrite forallb_forall in Hch.
      refine (forallb_f2_imp _ _ _ _ _ HFt _ H2).
      intros [k m] [k' m'] Hin [Hk Hm] Hw. cbn [fst snd] in *. subst k'.
      exact (wf_member_rel e e' ik fld inl k m m' He Hnd Hm Hae (Hch _ Hin) Hw).
  - (* reference *)
    pose proof (rel_resolve e e' id ns He Hnd) as Hr.
    destruct (resolve e id ns) as [[o e2]|] eqn:R1, (resolve e' id ns) as [[o' e2']|]; cbv beta iota in Hr |- *; try contradiction;
      [|discriminate Hl].
    destruct Hr as (Ho & _ & _). now rewrite (rel_head_is_obj _ _ Ho).
  - (* scope *)
    apply andb_prop in Hl as [Hl H3]. apply andb_prop in Hl as [H1 H2].
    apply andb_true_intro. split; [apply andb_true_intro; split|].
    + exact (eq_trans (rel_nodup rel_schema os os1 os' HFo HPo) H1).
    + rewrite <- (forallb_perm _ os1 os' HPo). refine (forallb_f2_imp _ _ _ _ _ HFo _ H2).
      intros [i o] [i' o'] _ [Hk Ho] Hh. cbn [fst snd] in *. subst i'. now rewrite (rel_head_has_id _ _ _ Ho).
    + now rewrite <- (rel_amem rel_schema root os os1 os' H1 HFo HPo).
Qed.

Lemma nodup_env_enter e os : nodup_env e = true -> nodup_str (map fst os) = true -> nodup_env (env_enter e os) = true.
Proof.
  intros Hnd Hn. unfold nodup_env in *. cbn [env_enter e_self e_ext]. apply andb_prop in Hnd as [_ Hx]. now rewrite Hn, Hx.
Qed.

(* every node *)
Lemma all_nodes_rel : forall s e e' s',
  rel_env e e' -> nodup_env e = true -> rel_schema s s' -> all_env wf_local e = true -> WFL e s = true ->
  WFL e' s' = true.
Proof.
  induction s using schema_ind'; intros e e' s' He Hnd Hs Hae Han.
  - (* leaves *)
    pose proof (wf_local_rel e e' s s' He Hnd Hs Hae Han) as Hl.
    destruct Hs; try discriminate H; cbn [all_nodes]; now rewrite Hl.
  - destruct (rel_list_inv _ _ _ _ Hs) as (it' & -> & Hs1).
    pose proof (wf_local_rel e e' _ _ He Hnd Hs Hae Han) as Hl.
    cbn [all_nodes] in Han |- *. rewrite Hl. cbn [andb].
    apply andb_prop in Han as [_ Hc]. exact (IHs e e' it' He Hnd Hs1 Hae Hc).
  - destruct (rel_map_inv _ _ _ _ _ Hs) as (k' & v' & -> & Hsk & Hsv).
    pose proof (wf_local_rel e e' _ _ He Hnd Hs Hae Han) as Hl.
    cbn [all_nodes] in Han |- *. rewrite Hl. cbn [andb].
    apply andb_prop in Han as [_ Hc]. apply andb_prop in Hc as [Hc1 Hc2]. apply andb_true_intro. split.
    + exact (IHs1 e e' k' He Hnd Hsk Hae Hc1).
    + exact (IHs2 e e' v' He Hnd Hsv Hae Hc2).
  - (* object *)
    destruct (rel_obj_inv _ _ _ _ Hs) as (ps1 & ps' & -> & HFp & HPp).
    pose proof (wf_local_rel e e' _ _ He Hnd Hs Hae Han) as Hl.
    cbn [all_nodes] in Han |- *. rewrite Hl. cbn [andb].
    apply andb_prop in Han as [_ Hc]. rewrite <- (forallb_perm _ ps1 ps' HPp).
    rewrite Forall_forall in H.
    refine (forallb_f2_imp _ _ _ _ _ HFp _ Hc).
    intros a b Hin [_ Hr] Hca.
    exact (H a Hin e e' (p_type (snd b)) He Hnd (rel_prop_type _ _ Hr) Hae Hca).
  - (* one-of *)
    destruct (rel_oneof_inv _ _ _ _ _ Hs) as (ts1 & ts' & -> & HFt & HPt).
    pose proof (wf_local_rel e e' _ _ He Hnd Hs Hae Han) as Hl.
    cbn [all_nodes] in Han |- *. rewrite Hl. cbn [andb].
    apply andb_prop in Han as [_ Hc]. rewrite <- (forallb_perm _ ts1 ts' HPt).
    rewrite Forall_forall in H.
    refine (forallb_f2_imp _ _ _ _ _ HFt _ Hc).
    intros a b Hin [_ Hr] Hca. exact (H a Hin e e' (snd b) He Hnd Hr Hae Hca).
  - (* scope *)
    destruct (rel_scope_inv _ _ _ Hs) as (os1 & os' & -> & HFo & HPo).
    pose proof (wf_local_rel e e' _ _ He Hnd Hs Hae Han) as Hl.
    pose proof (all_nodes_here _ _ _ Han) as Hl0. cbn [wf_local] in Hl0.
    apply andb_prop in Hl0 as [Hl0 _]. apply andb_prop in Hl0 as [Hnos _].
    cbn [all_nodes] in Han |- *. rewrite Hl. cbn [andb].
    apply andb_prop in Han as [_ Hc]. rewrite <- (forallb_perm _ os1 os' HPo).
    rewrite Forall_forall in H.
    assert (Hae2 : all_env wf_local (env_enter e objs) = true).
    { unfold all_env in Hae. apply andb_prop in Hae as [_ Hx]. apply all_env_enter; [exact Hx | exact Hc]. }
    refine (forallb_f2_imp _ _ _ _ _ HFo _ Hc).
    intros a b Hin [_ Hr] Hca.
    exact (H a Hin (env_enter e objs) (env_enter e' os') (snd b)
             (rel_env_enter e e' objs os1 os' He HFo HPo) (nodup_env_enter e objs Hnd Hnos) Hr Hae2 Hca).
Qed.

Lemma all_env_rel e e' : rel_env e e' -> nodup_env e = true -> all_env wf_local e = true -> all_env wf_local e' = true.
Proof.
  intros He Hnd Hae. pose proof He as ((t1 & HF & HP) & Hx & Hor).
  pose proof Hae as Hae0. unfold all_env in Hae |- *. apply andb_prop in Hae as [Hs Hxx]. apply andb_true_intro. split.
  - rewrite <- (forallb_perm _ t1 (e_self e') HP). refine (forallb_f2_imp _ _ _ _ _ HF _ Hs).
    intros a b _ [_ Hr] Hca. exact (all_nodes_rel (snd a) e e' (snd b) He Hnd Hr Hae0 Hca).
  - refine (forallb_f2_imp _ _ _ _ _ Hx _ Hxx).
    intros [n tab] [n' tab'] Hin [_ (u1 & HF2 & HP2)] Hca. cbn [fst snd] in *.
    assert (Hnt : nodup_str (map fst tab) = true).
    { unfold nodup_env in Hnd. apply andb_prop in Hnd as [_ Hnx]. rewrite forallb_forall in Hnx. exact (Hnx _ Hin). }
    unfold all_tab in Hca |- *. rewrite <- (forallb_perm _ u1 tab' HP2).
    assert (Hae2 : all_env wf_local (env_enter e tab) = true) by (apply all_env_enter; assumption).
    refine (forallb_f2_imp _ _ _ _ _ HF2 _ Hca).
    intros a b _ [_ Hr] Hcb.
    exact (all_nodes_rel (snd a) (env_enter e tab) (env_enter e' tab') (snd b)
             (rel_env_enter e e' tab u1 tab' He HF2 HP2) (nodup_env_enter e tab Hnd Hnt) Hr Hae2 Hcb).
Qed.

(* perm_schema / perm_env preserve well-formedness *)
Lemma perm_wf_schema e e' s s' :
  perm_env e e' -> nodup_env e = true -> perm_schema s s' -> wf_schema e s = true -> wf_schema e' s' = true.
Proof.
  intros He Hnd Hs Hwf. unfold wf_schema in *. apply andb_prop in Hwf as [Hae Han]. apply andb_true_intro. split.
  - exact (all_env_rel e e' He Hnd Hae).
  - exact (all_nodes_rel s e e' s' He Hnd Hs Hae Han).
Qed.
