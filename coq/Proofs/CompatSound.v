(* Proofs/CompatSound.v — C15 soundness: the declarative relation `must_reject`, written from the
   property text ("a producer that can never be consumed is always rejected: ..."), implies that
   compat_schema never answers Ok; with the hypotheses of totality it answers Err. *)
From Coq Require Import List ZArith Bool String Lia.
From Verif Require Import Base.Prelude Base.Str Base.Float Base.GoVal
  Schema.Regex Schema.Units Schema.Syntax Schema.Ops Schema.Compat Proofs.Compat.
Import ListNotations.
Open Scope Z_scope.

Inductive bkind := BInt | BFloat | BStr | BBool | BPattern | BList | BMap | BObj | BOneOf (int_keys : bool).

(* base kind of a consumer: references and scopes are looked through by separate rules; `any` is a wildcard *)
Definition skind (s : schema) : option bkind :=
  match s with
  | SInt _ _ _ | SEnumInt _ _ => Some BInt
  | SFloat _ _ _ => Some BFloat
  | SString _ _ _ | SEnumStr _ _ => Some BStr
  | SBool => Some BBool
  | SPattern => Some BPattern
  | SList _ _ _ => Some BList
  | SMap _ _ _ _ => Some BMap
  | SObject _ _ _ => Some BObj
  | SOneOf _ ik _ _ => Some (BOneOf ik)
  | SAny | SRef _ _ _ | SScope _ _ => None
  end.
(* base kind of a producer: a reference or a scope produces an object *)
Definition tkind (t : schema) : option bkind :=
  match t with
  | SRef _ _ _ | SScope _ _ => Some BObj
  | SAny => None
  | _ => skind t
  end.

Definition disjoint_Z (smn smx omn omx : option Z) : Prop :=
  (exists sx on, smx = Some sx /\ omn = Some on /\ sx < on) \/
  (exists sn ox, smn = Some sn /\ omx = Some ox /\ ox < sn).
Definition disjoint_F (smn smx omn omx : option fl) : Prop :=
  (exists sx on, smx = Some sx /\ omn = Some on /\ flt sx on = true) \/
  (exists sn ox, smn = Some sn /\ omx = Some ox /\ flt ox sn = true).

Definition not_ref (t : schema) : Prop := match t with SRef _ _ _ => False | _ => True end.
Definition not_scope (t : schema) : Prop := match t with SScope _ _ => False | _ => True end.

(* consumer s (in e1) can never consume what producer t (in e2) offers *)
Inductive must_reject : env -> schema -> env -> schema -> Prop :=
(* a different base kind (string into integer, list into map, ...) *)
| mr_kind : forall e1 s e2 t a b, skind s = Some a -> tkind t = Some b -> a <> b -> must_reject e1 s e2 t
(* element / key / value types that are themselves incompatible *)
| mr_element : forall e1 e2 i i' a b a' b', must_reject e1 i e2 i' -> must_reject e1 (SList i a b) e2 (SList i' a' b')
| mr_key : forall e1 e2 k k' v v' a b a' b', must_reject e1 k e2 k' -> must_reject e1 (SMap k v a b) e2 (SMap k' v' a' b')
| mr_value : forall e1 e2 k k' v v' a b a' b', must_reject e1 v e2 v' -> must_reject e1 (SMap k v a b) e2 (SMap k' v' a' b')
(* property types that are themselves incompatible *)
| mr_property_type : forall e1 e2 id u ps id' u' ps' n p p',
    alookup n ps = Some p -> In (n, p') ps' -> must_reject e1 (p_type p) e2 (p_type p') ->
    must_reject e1 (SObject id u ps) e2 (SObject id' u' ps')
(* an object carrying an undeclared property *)
| mr_undeclared_property : forall e1 e2 id u ps id' u' ps' n p',
    In (n, p') ps' -> alookup n ps = None -> must_reject e1 (SObject id u ps) e2 (SObject id' u' ps')
(* ... or lacking a required one *)
| mr_missing_required : forall e1 e2 id u ps id' u' ps' n p,
    In (n, p) ps -> p_required p = true -> alookup n ps' = None ->
    must_reject e1 (SObject id u ps) e2 (SObject id' u' ps')
(* ... or (when both enforce it) a different ID *)
| mr_id_mismatch : forall e1 e2 id ps id' ps',
    id <> id' -> must_reject e1 (SObject id false ps) e2 (SObject id' false ps')
(* an enum offering values outside the consumer's set *)
| mr_enum_value_int : forall e1 e2 vs u vs' u' k d,
    In (k, d) vs' -> zlookup k vs = None -> must_reject e1 (SEnumInt vs u) e2 (SEnumInt vs' u')
| mr_enum_value_str : forall e1 e2 vs n vs' n' k d,
    In (k, d) vs' -> alookup k vs = None -> must_reject e1 (SEnumStr n vs) e2 (SEnumStr n' vs')
(* a one-of with another discriminator or missing members (or an incompatible member) *)
| mr_discriminator : forall e1 e2 ts ik fd inl ts' fd' inl',
    fd <> fd' -> must_reject e1 (SOneOf ts ik fd inl) e2 (SOneOf ts' ik fd' inl')
| mr_missing_member : forall e1 e2 ts ik fd inl ts' fd' inl' k m,
    In (k, m) ts -> find (fun ks => okey_eqb (fst ks) k) ts' = None ->
    must_reject e1 (SOneOf ts ik fd inl) e2 (SOneOf ts' ik fd' inl')
| mr_member : forall e1 e2 ts ik fd inl ts' fd' inl' k m k' m',
    In (k, m) ts -> find (fun ks => okey_eqb (fst ks) k) ts' = Some (k', m') -> must_reject e1 m e2 m' ->
    must_reject e1 (SOneOf ts ik fd inl) e2 (SOneOf ts' ik fd' inl')
(* numeric / size ranges that cannot overlap *)
| mr_disjoint_int : forall e1 e2 a b u a' b' u', disjoint_Z a b a' b' -> must_reject e1 (SInt a b u) e2 (SInt a' b' u')
| mr_disjoint_float : forall e1 e2 a b u a' b' u', disjoint_F a b a' b' -> must_reject e1 (SFloat a b u) e2 (SFloat a' b' u')
| mr_disjoint_string : forall e1 e2 a b p a' b' p', disjoint_Z a b a' b' -> must_reject e1 (SString a b p) e2 (SString a' b' p')
| mr_disjoint_list : forall e1 e2 i a b i' a' b', disjoint_Z a b a' b' -> must_reject e1 (SList i a b) e2 (SList i' a' b')
| mr_disjoint_map : forall e1 e2 k v a b k' v' a' b', disjoint_Z a b a' b' -> must_reject e1 (SMap k v a b) e2 (SMap k' v' a' b')
(* references and scopes denote their objects ("at any depth") *)
| mr_ref_consumer : forall e1 e2 id ns d o e1' t,
    resolve e1 id ns = Some (o, e1') -> not_ref t -> must_reject e1' o e2 t -> must_reject e1 (SRef id ns d) e2 t
| mr_ref_both : forall e1 e2 id ns d o e1' id2 ns2 d2 o2 e2',
    resolve e1 id ns = Some (o, e1') -> resolve e2 id2 ns2 = Some (o2, e2') -> must_reject e1' o e2' o2 ->
    must_reject e1 (SRef id ns d) e2 (SRef id2 ns2 d2)
| mr_scope_consumer : forall e1 e2 objs root o t,
    alookup root objs = Some o -> not_scope t -> must_reject (env_enter e1 objs) o e2 t ->
    must_reject e1 (SScope objs root) e2 t
| mr_scope_both : forall e1 e2 objs root o objs2 root2 o2,
    alookup root objs = Some o -> alookup root2 objs2 = Some o2 ->
    must_reject (env_enter e1 objs) o (env_enter e2 objs2) o2 ->
    must_reject e1 (SScope objs root) e2 (SScope objs2 root2)
| mr_object_producer : forall e1 e2 id u ps t o2 eo,
    is_object t = false -> c15_to_object e2 t = CvObj o2 eo ->
    must_reject e1 (SObject id u ps) eo o2 -> must_reject e1 (SObject id u ps) e2 t.

Lemma disjoint_excl_Z : forall a b a' b', disjoint_Z a b a' b' -> c15_excl_Z a b a' b' = true.
Proof.
  intros a b a' b' [[sx [on [-> [-> H]]]]|[sn [ox [-> [-> H]]]]]; unfold c15_excl_Z.
  - assert (E : (sx <? on) = true) by (apply Z.ltb_lt; auto). rewrite E; auto.
  - assert (E : (ox <? sn) = true) by (apply Z.ltb_lt; auto). rewrite E. apply orb_true_r.
Qed.
Lemma disjoint_excl_F : forall a b a' b', disjoint_F a b a' b' -> c15_excl_F a b a' b' = true.
Proof.
  intros a b a' b' [[sx [on [-> [-> H]]]]|[sn [ox [-> [-> H]]]]]; unfold c15_excl_F.
  - rewrite H; auto.
  - rewrite H. apply orb_true_r.
Qed.

Section WithTables.
Variable words : list (string * bool).
Variable pu : units -> string -> option fl.
Notation cs := (compat_schema words pu).
Notation un := (unser words pu).

Lemma fallback_not_ok : forall f e s, (_ <- rewrap true (un f e s c15_schema_ptr) ;; Ok tt) <> Ok tt.
Proof.
  intros f e s C. apply bind_ok in C. destruct C as [a [C _]]. apply rewrap_ok in C.
  eapply unser_ptr_not_ok; eauto.
Qed.

Lemma object_step : forall f e1 id u ps e2 t o2 eo,
  c15_to_object e2 t = CvObj o2 eo -> is_object o2 = true ->
  cs (S f) e1 (SObject id u ps) e2 t = cs (S f) e1 (SObject id u ps) eo o2.
Proof.
  intros f e1 id u ps e2 t o2 eo Hc Ho. simpl. rewrite Hc.
  destruct o2; try discriminate. unfold c15_to_object. reflexivity.
Qed.

Theorem compat_sound : forall e1 s e2 t, must_reject e1 s e2 t -> forall fuel, cs fuel e1 s e2 t <> Ok tt.
Proof.
  induction 1; intros [|f]; try (simpl; discriminate).
  - (* kind *)
    destruct s; simpl in H; inversion H; subst; destruct t; simpl in H0; inversion H0; subst; simpl;
      try discriminate; try congruence; try (unfold c15_to_object; apply fallback_not_ok).
    destruct int_keys, int_keys0; simpl; try discriminate; congruence.
  - simpl. destruct (c15_excl_Z a b a' b'); [discriminate | apply IHmust_reject].
  - simpl. intros C. apply bind_unit_ok in C. destruct C as [C _]. apply rewrap_ok in C. eapply IHmust_reject; eauto.
  - simpl. intros C. apply bind_unit_ok in C. destruct C as [_ C]. apply bind_unit_ok in C. destruct C as [C _].
    apply rewrap_ok in C. eapply IHmust_reject; eauto.
  - (* property type *)
    simpl. unfold c15_to_object. destruct (negb u' && negb u && negb (String.eqb id' id)); [discriminate|].
    intros C. apply bind_unit_ok in C. destruct C as [C _]. rewrite forM_ok_iff, Forall_forall in C.
    specialize (C _ H0). simpl in C. rewrite H in C. apply seg_ok in C. eapply IHmust_reject; eauto.
  - simpl. unfold c15_to_object. destruct (negb u' && negb u && negb (String.eqb id' id)); [discriminate|].
    intros C. apply bind_unit_ok in C. destruct C as [C _]. rewrite forM_ok_iff, Forall_forall in C.
    specialize (C _ H). simpl in C. rewrite H0 in C. discriminate.
  - simpl. unfold c15_to_object. destruct (negb u' && negb u && negb (String.eqb id' id)); [discriminate|].
    intros C. apply bind_unit_ok in C. destruct C as [_ C]. rewrite forM_ok_iff, Forall_forall in C.
    specialize (C _ H). simpl in C. rewrite H0 in C. unfold amem in C. rewrite H1 in C. simpl in C. discriminate.
  - simpl. unfold c15_to_object. simpl.
    assert (E : String.eqb id' id = false) by (apply String.eqb_neq; congruence). rewrite E. simpl. discriminate.
  - simpl. unfold c15_enum_int. intros C. rewrite forM_ok_iff, Forall_forall in C.
    specialize (C _ H). simpl in C. rewrite H0 in C. discriminate.
  - simpl. unfold c15_enum_str. intros C. rewrite forM_ok_iff, Forall_forall in C.
    specialize (C _ H). simpl in C. rewrite H0 in C. discriminate.
  - simpl. rewrite Bool.eqb_reflx. simpl.
    assert (E : String.eqb fd' fd = false) by (apply String.eqb_neq; congruence). rewrite E. simpl. discriminate.
  - simpl. rewrite Bool.eqb_reflx. simpl. destruct (negb (String.eqb fd' fd)); [discriminate|].
    intros C. rewrite forM_ok_iff, Forall_forall in C. specialize (C _ H). simpl in C. rewrite H0 in C. discriminate.
  - simpl. rewrite Bool.eqb_reflx. simpl. destruct (negb (String.eqb fd' fd)); [discriminate|].
    intros C. rewrite forM_ok_iff, Forall_forall in C. specialize (C _ H). simpl in C. rewrite H0 in C.
    apply rewrap_ok in C. eapply IHmust_reject; eauto.
  - simpl. rewrite disjoint_excl_Z; auto. discriminate.
  - simpl. rewrite disjoint_excl_F; auto. discriminate.
  - simpl. rewrite disjoint_excl_Z; auto. discriminate.
  - simpl. rewrite disjoint_excl_Z; auto. discriminate.
  - simpl. intros C. apply bind_unit_ok in C. destruct C as [_ C]. apply bind_unit_ok in C. destruct C as [_ C].
    rewrite disjoint_excl_Z in C; auto. discriminate.
  - simpl. rewrite H. destruct t; simpl; try apply IHmust_reject. contradiction.
  - simpl. rewrite H, H0. apply IHmust_reject.
  - simpl. rewrite H. destruct t; simpl; try apply IHmust_reject. contradiction.
  - simpl. rewrite H, H0. apply IHmust_reject.
  - (* the producer is a reference / scope denoting o2 *)
    destruct (is_object o2) eqn:Eo.
    + rewrite (object_step _ _ _ _ _ _ _ _ _ H0 Eo). apply IHmust_reject.
    + simpl. rewrite H0. destruct o2; try discriminate; discriminate Eo.
Qed.

(* with the hypotheses of totality the verdict is an error *)
Corollary compat_sound_err : forall e1 s e2 t n m fuel,
  must_reject e1 s e2 t -> c15_unfolds n e1 s = true -> c15_unfolds m e2 t = true -> (n + 2 <= fuel)%nat ->
  exists e, cs fuel e1 s e2 t = Err e.
Proof.
  intros e1 s e2 t n m fuel Hm Hs Ht Hf.
  pose proof (compat_total words pu n fuel e1 s m e2 t Hs Ht Hf) as Hv.
  pose proof (compat_sound _ _ _ _ Hm fuel) as Hn.
  destruct (cs fuel e1 s e2 t) as [[]| | |]; try discriminate; eauto. congruence.
Qed.

End WithTables.

(* ---------- one lemma per clause of the property text ---------- *)

Lemma sound_kind : forall words pu e1 s e2 t a b n m fuel,
  skind s = Some a -> tkind t = Some b -> a <> b ->
  c15_unfolds n e1 s = true -> c15_unfolds m e2 t = true -> (n + 2 <= fuel)%nat ->
  exists e, compat_schema words pu fuel e1 s e2 t = Err e.
Proof. intros; eapply compat_sound_err; eauto; eapply mr_kind; eauto. Qed.

Lemma sound_element : forall words pu e1 e2 i i' a b a' b' n m fuel,
  must_reject e1 i e2 i' ->
  c15_unfolds n e1 (SList i a b) = true -> c15_unfolds m e2 (SList i' a' b') = true -> (n + 2 <= fuel)%nat ->
  exists e, compat_schema words pu fuel e1 (SList i a b) e2 (SList i' a' b') = Err e.
Proof. intros; eapply compat_sound_err; eauto; eapply mr_element; eauto. Qed.

Lemma sound_key : forall words pu e1 e2 k k' v v' a b a' b' n m fuel,
  must_reject e1 k e2 k' ->
  c15_unfolds n e1 (SMap k v a b) = true -> c15_unfolds m e2 (SMap k' v' a' b') = true -> (n + 2 <= fuel)%nat ->
  exists e, compat_schema words pu fuel e1 (SMap k v a b) e2 (SMap k' v' a' b') = Err e.
Proof. intros; eapply compat_sound_err; eauto; eapply mr_key; eauto. Qed.

Lemma sound_value : forall words pu e1 e2 k k' v v' a b a' b' n m fuel,
  must_reject e1 v e2 v' ->
  c15_unfolds n e1 (SMap k v a b) = true -> c15_unfolds m e2 (SMap k' v' a' b') = true -> (n + 2 <= fuel)%nat ->
  exists e, compat_schema words pu fuel e1 (SMap k v a b) e2 (SMap k' v' a' b') = Err e.
Proof. intros; eapply compat_sound_err; eauto; eapply mr_value; eauto. Qed.

Lemma sound_property_type : forall words pu e1 e2 id u ps id' u' ps' nm p p' n m fuel,
  alookup nm ps = Some p -> In (nm, p') ps' -> must_reject e1 (p_type p) e2 (p_type p') ->
  c15_unfolds n e1 (SObject id u ps) = true -> c15_unfolds m e2 (SObject id' u' ps') = true -> (n + 2 <= fuel)%nat ->
  exists e, compat_schema words pu fuel e1 (SObject id u ps) e2 (SObject id' u' ps') = Err e.
Proof. intros; eapply compat_sound_err; eauto; eapply mr_property_type; eauto. Qed.

Lemma sound_undeclared_property : forall words pu e1 e2 id u ps id' u' ps' nm p' n m fuel,
  In (nm, p') ps' -> alookup nm ps = None ->
  c15_unfolds n e1 (SObject id u ps) = true -> c15_unfolds m e2 (SObject id' u' ps') = true -> (n + 2 <= fuel)%nat ->
  exists e, compat_schema words pu fuel e1 (SObject id u ps) e2 (SObject id' u' ps') = Err e.
Proof. intros; eapply compat_sound_err; eauto; eapply mr_undeclared_property; eauto. Qed.

Lemma sound_missing_required : forall words pu e1 e2 id u ps id' u' ps' nm p n m fuel,
  In (nm, p) ps -> p_required p = true -> alookup nm ps' = None ->
  c15_unfolds n e1 (SObject id u ps) = true -> c15_unfolds m e2 (SObject id' u' ps') = true -> (n + 2 <= fuel)%nat ->
  exists e, compat_schema words pu fuel e1 (SObject id u ps) e2 (SObject id' u' ps') = Err e.
Proof. intros; eapply compat_sound_err; eauto; eapply mr_missing_required; eauto. Qed.

Lemma sound_id_mismatch : forall words pu e1 e2 id ps id' ps' n m fuel,
  id <> id' ->
  c15_unfolds n e1 (SObject id false ps) = true -> c15_unfolds m e2 (SObject id' false ps') = true -> (n + 2 <= fuel)%nat ->
  exists e, compat_schema words pu fuel e1 (SObject id false ps) e2 (SObject id' false ps') = Err e.
Proof. intros; eapply compat_sound_err; eauto; eapply mr_id_mismatch; eauto. Qed.

Lemma sound_enum_value : forall words pu e1 e2 vs u vs' u' k d n m fuel,
  In (k, d) vs' -> zlookup k vs = None ->
  c15_unfolds n e1 (SEnumInt vs u) = true -> c15_unfolds m e2 (SEnumInt vs' u') = true -> (n + 2 <= fuel)%nat ->
  exists e, compat_schema words pu fuel e1 (SEnumInt vs u) e2 (SEnumInt vs' u') = Err e.
Proof. intros; eapply compat_sound_err; eauto; eapply mr_enum_value_int; eauto. Qed.

Lemma sound_enum_value_str : forall words pu e1 e2 vs nm vs' nm' k d n m fuel,
  In (k, d) vs' -> alookup k vs = None ->
  c15_unfolds n e1 (SEnumStr nm vs) = true -> c15_unfolds m e2 (SEnumStr nm' vs') = true -> (n + 2 <= fuel)%nat ->
  exists e, compat_schema words pu fuel e1 (SEnumStr nm vs) e2 (SEnumStr nm' vs') = Err e.
Proof. intros; eapply compat_sound_err; eauto; eapply mr_enum_value_str; eauto. Qed.

Lemma sound_discriminator : forall words pu e1 e2 ts ik fd inl ts' fd' inl' n m fuel,
  fd <> fd' ->
  c15_unfolds n e1 (SOneOf ts ik fd inl) = true -> c15_unfolds m e2 (SOneOf ts' ik fd' inl') = true -> (n + 2 <= fuel)%nat ->
  exists e, compat_schema words pu fuel e1 (SOneOf ts ik fd inl) e2 (SOneOf ts' ik fd' inl') = Err e.
Proof. intros; eapply compat_sound_err; eauto; eapply mr_discriminator; eauto. Qed.

Lemma sound_missing_member : forall words pu e1 e2 ts ik fd inl ts' fd' inl' k mm n m fuel,
  In (k, mm) ts -> find (fun ks => okey_eqb (fst ks) k) ts' = None ->
  c15_unfolds n e1 (SOneOf ts ik fd inl) = true -> c15_unfolds m e2 (SOneOf ts' ik fd' inl') = true -> (n + 2 <= fuel)%nat ->
  exists e, compat_schema words pu fuel e1 (SOneOf ts ik fd inl) e2 (SOneOf ts' ik fd' inl') = Err e.
Proof. intros; eapply compat_sound_err; eauto; eapply mr_missing_member; eauto. Qed.

Lemma sound_member : forall words pu e1 e2 ts ik fd inl ts' fd' inl' k mm k' mm' n m fuel,
  In (k, mm) ts -> find (fun ks => okey_eqb (fst ks) k) ts' = Some (k', mm') -> must_reject e1 mm e2 mm' ->
  c15_unfolds n e1 (SOneOf ts ik fd inl) = true -> c15_unfolds m e2 (SOneOf ts' ik fd' inl') = true -> (n + 2 <= fuel)%nat ->
  exists e, compat_schema words pu fuel e1 (SOneOf ts ik fd inl) e2 (SOneOf ts' ik fd' inl') = Err e.
Proof. intros; eapply compat_sound_err; eauto; eapply mr_member; eauto. Qed.

Lemma sound_disjoint_range : forall words pu e1 e2 a b u a' b' u' n m fuel,
  disjoint_Z a b a' b' ->
  c15_unfolds n e1 (SInt a b u) = true -> c15_unfolds m e2 (SInt a' b' u') = true -> (n + 2 <= fuel)%nat ->
  exists e, compat_schema words pu fuel e1 (SInt a b u) e2 (SInt a' b' u') = Err e.
Proof. intros; eapply compat_sound_err; eauto; eapply mr_disjoint_int; eauto. Qed.

Lemma sound_disjoint_range_float : forall words pu e1 e2 a b u a' b' u' n m fuel,
  disjoint_F a b a' b' ->
  c15_unfolds n e1 (SFloat a b u) = true -> c15_unfolds m e2 (SFloat a' b' u') = true -> (n + 2 <= fuel)%nat ->
  exists e, compat_schema words pu fuel e1 (SFloat a b u) e2 (SFloat a' b' u') = Err e.
Proof. intros; eapply compat_sound_err; eauto; eapply mr_disjoint_float; eauto. Qed.

Lemma sound_disjoint_range_string : forall words pu e1 e2 a b p a' b' p' n m fuel,
  disjoint_Z a b a' b' ->
  c15_unfolds n e1 (SString a b p) = true -> c15_unfolds m e2 (SString a' b' p') = true -> (n + 2 <= fuel)%nat ->
  exists e, compat_schema words pu fuel e1 (SString a b p) e2 (SString a' b' p') = Err e.
Proof. intros; eapply compat_sound_err; eauto; eapply mr_disjoint_string; eauto. Qed.

Lemma sound_disjoint_range_list : forall words pu e1 e2 i a b i' a' b' n m fuel,
  disjoint_Z a b a' b' ->
  c15_unfolds n e1 (SList i a b) = true -> c15_unfolds m e2 (SList i' a' b') = true -> (n + 2 <= fuel)%nat ->
  exists e, compat_schema words pu fuel e1 (SList i a b) e2 (SList i' a' b') = Err e.
Proof. intros; eapply compat_sound_err; eauto; eapply mr_disjoint_list; eauto. Qed.

Lemma sound_disjoint_range_map : forall words pu e1 e2 k v a b k' v' a' b' n m fuel,
  disjoint_Z a b a' b' ->
  c15_unfolds n e1 (SMap k v a b) = true -> c15_unfolds m e2 (SMap k' v' a' b') = true -> (n + 2 <= fuel)%nat ->
  exists e, compat_schema words pu fuel e1 (SMap k v a b) e2 (SMap k' v' a' b') = Err e.
Proof. intros; eapply compat_sound_err; eauto; eapply mr_disjoint_map; eauto. Qed.

Lemma sound_through_reference : forall words pu e1 e2 id ns d o e1' id2 ns2 d2 o2 e2' n m fuel,
  resolve e1 id ns = Some (o, e1') -> resolve e2 id2 ns2 = Some (o2, e2') -> must_reject e1' o e2' o2 ->
  c15_unfolds n e1 (SRef id ns d) = true -> c15_unfolds m e2 (SRef id2 ns2 d2) = true -> (n + 2 <= fuel)%nat ->
  exists e, compat_schema words pu fuel e1 (SRef id ns d) e2 (SRef id2 ns2 d2) = Err e.
Proof. intros; eapply compat_sound_err; eauto; eapply mr_ref_both; eauto. Qed.

Lemma sound_through_scope : forall words pu e1 e2 objs root o objs2 root2 o2 n m fuel,
  alookup root objs = Some o -> alookup root2 objs2 = Some o2 -> must_reject (env_enter e1 objs) o (env_enter e2 objs2) o2 ->
  c15_unfolds n e1 (SScope objs root) = true -> c15_unfolds m e2 (SScope objs2 root2) = true -> (n + 2 <= fuel)%nat ->
  exists e, compat_schema words pu fuel e1 (SScope objs root) e2 (SScope objs2 root2) = Err e.
Proof. intros; eapply compat_sound_err; eauto; eapply mr_scope_both; eauto. Qed.
