(* Proofs/ATPClientInv.v — the CONSERVATION invariant of the ATP client model (ATP/Client.v) as an inductive
   invariant: it holds in the initial state of every well-formed, answered session and is preserved by every
   `step` for every label, hence in every reachable state for every label list.

     invE   entries <-> callers between Prepare (Start) and Take: distinct keys; a caller between Start and its
            return owns an entry; every entry is owned by such a caller (or was orphaned by a failed write)
     invW   wait-group accounting: wg = live signal writers + (1 if a read loop is alive)
     invK   Close's bookkeeping: past Cancel the context is cancelled; without a write failure Close cannot fail
     invP   every caller waiting for a pending entry has its answer IN FLIGHT: its work-start is still in
            to_server / accepted by the peer whose script for the run still holds a decisive event, or a decisive
            event (terminal message for the run, or a sticky fault) is in from_server, in the read-ahead buffer of
            the live loop, or held by the loop (Handle / Fatal)

   Structure: list/assoc helpers; one footprint lemma for what a step does to the caller list; per invariant one
   lemma per label kind; `inv_step`, `inv_init`, `inv_run`; then `inv_flight_ok` (the invariant implies the
   executable predicate ATP.Client.flight_ok that the correspondence runs evaluate) and progress. *)
From Coq Require Import Lia.
From Verif Require Import Base.Prelude Base.Str ATP.Msg ATP.Client Proofs.ATPClient.
Local Open Scope nat_scope.

Section Inv.
Variable payload : Type.
Notation state := (state payload).
Notation caller := (caller payload).
Notation event := (event payload).
Notation msg := (msg payload).
Notation loop := (loop payload).
Notation result := (result payload).
Notation session := (session payload).

(* ------------------------------------------------------------------------------------------------ *)
(* 0. helpers                                                                                        *)
(* ------------------------------------------------------------------------------------------------ *)

Lemma nth_error_upd : forall (A : Type) (l : list A) i j v,
  nth_error (upd l i v) j = if Nat.eqb i j then (match nth_error l j with Some _ => Some v | None => None end)
                            else nth_error l j.
Proof.
  induction l as [|x t IH]; intros i j v; destruct i, j; cbn; auto; destruct (Nat.eqb i j); reflexivity.
Qed.

Lemma nth_error_upd_inv : forall (A : Type) (l : list A) i j v d,
  nth_error (upd l i v) j = Some d -> (j = i /\ d = v) \/ (j <> i /\ nth_error l j = Some d).
Proof.
  intros A l i j v d H. rewrite nth_error_upd in H. destruct (Nat.eqb i j) eqn:E.
  - apply Nat.eqb_eq in E. subst. destruct (nth_error l j); [|discriminate]. injection H as <-. left; auto.
  - apply Nat.eqb_neq in E. right. split; auto.
Qed.

Lemma nth_error_upd_same : forall (A : Type) (l : list A) i v x, nth_error l i = Some x -> nth_error (upd l i v) i = Some v.
Proof. intros A l i v x H. rewrite nth_error_upd, Nat.eqb_refl, H. reflexivity. Qed.

Lemma nth_error_upd_other : forall (A : Type) (l : list A) i j v, j <> i -> nth_error (upd l i v) j = nth_error l j.
Proof. intros A l i j v H. rewrite nth_error_upd. destruct (Nat.eqb i j) eqn:E; auto. apply Nat.eqb_eq in E. congruence. Qed.

Lemma map_upd_same : forall (A B : Type) (f : A -> B) (l : list A) i c c',
  nth_error l i = Some c -> f c' = f c -> map f (upd l i c') = map f l.
Proof.
  induction l as [|x t IH]; intros i c c' H E; destruct i; cbn in *; try discriminate; auto.
  - injection H as ->. now rewrite E.
  - f_equal. eapply IH; eauto.
Qed.

Lemma map_eq_nth : forall (A B : Type) (f : A -> B) (l1 l2 : list A) i a,
  map f l1 = map f l2 -> nth_error l1 i = Some a -> exists b, nth_error l2 i = Some b /\ f b = f a.
Proof.
  induction l1 as [|x t IH]; intros l2 i a E H; destruct i; cbn in *; try discriminate.
  - injection H as ->. destruct l2 as [|y u]; cbn in E; [discriminate|]. injection E as E1 E2. exists y. auto.
  - destruct l2 as [|y u]; cbn in E; [discriminate|]. injection E as E1 E2. cbn. eapply IH; eauto.
Qed.

Lemma NoDup_map_nth : forall (A B : Type) (f : A -> B) (l : list A) i j a b,
  NoDup (map f l) -> nth_error l i = Some a -> nth_error l j = Some b -> f a = f b -> i = j.
Proof.
  induction l as [|x t IH]; intros i j a b N Hi Hj E; destruct i, j; cbn in *; try discriminate; auto.
  - injection Hi as ->. inversion N as [|? ? Hn _]; subst. exfalso. apply Hn. rewrite E. apply in_map. eapply nth_error_In; eauto.
  - injection Hj as ->. inversion N as [|? ? Hn _]; subst. exfalso. apply Hn. rewrite <- E. apply in_map. eapply nth_error_In; eauto.
  - f_equal. inversion N; subst. eapply IH; eauto.
Qed.

Lemma existsb_firstn_skipn : forall (A : Type) (f : A -> bool) k (q : list A),
  existsb f q = existsb f (firstn k q) || existsb f (skipn k q).
Proof. intros. rewrite <- (firstn_skipn k q) at 1. apply existsb_app. Qed.

(* --- association lists keyed by strings --- *)
Section Assoc.
Variable A : Type.
Implicit Types l : list (string * A).

Lemma alookup_in_keys : forall l r x, alookup r l = Some x -> In r (map fst l).
Proof.
  induction l as [|[k v] t IH]; intros r x H; cbn in *; try discriminate.
  destruct (String.eqb_spec r k); [left; auto|right; eauto].
Qed.

Lemma alookup_notin : forall l r, ~ In r (map fst l) -> alookup r l = None.
Proof.
  induction l as [|[k v] t IH]; intros r H; cbn in *; auto.
  destruct (String.eqb_spec r k); [exfalso; apply H; left; auto|apply IH; intros Hc; apply H; right; auto].
Qed.

Lemma alookup_In_pair : forall l r x, alookup r l = Some x -> In (r, x) l.
Proof.
  induction l as [|[k v] t IH]; intros r x H; cbn in *; try discriminate.
  destruct (String.eqb_spec r k); [injection H as ->; subst; left; auto|right; eauto].
Qed.

Lemma alookup_app_some : forall l l' r x, alookup r l = Some x -> alookup r (l ++ l') = Some x.
Proof.
  induction l as [|[k v] t IH]; intros l' r x H; cbn in *; try discriminate.
  destruct (String.eqb r k); auto.
Qed.

Lemma alookup_app_none : forall l l' r, alookup r l = None -> alookup r (l ++ l') = alookup r l'.
Proof.
  induction l as [|[k v] t IH]; intros l' r H; cbn in *; auto.
  destruct (String.eqb r k); [discriminate|auto].
Qed.

Lemma alookup_adel_other : forall l k r, r <> k -> alookup r (adel k l) = alookup r l.
Proof.
  induction l as [|[k' v] t IH]; intros k r H; cbn; auto.
  destruct (String.eqb_spec k k'); cbn.
  - subst. destruct (String.eqb_spec r k'); [congruence|reflexivity].
  - destruct (String.eqb r k'); auto.
Qed.

Lemma keys_adel_incl : forall l k x, In x (map fst (adel k l)) -> In x (map fst l).
Proof.
  induction l as [|[k' v] t IH]; intros k x H; cbn in *; auto.
  destruct (String.eqb k k'); cbn in *; [right; auto|destruct H as [H|H]; [left; auto|right; eauto]].
Qed.

Lemma In_adel_incl : forall l k x, In x (adel k l) -> In x l.
Proof.
  induction l as [|[k' v] t IH]; intros k x H; cbn in *; auto.
  destruct (String.eqb k k'); cbn in *; [right; auto|destruct H as [H|H]; [left; auto|right; eauto]].
Qed.

Lemma NoDup_adel : forall l k, NoDup (map fst l) -> NoDup (map fst (adel k l)).
Proof.
  induction l as [|[k' v] t IH]; intros k N; cbn in *; auto.
  inversion N as [|? ? Hn Nt]; subst. destruct (String.eqb k k'); cbn; auto.
  constructor; auto. intros Hc. apply Hn. eapply keys_adel_incl; eauto.
Qed.

Lemma alookup_adel_same : forall l k, NoDup (map fst l) -> alookup k (adel k l) = None.
Proof.
  induction l as [|[k' v] t IH]; intros k N; cbn in *; auto.
  inversion N as [|? ? Hn Nt]; subst. destruct (String.eqb_spec k k'); cbn.
  - subst. apply alookup_notin. auto.
  - destruct (String.eqb_spec k k'); [congruence|auto].
Qed.

Lemma keys_aset : forall l k (v : A), map fst (aset k v l) = map fst l.
Proof.
  induction l as [|[k' w] t IH]; intros k v; cbn; auto.
  destruct (String.eqb k k'); cbn; [reflexivity|f_equal; auto].
Qed.

Lemma alookup_aset_other : forall l k (v : A) r, r <> k -> alookup r (aset k v l) = alookup r l.
Proof.
  induction l as [|[k' w] t IH]; intros k v r H; cbn; auto.
  destruct (String.eqb_spec k k'); cbn.
  - subst. destruct (String.eqb_spec r k'); [congruence|reflexivity].
  - destruct (String.eqb r k'); auto.
Qed.

Lemma alookup_aset_same : forall l k (v : A),
  alookup k (aset k v l) = match alookup k l with Some _ => Some v | None => None end.
Proof.
  induction l as [|[k' w] t IH]; intros k v; cbn; auto.
  destruct (String.eqb k k') eqn:E; cbn; rewrite E; auto.
Qed.

Lemma In_aset : forall l k (v : A) x, In x (aset k v l) -> In x l \/ x = (k, v).
Proof.
  induction l as [|[k' w] t IH]; intros k v x H; cbn in *; auto.
  destruct (String.eqb_spec k k'); cbn in *.
  - subst. destruct H as [H|H]; [right; auto|left; right; auto].
  - destruct H as [H|H]; [left; left; auto|]. apply IH in H. destruct H as [H|H]; [left; right; auto|right; auto].
Qed.

End Assoc.

Lemma alookup_fan : forall (l : list (string * option result)) r (v : result),
  alookup r (map (fun e => (fst e, Some v)) l) = match alookup r l with Some _ => Some (Some v) | None => None end.
Proof.
  induction l as [|[k w] t IH]; intros r v; cbn; auto. destruct (String.eqb r k); auto.
Qed.

Lemma keys_fan : forall (l : list (string * option result)) (v : result),
  map fst (map (fun e => (fst e, Some v)) l) = map fst l.
Proof. induction l as [|[k w] t IH]; intros v; cbn; auto. f_equal. auto. Qed.

Lemma amem_keys : forall (A : Type) (l l' : list (string * A)) r, map fst l = map fst l' -> amem r l = amem r l'.
Proof.
  unfold amem. induction l as [|[k v] t IH]; intros l' r E; destruct l' as [|[k' v'] t']; cbn in *; try discriminate; auto.
  injection E as -> E. destruct (String.eqb r k'); auto.
Qed.

Lemma str_in_true : forall r l, str_in r l = true <-> In r l.
Proof.
  induction l as [|x t IH]; cbn; [split; [discriminate|tauto]|].
  rewrite orb_true_iff, IH. split; intros [H|H]; auto.
  - left. apply String.eqb_eq in H. auto.
  - left. subst. apply String.eqb_refl.
Qed.

(* ------------------------------------------------------------------------------------------------ *)
(* 1. what a step does to the caller list                                                            *)
(* ------------------------------------------------------------------------------------------------ *)

Definition cview (c : caller) := (c_run c, c_pc c, c_after c).

Lemma deliver_view : forall (l : list caller) r, map cview (deliver l r) = map cview l.
Proof.
  induction l as [|c t IH]; intros r; cbn; auto.
  destruct (String.eqb (c_run c) r && c_sigfrom c); cbn; [reflexivity|f_equal; auto].
Qed.

Lemma cwrite_fields : forall (s s1 : state) m, cwrite s m = Some s1 ->
  callers s1 = callers s /\ entries s1 = entries s /\ cur s1 = cur s /\ from_server s1 = from_server s /\
  to_server s1 = to_server s ++ [m] /\ p_acc s1 = p_acc s /\ p_plan s1 = p_plan s /\ p_dead s1 = p_dead s /\
  p_fault s1 = p_fault s /\ wg s1 = wg s /\ closer s1 = closer s /\ cancelled s1 = cancelled s /\ cdone s1 = cdone s /\
  decoded s1 = decoded s /\ running s1 = running s /\ (wr_left s = None -> wr_left s1 = None) /\
  (wr_left s = Some 0 -> False).
Proof.
  intros s s1 m H. unfold cwrite in H.
  destruct (wr_left s) as [[|n]|] eqn:Hw; try discriminate; injection H as <-; cbn; repeat split; auto; try (intros; congruence).
Qed.

Lemma cwrite_fail : forall (s : state) m, cwrite s m = None -> wr_left s = Some 0.
Proof. intros s m H. unfold cwrite in H. destruct (wr_left s) as [[|n]|]; try discriminate; auto. Qed.

Lemma handle_view : forall (s : state) lo m, map cview (callers (handle s lo m)) = map cview (callers s).
Proof.
  intros s lo m. unfold handle, loop_exit, fan_out, send_result.
  destruct m; cbn; auto.
  - destruct (str_in run (sigchans s)); cbn; auto. apply deliver_view.
  - destruct server_fatal; cbn; auto. destruct step_fatal; cbn; auto. destruct (String.eqb run ""%string); cbn; auto.
Qed.

Ltac fin_caller Hc Hpc last :=
  eexists; split; [reflexivity|split; [exact Hc|split; [unfold caller_done; rewrite Hpc; reflexivity|]]];
  (split; [|split; [|last]]); reflexivity.

(* every step either leaves the (run, pc, after) view of every caller alone, or is a step of caller i that
   replaces caller i - which had not returned - by a caller with the same run id and predecessor *)
Lemma step_callers : forall (s s' : state) l, step s l = Some s' ->
  map cview (callers s') = map cview (callers s) \/
  exists i c c', l = LCaller i /\ nth_error (callers s) i = Some c /\ caller_done c = false /\
                 c_run c' = c_run c /\ c_after c' = c_after c /\ callers s' = upd (callers s) i c'.
Proof.
  intros s s' l H. destruct l; cbn [step] in H.
  - (* caller *)
    right. unfold step_caller in H. destruct (nth_error (callers s) i) as [c|] eqn:Hc; [|discriminate].
    exists i, c. destruct (c_pc c) eqn:Hpc.
    + destruct (negb (pred_done s c)); [discriminate|].
      destruct (c_hassig c); cbn in H; destruct (amem (c_run c) (entries s));
        try (destruct (c_sigfrom c); cbn in H; destruct (running s)); injection H as <-; fin_caller Hc Hpc ltac:(cbn; reflexivity).
    + destruct (cwrite s _) as [s1|] eqn:Hw; injection H as <-.
      * apply cwrite_fields in Hw. destruct Hw as (E1 & _). fin_caller Hc Hpc ltac:(cbn; rewrite E1; reflexivity).
      * fin_caller Hc Hpc ltac:(cbn; reflexivity).
    + destruct (alookup (c_run c) (entries s)) as [[r|]|]; injection H as <-; fin_caller Hc Hpc ltac:(cbn; reflexivity).
    + destruct (alookup (c_run c) (entries s)) as [[r|]|]; try discriminate; injection H as <-; fin_caller Hc Hpc ltac:(cbn; reflexivity).
    + discriminate.
  - (* sig *)
    left. unfold step_sig in H. destruct (nth_error (callers s) i) as [c|] eqn:Hc; [|discriminate].
    destruct (c_spc c); try discriminate.
    + destruct (cdone s); injection H as <-; cbn; eapply map_upd_same; eauto.
    + destruct (cancelled s); [injection H as <-; cbn; eapply map_upd_same; eauto|].
      destruct (c_sleft c).
      * destruct (c_sclose c); [|discriminate]. injection H as <-; cbn; eapply map_upd_same; eauto.
      * destruct (cwrite s _) as [s1|] eqn:Hw; injection H as <-; cbn.
        -- apply cwrite_fields in Hw. destruct Hw as (E1 & _). rewrite E1. eapply map_upd_same; eauto.
        -- eapply map_upd_same; eauto.
  - (* loop *)
    left. unfold step_loop in H. destruct (cur s) as [lo|]; [|discriminate].
    destruct (l_pc lo).
    + destruct (l_buf lo) as [|ev rest].
      * destruct (from_server s) as [|ev q]; [discriminate|]. destruct (is_fault ev).
        -- destruct (Nat.eqb k 0); [|discriminate]. destruct ev; injection H as <-; reflexivity.
        -- destruct (Nat.leb k (List.length q) && all_msgs (firstn k q)); [|discriminate].
           destruct ev; injection H as <-; reflexivity.
      * destruct (Nat.eqb k 0); [|discriminate]. destruct ev; injection H as <-; reflexivity.
    + destruct (Nat.eqb k 0); [|discriminate]. injection H as <-. apply handle_view.
    + destruct (Nat.eqb k 0); [|discriminate]. injection H as <-. reflexivity.
    + destruct (negb (Nat.eqb k 0)); [discriminate|]. destruct (has_pending (entries s)); injection H as <-; reflexivity.
    + discriminate.
  - (* closer *)
    left. unfold step_closer in H. destruct (closer s); try discriminate.
    + destruct (forallb _ _); [|discriminate]. injection H as <-. reflexivity.
    + destruct (cdone s); injection H as <-; reflexivity.
    + destruct (cwrite s _) as [s1|] eqn:Hw; injection H as <-; cbn; [|reflexivity].
      apply cwrite_fields in Hw. destruct Hw as (E1 & _). now rewrite E1.
    + destruct (Nat.eqb (wg s) 0); [|discriminate]. injection H as <-. reflexivity.
    + destruct (Nat.eqb (wg s) 0); [|discriminate]. injection H as <-. reflexivity.
  - left. unfold step_timeout in H. destruct (closer s); try discriminate.
    destruct (Nat.eqb (wg s) 0); [discriminate|]. injection H as <-. reflexivity.
  - left. unfold step_accept in H. destruct (to_server s) as [|m q]; [discriminate|].
    destruct m; injection H as <-; reflexivity.
  - left. unfold step_send in H. destruct (p_dead s || negb (str_in r (p_acc s))); [discriminate|].
    destruct (alookup r (p_plan s)) as [[|ev rest]|]; try discriminate.
    destruct (p_fault s) as [[[|n] f]|]; injection H as <-; reflexivity.
Qed.

Lemma cview_eq : forall a b : caller, cview a = cview b -> c_run a = c_run b /\ c_pc a = c_pc b /\ c_after a = c_after b.
Proof. unfold cview. intros a b H. repeat split; congruence. Qed.

Lemma view_run : forall l1 l2 : list caller, map cview l1 = map cview l2 -> map (@c_run payload) l1 = map (@c_run payload) l2.
Proof.
  induction l1 as [|x t IH]; intros l2 E; destruct l2 as [|y u]; try discriminate; auto.
  change (cview x :: map cview t = cview y :: map cview u) in E. injection E as E1 E2 E3 E4.
  cbn. rewrite E1. f_equal. auto.
Qed.

Lemma view_after : forall l1 l2 : list caller, map cview l1 = map cview l2 -> map (@c_after payload) l1 = map (@c_after payload) l2.
Proof.
  induction l1 as [|x t IH]; intros l2 E; destruct l2 as [|y u]; try discriminate; auto.
  change (cview x :: map cview t = cview y :: map cview u) in E. injection E as E1 E2 E3 E4.
  cbn. rewrite E3. f_equal. auto.
Qed.

Fixpoint after_ok (i : nat) (l : list (option nat)) : bool :=
  match l with
  | [] => true
  | a :: t => (match a with Some j => Nat.ltb j i | None => true end) && after_ok (S i) t
  end.

Lemma after_from_ok : forall (l : list caller) k, after_from k l = after_ok k (map (@c_after payload) l).
Proof. induction l as [|c t IH]; intros k; cbn; auto. now rewrite IH. Qed.

(* the brute-force destructor of a step hypothesis, for frame facts *)
Ltac bs H :=
  repeat (cbn beta iota zeta in H;
          match type of H with
          | None = Some _ => discriminate H
          | Some _ = Some _ => injection H as H; subst
          | context [if c_hassig ?c then _ else _] => destruct (c_hassig c) eqn:?
          | context [match ?x with _ => _ end] =>
              lazymatch x with
              | context [match _ with _ => _ end] => fail
              | _ => destruct x eqn:?
              end
          end).

(* the same for the matches left in the goal (the body of `handle`) *)
Ltac bg :=
  unfold handle, loop_exit;
  repeat (cbn;
          match goal with
          | |- context [match ?x with _ => _ end] =>
              lazymatch x with
              | context [match _ with _ => _ end] => fail
              | _ => destruct x eqn:?
              end
          end).

Ltac unfold_step H :=
  cbn [step] in H;
  unfold step_caller, step_sig, step_loop, step_closer, step_timeout, step_accept, step_send, cwrite in H.

(* ------------------------------------------------------------------------------------------------ *)
(* 2. invE: entries <-> callers                                                                      *)
(* ------------------------------------------------------------------------------------------------ *)

Definition inflight_pc (p : cpc payload) : bool := match p with CSend | CWait | CWaiting => true | _ => false end.

Record invE (s : state) : Prop := mkInvE {
  e_runs : NoDup (map (@c_run payload) (callers s));
  e_after : after_from 0 (callers s) = true;
  e_keys : NoDup (map fst (entries s));
  e_has : forall i c, nth_error (callers s) i = Some c -> inflight_pc (c_pc c) = true -> amem (c_run c) (entries s) = true;
  e_owner : forall r, amem r (entries s) = true -> exists i c, nth_error (callers s) i = Some c /\ c_run c = r /\
              (inflight_pc (c_pc c) = true \/ (c_pc c = CDone (RErr ErrWrite) /\ wr_left s = Some 0)) }.

Lemma in_keys_alookup : forall (A : Type) (l : list (string * A)) r, In r (map fst l) -> exists x, alookup r l = Some x.
Proof.
  induction l as [|[k v] t IH]; intros r H; cbn in *; [tauto|].
  destruct (String.eqb_spec r k); [eauto|]. destruct H as [H|H]; [congruence|auto].
Qed.

Lemma amem_false_notin : forall (A : Type) (l : list (string * A)) r, amem r l = false -> ~ In r (map fst l).
Proof. unfold amem. intros A l r H Hin. destruct (in_keys_alookup _ _ _ Hin) as [x Hx]. rewrite Hx in H. discriminate. Qed.

Lemma NoDup_app_single : forall (A : Type) (l : list A) x, NoDup l -> ~ In x l -> NoDup (l ++ [x]).
Proof.
  induction l as [|a t IH]; intros x N Hn; cbn.
  - constructor; [intros []|constructor].
  - inversion N as [|? ? Ha Nt]; subst. constructor.
    + intros Hc. apply in_app_or in Hc. destruct Hc as [Hc|[Hc|[]]]; [auto|]. subst. apply Hn. left; auto.
    + apply IH; auto. intros Hc. apply Hn. right; auto.
Qed.

Lemma invE_ext : forall s s1 : state, invE s -> map cview (callers s1) = map cview (callers s) ->
  map fst (entries s1) = map fst (entries s) -> (wr_left s = Some 0 -> wr_left s1 = Some 0) -> invE s1.
Proof.
  intros s s1 [R A K Hh Ho] Ev Ek Ew. constructor.
  - rewrite (view_run _ _ Ev). exact R.
  - rewrite after_from_ok, (view_after _ _ Ev), <- after_from_ok. exact A.
  - rewrite Ek. exact K.
  - intros i c1 Hc Hp. destruct (map_eq_nth _ _ cview _ _ _ _ Ev Hc) as [c [Hc' Evw]].
    apply cview_eq in Evw. destruct Evw as (Er & Epc & _).
    rewrite (amem_keys _ _ _ (c_run c1) Ek), <- Er. apply (Hh i c); auto. rewrite Epc; auto.
  - intros r Hm. rewrite (amem_keys _ _ _ r Ek) in Hm. destruct (Ho r Hm) as (i & c & Hc & Er & Hor).
    destruct (map_eq_nth _ _ cview _ _ _ _ (eq_sym Ev) Hc) as [c1 [Hc1 Evw]].
    apply cview_eq in Evw. destruct Evw as (Er1 & Epc1 & _).
    exists i, c1. split; auto. split; [congruence|]. rewrite Epc1. destruct Hor as [Hor|[Hor Hw]]; auto.
Qed.

Lemma invE_upd_pc : forall (s s1 : state) i c c',
  invE s -> nth_error (callers s) i = Some c -> callers s1 = upd (callers s) i c' ->
  c_run c' = c_run c -> c_after c' = c_after c ->
  entries s1 = entries s -> (wr_left s = Some 0 -> wr_left s1 = Some 0) ->
  (inflight_pc (c_pc c') = true -> amem (c_run c) (entries s) = true) ->
  (amem (c_run c) (entries s) = true -> inflight_pc (c_pc c') = true \/ (c_pc c' = CDone (RErr ErrWrite) /\ wr_left s1 = Some 0)) ->
  invE s1.
Proof.
  intros s s1 i c c' [R A K Hh Ho] Hc Ecs Er Ea Ee Ew H1 H2. constructor.
  - rewrite Ecs, (map_upd_same _ _ (@c_run payload) _ _ _ _ Hc Er). exact R.
  - rewrite Ecs, after_from_ok, (map_upd_same _ _ (@c_after payload) _ _ _ _ Hc Ea), <- after_from_ok. exact A.
  - rewrite Ee. exact K.
  - intros j d Hj Hp. rewrite Ecs in Hj. rewrite Ee. apply nth_error_upd_inv in Hj. destruct Hj as [[-> ->]|[Hne Hj]].
    + rewrite Er. auto.
    + eapply Hh; eauto.
  - intros r Hm. rewrite Ee in Hm. destruct (Ho r Hm) as (j & d & Hj & Hr & Hor).
    destruct (Nat.eq_dec j i) as [->|Hne].
    + rewrite Hc in Hj. injection Hj as <-. exists i, c'. rewrite Ecs. split; [eapply nth_error_upd_same; eauto|].
      split; [congruence|]. apply H2. rewrite Hr. exact Hm.
    + exists j, d. rewrite Ecs, nth_error_upd_other; auto. repeat split; auto. destruct Hor as [Hor|[Hor Hw]]; auto.
Qed.

Lemma invE_start : forall (s s1 : state) i c c',
  invE s -> nth_error (callers s) i = Some c -> c_pc c = CStart -> amem (c_run c) (entries s) = false ->
  callers s1 = upd (callers s) i c' -> c_run c' = c_run c -> c_after c' = c_after c -> c_pc c' = CSend ->
  entries s1 = entries s ++ [(c_run c, None)] -> wr_left s1 = wr_left s -> invE s1.
Proof.
  intros s s1 i c c' [R A K Hh Ho] Hc Hpc Hm Ecs Er Ea Epc Ee Ew. constructor.
  - rewrite Ecs, (map_upd_same _ _ (@c_run payload) _ _ _ _ Hc Er). exact R.
  - rewrite Ecs, after_from_ok, (map_upd_same _ _ (@c_after payload) _ _ _ _ Hc Ea), <- after_from_ok. exact A.
  - rewrite Ee, map_app. cbn. apply NoDup_app_single; auto. apply amem_false_notin; auto.
  - intros j d Hj Hp. rewrite Ecs in Hj. rewrite Ee. apply nth_error_upd_inv in Hj. destruct Hj as [[-> ->]|[Hne Hj]].
    + rewrite Er. unfold amem in *. destruct (alookup (c_run c) (entries s)) eqn:El; [discriminate|].
      rewrite (alookup_app_none _ _ _ _ El). cbn. rewrite String.eqb_refl. reflexivity.
    + specialize (Hh _ _ Hj Hp). unfold amem in *. destruct (alookup (c_run d) (entries s)) eqn:El; [|discriminate].
      rewrite (alookup_app_some _ _ _ _ _ El). reflexivity.
  - intros r Hmr. rewrite Ee in Hmr. destruct (amem r (entries s)) eqn:Hold.
    + destruct (Ho r Hold) as (j & d & Hj & Hr & Hor). destruct (Nat.eq_dec j i) as [->|Hne].
      * rewrite Hc in Hj. injection Hj as <-. rewrite Hpc in Hor. destruct Hor as [Hor|[Hor _]]; cbn in Hor; discriminate.
      * exists j, d. rewrite Ecs, nth_error_upd_other; auto. repeat split; auto. rewrite Ew. exact Hor.
    + exists i, c'. rewrite Ecs. split; [eapply nth_error_upd_same; eauto|]. split.
      * unfold amem in *. destruct (alookup r (entries s)) eqn:El; [discriminate|].
        rewrite (alookup_app_none _ _ _ _ El) in Hmr. cbn in Hmr.
        destruct (String.eqb_spec r (c_run c)); [congruence|discriminate].
      * left. rewrite Epc. reflexivity.
Qed.

Lemma invE_take : forall (s s1 : state) i c c' v,
  invE s -> nth_error (callers s) i = Some c -> callers s1 = upd (callers s) i c' ->
  c_run c' = c_run c -> c_after c' = c_after c -> c_pc c' = CDone v ->
  entries s1 = adel (c_run c) (entries s) -> wr_left s1 = wr_left s -> invE s1.
Proof.
  intros s s1 i c c' v [R A K Hh Ho] Hc Ecs Er Ea Epc Ee Ew. constructor.
  - rewrite Ecs, (map_upd_same _ _ (@c_run payload) _ _ _ _ Hc Er). exact R.
  - rewrite Ecs, after_from_ok, (map_upd_same _ _ (@c_after payload) _ _ _ _ Hc Ea), <- after_from_ok. exact A.
  - rewrite Ee. apply NoDup_adel; auto.
  - intros j d Hj Hp. rewrite Ecs in Hj. rewrite Ee. apply nth_error_upd_inv in Hj. destruct Hj as [[-> ->]|[Hne Hj]].
    + rewrite Epc in Hp. cbn in Hp. discriminate.
    + assert (c_run d <> c_run c) as Hr.
      { intros E. apply Hne. eapply NoDup_map_nth with (f := @c_run payload); eauto. }
      unfold amem. rewrite alookup_adel_other; auto. exact (Hh _ _ Hj Hp).
  - intros r Hmr. rewrite Ee in Hmr.
    assert (r <> c_run c) as Hr.
    { intros ->. unfold amem in Hmr. rewrite alookup_adel_same in Hmr; auto. discriminate. }
    unfold amem in Hmr. rewrite alookup_adel_other in Hmr; auto.
    destruct (Ho r Hmr) as (j & d & Hj & Hrd & Hor).
    assert (j <> i) as Hne. { intros ->. rewrite Hc in Hj. injection Hj as <-. congruence. }
    exists j, d. rewrite Ecs, nth_error_upd_other; auto. repeat split; auto. rewrite Ew. exact Hor.
Qed.

Lemma cwrite_ce : forall (s s1 : state) m, cwrite s m = Some s1 ->
  callers s1 = callers s /\ entries s1 = entries s /\ (wr_left s = Some 0 -> False).
Proof. intros s s1 m H. apply cwrite_fields in H. intuition. Qed.

Lemma invE_caller : forall (s : state) i s', invE s -> step_caller s i = Some s' -> invE s'.
Proof.
  intros s i s' IE H. unfold step_caller in H. destruct (nth_error (callers s) i) as [c|] eqn:Hc; [|discriminate].
  destruct (c_pc c) eqn:Hpc.
  - (* Start *)
    destruct (negb (pred_done s c)); [discriminate|].
    assert (amem (c_run c) (entries s) = false) as Hm.
    { destruct (amem (c_run c) (entries s)) eqn:Hm; auto. destruct (e_owner _ IE _ Hm) as (j & d & Hj & Hr & Hor).
      assert (j = i) by (eapply NoDup_map_nth with (f := @c_run payload); eauto using e_runs). subst j.
      rewrite Hc in Hj. injection Hj as <-. rewrite Hpc in Hor. destruct Hor as [Hor|[Hor _]]; cbn in Hor; discriminate. }
    destruct (c_hassig c); cbn in H; rewrite Hm in H; destruct (c_sigfrom c); cbn in H; destruct (running s); injection H as <-;
      (eapply invE_start; [exact IE|exact Hc|exact Hpc|exact Hm|reflexivity|reflexivity|reflexivity|reflexivity|reflexivity|reflexivity]).
  - (* Send *)
    destruct (cwrite s _) as [s1|] eqn:Hw; injection H as <-.
    + apply cwrite_ce in Hw. destruct Hw as (E1 & E2 & E3).
      eapply invE_upd_pc with (c := c) (c' := set_pc c CWait);
        [exact IE|exact Hc|cbn; rewrite E1; reflexivity|reflexivity|reflexivity|cbn; exact E2|intros Hz; exfalso; auto| |].
      * intros _. eapply (e_has _ IE); eauto. rewrite Hpc; reflexivity.
      * intros _. left; reflexivity.
    + pose proof (cwrite_fail _ _ Hw) as Hz.
      eapply invE_upd_pc with (c := c) (c' := set_pc c (CDone (RErr ErrWrite)));
        [exact IE|exact Hc|reflexivity|reflexivity|reflexivity|reflexivity|auto|cbn; discriminate|cbn; intros _; right; auto].
  - (* Wait *)
    assert (amem (c_run c) (entries s) = true) as Hm by (eapply (e_has _ IE); eauto; rewrite Hpc; reflexivity).
    destruct (alookup (c_run c) (entries s)) as [[v|]|] eqn:Hl; injection H as <-.
    + eapply invE_take with (c := c) (v := v); [exact IE|exact Hc|reflexivity|reflexivity|reflexivity|reflexivity|reflexivity|reflexivity].
    + eapply invE_upd_pc with (c := c) (c' := set_pc c CWaiting);
        [exact IE|exact Hc|reflexivity|reflexivity|reflexivity|reflexivity|auto|auto|intros _; left; reflexivity].
    + unfold amem in Hm. rewrite Hl in Hm. discriminate.
  - (* Waiting *)
    destruct (alookup (c_run c) (entries s)) as [[v|]|] eqn:Hl; try discriminate. injection H as <-.
    eapply invE_take with (c := c) (v := v); [exact IE|exact Hc|reflexivity|reflexivity|reflexivity|reflexivity|reflexivity|reflexivity].
  - discriminate.
Qed.

Lemma step_frameE : forall (s s' : state) l, step s l = Some s' -> (forall i, l <> LCaller i) ->
  map fst (entries s') = map fst (entries s) /\ (wr_left s = Some 0 -> wr_left s' = Some 0).
Proof.
  intros s s' l H N. destruct l; try (exfalso; eapply N; reflexivity); unfold_step H; bs H; bg; cbn; split; auto;
    try apply keys_aset; try apply keys_fan; try (intros; congruence).
Qed.

Theorem invE_step : forall (s s' : state) l, invE s -> step s l = Some s' -> invE s'.
Proof.
  intros s s' l IE H. destruct l; try (cbn [step] in H; eapply invE_caller; eauto; fail);
    (destruct (step_callers _ _ _ H) as [Ev|(j & c & c' & Hl & _)]; [|discriminate Hl]);
    (destruct (step_frameE _ _ _ H) as [Ek Ew]; [intros j; discriminate|]); eapply invE_ext; eauto.
Qed.

(* ------------------------------------------------------------------------------------------------ *)
(* 3. invW: wait-group accounting; invK: Close's bookkeeping                                         *)
(* ------------------------------------------------------------------------------------------------ *)

Definition sig_live (c : caller) : nat := match c_spc c with SCheck | SSelect => 1 | _ => 0 end.
Fixpoint n_sig (l : list caller) : nat := match l with [] => 0 | c :: t => sig_live c + n_sig t end.
Definition start_nosig (c : caller) : Prop := c_pc c = CStart -> c_spc c = SNone.

Record invW (s : state) : Prop := mkInvW {
  w_wg : wg s = n_sig (callers s) + (if loop_live (cur s) then 1 else 0);
  w_start : Forall start_nosig (callers s) }.

Lemma n_sig_upd : forall (l : list caller) i c c',
  nth_error l i = Some c -> n_sig (upd l i c') + sig_live c = n_sig l + sig_live c'.
Proof.
  induction l as [|x t IH]; intros i c c' H; destruct i; cbn in *; try discriminate.
  - injection H as ->. lia.
  - specialize (IH _ _ c' H). lia.
Qed.

Lemma n_sig_deliver : forall (l : list caller) r, n_sig (deliver l r) = n_sig l.
Proof.
  induction l as [|c t IH]; intros r; cbn; auto.
  destruct (String.eqb (c_run c) r && c_sigfrom c); cbn; unfold sig_live; cbn; auto.
Qed.

Lemma Forall_upd : forall (A : Type) (P : A -> Prop) (l : list A) i v, Forall P l -> P v -> Forall P (upd l i v).
Proof.
  induction l as [|x t IH]; intros i v F Hv; destruct i; cbn; auto; inversion F; subst; constructor; auto.
Qed.

Lemma Forall_nth : forall (A : Type) (P : A -> Prop) (l : list A) i x, Forall P l -> nth_error l i = Some x -> P x.
Proof. intros A P l i x F H. rewrite Forall_forall in F. apply F. eapply nth_error_In; eauto. Qed.

Lemma start_nosig_deliver : forall (l : list caller) r, Forall start_nosig l -> Forall start_nosig (deliver l r).
Proof.
  induction l as [|c t IH]; intros r F; cbn; auto. inversion F as [|? ? Hc Ht]; subst.
  destruct (String.eqb (c_run c) r && c_sigfrom c); constructor; auto.
Qed.

Lemma step_frameW : forall (s s' : state) l, step s l = Some s' ->
  (l = LCloser \/ l = LTimeout \/ l = LPeerAccept \/ exists r, l = LPeerSend r) ->
  wg s' = wg s /\ callers s' = callers s /\ cur s' = cur s.
Proof. intros s s' l H [->|[->|[->|[r ->]]]]; unfold_step H; bs H; cbn; auto. Qed.

Ltac w_upd Hc :=
  match goal with
  | |- context [n_sig (upd ?l ?i ?c')] => pose proof (n_sig_upd l i _ c' Hc)
  end.
Ltac wcall Hc W2 :=
  constructor; cbn;
  [w_upd Hc; unfold sig_live in *; cbn in *; lia
  |apply Forall_upd; [exact W2|]; unfold start_nosig; cbn; intros; discriminate].
Ltac wsig Hc Hsp Hns W2 :=
  constructor; cbn;
  [w_upd Hc; unfold sig_live in *; cbn in *; rewrite ?Hsp in *; lia
  |apply Forall_upd; [exact W2|]; unfold start_nosig; cbn; intros Hq; try discriminate; specialize (Hns Hq); discriminate].

Theorem invW_step : forall (s s' : state) l, invA s -> invW s -> step s l = Some s' -> invW s'.
Proof.
  intros s s' l IA [W1 W2] H. destruct l; cbn [step] in H.
  - (* caller *)
    unfold step_caller in H. destruct (nth_error (callers s) i) as [c|] eqn:Hc; [|discriminate].
    pose proof (Forall_nth _ _ _ _ _ W2 Hc) as Hns. unfold start_nosig in Hns.
    destruct (c_pc c) eqn:Hpc.
    + destruct (negb (pred_done s c)); [discriminate|]. specialize (Hns eq_refl).
      pose proof (a_running _ _ IA) as Hrun.
      destruct (c_hassig c); cbn in H; destruct (amem (c_run c) (entries s));
        try (destruct (c_sigfrom c); cbn in H; destruct (running s) eqn:Hr); injection H as <-;
        (constructor; cbn;
         [w_upd Hc; unfold sig_live in *; cbn in *; rewrite ?Hns in *; rewrite <- ?Hrun in *; cbn in *; lia
         |apply Forall_upd; [exact W2|]; unfold start_nosig; cbn; intros; discriminate]).
    + destruct (cwrite s _) as [s1|] eqn:Hw; injection H as <-.
      * apply cwrite_fields in Hw. destruct Hw as (E1 & _ & E3 & _ & _ & _ & _ & _ & _ & E10 & _).
        constructor; cbn; rewrite ?E1, ?E3, ?E10;
          [w_upd Hc; unfold sig_live in *; cbn in *; lia
          |apply Forall_upd; [exact W2|]; unfold start_nosig; cbn; intros; discriminate].
      * wcall Hc W2.
    + destruct (alookup (c_run c) (entries s)) as [[r|]|]; injection H as <-; wcall Hc W2.
    + destruct (alookup (c_run c) (entries s)) as [[r|]|]; try discriminate; injection H as <-; wcall Hc W2.
    + discriminate.
  - (* sig *)
    unfold step_sig in H. destruct (nth_error (callers s) i) as [c|] eqn:Hc; [|discriminate].
    pose proof (Forall_nth _ _ _ _ _ W2 Hc) as Hns. unfold start_nosig in Hns.
    destruct (c_spc c) eqn:Hsp; try discriminate.
    + destruct (cdone s); injection H as <-; wsig Hc Hsp Hns W2.
    + destruct (cancelled s); [injection H as <-; wsig Hc Hsp Hns W2|].
      destruct (c_sleft c).
      * destruct (c_sclose c); [|discriminate]. injection H as <-; wsig Hc Hsp Hns W2.
      * destruct (cwrite s _) as [s1|] eqn:Hw; injection H as <-.
        -- apply cwrite_fields in Hw. destruct Hw as (E1 & _ & E3 & _ & _ & _ & _ & _ & _ & E10 & _).
           constructor; cbn; rewrite ?E1, ?E3, ?E10;
             [w_upd Hc; unfold sig_live in *; cbn in *; rewrite ?Hsp in *; lia
             |apply Forall_upd; [exact W2|]; unfold start_nosig; cbn; intros Hq; specialize (Hns Hq); discriminate].
        -- wsig Hc Hsp Hns W2.
  - (* loop *)
    unfold step_loop in H. destruct (cur s) as [lo|] eqn:Hcur; [|discriminate].
    unfold loop_live in W1. destruct (l_pc lo) eqn:Hlp; cbn in W1.
    + destruct (l_buf lo) as [|ev rest].
      * destruct (from_server s) as [|ev q]; [discriminate|]. destruct (is_fault ev).
        -- destruct (Nat.eqb k 0); [|discriminate].
           destruct ev; injection H as <-; (constructor; cbn; [try destruct (needs_handling m); cbn; lia|exact W2]).
        -- destruct (Nat.leb k (List.length q) && all_msgs (firstn k q)); [|discriminate].
           destruct ev; injection H as <-; (constructor; cbn; [try destruct (needs_handling m); cbn; lia|exact W2]).
      * destruct (Nat.eqb k 0); [|discriminate].
        destruct ev; injection H as <-; (constructor; cbn; [try destruct (needs_handling m); cbn; lia|exact W2]).
    + destruct (Nat.eqb k 0); [|discriminate]. injection H as <-.
      unfold handle, loop_exit, fan_out, send_result.
      destruct m; cbn; repeat match goal with |- context [if ?b then _ else _] => destruct b; cbn end;
        constructor; cbn; rewrite ?n_sig_deliver; try lia; try exact W2; try (apply start_nosig_deliver; exact W2).
    + destruct (Nat.eqb k 0); [|discriminate]. injection H as <-. unfold loop_exit, fan_out.
      constructor; cbn; [lia|exact W2].
    + destruct (negb (Nat.eqb k 0)); [discriminate|].
      destruct (has_pending (entries s)); injection H as <-; unfold loop_exit; (constructor; cbn; [lia|exact W2]).
    + discriminate.
  - destruct (step_frameW s s' LCloser H) as (E1 & E2 & E3); [auto|]. constructor; rewrite ?E1, ?E2, ?E3; auto.
  - destruct (step_frameW s s' LTimeout H) as (E1 & E2 & E3); [auto|]. constructor; rewrite ?E1, ?E2, ?E3; auto.
  - destruct (step_frameW s s' LPeerAccept H) as (E1 & E2 & E3); [auto|]. constructor; rewrite ?E1, ?E2, ?E3; auto.
  - destruct (step_frameW s s' (LPeerSend r) H) as (E1 & E2 & E3); [eauto 6|]. constructor; rewrite ?E1, ?E2, ?E3; auto.
Qed.

Record invK (s : state) : Prop := mkInvK {
  k_cancel : match closer s with KNone | KCancel => True | _ => cancelled s = true end;
  k_nofail : wr_left s = None ->
             match closer s with KFailWait | KDone CloseErr | KDone ClosePanic => False | _ => True end }.

Lemma step_frameK : forall (s s' : state) l, step s l = Some s' -> l <> LCloser -> l <> LTimeout ->
  closer s' = closer s /\ cancelled s' = cancelled s /\ (wr_left s' = None -> wr_left s = None).
Proof.
  intros s s' l H N1 N2. destruct l; try congruence; unfold_step H; bs H; bg; cbn; repeat split; auto;
    try (intros; congruence).
Qed.

Theorem invK_step : forall (s s' : state) l, invK s -> step s l = Some s' -> invK s'.
Proof.
  intros s s' l [K1 K2] H.
  destruct l;
    try (destruct (step_frameK _ _ _ H) as (E1 & E2 & E3); [discriminate|discriminate|];
         constructor; rewrite ?E1, ?E2; [exact K1|intros Hn; apply K2; apply E3; exact Hn]).
  - cbn [step] in H. unfold step_closer in H. destruct (closer s) eqn:Hk; try discriminate.
    + destruct (forallb _ _); [|discriminate]. injection H as <-. constructor; cbn; auto.
    + destruct (cdone s); injection H as <-; constructor; cbn; auto.
    + destruct (cwrite s _) as [s1|] eqn:Hw; injection H as <-.
      * apply cwrite_fields in Hw. destruct Hw as (_ & _ & _ & _ & _ & _ & _ & _ & _ & _ & E11 & E12 & _).
        constructor; cbn; auto. rewrite E12. auto.
      * pose proof (cwrite_fail _ _ Hw) as Hz. constructor; cbn; auto. intros Hn. congruence.
    + destruct (Nat.eqb (wg s) 0); [|discriminate]. injection H as <-. constructor; cbn; auto.
    + destruct (Nat.eqb (wg s) 0); [|discriminate]. injection H as <-. constructor; cbn in *; auto.
  - cbn [step] in H. unfold step_timeout in H. destruct (closer s) eqn:Hk; try discriminate.
    destruct (Nat.eqb (wg s) 0); [discriminate|]. injection H as <-. constructor; cbn in *; auto.
Qed.

(* ------------------------------------------------------------------------------------------------ *)
(* 4. invP: every waiting caller's answer is in flight                                                *)
(* ------------------------------------------------------------------------------------------------ *)

(* handling m resolves the entry of run r (if there is one) *)
Definition resolves (r : runid) (m : msg) : bool :=
  match m with
  | WorkDone r' _ _ _ _ => String.eqb r' r
  | BadPayload id r' => Z.eqb id 2%Z && String.eqb r' r
  | ErrMsg r' sf vf => vf || (sf && (String.eqb r' ""%string || String.eqb r' r))
  | _ => false
  end.
(* an event that, once a read loop gets to it, ends the wait of run r: a resolving message or any stream fault *)
Definition decisive (r : runid) (e : event) : bool := match e with EvMsg m => resolves r m | _ => true end.
Definition is_ws (r : runid) (m : msg) : bool := match m with WorkStart r' _ _ => String.eqb r' r | _ => false end.
Definition script_dec (r : runid) (p : list (runid * list event)) : bool :=
  match alookup r p with Some evs => existsb (decisive r) evs | None => false end.
Definition held (r : runid) (o : option loop) : bool :=
  match o with
  | Some l => match l_pc l with
              | LExited => false
              | LFatal => true
              | LHandle m => resolves r m || existsb (decisive r) (l_buf l)
              | _ => existsb (decisive r) (l_buf l)
              end
  | None => false
  end.
Definition owed (r : runid) (s : state) : bool :=
  (existsb (is_ws r) (to_server s) || str_in r (p_acc s)) && script_dec r (p_plan s).
Definition in_flight (r : runid) (s : state) : bool :=
  existsb (decisive r) (from_server s) || held r (cur s) || owed r s.

Definition unsent_ok (r : runid) (s : state) : Prop :=
  existsb (is_ws r) (to_server s) = false /\ str_in r (p_acc s) = false /\ script_dec r (p_plan s) = true.

Record invP (s : state) : Prop := mkInvP {
  p_unsent : forall i c, nth_error (callers s) i = Some c -> (c_pc c = CStart \/ c_pc c = CSend) -> unsent_ok (c_run c) s;
  p_flight : forall i c, nth_error (callers s) i = Some c -> (c_pc c = CWait \/ c_pc c = CWaiting) ->
             alookup (c_run c) (entries s) = Some None -> in_flight (c_run c) s = true;
  p_deadf : p_dead s = true -> existsb (@is_fault payload) (from_server s) = true;
  p_faultok : match p_fault s with Some (_, f) => is_fault f = true | None => True end }.

Lemma resolves_needs : forall r (m : msg), resolves r m = true -> needs_handling m = true.
Proof.
  intros r m H. destruct m; cbn in *; auto.
  - destruct step_fatal, server_fatal; cbn in *; auto.
  - apply andb_true_iff in H. destruct H; auto.
Qed.

Lemma decisive_fault : forall r (e : event), is_fault e = true -> decisive r e = true.
Proof. intros r e H. destruct e; cbn in *; auto; discriminate. Qed.

Lemma all_msgs_no_fault : forall l : list event, all_msgs l = true -> existsb (@is_fault payload) l = false.
Proof.
  unfold all_msgs. induction l as [|e t IH]; cbn; auto. intros H. apply andb_true_iff in H. destruct H as [H1 H2].
  rewrite (IH H2). destruct (is_fault e); auto; discriminate.
Qed.

Lemma handle_pending : forall (s : state) lo m r,
  alookup r (entries (handle s lo m)) = Some None -> alookup r (entries s) = Some None /\ resolves r m = false.
Proof.
  intros s lo m r H. unfold handle, loop_exit, fan_out, send_result in H.
  destruct m; cbn in H |- *; auto.
  - destruct (String.eqb_spec run r) as [->|Hne].
    + rewrite alookup_aset_same in H. destruct (alookup r (entries s)); discriminate.
    + rewrite alookup_aset_other in H by congruence. auto.
  - destruct (str_in run (sigchans s)); cbn in H; auto.
  - destruct server_fatal; cbn in H |- *.
    + rewrite alookup_fan in H. destruct (alookup r (entries s)); discriminate.
    + destruct step_fatal; cbn in H |- *; auto.
      destruct (String.eqb_spec run ""%string); cbn in H |- *.
      * rewrite alookup_fan in H. destruct (alookup r (entries s)); discriminate.
      * destruct (String.eqb_spec run r) as [->|Hne].
        -- rewrite alookup_aset_same in H. destruct (alookup r (entries s)); discriminate.
        -- rewrite alookup_aset_other in H by congruence. auto.
  - destruct (String.eqb_spec run r) as [->|Hne].
    + rewrite alookup_aset_same in H. destruct (alookup r (entries s)); discriminate.
    + rewrite alookup_aset_other in H by congruence. rewrite andb_false_r. auto.
Qed.

Lemma handle_fields : forall (s : state) lo m,
  to_server (handle s lo m) = to_server s /\ from_server (handle s lo m) = from_server s /\
  p_acc (handle s lo m) = p_acc s /\ p_plan (handle s lo m) = p_plan s /\ p_dead (handle s lo m) = p_dead s /\
  p_fault (handle s lo m) = p_fault s.
Proof.
  intros s lo m. unfold handle, loop_exit, fan_out, send_result.
  destruct m; cbn; repeat match goal with |- context [if ?b then _ else _] => destruct b; cbn end; auto 10.
Qed.

Lemma handle_flight : forall (s : state) lo m r, cur s = Some lo -> l_pc lo = LHandle m -> resolves r m = false ->
  in_flight r s = true -> in_flight r (handle s lo m) = true.
Proof.
  intros s lo m r Hcur Hlp Hres Hf. unfold in_flight, owed, held in *. rewrite Hcur, Hlp, Hres in Hf. cbn in Hf.
  unfold handle, loop_exit, fan_out, send_result.
  destruct m; cbn; try exact Hf.
  - destruct (str_in run (sigchans s)); cbn; exact Hf.
  - cbn in Hres. destruct server_fatal; [discriminate|]. cbn.
    destruct step_fatal; cbn; [destruct (String.eqb run ""%string)|]; cbn; exact Hf.
Qed.

Lemma unsent_ext : forall (s s1 : state) r, to_server s1 = to_server s -> p_acc s1 = p_acc s -> p_plan s1 = p_plan s ->
  unsent_ok r s -> unsent_ok r s1.
Proof. unfold unsent_ok. intros s s1 r -> -> ->. auto. Qed.

(* transport along a caller list with the same view *)
Lemma view_nth : forall (s s1 : state) i c1, map cview (callers s1) = map cview (callers s) ->
  nth_error (callers s1) i = Some c1 ->
  exists c, nth_error (callers s) i = Some c /\ c_run c = c_run c1 /\ c_pc c = c_pc c1.
Proof.
  intros s s1 i c1 Ev Hc. destruct (map_eq_nth _ _ cview _ _ _ _ Ev Hc) as [c [Hc' Evw]].
  apply cview_eq in Evw. exists c. intuition.
Qed.

(* the general extension lemma: same caller view; pending entries were pending; in-flight and unsent facts carry over *)
Lemma invP_ext : forall s s1 : state, invP s -> map cview (callers s1) = map cview (callers s) ->
  (forall r, alookup r (entries s1) = Some None -> alookup r (entries s) = Some None) ->
  (forall r, alookup r (entries s1) = Some None -> in_flight r s = true -> in_flight r s1 = true) ->
  (forall r, unsent_ok r s -> unsent_ok r s1) ->
  (p_dead s1 = true -> existsb (@is_fault payload) (from_server s1) = true) ->
  match p_fault s1 with Some (_, f) => is_fault f = true | None => True end ->
  invP s1.
Proof.
  intros s s1 [P1 P2 P3 P4] Ev He Hf Hu Hd Hfo. constructor; auto.
  - intros i c1 Hc Hpc. destruct (view_nth _ _ _ _ Ev Hc) as (c & Hc' & Er & Epc). rewrite <- Er. apply Hu.
    eapply P1; eauto. rewrite Epc. exact Hpc.
  - intros i c1 Hc Hpc Hl. destruct (view_nth _ _ _ _ Ev Hc) as (c & Hc' & Er & Epc). rewrite <- Er in *.
    apply Hf; auto. eapply P2; eauto. rewrite Epc. exact Hpc.
Qed.

(* --- loop --- *)
Lemma invP_decode : forall (s s1 : state) lo ev buf,
  invP s -> cur s = Some lo -> l_pc lo = LDecode ->
  callers s1 = callers s -> entries s1 = entries s -> to_server s1 = to_server s -> p_acc s1 = p_acc s ->
  p_plan s1 = p_plan s -> p_dead s1 = p_dead s -> p_fault s1 = p_fault s ->
  cur s1 = Some (mkLoop (match ev with EvMsg m => if needs_handling m then LHandle m else LCheck | _ => LFatal end) buf) ->
  (forall r, existsb (decisive r) (from_server s) || existsb (decisive r) (l_buf lo) = true ->
             existsb (decisive r) (from_server s1) || (decisive r ev || existsb (decisive r) buf) = true) ->
  (existsb (@is_fault payload) (from_server s) = true -> existsb (@is_fault payload) (from_server s1) = true) ->
  invP s1.
Proof.
  intros s s1 lo ev buf IP Hcur Hlp Ec Ee Et Ea Epl Ed Ef Ecur Hfl Hfa.
  eapply invP_ext; [exact IP|now rewrite Ec|now rewrite Ee| |intros r; apply unsent_ext; auto| |rewrite Ef; apply (p_faultok _ IP)].
  - intros r _ Hin. unfold in_flight, owed, held in *. rewrite Hcur, Hlp in Hin. rewrite Ecur, Et, Ea, Epl. cbn [l_pc l_buf].
    match goal with |- _ || _ || ?o = true => destruct o; [apply orb_true_r|] end.
    rewrite orb_false_r in *. specialize (Hfl _ Hin).
    destruct ev as [m|h| | | |]; cbn [decisive] in Hfl; try (apply orb_true_r).
    destruct (needs_handling m) eqn:Hn; [exact Hfl|].
    destruct (resolves r m) eqn:Hr; [apply resolves_needs in Hr; congruence|]. exact Hfl.
  - rewrite Ed. intros Hd. apply Hfa. apply (p_deadf _ IP Hd).
Qed.

Definition after_dec (ev : event) (buf : list event) (s0 : state) : option state :=
  match ev with
  | EvMsg m => Some (set_decoded (set_cur s0 (Some (mkLoop (if needs_handling m then LHandle m else LCheck) buf))) (decoded s0 ++ [m]))
  | _ => Some (set_cur s0 (Some (mkLoop LFatal buf)))
  end.

Lemma after_dec_fields : forall ev buf (s0 s1 : state), after_dec ev buf s0 = Some s1 ->
  callers s1 = callers s0 /\ entries s1 = entries s0 /\ to_server s1 = to_server s0 /\ p_acc s1 = p_acc s0 /\
  p_plan s1 = p_plan s0 /\ p_dead s1 = p_dead s0 /\ p_fault s1 = p_fault s0 /\ from_server s1 = from_server s0 /\
  cur s1 = Some (mkLoop (match ev with EvMsg m => if needs_handling m then LHandle m else LCheck | _ => LFatal end) buf).
Proof. intros ev buf s0 s1 H. destruct ev; injection H as <-; cbn; repeat split; reflexivity. Qed.

Lemma invP_loop : forall (s s' : state) k, invP s -> step_loop s k = Some s' -> invP s'.
Proof.
  intros s s' k IP H. unfold step_loop in H. destruct (cur s) as [lo|] eqn:Hcur; [|discriminate].
  destruct (l_pc lo) eqn:Hlp.
  - (* decode *)
    destruct (l_buf lo) as [|ev rest] eqn:Hb.
    + destruct (from_server s) as [|ev q] eqn:Hfs; [discriminate|]. destruct (is_fault ev) eqn:Hfa.
      * destruct (Nat.eqb k 0); [|discriminate]. change (after_dec ev [] s = Some s') in H.
        destruct (after_dec_fields _ _ _ _ H) as (E1 & E2 & E3 & E4 & E5 & E6 & E7 & E8 & E9).
        eapply invP_decode with (ev := ev) (buf := []); eauto.
        -- intros r _. rewrite (decisive_fault r _ Hfa). apply orb_true_r.
        -- now rewrite E8.
      * destruct (Nat.leb k (List.length q) && all_msgs (firstn k q)) eqn:Hk; [|discriminate].
        apply andb_true_iff in Hk. destruct Hk as [_ Hk].
        change (after_dec ev (firstn k q) (set_from_server s (skipn k q)) = Some s') in H.
        destruct (after_dec_fields _ _ _ _ H) as (E1 & E2 & E3 & E4 & E5 & E6 & E7 & E8 & E9). cbn in E1, E2, E3, E4, E5, E6, E7, E8.
        eapply invP_decode with (ev := ev) (buf := firstn k q); eauto.
        -- intros r Hr. rewrite E8, Hfs, Hb in *. cbn in Hr. rewrite orb_false_r in Hr.
           rewrite (existsb_firstn_skipn _ (decisive r) k q) in Hr.
           destruct (decisive r ev); cbn in *; [apply orb_true_r|]. rewrite orb_comm. exact Hr.
        -- rewrite E8, Hfs. cbn. rewrite Hfa. cbn. intros Hx.
           rewrite (existsb_firstn_skipn _ _ k q), (all_msgs_no_fault _ Hk) in Hx. exact Hx.
    + destruct (Nat.eqb k 0); [|discriminate]. change (after_dec ev rest s = Some s') in H.
      destruct (after_dec_fields _ _ _ _ H) as (E1 & E2 & E3 & E4 & E5 & E6 & E7 & E8 & E9).
      eapply invP_decode with (ev := ev) (buf := rest); eauto.
      * intros r Hr. rewrite E8, Hb in *. exact Hr.
      * now rewrite E8.
  - (* handle *)
    destruct (Nat.eqb k 0); [|discriminate]. injection H as <-.
    destruct (handle_fields s lo m) as (E1 & E2 & E3 & E4 & E5 & E6).
    eapply invP_ext; [exact IP|apply handle_view| | | | |].
    + intros r Hl. apply handle_pending in Hl. tauto.
    + intros r Hl Hin. apply handle_pending in Hl. destruct Hl as [_ Hres]. apply handle_flight; auto.
    + intros r. apply unsent_ext; auto.
    + rewrite E5, E2. apply (p_deadf _ IP).
    + rewrite E6. apply (p_faultok _ IP).
  - (* fatal *)
    destruct (Nat.eqb k 0); [|discriminate]. injection H as <-. unfold loop_exit, fan_out.
    eapply invP_ext; [exact IP|reflexivity| | | | |]; cbn.
    + intros r Hl. rewrite alookup_fan in Hl. destruct (alookup r (entries s)); discriminate.
    + intros r Hl. rewrite alookup_fan in Hl. destruct (alookup r (entries s)); discriminate.
    + intros r. apply unsent_ext; reflexivity.
    + apply (p_deadf _ IP).
    + apply (p_faultok _ IP).
  - (* check *)
    destruct (negb (Nat.eqb k 0)); [discriminate|]. destruct (has_pending (entries s)) eqn:Hp; injection H as <-.
    + eapply invP_ext; [exact IP|reflexivity|auto| | | |]; cbn.
      * intros r _ Hin. unfold in_flight, owed, held in *. rewrite Hcur, Hlp in Hin. cbn in Hin |- *. exact Hin.
      * intros r. apply unsent_ext; reflexivity.
      * apply (p_deadf _ IP).
      * apply (p_faultok _ IP).
    + unfold loop_exit. eapply invP_ext; [exact IP|reflexivity|auto| | | |]; cbn.
      * intros r Hl _. apply alookup_none_pending in Hl. congruence.
      * intros r. apply unsent_ext; reflexivity.
      * apply (p_deadf _ IP).
      * apply (p_faultok _ IP).
  - discriminate.
Qed.

(* --- steps that touch neither entries nor the streams' heads: signal writers, Close, the timer --- *)
Lemma invP_frame : forall s s1 : state, invP s -> map cview (callers s1) = map cview (callers s) -> entries s1 = entries s ->
  from_server s1 = from_server s -> cur s1 = cur s -> p_acc s1 = p_acc s -> p_plan s1 = p_plan s -> p_dead s1 = p_dead s ->
  p_fault s1 = p_fault s ->
  (to_server s1 = to_server s \/ exists m, to_server s1 = to_server s ++ [m] /\ forall r, is_ws r m = false) -> invP s1.
Proof.
  intros s s1 IP Ev Ee Ef Ec Ea Epl Ed Efa Ht.
  assert (forall r, existsb (is_ws r) (to_server s1) = existsb (is_ws r) (to_server s)) as Hw.
  { intros r. destruct Ht as [->|[m [-> Hm]]]; auto. rewrite existsb_app. cbn. rewrite Hm. rewrite !orb_false_r. reflexivity. }
  eapply invP_ext; [exact IP|exact Ev|now rewrite Ee| | | |].
  - intros r _ Hin. unfold in_flight, owed in *. rewrite Ef, Ec, Ea, Epl, Hw. exact Hin.
  - intros r. unfold unsent_ok. rewrite Ea, Epl, Hw. auto.
  - rewrite Ed, Ef. apply (p_deadf _ IP).
  - rewrite Efa. apply (p_faultok _ IP).
Qed.

Lemma step_frameP : forall (s s' : state) l, step s l = Some s' -> ((exists i, l = LSig i) \/ l = LCloser \/ l = LTimeout) ->
  entries s' = entries s /\ from_server s' = from_server s /\ cur s' = cur s /\ p_acc s' = p_acc s /\ p_plan s' = p_plan s /\
  p_dead s' = p_dead s /\ p_fault s' = p_fault s /\
  (to_server s' = to_server s \/ exists m, to_server s' = to_server s ++ [m] /\ forall r, is_ws r m = false).
Proof.
  intros s s' l H [[i ->]|[ -> | -> ]]; unfold_step H; bs H; cbn; repeat split; auto;
    right; eexists; (split; [reflexivity|intros; reflexivity]).
Qed.

(* --- the peer accepts a client message --- *)
Lemma bool_accept : forall F H e W A S : bool, F || H || ((e || W || A) && S) = true -> F || H || ((W || (e || A)) && S) = true.
Proof. intros [] [] [] [] [] []; cbn; auto. Qed.

Lemma invP_accept : forall (s s' : state), invP s -> step_accept s = Some s' -> invP s'.
Proof.
  intros s s' IP H. unfold step_accept in H. destruct (to_server s) as [|m q] eqn:Ht; [discriminate|].
  assert (forall r, unsent_ok r s -> existsb (is_ws r) q = false /\ is_ws r m = false /\ str_in r (p_acc s) = false /\ script_dec r (p_plan s) = true) as Hu.
  { intros r (U1 & U2 & U3). rewrite Ht in U1. cbn in U1. apply orb_false_elim in U1. tauto. }
  destruct m; injection H as <-; (eapply invP_ext; [exact IP|reflexivity|auto| | | |]; cbn;
    [intros r _ Hin; unfold in_flight, owed in *; rewrite Ht in Hin; cbn in Hin |- *
    |intros r U; destruct (Hu r U) as (U1 & U2 & U3 & U4); unfold unsent_ok; cbn in *
    |apply (p_deadf _ IP)|apply (p_faultok _ IP)]); try exact Hin; auto.
  - rewrite (String.eqb_sym r run). apply bool_accept. exact Hin.
  - rewrite (String.eqb_sym r run), U2. auto.
Qed.

(* --- the peer sends the next event of an accepted run (or the scripted fault instead) --- *)
Lemma bool_send_same : forall F H X d R : bool, F || H || (X && (d || R)) = true -> F || (d || false) || H || (X && R) = true.
Proof. intros [] [] [] [] []; cbn; auto. Qed.
Lemma bool_send_other : forall F H O d : bool, F || H || O = true -> F || (d || false) || H || O = true.
Proof. intros [] [] [] []; cbn; auto. Qed.

Lemma send_flight : forall (s : state) r0 ev rest r, alookup r0 (p_plan s) = Some (ev :: rest) -> in_flight r s = true ->
  existsb (decisive r) (from_server s ++ [ev]) || held r (cur s) ||
  ((existsb (is_ws r) (to_server s) || str_in r (p_acc s)) && script_dec r (aset r0 rest (p_plan s))) = true.
Proof.
  intros s r0 ev rest r Hpl Hin. unfold in_flight, owed in Hin. rewrite existsb_app. cbn [existsb].
  destruct (String.eqb_spec r r0) as [->|Hne].
  - unfold script_dec in *. rewrite alookup_aset_same, Hpl. rewrite Hpl in Hin. cbn [existsb] in Hin.
    apply bool_send_same. exact Hin.
  - unfold script_dec in *. rewrite alookup_aset_other by auto. apply bool_send_other. exact Hin.
Qed.

Lemma send_unsent : forall (s : state) r0 rest r, str_in r0 (p_acc s) = true -> unsent_ok r s ->
  existsb (is_ws r) (to_server s) = false /\ str_in r (p_acc s) = false /\ script_dec r (aset r0 rest (p_plan s)) = true.
Proof.
  intros s r0 rest r Hacc (U1 & U2 & U3). repeat split; auto.
  assert (r <> r0) by (intros ->; congruence). unfold script_dec in *. rewrite alookup_aset_other by auto. exact U3.
Qed.

Lemma invP_send : forall (s s' : state) r0, invP s -> step_send s r0 = Some s' -> invP s'.
Proof.
  intros s s' r0 IP H. unfold step_send in H. destruct (p_dead s || negb (str_in r0 (p_acc s))) eqn:Hd; [discriminate|].
  apply orb_false_elim in Hd. destruct Hd as [Hdead Hacc]. apply negb_false_iff in Hacc.
  destruct (alookup r0 (p_plan s)) as [[|ev rest]|] eqn:Hpl; try discriminate.
  pose proof (p_faultok _ IP) as Hfo.
  destruct (p_fault s) as [[[|n] f]|] eqn:Hpf; injection H as <-.
  - eapply invP_ext; [exact IP|reflexivity|auto| | | |]; cbn.
    + intros r _ Hin. unfold in_flight, owed in *. cbn. rewrite existsb_app. cbn. rewrite (decisive_fault r f Hfo).
      rewrite !orb_true_r. reflexivity.
    + intros r. apply unsent_ext; reflexivity.
    + intros _. rewrite existsb_app. cbn. rewrite Hfo. apply orb_true_r.
    + rewrite Hpf. exact Hfo.
  - eapply invP_ext; [exact IP|reflexivity|auto| | | |]; cbn.
    + intros r _ Hin. unfold in_flight, owed. cbn. apply send_flight; auto.
    + intros r U. unfold unsent_ok. cbn. apply send_unsent; auto.
    + rewrite Hdead. discriminate.
    + exact Hfo.
  - eapply invP_ext; [exact IP|reflexivity|auto| | | |]; cbn.
    + intros r _ Hin. unfold in_flight, owed. cbn. apply send_flight; auto.
    + intros r U. unfold unsent_ok. cbn. apply send_unsent; auto.
    + rewrite Hdead. discriminate.
    + rewrite Hpf. exact I.
Qed.

(* --- a caller step --- *)
Lemma in_flight_ext : forall (s s1 : state) r, from_server s1 = from_server s -> cur s1 = cur s -> to_server s1 = to_server s ->
  p_acc s1 = p_acc s -> p_plan s1 = p_plan s -> in_flight r s1 = in_flight r s.
Proof. intros s s1 r E1 E2 E3 E4 E5. unfold in_flight, owed. rewrite E1, E2, E3, E4, E5. reflexivity. Qed.

Lemma alookup_app_other : forall (A : Type) (l : list (string * A)) k v r, r <> k -> alookup r (l ++ [(k, v)]) = alookup r l.
Proof.
  induction l as [|[k' w] t IH]; intros k v r H; cbn.
  - destruct (String.eqb_spec r k); [congruence|reflexivity].
  - destruct (String.eqb r k'); auto.
Qed.

Lemma invP_upd : forall (s s1 : state) i c c',
  invE s -> invP s -> nth_error (callers s) i = Some c -> callers s1 = upd (callers s) i c' -> c_run c' = c_run c ->
  (forall r, r <> c_run c -> unsent_ok r s -> unsent_ok r s1) ->
  (forall r, r <> c_run c -> alookup r (entries s1) = Some None ->
             alookup r (entries s) = Some None /\ (in_flight r s = true -> in_flight r s1 = true)) ->
  ((c_pc c' = CStart \/ c_pc c' = CSend) -> unsent_ok (c_run c) s1) ->
  ((c_pc c' = CWait \/ c_pc c' = CWaiting) -> alookup (c_run c) (entries s1) = Some None -> in_flight (c_run c) s1 = true) ->
  (p_dead s1 = true -> existsb (@is_fault payload) (from_server s1) = true) ->
  match p_fault s1 with Some (_, f) => is_fault f = true | None => True end ->
  invP s1.
Proof.
  intros s s1 i c c' IE IP Hc Ecs Er Hou Hof Hsu Hsf Hd Hfo. constructor; auto.
  - intros j d Hj Hpc. rewrite Ecs in Hj. apply nth_error_upd_inv in Hj. destruct Hj as [[-> ->]|[Hne Hj]].
    + rewrite Er. auto.
    + assert (c_run d <> c_run c) as Hr.
      { intros E. apply Hne. eapply NoDup_map_nth with (f := @c_run payload); eauto using e_runs. }
      apply Hou; auto. eapply (p_unsent _ IP); eauto.
  - intros j d Hj Hpc Hl. rewrite Ecs in Hj. apply nth_error_upd_inv in Hj. destruct Hj as [[-> ->]|[Hne Hj]].
    + rewrite Er in *. auto.
    + assert (c_run d <> c_run c) as Hr.
      { intros E. apply Hne. eapply NoDup_map_nth with (f := @c_run payload); eauto using e_runs. }
      destruct (Hof _ Hr Hl) as [Hl0 Hin]. apply Hin. eapply (p_flight _ IP); eauto.
Qed.

Lemma bool_ts_app : forall F H W X A S : bool, F || H || ((W || A) && S) = true -> F || H || ((W || (X || false) || A) && S) = true.
Proof. intros [] [] [] [] [] []; cbn; auto. Qed.
Lemma bool_self_sent : forall F H W A : bool, F || H || ((W || (true || false) || A) && true) = true.
Proof. intros [] [] [] []; reflexivity. Qed.

Ltac same_other := intros r _ Hl; split; [exact Hl|]; intros Hin; erewrite in_flight_ext; [exact Hin|reflexivity..].
Ltac no_self := intros [Hq|Hq]; cbn in Hq; discriminate Hq.

Lemma invP_caller : forall (s : state) i s', invA s -> invE s -> invP s -> step_caller s i = Some s' -> invP s'.
Proof.
  intros s i s' IA IE IP H. unfold step_caller in H. destruct (nth_error (callers s) i) as [c|] eqn:Hc; [|discriminate].
  pose proof (p_deadf _ IP) as Hd. pose proof (p_faultok _ IP) as Hfo.
  destruct (c_pc c) eqn:Hpc.
  - (* Start *)
    destruct (negb (pred_done s c)); [discriminate|].
    assert (unsent_ok (c_run c) s) as Hus by (eapply (p_unsent _ IP); eauto).
    destruct (c_hassig c); cbn in H; destruct (amem (c_run c) (entries s));
      try (destruct (c_sigfrom c); cbn in H; destruct (running s) eqn:Hr); injection H as <-;
      (eapply invP_upd with (c := c); [exact IE|exact IP|exact Hc|reflexivity|reflexivity| | | | |exact Hd|exact Hfo]; cbn;
       [intros r _; apply unsent_ext; reflexivity
       |intros r Hne Hl; try rewrite alookup_app_other in Hl by auto; split; [exact Hl|];
        first [intros Hin; erewrite in_flight_ext; [exact Hin|reflexivity..]
              |exfalso; pose proof (alookup_none_pending _ _ _ Hl) as Hp; pose proof (a_pending _ _ IA Hp) as Hlive;
               rewrite <- (a_running _ _ IA) in Hlive; congruence]
       |intros _; revert Hus; apply unsent_ext; reflexivity
       |no_self]).
  - (* Send *)
    assert (unsent_ok (c_run c) s) as Hus by (eapply (p_unsent _ IP); eauto).
    destruct (cwrite s _) as [s1|] eqn:Hw; injection H as <-.
    + apply cwrite_fields in Hw. destruct Hw as (E1 & E2 & E3 & E4 & E5 & E6 & E7 & E8 & E9 & _).
      eapply invP_upd with (c := c); [exact IE|exact IP|exact Hc|cbn; rewrite E1; reflexivity|reflexivity| | | | | |]; cbn.
      * intros r Hne (U1 & U2 & U3). unfold unsent_ok. cbn. rewrite E5, E6, E7, existsb_app. cbn.
        destruct (String.eqb_spec (c_run c) r); [congruence|]. rewrite U1. auto.
      * intros r Hne Hl. rewrite E2 in Hl. split; [exact Hl|]. intros Hin. unfold in_flight, owed in *. cbn.
        rewrite E3, E4, E5, E6, E7, existsb_app. cbn [existsb]. apply bool_ts_app. exact Hin.
      * no_self.
      * intros _ _. destruct Hus as (U1 & U2 & U3). unfold in_flight, owed. cbn. rewrite E5, E7, existsb_app. cbn.
        rewrite String.eqb_refl, U3. apply bool_self_sent.
      * rewrite E8, E4. exact Hd.
      * rewrite E9. exact Hfo.
    + eapply invP_upd with (c := c); [exact IE|exact IP|exact Hc|reflexivity|reflexivity| | | | |exact Hd|exact Hfo]; cbn.
      * intros r _; apply unsent_ext; reflexivity.
      * same_other.
      * no_self.
      * no_self.
  - (* Wait *)
    destruct (alookup (c_run c) (entries s)) as [[v|]|] eqn:Hl0; injection H as <-.
    + eapply invP_upd with (c := c); [exact IE|exact IP|exact Hc|reflexivity|reflexivity| | | | |exact Hd|exact Hfo]; cbn.
      * intros r _; apply unsent_ext; reflexivity.
      * intros r Hne Hl. rewrite alookup_adel_other in Hl by auto. split; [exact Hl|].
        intros Hin; erewrite in_flight_ext; [exact Hin|reflexivity..].
      * no_self.
      * no_self.
    + eapply invP_upd with (c := c); [exact IE|exact IP|exact Hc|reflexivity|reflexivity| | | | |exact Hd|exact Hfo]; cbn.
      * intros r _; apply unsent_ext; reflexivity.
      * same_other.
      * no_self.
      * intros _ Hl. erewrite in_flight_ext; [|reflexivity..]. eapply (p_flight _ IP); eauto.
    + eapply invP_upd with (c := c); [exact IE|exact IP|exact Hc|reflexivity|reflexivity| | | | |exact Hd|exact Hfo]; cbn.
      * intros r _; apply unsent_ext; reflexivity.
      * same_other.
      * no_self.
      * no_self.
  - (* Waiting *)
    destruct (alookup (c_run c) (entries s)) as [[v|]|] eqn:Hl0; try discriminate. injection H as <-.
    eapply invP_upd with (c := c); [exact IE|exact IP|exact Hc|reflexivity|reflexivity| | | | |exact Hd|exact Hfo]; cbn.
    + intros r _; apply unsent_ext; reflexivity.
    + intros r Hne Hl. rewrite alookup_adel_other in Hl by auto. split; [exact Hl|].
      intros Hin; erewrite in_flight_ext; [exact Hin|reflexivity..].
    + no_self.
    + no_self.
  - discriminate.
Qed.

(* ------------------------------------------------------------------------------------------------ *)
(* 5. the invariant, all together: inductive                                                          *)
(* ------------------------------------------------------------------------------------------------ *)

Record inv (s : state) : Prop := mkInv { i_A : invA s; i_E : invE s; i_W : invW s; i_K : invK s; i_P : invP s }.

Lemma invP_step : forall (s s' : state) l, invA s -> invE s -> invP s -> step s l = Some s' -> invP s'.
Proof.
  intros s s' l IA IE IP H. destruct l as [i|i|k| | | |r].
  - cbn [step] in H. eapply invP_caller; eauto.
  - destruct (step_callers s s' (LSig i) H) as [Ev|(j & c & c' & Hl & _)]; [|discriminate Hl].
    destruct (step_frameP s s' (LSig i) H) as (E1 & E2 & E3 & E4 & E5 & E6 & E7 & E8); [eauto|]. eapply invP_frame; eauto.
  - cbn [step] in H. eapply invP_loop; eauto.
  - destruct (step_callers s s' LCloser H) as [Ev|(j & c & c' & Hl & _)]; [|discriminate Hl].
    destruct (step_frameP s s' LCloser H) as (E1 & E2 & E3 & E4 & E5 & E6 & E7 & E8); [auto|]. eapply invP_frame; eauto.
  - destruct (step_callers s s' LTimeout H) as [Ev|(j & c & c' & Hl & _)]; [|discriminate Hl].
    destruct (step_frameP s s' LTimeout H) as (E1 & E2 & E3 & E4 & E5 & E6 & E7 & E8); [auto|]. eapply invP_frame; eauto.
  - cbn [step] in H. eapply invP_accept; eauto.
  - cbn [step] in H. eapply invP_send; eauto.
Qed.

Theorem inv_step : forall (s : state) l s', inv s -> step s l = Some s' -> inv s'.
Proof.
  intros s l s' [IA IE IW IK IP] H. constructor.
  - eapply invA_step; eauto.
  - eapply invE_step; eauto.
  - eapply invW_step; eauto.
  - eapply invK_step; eauto.
  - eapply invP_step; eauto.
Qed.

Theorem inv_run : forall ls (s s' : state), inv s -> run s ls = Some s' -> inv s'.
Proof.
  induction ls as [|l t IH]; intros s s' I H; cbn in H.
  - now injection H as <-.
  - destruct (step s l) as [s1|] eqn:Hs; [|discriminate]. eapply IH; [|exact H]. eapply inv_step; eauto.
Qed.

(* sessions: distinct run ids, every call comes after its predecessor on the lane, the peer's script for every call's
   run holds an event that ends the call (a terminal message of the run, an error for all runs, or a stream fault), and
   the scripted fault, if any, is a fault of the stream (not a message) *)
Definition wf_session (se : session) : Prop :=
  NoDup (map (@cs_run payload) (se_calls se)) /\ after_ok 0 (map (@cs_after payload) (se_calls se)) = true.
Definition answered (se : session) : Prop :=
  forall c, In c (se_calls se) -> script_dec (cs_run c) (se_plan se) = true.
Definition fault_ok (se : session) : Prop :=
  match se_fault se with Some (_, f) => is_fault f = true | None => True end.
Definition good_session (se : session) : Prop := wf_session se /\ answered se /\ fault_ok se.

Lemma init_runs : forall l : list (callspec payload), map (@c_run payload) (map (@init_caller payload) l) = map (@cs_run payload) l.
Proof. induction l as [|x t IH]; cbn; auto. f_equal. auto. Qed.
Lemma init_afters : forall l : list (callspec payload), map (@c_after payload) (map (@init_caller payload) l) = map (@cs_after payload) l.
Proof. induction l as [|x t IH]; cbn; auto. f_equal. auto. Qed.
Lemma init_nth : forall (l : list (callspec payload)) i c, nth_error (map (@init_caller payload) l) i = Some c ->
  exists x, In x l /\ c = init_caller x.
Proof.
  intros l i c H. apply nth_error_In in H. apply in_map_iff in H. destruct H as [x [E Hin]]. eauto.
Qed.
Lemma init_nsig : forall l : list (callspec payload), n_sig (map (@init_caller payload) l) = 0.
Proof. induction l as [|x t IH]; cbn; auto. Qed.
Lemma init_nosig : forall l : list (callspec payload), Forall start_nosig (map (@init_caller payload) l).
Proof. induction l as [|x t IH]; cbn; constructor; auto. intros _. reflexivity. Qed.

Theorem inv_init : forall se : session, good_session se -> inv (init se).
Proof.
  intros se ((N & Aft) & Ans & Fo). constructor.
  - apply invA_init.
  - constructor; cbn.
    + rewrite init_runs. exact N.
    + rewrite after_from_ok, init_afters. exact Aft.
    + constructor.
    + intros i c Hc Hp. apply init_nth in Hc. destruct Hc as (x & _ & ->). cbn in Hp. discriminate.
    + intros r Hm. discriminate.
  - constructor; cbn.
    + rewrite init_nsig. reflexivity.
    + apply init_nosig.
  - constructor; cbn; destruct (se_close se); auto.
  - constructor; cbn.
    + intros i c Hc _. apply init_nth in Hc. destruct Hc as (x & Hin & ->). unfold unsent_ok. cbn. auto.
    + intros i c Hc [Hp|Hp] _; apply init_nth in Hc; destruct Hc as (x & _ & ->); cbn in Hp; discriminate.
    + discriminate.
    + exact Fo.
Qed.

Theorem inv_reachable : forall (se : session) ls s, good_session se -> run (init se) ls = Some s -> inv s.
Proof. intros se ls s G H. eapply inv_run; [apply inv_init; exact G|exact H]. Qed.

(* ------------------------------------------------------------------------------------------------ *)
(* 6. the invariant implies the executable side condition flight_ok of ATP/Client.v                   *)
(* ------------------------------------------------------------------------------------------------ *)

Theorem inv_flight_ok : forall s : state, inv s -> flight_ok s = true.
Proof.
  intros s [IA IE IW IK IP]. unfold flight_ok. apply andb_true_iff. split; [apply andb_true_iff; split|].
  - unfold waiting_has_entry. apply forallb_forall. intros c Hin. apply In_nth_error in Hin. destruct Hin as [i Hi].
    destruct (c_pc c) eqn:Hpc; auto. eapply (e_has _ IE); eauto. rewrite Hpc. reflexivity.
  - apply (e_after _ IE).
  - destruct (waiting_pending s && input_empty s) eqn:Hwi; [|reflexivity]. cbn.
    apply andb_true_iff in Hwi. destruct Hwi as [Hwp Hie].
    unfold waiting_pending in Hwp. apply existsb_exists in Hwp. destruct Hwp as [c [Hin Hcw]].
    apply In_nth_error in Hin. destruct Hin as [i Hi].
    destruct (c_pc c) eqn:Hpc; try discriminate.
    destruct (alookup (c_run c) (entries s)) as [[v|]|] eqn:Hl; try discriminate.
    pose proof (p_flight _ IP _ _ Hi (or_intror Hpc) Hl) as Hin.
    unfold input_empty in Hie. destruct (cur s) as [lo|] eqn:Hcur; [|discriminate].
    destruct (l_pc lo) eqn:Hlp; try discriminate. destruct (l_buf lo) eqn:Hb; try discriminate.
    destruct (from_server s) eqn:Hfs; try discriminate.
    unfold in_flight, owed, held in Hin. rewrite Hcur, Hlp, Hb, Hfs in Hin. cbn in Hin.
    apply andb_true_iff in Hin. destruct Hin as [Hw Hsd]. unfold peer_obligated.
    apply orb_true_iff in Hw. destruct Hw as [Hw|Hacc].
    + destruct (to_server s); [discriminate|reflexivity].
    + apply orb_true_iff. right. unfold script_dec in Hsd.
      destruct (alookup (c_run c) (p_plan s)) as [evs|] eqn:Hpl; [|discriminate].
      destruct evs as [|ev rest]; [discriminate|].
      apply existsb_exists. exists (c_run c, ev :: rest). split; [eapply alookup_In_pair; eauto|]. cbn.
      assert (p_dead s = false) as Hdead.
      { destruct (p_dead s) eqn:Hd; auto. apply (p_deadf _ IP) in Hd. rewrite Hfs in Hd. discriminate. }
      unfold step_send. rewrite Hdead, Hacc, Hpl. cbn. destruct (p_fault s) as [[[|n] f]|]; reflexivity.
Qed.

End Inv.

(* implicit payload for use outside the section *)
Arguments inv {payload}. Arguments invE {payload}. Arguments invW {payload}. Arguments invK {payload}. Arguments invP {payload}.
Arguments good_session {payload}. Arguments wf_session {payload}. Arguments answered {payload}. Arguments fault_ok {payload}.
Arguments resolves {payload}. Arguments decisive {payload}. Arguments script_dec {payload}. Arguments in_flight {payload}.
Arguments cview {payload}. Arguments n_sig {payload}. Arguments sig_live {payload}. Arguments is_ws {payload}.
Arguments after_dec {payload}. Arguments start_nosig {payload}.
Arguments held {payload}. Arguments owed {payload}. Arguments unsent_ok {payload}. Arguments inflight_pc {payload}.
