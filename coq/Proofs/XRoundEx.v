(* Proofs/XRoundEx.v — the hypotheses of x_struct_roundtrip_partial are jointly satisfiable: the
   children condition `xchildren_ok` holds for boolean property types (proved from bool_unser / bool_ser), and
   for a concrete descriptor  XFlags{On bool `json:"on"`; Opt *bool `json:"opt"`; Zero bool `json:"zero"`}
   (a required property on a value field, an optional one on a pointer field, a treat-empty-as-default one on
   a value field) the theorem yields an unconditional round-trip statement over ALL raw values and fuels. *)
From Verif Require Import Base.Prelude Base.Str Base.Float Base.GoVal Base.XReflect
  Schema.Regex Schema.Units Schema.Syntax Schema.Ops Schema.SpecObj Schema.XSyntax Schema.XOps Schema.XWf
  Proofs.OpsLemmas Proofs.XOpsEq Proofs.XPaths Proofs.XRound Proofs.XRoundThm.
Open Scope string_scope.

Lemma xchildren_ok_bool words pu f f' e (props : list (string * xproperty)) :
  (forall np, In np props -> p_type (snd np) = XBool) -> xchildren_ok words pu (S f) (S f') e props.
Proof.
  intros Hb np d x Hin Hu. unfold xprt. rewrite (Hb np Hin) in *.
  rewrite (xunser_S words pu) in Hu. cbv beta iota in Hu.
  assert (Hx : exists b, x = vbool b).
  { unfold bool_unser in Hu. cbv zeta in Hu.
    repeat match type of Hu with
           | match ?t with _ => _ end = Ok _ => destruct t; try discriminate
           | (if ?c then _ else _) = Ok _ => destruct c; try discriminate
           end; inversion Hu; eauto. }
  destruct Hx as (b & ->).
  split; [reflexivity|]. rewrite (xvalidate_S words pu), (xserialize_S words pu). cbv beta iota.
  split; [reflexivity | eexists; reflexivity].
Qed.

Definition xf_structs : stab := [("XFlags", [("On", TBool); ("Opt", TPtr TBool); ("Zero", TBool)])].
Definition xf_env : xenv := mkXEnv [] [] (mkOracles (fun _ => None) (fun _ => true)) xf_structs.
Definition xf_prop (req : bool) (confl : list string) (empty : bool) : xproperty :=
  mkProp XBool None req [] [] confl None [] empty false None.
Definition xf_props : list (string * xproperty) :=
  [("on", xf_prop true [] false); ("opt", xf_prop false ["zero"] false); ("zero", xf_prop false [] true)].
Definition xf_si : structinfo :=
  mkStructInfo "XFlags" false
    [("on", mkFieldRef "On" [0%nat] [0%nat] TBool); ("opt", mkFieldRef "Opt" [1%nat] [1%nat] (TPtr TBool));
     ("zero", mkFieldRef "Zero" [2%nat] [2%nat] TBool)].
Definition xf_obj : xschema := XObject "XFlags" false xf_props (Some xf_si).

Lemma xf_desc : xrt_desc xf_env xf_props xf_si = true.
Proof. vm_compute. reflexivity. Qed.

(* every raw value, every fuel: what Unserialize returns passes Validate and is accepted by Serialize *)
Theorem x_struct_roundtrip_flags : forall words pu f f' v n,
  raw_keys_unique v = true ->
  xunser words pu (S (S f)) xf_env xf_obj v = Ok n ->
  xvalidate words pu (S (S f')) xf_env xf_obj n = Ok tt /\
  exists w, xserialize words pu (S (S f')) xf_env xf_obj n = Ok w.
Proof.
  intros words pu f f' v n Hu H.
  apply (x_struct_roundtrip_partial words pu (S f) (S f') xf_env "XFlags" false xf_props xf_si v n xf_desc Hu); [|exact H].
  apply xchildren_ok_bool. intros np [<- | [<- | [<- | []]]]; reflexivity.
Qed.

(* a run: "opt" absent (nil pointer on the way back), "zero" supplied as false (empty = absent on the way back) *)
Example x_struct_roundtrip_flags_run :
  let v := VMap t_any_map false [(vstr "on", vstr "yes"); (vstr "zero", vbool false)] in
  let n := VStruct (TStruct "XFlags") [("On", vbool true); ("Opt", VPtr (TPtr TBool) None); ("Zero", vbool false)] in
  raw_keys_unique v = true /\
  xunser [("yes", true)] (fun _ _ => None) 3 xf_env xf_obj v = Ok n /\
  xserialize [("yes", true)] (fun _ _ => None) 3 xf_env xf_obj n = Ok (VMap t_str_map false [(vstr "on", vbool true)]).
Proof. vm_compute. repeat split; reflexivity. Qed.

Print Assumptions x_struct_roundtrip_flags.
