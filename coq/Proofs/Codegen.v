(* Proofs/Codegen.v — lemmas about the code generator model (Codegen/Gen.v) for C19. *)
From Coq Require Import Lia ZArith List Permutation Sorting.Sorted.
From Verif Require Import Base.Prelude Base.Str Codegen.Gen.
Import ListNotations.
Open Scope Z_scope.

(* ------------------------------------------------------------------------------------ *)
(* Go's < on strings (Base/Str.v str_ltb) is a strict total order                        *)
(* ------------------------------------------------------------------------------------ *)

Lemma zchr_inj : forall a b, zchr a = zchr b -> a = b.
Proof.
  unfold zchr. intros a b H. apply N2Z.inj in H.
  rewrite <- (ascii_N_embedding a), <- (ascii_N_embedding b). now rewrite H.
Qed.

Lemma str_ltb_l_irrefl : forall a, str_ltb_l a a = false.
Proof.
  induction a as [|x a IH]; cbn; [reflexivity|].
  rewrite Z.ltb_irrefl. exact IH.
Qed.

Lemma str_ltb_l_trans : forall a b c,
  str_ltb_l a b = true -> str_ltb_l b c = true -> str_ltb_l a c = true.
Proof.
  induction a as [|x a IH]; intros [|y b] [|z c] H1 H2; cbn in *; try congruence.
  destruct (zchr x <? zchr y) eqn:Exy.
  - apply Z.ltb_lt in Exy.
    destruct (zchr y <? zchr z) eqn:Eyz.
    + apply Z.ltb_lt in Eyz. assert (E : zchr x <? zchr z = true) by (apply Z.ltb_lt; lia).
      now rewrite E.
    + destruct (zchr z <? zchr y) eqn:Ezy; [discriminate|].
      apply Z.ltb_ge in Eyz. apply Z.ltb_ge in Ezy.
      assert (E : zchr x <? zchr z = true) by (apply Z.ltb_lt; lia). now rewrite E.
  - destruct (zchr y <? zchr x) eqn:Eyx; [discriminate|].
    apply Z.ltb_ge in Exy. apply Z.ltb_ge in Eyx.
    assert (Exy' : zchr x = zchr y) by lia.
    destruct (zchr y <? zchr z) eqn:Eyz.
    + apply Z.ltb_lt in Eyz. assert (E : zchr x <? zchr z = true) by (apply Z.ltb_lt; lia).
      now rewrite E.
    + destruct (zchr z <? zchr y) eqn:Ezy; [discriminate|].
      apply Z.ltb_ge in Eyz. apply Z.ltb_ge in Ezy.
      assert (E1 : zchr x <? zchr z = false) by (apply Z.ltb_ge; lia).
      assert (E2 : zchr z <? zchr x = false) by (apply Z.ltb_ge; lia).
      rewrite E1, E2. eapply IH; eassumption.
Qed.

Lemma str_ltb_l_total : forall a b,
  str_ltb_l a b = false -> str_ltb_l b a = false -> a = b.
Proof.
  induction a as [|x a IH]; intros [|y b] H1 H2; cbn in *; try congruence.
  destruct (zchr x <? zchr y) eqn:Exy; [discriminate|].
  destruct (zchr y <? zchr x) eqn:Eyx; [discriminate|].
  apply Z.ltb_ge in Exy. apply Z.ltb_ge in Eyx.
  assert (E : x = y) by (apply zchr_inj; lia). subst y.
  f_equal. apply IH; assumption.
Qed.

Lemma chars_inj : forall a b, chars a = chars b -> a = b.
Proof.
  unfold chars. intros a b H.
  rewrite <- (string_of_list_ascii_of_string a), <- (string_of_list_ascii_of_string b).
  now rewrite H.
Qed.

Lemma str_ltb_irrefl : forall a, str_ltb a a = false.
Proof. intro a. apply str_ltb_l_irrefl. Qed.
Lemma str_ltb_trans : forall a b c, str_ltb a b = true -> str_ltb b c = true -> str_ltb a c = true.
Proof. unfold str_ltb. intros a b c. apply str_ltb_l_trans. Qed.
Lemma str_ltb_total : forall a b, str_ltb a b = false -> str_ltb b a = false -> a = b.
Proof. unfold str_ltb. intros a b H1 H2. apply chars_inj. apply str_ltb_l_total; assumption. Qed.

(* ------------------------------------------------------------------------------------ *)
(* insertion sort by key                                                                 *)
(* ------------------------------------------------------------------------------------ *)

Section Sort.
Context {A : Type}.
Notation elt := (string * A)%type.

Lemma insert_key_perm : forall (x : elt) l, Permutation (insert_key x l) (x :: l).
Proof.
  induction l as [|y t IH]; cbn; [apply Permutation_refl|].
  destruct (str_ltb (fst x) (fst y)); [apply Permutation_refl|].
  eapply perm_trans; [apply perm_skip, IH | apply perm_swap].
Qed.

Lemma sort_keys_perm : forall l : list elt, Permutation (sort_keys l) l.
Proof.
  induction l as [|x t IH]; cbn; [constructor|].
  eapply perm_trans; [apply insert_key_perm | apply perm_skip, IH].
Qed.

Lemma insert_key_sorted : forall (x : elt) l,
  StronglySorted klt l -> ~ In (fst x) (map fst l) -> StronglySorted klt (insert_key x l).
Proof.
  induction l as [|y t IH]; intros Hs Hn; cbn.
  - constructor; constructor.
  - inversion Hs as [|? ? Hst Hall]; subst.
    destruct (str_ltb (fst x) (fst y)) eqn:E.
    + constructor; [assumption|]. constructor; [exact E|].
      eapply Forall_impl; [|exact Hall]. intros z Hz. unfold klt in *.
      eapply str_ltb_trans; eassumption.
    + assert (Hyx : klt y x).
      { unfold klt. destruct (str_ltb (fst y) (fst x)) eqn:E'; [reflexivity|].
        exfalso. apply Hn. left. symmetry. apply str_ltb_total; assumption. }
      constructor.
      * apply IH; [assumption|]. intro Hin. apply Hn. right. exact Hin.
      * apply Forall_forall. intros z Hz.
        apply (Permutation_in _ (insert_key_perm x t)) in Hz. destruct Hz as [<-|Hz]; [exact Hyx|].
        rewrite Forall_forall in Hall. apply Hall, Hz.
Qed.

Lemma sort_keys_sorted : forall l : list elt,
  NoDup (map fst l) -> StronglySorted klt (sort_keys l).
Proof.
  induction l as [|x t IH]; intros Hnd; cbn.
  - constructor.
  - inversion Hnd as [|? ? Hnin Hnd']; subst.
    apply insert_key_sorted; [apply IH, Hnd'|].
    intro Hin. apply Hnin.
    eapply Permutation_in; [|exact Hin]. apply Permutation_map, sort_keys_perm.
Qed.

(* a strictly sorted list is the only strictly sorted list among its permutations *)
Lemma sorted_perm_unique : forall l l' : list elt,
  StronglySorted klt l -> StronglySorted klt l' -> Permutation l l' -> l = l'.
Proof.
  induction l as [|x l IH]; intros [|y l'] Hs Hs' Hp.
  - reflexivity.
  - apply Permutation_nil in Hp. discriminate.
  - apply Permutation_sym, Permutation_nil in Hp. discriminate.
  - inversion Hs as [|? ? Hsl Hall]; subst. inversion Hs' as [|? ? Hsl' Hall']; subst.
    assert (Exy : x = y).
    { assert (Hx : In x (y :: l')) by (eapply Permutation_in; [exact Hp | left; reflexivity]).
      assert (Hy : In y (x :: l)) by (eapply Permutation_in; [apply Permutation_sym, Hp | left; reflexivity]).
      destruct Hx as [Hx|Hx]; [now symmetry|].
      destruct Hy as [Hy|Hy]; [assumption|].
      rewrite Forall_forall in Hall, Hall'.
      pose proof (Hall _ Hy) as H1. pose proof (Hall' _ Hx) as H2. unfold klt in *.
      pose proof (str_ltb_trans _ _ _ H1 H2) as H3. rewrite str_ltb_irrefl in H3. discriminate. }
    subst y. f_equal. apply IH; try assumption.
    eapply Permutation_cons_inv. exact Hp.
Qed.

(* the order in which a map with unique keys is iterated does not matter after sorting *)
Lemma sort_keys_perm_eq : forall l l' : list elt,
  NoDup (map fst l) -> Permutation l l' -> sort_keys l = sort_keys l'.
Proof.
  intros l l' Hnd Hp.
  assert (Hnd' : NoDup (map fst l')).
  { eapply Permutation_NoDup; [|exact Hnd]. apply Permutation_map, Hp. }
  apply sorted_perm_unique; try (apply sort_keys_sorted; assumption).
  eapply perm_trans; [apply sort_keys_perm|].
  eapply perm_trans; [exact Hp|]. apply Permutation_sym, sort_keys_perm.
Qed.

Lemma sort_keys_in : forall (l : list elt) x, In x (sort_keys l) <-> In x l.
Proof.
  intros l x. split; intro H.
  - eapply Permutation_in; [apply sort_keys_perm | exact H].
  - eapply Permutation_in; [apply Permutation_sym, sort_keys_perm | exact H].
Qed.

Lemma sort_keys_length : forall l : list elt, List.length (sort_keys l) = List.length l.
Proof. intro l. apply Permutation_length, sort_keys_perm. Qed.
End Sort.

Lemma filter_perm : forall {A} (f : A -> bool) l l',
  Permutation l l' -> Permutation (filter f l) (filter f l').
Proof.
  intros A f l l' H. induction H; cbn.
  - constructor.
  - destruct (f x); [apply perm_skip|]; assumption.
  - destruct (f x), (f y); try apply Permutation_refl. apply perm_swap.
  - eapply perm_trans; eassumption.
Qed.

(* ------------------------------------------------------------------------------------ *)
(* structure                                                                             *)
(* ------------------------------------------------------------------------------------ *)

Lemma eqb_neq_false : forall a b : string, a <> b -> String.eqb a b = false.
Proof. intros a b H. destruct (String.eqb a b) eqn:E; [apply String.eqb_eq in E; contradiction|reflexivity]. Qed.

Lemma field_of_ok : forall p, field_ok p (field_of p).
Proof.
  intro p. unfold field_ok, field_of, go_type, var_type, parse_type. cbn [f_name f_type f_tag].
  repeat split.
  - intros ->. reflexivity.
  - intros ->. reflexivity.
  - intros -> H1 H2. cbn. now rewrite (eqb_neq_false _ _ H1), (eqb_neq_false _ _ H2).
  - intros H1 H2 H3. now rewrite (eqb_neq_false _ _ H3), (eqb_neq_false _ _ H1), (eqb_neq_false _ _ H2).
Qed.

Lemma Forall2_map_r : forall {A B} (R : A -> B -> Prop) (f : A -> B) l,
  (forall x, R x (f x)) -> Forall2 R l (map f l).
Proof. intros A B R f l H. induction l; cbn; constructor; auto. Qed.

Lemma struct_of_ok : forall o, struct_ok o (struct_of o).
Proof.
  intro o. split; [reflexivity|]. exists (sort_keys (snd o)). split; [apply sort_keys_perm|].
  cbn [struct_of s_fields]. apply Forall2_map_r, field_of_ok.
Qed.

Lemma keep_spec : forall ig o, keep ig o = true <-> ig <> Some (fst o).
Proof.
  intros [i|] o; cbn.
  - rewrite Bool.negb_true_iff. split.
    + intros H E. inversion E; subst. now rewrite String.eqb_refl in H.
    + intro H. apply eqb_neq_false. intro E. apply H. now rewrite E.
  - split; [discriminate|reflexivity].
Qed.

Lemma StronglySorted_filter' : forall {A} (R : A -> A -> Prop) (f : A -> bool) l,
  StronglySorted R l -> StronglySorted R (filter f l).
Proof.
  intros A R f l H. induction H as [|x l Hs IH Hall]; cbn; [constructor|].
  destruct (f x); [|exact IH]. constructor; [exact IH|].
  apply Forall_forall. intros y Hy. apply filter_In in Hy. destruct Hy as [Hy _].
  rewrite Forall_forall in Hall. apply Hall, Hy.
Qed.

(* exactly one struct per non-ignored object, in sorted key order *)
Lemma gen_structure : forall ig d,
  exists os, Permutation os (filter (keep ig) d) /\ Forall2 struct_ok os (gen ig d)
             /\ (NoDup (map fst d) -> StronglySorted klt os).
Proof.
  intros ig d. exists (filter (keep ig) (sort_keys d)). split; [|split].
  - apply filter_perm, sort_keys_perm.
  - unfold gen. apply Forall2_map_r, struct_of_ok.
  - intro Hnd. apply StronglySorted_filter'. now apply sort_keys_sorted.
Qed.

Lemma gen_length : forall ig d, List.length (gen ig d) = List.length (filter (keep ig) d).
Proof.
  intros ig d. unfold gen. rewrite map_length. apply Permutation_length, filter_perm, sort_keys_perm.
Qed.

Lemma struct_of_fields_length : forall o, List.length (s_fields (struct_of o)) = List.length (snd o).
Proof. intro o. cbn. rewrite map_length. apply sort_keys_length. Qed.

(* ------------------------------------------------------------------------------------ *)
(* determinism                                                                           *)
(* ------------------------------------------------------------------------------------ *)

Lemma same_obj_keys : forall d m, Forall2 same_obj d m -> map fst d = map fst m.
Proof. intros d m H. induction H as [|o o' ? ? [E _]]; cbn; congruence. Qed.

Lemma insert_key_same : forall x x' (l l' : doc),
  same_obj x x' -> Forall2 same_obj l l' -> Forall2 same_obj (insert_key x l) (insert_key x' l').
Proof.
  intros x x' l l' Hx H. induction H as [|y y' t t' Hy Ht IH]; cbn.
  - constructor; [assumption|constructor].
  - destruct Hx as [Ex Px]. destruct Hy as [Ey Py]. rewrite <- Ex, <- Ey.
    destruct (str_ltb (fst x) (fst y)).
    + constructor; [split; assumption|]. constructor; [split; assumption|assumption].
    + constructor; [split; assumption|]. apply IH.
Qed.

Lemma sort_keys_same : forall l l' : doc,
  Forall2 same_obj l l' -> Forall2 same_obj (sort_keys l) (sort_keys l').
Proof.
  intros l l' H. induction H; cbn; [constructor|]. apply insert_key_same; assumption.
Qed.

Lemma filter_keep_same : forall ig (l l' : doc),
  Forall2 same_obj l l' -> Forall2 same_obj (filter (keep ig) l) (filter (keep ig) l').
Proof.
  intros ig l l' H. induction H as [|o o' t t' Ho Ht IH]; cbn; [constructor|].
  assert (E : keep ig o = keep ig o').
  { destruct Ho as [E _]. unfold keep. now rewrite E. }
  rewrite <- E. destruct (keep ig o); [constructor|]; assumption.
Qed.

Lemma struct_of_same : forall o o',
  same_obj o o' -> NoDup (map fst (snd o)) -> struct_of o = struct_of o'.
Proof.
  intros o o' [E P] Hnd. unfold struct_of. rewrite E. f_equal. f_equal.
  apply sort_keys_perm_eq; assumption.
Qed.

Lemma map_struct_of_same : forall l l' : doc,
  Forall2 same_obj l l' -> Forall (fun o : obj => NoDup (map fst (snd o))) l ->
  map struct_of l = map struct_of l'.
Proof.
  intros l l' H. induction H as [|o o' t t' Ho Ht IH]; intro Hf; cbn; [reflexivity|].
  inversion Hf; subst. f_equal; [apply struct_of_same; assumption | apply IH; assumption].
Qed.

Lemma gen_deterministic : forall ig d d',
  keys_unique d -> doc_perm d d' -> gen ig d' = gen ig d.
Proof.
  intros ig d d' [Hnd Hprops] (m & Hdm & Hmd').
  assert (Hndm : NoDup (map fst m)) by (rewrite <- (same_obj_keys _ _ Hdm); exact Hnd).
  unfold gen. rewrite <- (sort_keys_perm_eq m d' Hndm Hmd').
  symmetry. apply map_struct_of_same.
  - apply filter_keep_same, sort_keys_same, Hdm.
  - apply Forall_forall. intros o Ho. apply filter_In in Ho. destruct Ho as [Ho _].
    apply (proj1 (sort_keys_in _ _)) in Ho. rewrite Forall_forall in Hprops. apply Hprops, Ho.
Qed.

Lemma gen_run_deterministic : forall ig d d',
  keys_unique d -> doc_perm d d' -> gen_run ig d' = gen_run ig d.
Proof. intros ig d d' H1 H2. unfold gen_run. now rewrite (gen_deterministic ig d d' H1 H2). Qed.

Lemma gen_text_deterministic : forall file ig d d',
  keys_unique d -> doc_perm d d' -> gen_text file ig d' = gen_text file ig d.
Proof. intros file ig d d' H1 H2. unfold gen_text. now rewrite (gen_deterministic ig d d' H1 H2). Qed.

Lemma doc_perm_refl : forall d, doc_perm d d.
Proof.
  intro d. exists d. split; [|apply Permutation_refl].
  induction d; constructor; [split; [reflexivity|apply Permutation_refl]|assumption].
Qed.

(* the boolean well-formedness check of the interpreter implies the uniqueness hypothesis *)
Lemma str_in_In : forall s l, str_in s l = true <-> In s l.
Proof.
  intros s l. induction l as [|x t IH]; cbn; [split; [discriminate|contradiction]|].
  rewrite Bool.orb_true_iff, IH, String.eqb_eq. split; intros [H|H]; auto.
Qed.

Lemma nodup_str_NoDup : forall l, nodup_str l = true -> NoDup l.
Proof.
  induction l as [|x t IH]; cbn; intro H; [constructor|].
  apply Bool.andb_true_iff in H. destruct H as [H1 H2]. constructor; [|apply IH, H2].
  intro Hin. apply str_in_In in Hin. rewrite Hin in H1. discriminate.
Qed.

Lemma wf_doc_keys_unique : forall d, wf_doc d = true -> keys_unique d.
Proof.
  intros d H. unfold wf_doc in H. apply Bool.andb_true_iff in H. destruct H as [H1 H2].
  split; [apply nodup_str_NoDup, H2|].
  apply Forall_forall. intros o Ho. rewrite forallb_forall in H1. specialize (H1 o Ho).
  unfold wf_obj in H1. apply Bool.andb_true_iff in H1. destruct H1 as [_ H1]. apply nodup_str_NoDup, H1.
Qed.

(* ------------------------------------------------------------------------------------ *)
(* totality                                                                              *)
(* ------------------------------------------------------------------------------------ *)

(* the generator fails exactly when a non-ignored object has a property whose type token
   is a Go keyword *)
Lemma gen_run_panic_iff : forall ig d,
  (exists w, gen_run ig d = Panic w) <->
  (exists o p, In o d /\ keep ig o = true /\ In p (snd o) /\ go_keyword (go_type (p_tid p) (p_rid p)) = true).
Proof.
  intros ig d. unfold gen_run. split.
  - intros [w H]. destruct (existsb bad_struct (gen ig d)) eqn:E; [|discriminate].
    apply existsb_exists in E. destruct E as (s & Hs & Hb).
    unfold gen in Hs. apply in_map_iff in Hs. destruct Hs as (o & <- & Ho).
    apply filter_In in Ho. destruct Ho as [Ho Hk]. apply (proj1 (sort_keys_in _ _)) in Ho.
    unfold bad_struct in Hb. apply existsb_exists in Hb. destruct Hb as (f & Hf & Hbt).
    cbn [struct_of s_fields] in Hf. apply in_map_iff in Hf. destruct Hf as (p & <- & Hp).
    apply (proj1 (sort_keys_in _ _)) in Hp. exists o, p. repeat split; assumption.
  - intros (o & p & Ho & Hk & Hp & Hkw).
    assert (E : existsb bad_struct (gen ig d) = true).
    { apply existsb_exists. exists (struct_of o). split.
      - unfold gen. apply in_map. apply filter_In. split; [apply (proj2 (sort_keys_in _ _)), Ho | exact Hk].
      - unfold bad_struct. apply existsb_exists. exists (field_of p). split.
        + cbn [struct_of s_fields]. apply in_map. apply (proj2 (sort_keys_in _ _)), Hp.
        + exact Hkw. }
    rewrite E. eexists. reflexivity.
Qed.

(* the outcome is never an error return or fuel exhaustion: it is Ok or Panic *)
Lemma gen_run_ok_or_panic : forall ig d,
  gen_run ig d = Ok (gen ig d) \/ exists w, gen_run ig d = Panic w.
Proof.
  intros ig d. unfold gen_run. destruct (existsb bad_struct (gen ig d)); [right; eexists|left]; reflexivity.
Qed.

Lemma gen_run_total : forall ig d, types_ok d = true -> gen_run ig d = Ok (gen ig d).
Proof.
  intros ig d H. destruct (gen_run_ok_or_panic ig d) as [E|E]; [exact E|]. exfalso.
  destruct (proj1 (gen_run_panic_iff ig d) E) as (o & p & Ho & _ & Hp & Hkw).
  unfold types_ok in H. rewrite forallb_forall in H. specialize (H o Ho).
  rewrite forallb_forall in H. specialize (H p Hp). cbv beta in H. rewrite Hkw in H. discriminate.
Qed.

(* The struct and field names the generator writes are never Go keywords, whatever the keys:
   every keyword is a non-empty string of lower-case letters, and a title-cased string is
   never that (its first cased letter is upper-case).  This is why only the TYPE token can
   make format.Source fail. *)
Lemma zchr_chrz : forall z, 0 <= z < 256 -> zchr (chrz z) = z.
Proof.
  intros z Hz. unfold zchr, chrz. rewrite N_ascii_embedding.
  - apply Z2N.id. lia.
  - apply N2Z.inj_lt. rewrite Z2N.id by lia. cbn. lia.
Qed.

Lemma title_l_not_all_lower : forall l,
  forallb is_lower (title_l l) = true -> l = [].
Proof.
  induction l as [|c t IH]; cbn; [reflexivity|].
  destruct (is_lower c) eqn:El.
  - cbn. unfold upper_ascii. rewrite El.
    assert (Hu : is_lower (chrz (zchr c - 32)) = false).
    { unfold is_lower in *. apply Bool.andb_true_iff in El. destruct El as [E1 E2].
      apply Z.leb_le in E1. apply Z.leb_le in E2.
      assert (Hz : zchr (chrz (zchr c - 32)) = zchr c - 32) by (apply zchr_chrz; lia).
      rewrite Hz. apply Bool.andb_false_iff. left. apply Z.leb_gt. lia. }
    rewrite Hu. discriminate.
  - destruct (is_upper c) eqn:Eu.
    + cbn. rewrite El. discriminate.
    + cbn. rewrite El. discriminate.
Qed.

Lemma chars_unchars : forall l, chars (unchars l) = l.
Proof. intro l. unfold chars, unchars. apply list_ascii_of_string_of_list_ascii. Qed.

Lemma keyword_lower : forall k, go_keyword k = true ->
  forallb is_lower (chars k) = true /\ k <> EmptyString.
Proof.
  intros k H. apply str_in_In in H. unfold go_keywords in H. cbn [In] in H.
  repeat (destruct H as [<-|H]; [split; [vm_compute; reflexivity | discriminate]|]).
  contradiction.
Qed.

Lemma title_not_keyword : forall s, go_keyword (title s) = false.
Proof.
  intro s. destruct (go_keyword (title s)) eqn:E; [|reflexivity]. exfalso.
  destruct (keyword_lower _ E) as [Hl Hne]. unfold title in *. rewrite chars_unchars in Hl.
  apply title_l_not_all_lower in Hl. apply Hne. now rewrite Hl.
Qed.
