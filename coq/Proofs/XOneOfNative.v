(* Proofs/XOneOfNative.v — known finding D85: a one-of with an INLINED discriminator dispatches a native STRUCT value by
   its Go type (schema/oneof.go findUnderlyingType) and does not look at the member's own discriminator field; Unserialize
   routes the same content by that field.  So a native value whose own discriminator names ANOTHER member is accepted by
   Validate and Serialize, and what Serialize returns is rejected by Unserialize (or comes back as another member).
   The faithful model (Schema/XOps.v xoneof_find / xserialize) carries the behaviour. *)
From Verif Require Import Base.Prelude Base.Str Base.Float Base.GoVal Base.XReflect
  Schema.Regex Schema.Units Schema.Syntax Schema.Ops Schema.XSyntax Schema.XOps.
Open Scope string_scope.
Open Scope Z_scope.

Definition d85_words : list (string * bool) := [("true", true); ("false", false)].
Definition d85_pu : units -> string -> option fl := fun _ _ => None.

Definition d85_prop (t : xschema) (req : bool) : xproperty := mkProp t None req [] [] [] None [] false false None.

Definition d85_structs : stab :=
  [ ("XKindP", [("Kind", TPtr TStr); ("X", TStr)]);
    ("XKindV", [("Kind", TStr); ("Y", TInt I64)]) ].

Definition d85_ma : xschema :=
  XObject "ma" false
    [("kind", d85_prop (XString None None None) false); ("x", d85_prop (XString None None None) true)]
    (Some (mkStructInfo "XKindP" false
             [("kind", mkFieldRef "Kind" [0%nat] [0%nat] (TPtr TStr)); ("x", mkFieldRef "X" [1%nat] [1%nat] TStr)])).
Definition d85_mb : xschema :=
  XObject "mb" false
    [("kind", d85_prop (XString None None None) false); ("y", d85_prop (XInt None None None) false)]
    (Some (mkStructInfo "XKindV" false
             [("kind", mkFieldRef "Kind" [0%nat] [0%nat] TStr); ("y", mkFieldRef "Y" [1%nat] [1%nat] (TInt I64))])).

Definition d85_oneof : xschema := XOneOf [(KS "a", d85_ma); (KS "b", d85_mb)] false "kind" true.
Definition d85_env : xenv := mkXEnv [] [] (mkOracles (fun _ => None) (fun _ => true)) d85_structs.

(* XKindP{Kind: &"b", X: "v"}: a value of member a's Go type whose own discriminator says b *)
Definition d85_native : gval :=
  VStruct (TStruct "XKindP") [("Kind", VPtr (TPtr TStr) (Some (vstr "b"))); ("X", vstr "v")].
Definition d85_serialized : gval := VMap t_str_map false [(vstr "kind", vstr "b"); (vstr "x", vstr "v")].

Theorem x_oneof_native_discriminator_refuted :
  exists (e : xenv) (s : xschema) (n w : gval),
    is_ok (xvalidate d85_words d85_pu 50 e s n) = true /\
    xserialize d85_words d85_pu 50 e s n = Ok w /\
    is_err (xunser d85_words d85_pu 50 e s w) = true.
Proof.
  exists d85_env, d85_oneof, d85_native, d85_serialized.
  repeat split; vm_compute; reflexivity.
Qed.
Print Assumptions x_oneof_native_discriminator_refuted.

(* with the member's own discriminator unset, or set to the member's key, the serialized form carries the key of the
   member that serialized it and is routed back to it *)
Example x_oneof_native_discriminator_unset_ok :
  let n := VStruct (TStruct "XKindP") [("Kind", VPtr (TPtr TStr) None); ("X", vstr "v")] in
  xserialize d85_words d85_pu 50 d85_env d85_oneof n = Ok (VMap t_str_map false [(vstr "x", vstr "v"); (vstr "kind", vstr "a")]) /\
  xunser d85_words d85_pu 50 d85_env d85_oneof (VMap t_str_map false [(vstr "x", vstr "v"); (vstr "kind", vstr "a")])
  = Ok (VStruct (TStruct "XKindP") [("Kind", VPtr (TPtr TStr) (Some (vstr "a"))); ("X", vstr "v")]).
Proof. split; vm_compute; reflexivity. Qed.
